(* lexCode and the literal lexers never fault, terminate, keep INV and
   consume at least one byte. *)
From Verif Require Import Bytes Utf8 Facts_lexer LexBase LexCodeM LexBase_proofs LexTile_proofs.
Open Scope N_scope.

(* ---- inside a block of code: the invariant of lexCode and of the literal
   lexers.  The lemmas of LexBase_proofs are restated with it and, below, the
   usual names denote these versions. ---- *)
Definition INVB (text : bytes) (l : lexer) : Prop := INV text l /\ in_block l.
Definition extB (text : bytes) (l l' : lexer) : Prop :=
  INVB text l' /\ (l_base l <= l_base l' /\ l_tidx l' <= l_tidx l).
Definition progB (text : bytes) (l l' : lexer) : Prop :=
  INVB text l' /\ (l_base l < l_base l' /\ l_tidx l' <= l_tidx l).
Lemma progB_extB text l l' : progB text l l' -> extB text l l'.
Proof. intros [H1 H2]. split; [exact H1|lia]. Qed.
Lemma extB_refl text l : INVB text l -> extB text l l.
Proof. intros H. split; [exact H|lia]. Qed.
Lemma extB_trans text a b c : extB text a b -> extB text b c -> extB text a c.
Proof. intros [_ H1] [H2 H3]. split; [exact H2|lia]. Qed.
Lemma same_core_INVB text l l' : same_core l l' -> INVB text l -> INVB text l'.
Proof. intros Hs [H1 H2]. split; [eapply same_core_INV; eauto|eapply same_core_ib; eauto]. Qed.
Lemma INVB_len text l : INVB text l -> l_base l + len l = nlen text.
Proof. intros [H _]. apply INV_len, H. Qed.
Lemma advance_specB text n l :
  INVB text l -> n <= len l ->
  exists l', advance n l = Ok l' /\ INVB text l' /\ (l_base l' = l_base l + n /\ l_tidx l' = l_tidx l)
             /\ l_src l' = drop n (l_src l)
             /\ len l' = len l - n /\ l' = set_src (drop n (l_src l)) (l_base l + n) l.
Proof.
  intros [Hi Hb] Hn. destruct (advance_spec text n l Hi Hb Hn) as (l' & Ha & Hi' & R).
  exists l'. split; [exact Ha|]. split; [split; [exact Hi'|eapply advance_ib; eauto]|exact R].
Qed.
Lemma emit_at_specB text line col cd ld typ n l :
  INVB text l -> n <= len l -> n = 0 \/ is_close typ = false ->
  exists l', emit_at line col cd ld typ n l = Ok l' /\ INVB text l' /\ (l_base l' = l_base l + n /\ l_tidx l' = l_tidx l - n)
             /\ l_src l' = drop n (l_src l) /\ len l' = len l - n
             /\ l_line l' = l_line l /\ l_col l' = l_col l /\ l_cdev l' = l_cdev l /\ l_ldev l' = l_ldev l
             /\ l_ctx l' = l_ctx l /\ l_ctxs l' = l_ctxs l.
Proof.
  intros [Hi Hb] Hn Hc. destruct (emit_at_spec text line col cd ld typ n l Hi Hn) as (l' & He & Hi' & R).
  exists l'. split; [exact He|]. split; [split; [exact Hi'|eapply ib_emit; eauto]|exact R].
Qed.
Lemma emit_specB text typ n l :
  INVB text l -> n <= len l -> n = 0 \/ is_close typ = false ->
  exists l', emit typ n l = Ok l' /\ INVB text l' /\ (l_base l' = l_base l + n /\ l_tidx l' = l_tidx l - n)
             /\ l_src l' = drop n (l_src l) /\ len l' = len l - n
             /\ l_line l' = l_line l /\ l_col l' = l_col l /\ l_cdev l' = l_cdev l /\ l_ldev l' = l_ldev l
             /\ l_ctx l' = l_ctx l /\ l_ctxs l' = l_ctxs l.
Proof. apply emit_at_specB. Qed.
Lemma emitc_specB text typ n l :
  INVB text l -> n <= len l -> n = 0 \/ is_close typ = false ->
  exists l', emitc typ n l = Ok l' /\ INVB text l' /\ (l_base l' = l_base l + n /\ l_tidx l' = l_tidx l - n)
             /\ l_src l' = drop n (l_src l) /\ len l' = len l - n.
Proof.
  intros Hi Hn Hc. destruct (emit_specB text typ n l Hi Hn Hc) as (l' & He & Hi' & Hb & Hs & Hl & _).
  unfold emitc. rewrite He. simpl. eexists. split; [reflexivity|].
  split; [eapply same_core_INVB; [|exact Hi']; repeat split|].
  split; [exact Hb|]. split; [exact Hs|]. exact Hl.
Qed.

(* keywords and identifiers are not closing delimiters *)
Lemma bassoc_forall {A} (P : A -> bool) (l : list (bytes * A)) k v :
  forallb (fun kv => P (snd kv)) l = true -> bassoc l k = Some v -> P v = true.
Proof.
  induction l as [|[k' v'] r IH]; simpl; [discriminate|]. intros H. apply andb_prop in H. destruct H as [H1 H2].
  destruct (bytes_eqb k' k); [intros E; injection E as <-; exact H1|apply IH, H2].
Qed.
Lemma kw_nonclose ts id : is_close (kw_lookup ts id) = false.
Proof.
  unfold kw_lookup. destruct (bassoc (if ts then gen_keywords_template else gen_keywords_program) id) as [t|] eqn:E; [|reflexivity].
  assert (H : forallb (fun kv => negb (is_close (snd kv))) (if ts then gen_keywords_template else gen_keywords_program) = true)
    by (destruct ts; reflexivity).
  apply (bassoc_forall (fun t => negb (is_close t)) _ _ _ H) in E. apply negb_true_iff in E. exact E.
Qed.

(* The proofs about lexCode are carried out for an abstract invariant INVX of
   the lexer inside code, of which only four facts are used: it is INVB for
   templates (where lexCode runs inside a block of the tiling) and INVP for
   programs (LexProg_proofs.v).  Below, the usual names denote the abstract
   versions. *)
Section CodeX.
Variable INVX : bytes -> lexer -> Prop.
Definition extX (text : bytes) (l l' : lexer) : Prop :=
  INVX text l' /\ (l_base l <= l_base l' /\ l_tidx l' <= l_tidx l).
Definition progX (text : bytes) (l l' : lexer) : Prop :=
  INVX text l' /\ (l_base l < l_base l' /\ l_tidx l' <= l_tidx l).
Lemma progX_extX text l l' : progX text l l' -> extX text l l'.
Proof. intros [H1 H2]. split; [exact H1|lia]. Qed.
Lemma extX_refl text l : INVX text l -> extX text l l.
Proof. intros H. split; [exact H|lia]. Qed.
Lemma extX_trans text a b c : extX text a b -> extX text b c -> extX text a c.
Proof. intros [_ H1] [H2 H3]. split; [exact H2|lia]. Qed.
End CodeX.

Ltac gs := repeat match goal with
  | H : get (l_src ?l) ?i = Some _ |- _ =>
    lazymatch goal with
    | _ : i < nlen (l_src l) |- _ => fail
    | _ => pose proof (get_some _ _ _ H)
    end
  end.

Section CodeProofs.
Variable U : unitab.
Variable text : bytes.
Variable INVX : bytes -> lexer -> Prop.
Hypothesis X_same : forall text l l', same_core l l' -> INVX text l -> INVX text l'.
Hypothesis X_len : forall text l, INVX text l -> l_base l + len l = nlen text.
Hypothesis X_advance : forall text n l,
  INVX text l -> n <= len l ->
  exists l', advance n l = Ok l' /\ INVX text l' /\ (l_base l' = l_base l + n /\ l_tidx l' = l_tidx l)
             /\ l_src l' = drop n (l_src l)
             /\ len l' = len l - n /\ l' = set_src (drop n (l_src l)) (l_base l + n) l.
Hypothesis X_emit_at : forall text line col cd ld typ n l,
  INVX text l -> n <= len l -> n = 0 \/ is_close typ = false ->
  exists l', emit_at line col cd ld typ n l = Ok l' /\ INVX text l' /\ (l_base l' = l_base l + n /\ l_tidx l' = l_tidx l - n)
             /\ l_src l' = drop n (l_src l) /\ len l' = len l - n
             /\ l_line l' = l_line l /\ l_col l' = l_col l /\ l_cdev l' = l_cdev l /\ l_ldev l' = l_ldev l
             /\ l_ctx l' = l_ctx l /\ l_ctxs l' = l_ctxs l.

Local Notation INV := INVX.
Local Notation ext := (extX INVX).
Local Notation ext_refl := (extX_refl INVX).
Local Notation ext_trans := (extX_trans INVX).
Local Notation same_core_INV := X_same.
Local Notation INV_len := X_len.
Local Notation advance_spec := X_advance.
Local Notation emit_at_spec := X_emit_at.
Local Notation prog := (progX INVX).
Local Notation prog_ext := (progX_extX INVX).

Lemma emit_specX typ n l :
  INV text l -> n <= len l -> n = 0 \/ is_close typ = false ->
  exists l', emit typ n l = Ok l' /\ INV text l' /\ (l_base l' = l_base l + n /\ l_tidx l' = l_tidx l - n)
             /\ l_src l' = drop n (l_src l) /\ len l' = len l - n
             /\ l_line l' = l_line l /\ l_col l' = l_col l /\ l_cdev l' = l_cdev l /\ l_ldev l' = l_ldev l
             /\ l_ctx l' = l_ctx l /\ l_ctxs l' = l_ctxs l.
Proof. apply X_emit_at. Qed.
Lemma emitc_specX typ n l :
  INV text l -> n <= len l -> n = 0 \/ is_close typ = false ->
  exists l', emitc typ n l = Ok l' /\ INV text l' /\ (l_base l' = l_base l + n /\ l_tidx l' = l_tidx l - n)
             /\ l_src l' = drop n (l_src l) /\ len l' = len l - n.
Proof.
  intros Hi Hn Hc. destruct (emit_specX typ n l Hi Hn Hc) as (l' & He & Hi' & Hb & Hs & Hl & _).
  unfold emitc. rewrite He. simpl. eexists. split; [reflexivity|].
  split; [eapply X_same; [|exact Hi']; repeat split|].
  split; [exact Hb|]. split; [exact Hs|]. exact Hl.
Qed.
Local Notation emit_spec := (fun _ : bytes => emit_specX).
Local Notation emitc_spec := (fun _ : bytes => emitc_specX).

Lemma nxt_safe l i {B} (k : option N -> res B) Q E :
  (len l <= i -> safe (k None) Q E) ->
  (forall x, get (l_src l) i = Some x -> safe (k (Some x)) Q E) ->
  safe (bind (nxt l i) k) Q E.
Proof.
  intros H1 H2. unfold nxt. destruct (N.ltb_spec i (len l)).
  - rewrite bind_assoc. apply idx_safe; [assumption|]. intros c Hc. simpl. apply H2, Hc.
  - simpl. apply H1. assumption.
Qed.

Lemma err_at_safe {A} p l (Q : A -> Prop) :
  INV text l -> p <= len l -> safe (@err_at p l A) Q (ext text l).
Proof.
  intros Hi Hp. unfold err_at. destruct (advance_spec text p l Hi Hp) as (l' & Ha & Hi' & Hb & _).
  rewrite Ha. simpl. split; [exact Hi'|lia].
Qed.

(* ---- identifiers ---- *)
Lemma lex_ident_safe s l :
  INV text l -> 0 < s -> s <= len l ->
  safe (lex_ident U s l) (fun r => prog text l (fst (fst r))) (ext text l).
Proof.
  intros Hi Hs Hsl. unfold lex_ident.
  eapply safe_bind.
  - apply (safe_loop (ident_body U l) (fun st => s <= fst st /\ fst st <= len l)
             (fun st => N.to_nat (len l - fst st)) (fun st => s <= fst st /\ fst st <= len l)).
    + intros [p cols] [H1 H2]. simpl in H1, H2. unfold ident_body.
      destruct (N.ltb_spec p (len l)) as [Hp|Hp]; [|simpl; auto].
      destruct (decode_rune (drop p (l_src l))) as [r w] eqn:Hd.
      destruct (decode_at l p r w Hp Hd) as [Hw1 Hw2].
      destruct (negb (r =? 95) && negb (u_letter U r) && negb (u_digit U r)); simpl; [auto|].
      repeat split; lia.
    + simpl. split; lia.
    + apply len_fuel.
  - intros [p cols] [H1 H2]. simpl in H1, H2.
    destruct (N.ltb_spec (len l) p); [lia|].
    destruct (emit_spec text (kw_lookup (l_tsyn l) (take p (l_src l))) p l Hi H2 (or_intror (kw_nonclose _ _))) as (l' & He & Hi' & Hb & _).
    rewrite He. simpl. split; [eapply same_core_INV; [|exact Hi']; auto with sc|]. simpl. lia.
Qed.

(* ---- escapes ---- *)
Lemma hex_run_safe l q n r {B} (k : option N -> res B) Q E :
  q + N.of_nat n <= len l -> (forall o, safe (k o) Q E) -> safe (bind (hex_run l q n r) k) Q E.
Proof.
  revert q r. induction n as [|n IH]; intros q r Hq Hk; [simpl; apply Hk|].
  simpl. rewrite bind_assoc. apply idx_safe; [lia|]. intros c Hc.
  destruct (hexval c); [apply IH; [lia|exact Hk]|simpl; apply Hk].
Qed.

(* ---- interpreted strings ---- *)
Lemma lex_string_safe l :
  INV text l -> 1 <= len l -> safe (lex_string l) (prog text l) (ext text l).
Proof.
  intros Hi Hl. unfold lex_string. eapply safe_bind.
  - apply (safe_loop (str_body l) (fun st => 1 <= fst st /\ fst st <= len l)
             (fun st => N.to_nat (len l - fst st)) (fun st => 1 <= fst st /\ fst st < len l)).
    + intros [p cols] [H1 H2]. simpl in H1, H2. unfold str_body.
      destruct (N.eqb_spec p (len l)) as [Hpe|Hpe]; [simpl; apply ext_refl; exact Hi|].
      apply idx_safe; [lia|]. intros c Hc.
      destruct (c =? 34); [simpl; lia|].
      destruct (c =? 92).
      { destruct (N.eqb_spec (p + 1) (len l)); [simpl; apply ext_refl; exact Hi|].
        apply idx_safe; [lia|]. intros e He.
        destruct ((e =? 117) || (e =? 85)).
        { set (nn := if e =? 85 then 8 else 4).
          assert (Hn : nn = 8 \/ nn = 4) by (unfold nn; destruct (e =? 85); auto).
          destruct (N.leb_spec (len l) (p + 1 + nn)); [simpl; apply ext_refl; exact Hi|].
          apply hex_run_safe; [destruct Hn as [-> | ->]; simpl; lia|].
          intros [r|]; [|apply err_at_safe; [exact Hi|lia]].
          destruct ((r <? 2147483648) && bad_code_point r); [apply err_at_safe; [exact Hi|lia]|].
          simpl. repeat split; lia. }
        destruct (is_simple_escape e 34); [simpl; repeat split; lia|].
        destruct (e =? 120).
        { destruct (N.eqb_spec (p + 2) (len l)); [apply err_at_safe; [exact Hi|lia]|].
          apply idx_safe; [lia|]. intros h1 Hh1.
          destruct (negb (isHexDigit h1)); [apply err_at_safe; [exact Hi|lia]|].
          destruct (N.eqb_spec (p + 3) (len l)); [apply err_at_safe; [exact Hi|lia]|].
          apply idx_safe; [lia|]. intros h2 Hh2.
          destruct (negb (isHexDigit h2)); [apply err_at_safe; [exact Hi|lia]|].
          simpl. repeat split; lia. }
        destruct (is_oct e).
        { destruct (N.eqb_spec (p + 2) (len l)); [apply err_at_safe; [exact Hi|lia]|].
          apply idx_safe; [lia|]. intros h1 Hh1.
          destruct (negb (is_oct h1)); [apply err_at_safe; [exact Hi|lia]|].
          destruct (N.eqb_spec (p + 3) (len l)); [apply err_at_safe; [exact Hi|lia]|].
          apply idx_safe; [lia|]. intros h2 Hh2.
          destruct (negb (is_oct h2)); [apply err_at_safe; [exact Hi|lia]|].
          match goal with |- context [if ?c then _ else _] => destruct c end;
            [apply err_at_safe; [exact Hi|lia]|].
          simpl. repeat split; lia. }
        apply err_at_safe; [exact Hi|lia]. }
      destruct (c =? 10); [apply err_at_safe; [exact Hi|lia]|].
      assert (Hp : p < len l) by lia.
      destruct (decode_rune (drop p (l_src l))) as [r w] eqn:Hd.
      destruct (decode_at l p r w Hp Hd) as [Hw1 Hw2].
      destruct ((r =? rune_error) && Nat.eqb w 1); [apply err_at_safe; [exact Hi|lia]|].
      destruct (r =? gen_lex_BOM); [simpl; apply ext_refl; exact Hi|].
      simpl. repeat split; lia.
    + simpl. lia.
    + apply len_fuel.
  - intros [p cols] [H1 H2]. simpl in H1, H2.
    destruct (emit_spec text gen_tokenInterpretedString (p + 1) l Hi ltac:(lia) ltac:(auto)) as (l' & He & Hi' & Hb & _).
    rewrite He. simpl. split; [eapply same_core_INV; [|exact Hi']; auto with sc|]. simpl. lia.
Qed.

(* ---- raw strings ---- *)
Lemma lex_raw_string_safe l :
  INV text l -> 1 <= len l -> safe (lex_raw_string l) (prog text l) (ext text l).
Proof.
  intros Hi Hl. unfold lex_raw_string. eapply safe_bind.
  - apply (safe_loop raw_body (fun st => same_core l (fst st) /\ 1 <= snd st /\ snd st <= len l)
             (fun st => N.to_nat (len l - snd st))
             (fun st => same_core l (fst st) /\ 1 <= snd st /\ snd st < len l)).
    + intros [l1 p] (Hs & H1 & H2). simpl in Hs, H1, H2. unfold raw_body.
      assert (Hl1 : len l1 = len l) by (apply same_core_len; exact Hs).
      assert (Hi1 : INV text l1) by (eapply same_core_INV; eauto).
      pose proof (proj1 (proj2 Hs)) as Hb1.
      assert (Hext : ext text l l1) by (split; [exact Hi1|lia]).
      destruct (N.eqb_spec p (len l1)); [simpl; exact Hext|].
      apply idx_safe; [lia|]. intros c Hc.
      destruct (c =? 96).
      { simpl. split; [eapply same_core_trans; [exact Hs|auto with sc]|lia]. }
      destruct (c =? 10).
      { simpl. split; [split; [eapply same_core_trans; [exact Hs|auto with sc]|lia]|lia]. }
      assert (Hp : p < len l1) by lia.
      destruct (decode_rune (drop p (l_src l1))) as [r w] eqn:Hd.
      destruct (decode_at l1 p r w Hp Hd) as [Hw1 Hw2].
      destruct ((r =? rune_error) && Nat.eqb w 1).
      { eapply safe_mono with (Q := fun _ => False); [apply (err_at_safe p l1); [exact Hi1|lia]|intros a []|].
        intros l2 [H3 H4]. split; [exact H3|lia]. }
      destruct (r =? gen_lex_BOM); [simpl; exact Hext|].
      simpl. split; [split; [eapply same_core_trans; [exact Hs|auto with sc]|lia]|lia].
    + simpl. split; [auto with sc|lia].
    + simpl. apply len_fuel.
  - intros [l1 p] (Hs & H1 & H2). simpl in Hs, H1, H2.
    assert (Hl1 : len l1 = len l) by (apply same_core_len; exact Hs).
    assert (Hi1 : INV text l1) by (eapply same_core_INV; eauto).
    pose proof (proj1 (proj2 Hs)) as Hb1.
    destruct (emit_at_spec text (l_line l) (l_col l) (l_cdev l) (l_ldev l) gen_tokenRawString (p + 1) l1 Hi1 ltac:(lia) ltac:(auto))
      as (l' & He & Hi' & Hb & _).
    rewrite He. simpl. split; [exact Hi'|lia].
Qed.

(* ---- rune literals ---- *)
Lemma lex_rune_safe l :
  INV text l -> 1 <= len l -> safe (lex_rune l) (prog text l) (ext text l).
Proof.
  intros Hi Hl. unfold lex_rune.
  assert (He : ext text l l) by (apply ext_refl; exact Hi).
  destruct (N.eqb_spec (len l) 1); [simpl; exact He|].
  apply idx_safe; [lia|]. intros c1 Hc1.
  eapply safe_bind with (Q' := fun pw => 1 <= fst pw).
  - destruct (c1 =? 92).
    { destruct (N.eqb_spec (len l) 2); [simpl; exact He|].
      apply idx_safe; [lia|]. intros c Hc.
      destruct (is_simple_escape c 39); [destruct (len l <? 3); simpl; [exact He|lia]|].
      destruct (c =? 120).
      { destruct (N.ltb_spec (len l) 5); [simpl; exact He|].
        apply idx_safe; [lia|]. intros h1 Hh1. destruct (negb (isHexDigit h1)); [simpl; exact He|].
        apply idx_safe; [lia|]. intros h2 Hh2. destruct (negb (isHexDigit h2)); [simpl; exact He|]. simpl. lia. }
      destruct ((c =? 117) || (c =? 85)).
      { set (nn := if c =? 85 then 8 else 4).
        assert (Hn : nn = 8 \/ nn = 4) by (unfold nn; destruct (c =? 85); auto).
        destruct (N.ltb_spec (len l) (nn + 3)); [simpl; exact He|].
        apply hex_run_safe; [destruct Hn as [-> | ->]; simpl; lia|].
        intros [r|]; [|simpl; exact He]. destruct (bad_code_point r); simpl; [exact He|lia]. }
      destruct (is_oct c); [|simpl; exact He].
      destruct (N.ltb_spec (len l) 5); [simpl; exact He|].
      apply idx_safe; [lia|]. intros h1 Hh1. destruct (negb (is_oct h1)); [simpl; exact He|].
      apply idx_safe; [lia|]. intros h2 Hh2. destruct (negb (is_oct h2)); [simpl; exact He|].
      match goal with |- context [if ?c then _ else _] => destruct c end; simpl; [exact He|lia]. }
    destruct (c1 =? 10); [simpl; exact He|].
    destruct (c1 =? 39); [simpl; exact He|].
    destruct (decode_rune (drop 1 (l_src l))) as [r w].
    destruct ((r =? rune_error) && Nat.eqb w 1); [simpl; exact He|].
    destruct (r =? gen_lex_BOM); simpl; [exact He|lia].
  - intros [p wide] Hp. simpl in Hp. apply andm_safe; [|intros _; simpl; exact He].
    intros Hpl. b2p. apply idx_is_safe; [exact Hpl|]. intros x Hx.
    destruct (x =? 39); [|simpl; exact He]. cbn [negb].
    destruct (emit_spec text gen_tokenRune (p + 1) l Hi ltac:(lia) ltac:(auto)) as (l' & Hem & Hi' & Hb & _).
    rewrite Hem. simpl. split; [|destruct wide; simpl; lia].
    eapply same_core_INV; [|exact Hi']. destruct wide; repeat split.
Qed.

Ltac fin := b2p; gs; unfold len in *; lia.

Ltac sstep :=
  match goal with
  | |- safe (bind (idx ?l ?i) _) _ _ => apply idx_safe; [b2p; gs; try lia | intros ?c ?Hc]
  | |- safe (bind (idx_is ?l ?i ?c) _) _ _ => apply idx_is_safe; [b2p; gs; try lia | intros ?x ?Hx]
  | |- safe (bind (andm ?a _) _) _ _ => apply andm_safe; intros ?Ha
  | |- safe (bind (orm ?a _) _) _ _ => apply orm_safe; intros ?Ha
  | |- safe (bind (bind _ _) _) _ _ => rewrite bind_assoc
  | |- safe (bind (Ok _) _) _ _ => rewrite bind_ok
  | |- safe (bind (if ?b then _ else _) _) _ _ => destruct b eqn:?
  | |- safe (if ?b then _ else _) _ _ => destruct b eqn:?
  | |- safe (bind (Err _) _) _ _ => simpl
  end.

(* ---- numbers ---- *)
Lemma digit09_dec c : is_digit09 c = true -> isDecDigit c = true.
Proof.
  unfold is_digit09. intros H. b2p.
  assert (Hc : c = 48 \/ c = 49 \/ c = 50 \/ c = 51 \/ c = 52 \/ c = 53 \/ c = 54 \/ c = 55 \/ c = 56 \/ c = 57) by lia.
  repeat (destruct Hc as [-> | Hc]; [reflexivity|]). subst; reflexivity.
Qed.

Section NumProofs.
Variable l : lexer.
Variable c0 : N.
Hypothesis Hi : INV text l.
Hypothesis Hc0 : get (l_src l) 0 = Some c0.
Hypothesis Hstart : is_digit09 c0 = true \/ c0 = 46.

Definition numJ (st : nst) : Prop :=
  n_p st <= len l /\ (1 <= n_p st \/ (n_base st = 10 /\ isDecDigit c0 = true)).

Lemma He_l : ext text l l.
Proof. apply ext_refl, Hi. Qed.

Lemma num_prefix_safe : safe (num_prefix l) numJ (ext text l).
Proof.
  pose proof He_l as He. pose proof (get_some _ _ _ Hc0) as Hl0. fold (len l) in Hl0.
  unfold num_prefix. sstep. rewrite Hc0 in Hc. injection Hc as <-.
  eapply safe_bind with (Q' := fun st => n_p st <= len l /\ (n_p st = 0 -> n_base st = 10)).
  - destruct ((c0 =? 48) && (1 <? len l)) eqn:E0; [|simpl; split; [lia|reflexivity]].
    b2p. sstep.
    set (st := if (c =? 120) || (c =? 88) then mkN 2 16 false 0 false
                else if (c =? 111) || (c =? 79) then mkN 2 8 false 0 true
                else if (c =? 95) || is_digit09 c then mkN 1 8 false 0 false
                else if (c =? 98) || (c =? 66) then mkN 2 2 false 0 false
                else mkN 0 10 false 0 false).
    assert (Hst : n_p st <= 2 /\ (n_p st = 0 -> n_base st = 10)).
    { unfold st. destruct ((c =? 120) || (c =? 88)); [cbn; split; [lia|discriminate]|].
      destruct ((c =? 111) || (c =? 79)); [cbn; split; [lia|discriminate]|].
      destruct ((c =? 95) || is_digit09 c); [cbn; split; [lia|discriminate]|].
      destruct ((c =? 98) || (c =? 66)); cbn; split; try lia; try discriminate; reflexivity. }
    destruct Hst as (Hs1 & Hs2). clearbody st.
    repeat sstep; simpl; try exact He; b2p; cbn; split; try lia; auto.
  - intros st1 (H1 & H2).
    repeat sstep; simpl; try exact He; unfold numJ; cbn; b2p.
    + split; [lia|left; lia].
    + split; [lia|]. destruct (N.eq_dec (n_p st1) 0) as [Hz|Hz]; [|left; lia].
      right. split; [apply H2, Hz|]. rewrite Hz in Hx. assert (x = c0) by congruence. subst x.
      destruct Hstart as [Hd| Hd]; [apply digit09_dec, Hd|congruence].
    + lia.
Qed.

Lemma num_exponent_safe st :
  n_p st < len l ->
  safe (num_exponent l st)
       (fun r => match r with Again s' | Stop s' => n_p st <= n_p s' /\ n_p s' <= len l end) (ext text l).
Proof.
  pose proof He_l as He. intros Hp. unfold num_exponent.
  repeat sstep; simpl; try exact He; cbn; repeat match goal with |- context [if ?b then _ else _] => destruct b end; fin.
Qed.

Lemma digits_body_safe st :
  numJ st ->
  safe (digits_body l st)
       (fun r => match r with
                 | Again s' => numJ s' /\ (N.to_nat (len l - n_p s') < N.to_nat (len l - n_p st))%nat
                 | Stop s' => 1 <= n_p s' /\ n_p s' <= len l end) (ext text l).
Proof.
  pose proof He_l as He. pose proof (get_some _ _ _ Hc0) as Hl0. fold (len l) in Hl0.
  intros [J1 J2]. unfold digits_body.
  destruct (N.ltb_spec (n_p st) (len l)) as [Hp|Hp]; cbn [negb].
  2:{ simpl. destruct J2 as [J2|J2]; lia. }
  sstep.
  assert (F : n_p st = 0 -> n_base st = 10 /\ isDecDigit c = true).
  { intros Hz. destruct J2 as [J2|[J2 J3]]; [lia|]. rewrite Hz in Hc. assert (c = c0) by congruence. subst c. auto. }
  eapply safe_bind with (Q' := fun sw => match sw with None => 1 <= n_p st | Some _ => True end).
  - destruct (N.eqb_spec (n_base st) 10) as [Hb|Hb].
    { simpl. destruct (isDecDigit c) eqn:Ed; [exact I|]. destruct (N.eq_dec (n_p st) 0) as [Hz|Hz]; [|lia].
      destruct (F Hz). congruence. }
    assert (Hp1 : 1 <= n_p st) by (destruct (N.eq_dec (n_p st) 0) as [Hz|Hz]; [destruct (F Hz); congruence|lia]).
    repeat sstep; simpl; try exact He; auto.
  - intros [base|] Hsw; [|simpl; lia].
    set (st1 := mkN (n_p st + 1) base (n_dot st) (n_exp st) (n_0o st)).
    destruct (N.ltb_spec (n_p st + 1) (len l)) as [Hq|Hq]; cbn [negb].
    2:{ simpl. unfold numJ. cbn. split; [split; [lia|left; lia]|lia]. }
    sstep. destruct (c1 =? 95).
    { repeat sstep; simpl; unfold numJ; cbn; b2p; try lia; (split; [split; [lia|left; lia]|lia]). }
    assert (Hex : forall s2, n_p s2 = n_p st + 1 \/ (n_p s2 = n_p st + 2 /\ n_p st + 2 < len l) ->
       safe (num_exponent l s2)
        (fun r => match r with
                  | Again s' => numJ s' /\ (N.to_nat (len l - n_p s') < N.to_nat (len l - n_p st))%nat
                  | Stop s' => 1 <= n_p s' /\ n_p s' <= len l end) (ext text l)).
    { intros s2 Hs2. eapply safe_mono; [apply num_exponent_safe; lia| |auto].
      intros [s'|s'] [Ha Hb]; unfold numJ; [split; [split; [lia|left; lia]|lia]|lia]. }
    destruct (c1 =? 46).
    { destruct (n_dot st1 || negb (n_exp st1 =? 0)); [simpl; subst st1; cbn; lia|].
      destruct (fix8 st1 <? 10); [simpl; exact He|].
      match goal with |- context [if ?a =? ?b then _ else _] => destruct (N.eqb_spec a b) end; [simpl; subst st1; cbn in *; lia|].
      apply Hex. right. subst st1; cbn in *. lia. }
    apply Hex. left. reflexivity.
Qed.

Lemma lex_number_safe : safe (lex_number l) (prog text l) (ext text l).
Proof.
  pose proof He_l as He. unfold lex_number.
  eapply safe_bind; [apply num_prefix_safe|]. intros st0 J0.
  eapply safe_bind.
  - apply (safe_loop (digits_body l) numJ (fun st => N.to_nat (len l - n_p st))
             (fun st => 1 <= n_p st /\ n_p st <= len l)).
    + apply digits_body_safe.
    + exact J0.
    + apply len_fuel.
  - intros st [Hp1 Hp2]. cbn beta.
    assert (Hemit : forall typ n, is_close typ = false -> 1 <= n -> n <= len l ->
              safe (let* l1 := emit typ n l in Ok (addcol n l1)) (prog text l) (ext text l)).
    { intros typ n Hnc Hn1 Hn2. destruct (emit_spec text typ n l Hi Hn2 (or_intror Hnc)) as (l' & Hem & Hi' & Hb & _).
      rewrite Hem. simpl. split; [eapply same_core_INV; [|exact Hi']; auto with sc|simpl; lia]. }
    sstep; [sstep; destruct (x =? 95); [simpl; exact He|]|];
    (destruct (N.eqb_spec (n_p st) 0); [lia|]; sstep;
     match goal with |- context [if ?b then Err l else _] => destruct b end; [simpl; exact He|];
     match goal with |- context [if ?b then Err l else _] => destruct b end; [simpl; exact He|];
     sstep; [sstep; destruct (x0 =? 105) || idtac|]).
    all: try (apply Hemit; [try reflexivity; destruct (n_dot st || negb (n_exp st =? 0)); reflexivity| |]; b2p; gs; lia).
    all: repeat sstep; try (simpl; exact He); try (apply Hemit; [try reflexivity; destruct (n_dot st || negb (n_exp st =? 0)); reflexivity| |]; b2p; gs; lia).
    all: exfalso; b2p; lia.
Qed.
End NumProofs.

(* ---- lexCode ---- *)
(* when lexCode returns nil the closing delimiter is in front *)
Definition closing (endt : N) (l : lexer) : Prop :=
  if endt =? gen_tokenRightBraces then 2 <= len l
  else if endt =? gen_tokenEndStatement then 2 <= len l
  else if endt =? gen_tokenEndStatements then 3 <= len l
  else True.

Definition cpost (endt : N) (s : cst) (r : step cst) : Prop :=
  match r with
  | Again s' => prog text (c_l s) (c_l s') /\ c_ret s' = c_ret s
  | Stop s' => ext text (c_l s) (c_l s') /\ (c_ret s' = true -> c_ret s = true \/ closing endt (c_l s'))
  end.

Ltac closing_tac :=
  unfold closing; repeat match goal with |- context [if ?b then _ else _] => destruct b end; fin.

Lemma opk_safe endt typ n e s :
  INV text (c_l s) -> 1 <= n -> n <= len (c_l s) -> is_close typ = false -> safe (opk typ n e s) (cpost endt s) (ext text (c_l s)).
Proof.
  intros Hi Hn1 Hn2 Hnc. unfold opk. destruct (emitc_spec text typ n (c_l s) Hi Hn2 (or_intror Hnc)) as (l' & He & Hi' & Hb & _).
  rewrite He. simpl. split; [split; [exact Hi'|lia]|reflexivity].
Qed.

Lemma auto_semi_safe e l :
  INV text l -> exists l', auto_semi e l = Ok l' /\ INV text l' /\ (l_base l' = l_base l /\ l_tidx l' = l_tidx l) /\ len l' = len l.
Proof.
  intros Hi. unfold auto_semi. destruct e; [|exists l; split; [reflexivity|]; split; [exact Hi|]; split; [split; reflexivity|reflexivity]].
  destruct (emit_spec text gen_tokenSemicolon 0 l Hi ltac:(lia) ltac:(auto)) as (l' & He & Hi' & Hb & _ & Hl & _).
  exists l'. split; [exact He|]. split; [exact Hi'|]. split; [lia|lia].
Qed.

Lemma auto_semi_dev_safe e l :
  INV text l -> exists l', auto_semi_dev e l = Ok l' /\ INV text l' /\ (l_base l' = l_base l /\ l_tidx l' = l_tidx l) /\ len l' = len l.
Proof.
  intros Hi. unfold auto_semi_dev. destruct e; [|exists l; split; [reflexivity|]; split; [exact Hi|]; split; [split; reflexivity|reflexivity]].
  destruct (emit_at_spec text (l_line l) (l_col l) true true gen_tokenSemicolon 0 l Hi ltac:(lia) ltac:(auto)) as (l' & He & Hi' & Hb & _ & Hl & _).
  exists l'. split; [exact He|]. split; [exact Hi'|]. split; [lia|lia].
Qed.

Lemma code_ident_safe endt first c s :
  INV text (c_l s) -> get (l_src (c_l s)) 0 = Some c ->
  safe (code_ident U endt first c s) (cpost endt s) (ext text (c_l s)).
Proof.
  intros Hi Hc. pose proof (get_some _ _ _ Hc) as Hl. fold (len (c_l s)) in Hl.
  assert (He : ext text (c_l s) (c_l s)) by (apply ext_refl; exact Hi).
  unfold code_ident.
  eapply safe_bind with (Q' := fun r => match r with None => 3 <= len (c_l s)
                              | Some x => prog text (c_l s) (fst (fst x)) end).
  - destruct ((c =? 95) || ((c <? 128) && u_letter U c)).
    + eapply safe_bind; [apply lex_ident_safe; [exact Hi|lia|lia]|]. intros [[l1 t] x] Hp. exact Hp.
    + destruct (decode_rune (l_src (c_l s))) as [r w] eqn:Hd.
      assert (Hd' : decode_rune (drop 0 (l_src (c_l s))) = (r, w)) by exact Hd.
      destruct (decode_at (c_l s) 0 r w Hl Hd') as [Hw1 Hw2].
      destruct (negb (u_letter U r)).
      * destruct (r =? gen_lex_BOM) eqn:Eb; [|simpl; exact He].
        destruct (l_base (c_l s) =? 0); [|simpl; exact He]. simpl.
        (* a BOM is three bytes *)
        unfold decode_rune in Hd. destruct (l_src (c_l s)) as [|b0 s1] eqn:Es; [discriminate|].
        b2p. assert (Hlen : len (c_l s) = 1 + nlen s1) by (unfold len; rewrite Es, nlen_cons; reflexivity).
        destruct (b0 <? 128) eqn:E1; [injection Hd as <- _; b2p; change gen_lex_BOM with 65279 in Eb; lia|].
        destruct (b0 <? 194); [injection Hd as <- _; discriminate|].
        destruct (b0 <? 224) eqn:E3.
        { destruct s1 as [|b1 s2]; [injection Hd as <- _; discriminate|].
          destruct (is_cont b1) eqn:Ec; [|injection Hd as <- _; discriminate].
          injection Hd as Hr _. unfold is_cont in Ec. b2p. change gen_lex_BOM with 65279 in Eb. lia. }
        destruct s1 as [|b1 [|b2 s3]]; try (rewrite !nlen_cons in Hlen; lia).
        all: destruct (b0 <? 240); try (injection Hd as <- _; discriminate).
        all: destruct (b0 <? 245); injection Hd as <- _; discriminate.
      * eapply safe_bind; [apply lex_ident_safe; [exact Hi|lia|lia]|]. intros [[l1 t] x] Hp. exact Hp.
  - intros [[[l1 typ] txt]|] Hr.
    + simpl in Hr.
      match goal with |- context [Ok (Again (cset_l (c_l ?s1) ?e ?s1'))] => set (S1 := s1) end.
      assert (Hs1 : same_core l1 (c_l S1)).
      { unfold S1. repeat match goal with |- context [if ?b then _ else _] => destruct b end;
          try destruct (l_ctxs l1); cbn; auto with sc; repeat split. }
      assert (Hr1' : c_ret S1 = c_ret s).
      { unfold S1. repeat match goal with |- context [if ?b then _ else _] => destruct b end;
          try destruct (l_ctxs l1); reflexivity. }
      simpl. destruct Hr as [Hr1 Hr2]. split; [|exact Hr1'].
      split; [eapply same_core_INV; [exact Hs1|exact Hr1]|].
      destruct Hs1 as (_ & Hb & _). lia.
    + destruct (advance_spec text 3 (c_l s) Hi Hr) as (l' & Ha & Hi' & Hb & _).
      rewrite Ha. simpl. split; [split; [eapply same_core_INV; [|exact Hi']; auto with sc|simpl; lia]|reflexivity].
Qed.

Ltac cstep :=
  match goal with
  | |- safe (bind (nxt ?l ?i) _) _ _ => apply nxt_safe; [intros ?Hn | intros ?x ?Hx]
  | _ => sstep
  end.

Lemma code_body_safe endt first s :
  INV text (c_l s) -> safe (code_body U endt first s) (cpost endt s) (ext text (c_l s)).
Proof.
  intros Hi. assert (He : ext text (c_l s) (c_l s)) by (apply ext_refl; exact Hi).
  assert (HeS : cpost endt s (Stop s)) by (split; [exact He|auto]).
  unfold code_body. destruct (N.eqb_spec (len (c_l s)) 0) as [Hz|Hz]; [simpl; exact HeS|].
  sstep.
  assert (Hsub : forall (f : lexer -> res lexer) e,
            safe (f (c_l s)) (prog text (c_l s)) (ext text (c_l s)) ->
            safe (let* l1 := f (c_l s) in Ok (Again (cset_l l1 e s))) (cpost endt s) (ext text (c_l s))).
  { intros f e Hf. eapply safe_bind; [exact Hf|]. intros l1 Hp. split; [exact Hp|reflexivity]. }
  assert (Hnum : is_digit09 c = true \/ c = 46 -> safe (lex_number (c_l s)) (prog text (c_l s)) (ext text (c_l s))).
  { intros Hd. eapply lex_number_safe; eauto. }
  destruct (c =? 34); [apply Hsub, lex_string_safe; [exact Hi|lia]|].
  destruct (c =? 96); [apply Hsub, lex_raw_string_safe; [exact Hi|lia]|].
  destruct (c =? 39); [apply Hsub, lex_rune_safe; [exact Hi|lia]|].
  destruct (N.eqb_spec c 46) as [E46|E46].
  { cstep.
    - simpl. apply opk_safe; auto; lia.
    - destruct (is_digit09 x); [apply Hsub, Hnum; auto|].
      repeat (cbn [oeq]; cstep); apply opk_safe; auto; fin. }
  destruct (is_digit09 c) eqn:Ed; [apply Hsub, Hnum; auto|].
  repeat (match goal with |- context [if c =? ?k then _ else _] => destruct (N.eqb_spec c k) end;
    [try (repeat (cbn [oeq]; cstep); apply opk_safe; auto; fin)|]).
  all: try (apply opk_safe; auto; fin).
  all: try (apply code_ident_safe; assumption).
  all: assert (Hl1 : 1 <= len (c_l s)) by lia.
  all: assert (Hws : safe (let* l1 := advance 1 (c_l s) in Ok (Again (cset_l (addcol 1 l1) (c_elas s) s)))
                          (cpost endt s) (ext text (c_l s))) by
       (destruct (advance_spec text 1 (c_l s) Hi Hl1) as (l' & Ha & Hi' & Hb & _); rewrite Ha; simpl;
        split; [split; [eapply same_core_INV; [|exact Hi']; auto with sc|simpl; lia]|reflexivity]).
  all: try (destruct ((c =? 32) || (c =? 9) || (c =? 13)); [exact Hws|]).
  all: try (apply opk_safe; auto; fin).
  all: try (apply code_ident_safe; assumption).
  all: try (simpl; exact He).
  - (* slash *)
    cstep; cbn [oeq]; [apply opk_safe; auto; fin|].
    destruct (x =? 47).
    { destruct (index_nl_bom (l_src (c_l s))) as [p|] eqn:Ein; [|simpl; exact HeS].
      pose proof (index_nl_bom_bound _ _ Ein) as Hp. fold (len (c_l s)) in Hp.
      sstep. destruct (negb (c0 =? 10)); [simpl; exact He|].
      destruct (advance_spec text p (c_l s) Hi ltac:(lia)) as (l1 & Ha & Hi1 & Hb1 & _ & Hl1' & _).
      rewrite Ha. rewrite bind_ok.
      assert (Him : INV text (mark_cdev l1)) by (eapply same_core_INV; [|exact Hi1]; auto with sc).
      destruct (auto_semi_safe (c_elas s) (mark_cdev l1) Him) as (l2 & H2 & Hi2 & Hb2 & Hl2). rewrite H2, bind_ok.
      assert (Hin : INV text (newline l2)) by (eapply same_core_INV; [|exact Hi2]; auto with sc).
      assert (Hln : len (newline l2) = len l2) by reflexivity.
      assert (Hlm : len (mark_cdev l1) = len l1) by reflexivity.
      destruct (advance_spec text 1 (newline l2) Hin ltac:(lia)) as (l3 & H3 & Hi3 & Hb3 & _).
      rewrite H3. simpl. split; [|reflexivity]. split; [exact Hi3|]. cbn in Hb3, Hb2. lia. }
    destruct (x =? 42).
    { destruct (advance_spec text 2 (c_l s) Hi ltac:(fin)) as (l1 & Ha & Hi1 & Hb1 & _ & Hl1' & _).
      rewrite Ha, bind_ok.
      assert (He1 : ext text (c_l s) l1) by (split; [exact Hi1|lia]).
      destruct (index (l_src l1) [42; 47]) as [p|] eqn:Eix; [|simpl; exact He1].
      pose proof (index_bound _ _ _ Eix) as Hp. fold (len l1) in Hp. change (nlen [42; 47]) with 2 in Hp.
      destruct (index_nl_bom (take p (l_src l1))) as [k|] eqn:Ein.
      - pose proof (index_nl_bom_bound _ _ Ein) as Hk. rewrite nlen_take in Hk by (unfold len in Hp; lia).
        rewrite bind_assoc. sstep. rewrite bind_ok. destruct (negb (c0 =? 10)); [simpl; exact He1|].
        destruct (advance_spec text (p + 2) l1 Hi1 ltac:(lia)) as (l2 & Ha2 & Hi2 & Hb2 & _).
        rewrite Ha2, bind_ok.
        assert (Him : INV text (mark_cdev l2)) by (eapply same_core_INV; [|exact Hi2]; auto with sc).
        destruct (auto_semi_dev_safe (c_elas s) (mark_cdev l2) Him) as (l3 & H3 & Hi3 & Hb3 & Hl3). rewrite H3, bind_ok.
        simpl. split; [|reflexivity]. split.
        + eapply same_core_INV; [|exact Hi3]. destruct (1 <? count_nl (take p (l_src l1))); repeat split.
        + cbn in Hb3. destruct (1 <? count_nl (take p (l_src l1))); cbn; lia.
      - rewrite bind_ok. cbn iota beta.
        destruct (advance_spec text (p + 2) l1 Hi1 ltac:(lia)) as (l2 & Ha2 & Hi2 & Hb2 & _).
        rewrite Ha2, bind_ok. simpl. split; [|reflexivity]. split; [eapply same_core_INV; [|exact Hi2]; auto with sc|cbn; lia]. }
    destruct (x =? 61); apply opk_safe; auto; fin.
  - (* percent *)
    cstep; cbn [oeq]; [apply opk_safe; auto; fin|].
    destruct (x =? 125).
    { destruct (endt =? gen_tokenEndStatement) eqn:Heqb.
      - unfold safe, cpost. cbn [c_l creturn c_ret].
        assert (Hcl : forall l', len l' = len (c_l s) -> closing endt l').
        { intros l' Hl'. unfold closing. rewrite Heqb. destruct (endt =? gen_tokenRightBraces); fin. }
        destruct (c_idi s =? l_tot (c_l s)); [|split; [exact He|intros _; right; apply Hcl; reflexivity]].
        destruct (find_index gen_formatTypeName (c_idt s) 0); [|split; [exact He|intros _; right; apply Hcl; reflexivity]].
        split; [|intros _; right; apply Hcl; reflexivity].
        split; [eapply same_core_INV; [|exact Hi]; auto with sc|cbn; lia].
      - destruct ((endt =? gen_tokenRightBraces) || (endt =? gen_tokenEndStatements)); [simpl; exact He|].
        apply opk_safe; auto; fin. }
    destruct (x =? 37).
    { cstep; cbn [oeq negb]; [apply opk_safe; auto; fin|].
      destruct (negb (x0 =? 125)); [apply opk_safe; auto; fin|].
      destruct (endt =? gen_tokenEndStatements) eqn:Heqb.
      - destruct (auto_semi_safe (c_elas s) (c_l s) Hi) as (l1 & H1 & Hi1 & Hb1 & Hl1''). rewrite H1, bind_ok.
        simpl. split; [split; [exact Hi1|lia]|]. intros _. right. unfold closing. rewrite Heqb.
        destruct (endt =? gen_tokenRightBraces); [fin|]. destruct (endt =? gen_tokenEndStatement); fin.
      - destruct ((endt =? gen_tokenRightBraces) || (endt =? gen_tokenEndStatement)); [simpl; exact He|].
        apply opk_safe; auto; fin. }
    destruct (x =? 61); apply opk_safe; auto; fin.
  - (* left brace *)
    destruct (emitc_spec text gen_tokenLeftBrace 1 (c_l s) Hi Hl1 ltac:(auto)) as (l1 & H1 & Hi1 & Hb1 & _).
    rewrite H1, bind_ok. simpl. destruct (endt =? gen_tokenRightBraces); simpl; (split; [split; [exact Hi1|lia]|reflexivity]).
  - (* right brace *)
    eapply safe_bind with (Q' := fun r => match r with Some s1 => c_l s1 = c_l s /\ c_ret s1 = c_ret s
                                            | None => closing endt (c_l s) end).
    + destruct (endt =? gen_tokenRightBraces) eqn:Heqb; [|simpl; split; reflexivity].
      repeat (cbn [oeq]; cstep); simpl; auto; try (destruct (0 <? c_ulb s); split; reflexivity);
        unfold closing; rewrite Heqb; fin.
    + intros [s1|] Hs1; [|simpl; split; [exact He|intros _; right; exact Hs1]].
      destruct Hs1 as [Hs1 Hs2].
      eapply safe_mono; [apply (opk_safe endt); rewrite ?Hs1; auto; fin| |].
      * intros [s'|s']; unfold cpost; rewrite Hs1, Hs2; auto.
      * rewrite Hs1. auto.
  - (* new line *)
    destruct (auto_semi_safe (c_elas s) (c_l s) Hi) as (l1 & H1 & Hi1 & Hb1 & Hl1'). rewrite H1, bind_ok.
    assert (Hin : INV text (newline l1)) by (eapply same_core_INV; [|exact Hi1]; auto with sc).
    assert (Hln : len (newline l1) = len l1) by reflexivity.
    destruct (advance_spec text 1 (newline l1) Hin ltac:(lia)) as (l2 & H2 & Hi2 & Hb2 & _).
    rewrite H2. simpl. split; [|reflexivity]. split; [exact Hi2|]. cbn in Hb2. lia.
Qed.

Lemma lex_code_safe endt l :
  INV text l -> safe (lex_code U endt l) (fun l' => ext text l l' /\ (endt = gen_tokenEOF \/ closing endt l')) (ext text l).
Proof.
  intros Hi. assert (He : ext text l l) by (apply ext_refl; exact Hi).
  unfold lex_code. destruct (len l =? 0).
  { destruct (N.eqb_spec endt gen_tokenEOF); simpl; [split; [exact He|left; assumption]|exact He]. }
  eapply safe_bind.
  - apply (safe_loop (code_body U endt (l_tot l + 1)) (fun s => ext text l (c_l s) /\ c_ret s = false)
             (fun s => N.to_nat (len (c_l s)))
             (fun s => ext text l (c_l s) /\ (c_ret s = true -> closing endt (c_l s)))) with (E := ext text l).
    + intros s [Hs Hr]. eapply safe_mono; [apply code_body_safe; apply Hs| |].
      * intros [s'|s'] Hp; simpl in Hp.
        { destruct Hp as [Hp Hr']. split; [split; [eapply ext_trans; [exact Hs|apply prog_ext; exact Hp]|congruence]|].
          destruct Hp as [Hp1 Hp2]. pose proof (INV_len _ _ Hp1). pose proof (INV_len _ _ (proj1 Hs)). lia. }
        { destruct Hp as [Hp Hr']. split; [eapply ext_trans; eauto|].
          intros Ht. destruct (Hr' Ht); [congruence|assumption]. }
      * intros l' Hl'. eapply ext_trans; eauto.
    + simpl. split; [exact He|reflexivity].
    + simpl. unfold len. rewrite nlen_eq. lia.
  - intros s [Hs Hc]. destruct (c_ret s); [simpl; split; [exact Hs|right; auto]|].
    destruct (N.eqb_spec endt gen_tokenEOF); cbn [negb]; [|simpl; exact Hs].
    destruct (auto_semi_safe (c_elas s) (c_l s) (proj1 Hs)) as (l1 & H1 & Hi1 & Hb1 & _). rewrite H1. simpl.
    split; [|left; assumption]. split; [exact Hi1|]. destruct Hs. lia.
Qed.
End CodeProofs.

(* ---- the instance for templates: lexCode inside a block of the tiling ---- *)
Lemma code_body_safeB U text endt first s :
  INVB text (c_l s) ->
  safe (code_body U endt first s)
       (fun r => match r with
                 | Again s' => progB text (c_l s) (c_l s') /\ c_ret s' = c_ret s
                 | Stop s' => extB text (c_l s) (c_l s') /\ (c_ret s' = true -> c_ret s = true \/ closing endt (c_l s'))
                 end)
       (extB text (c_l s)).
Proof.
  exact (code_body_safe U text INVB same_core_INVB advance_specB emit_at_specB endt first s).
Qed.

Lemma lex_code_safeB U text endt l :
  INVB text l ->
  safe (lex_code U endt l) (fun l' => extB text l l' /\ (endt = gen_tokenEOF \/ closing endt l')) (extB text l).
Proof.
  exact (lex_code_safe U text INVB same_core_INVB INVB_len advance_specB emit_at_specB endt l).
Qed.
