(* The decision table of VM.Run generated from vm.go does what the
   documentation of env.Stop and env.Fatal promises, whatever the context
   (an obligation over the generated fact, recomputed at every run). *)
From Coq Require Import List NArith Bool.
Import ListNotations.
From Verif Require Import Facts_vmrun VmRunM.
Open Scope N_scope.

Lemma vmrun_documented_all : forallb run_documented ctx_states = true.
Proof. vm_compute. reflexivity. Qed.

Lemma vmrun_documented ctx : In ctx ctx_states ->
  run_action 3 ctx = Some 2 /\ run_action 2 ctx = Some 4 /\ run_action 0 ctx = Some 1 /\
  run_action 1 ctx = Some 3 /\ run_action 5 ctx = Some 6.
Proof.
  intros Hin. assert (H := vmrun_documented_all). rewrite forallb_forall in H. specialize (H ctx Hin).
  unfold run_documented in H.
  destruct (run_action 3 ctx) as [[|a]|]; try discriminate.
  repeat match type of H with
         | match ?x with _ => _ end = true => destruct x; try discriminate
         end.
  repeat split; reflexivity.
Qed.
