(* builtin.onlyJSONWhitespace / trimJSONSpace: indexing the generated table by
   any byte never faults; both functions compute their documented result. *)
From Verif Require Import Bytes Facts_builtin BuiltinM.
Open Scope N_scope.

Definition is_json_ws (c : N) : bool := (c =? 9) || (c =? 10) || (c =? 13) || (c =? 32).

(* finite obligations on the generated facts *)
Definition js_fact_byte (c : N) : bool :=
  match assoc_get gen_onlyJSONWhitespace_step c with
  | Some b => Bool.eqb b (negb (is_json_ws c)) | None => false end &&
  match assoc_get gen_trimJSONSpace_lead c with
  | Some b => Bool.eqb b (is_json_ws c) | None => false end &&
  match assoc_get gen_trimJSONSpace_trail c with
  | Some b => Bool.eqb b (is_json_ws c) | None => false end.

Definition js_fact_bytes : bool := forallb js_fact_byte all_bytes.
Lemma js_fact_bytes_ok : js_fact_bytes = true. Proof. vm_compute. reflexivity. Qed.
Lemma js_guard_ok : gen_trimJSONSpace_lead_guarded && gen_trimJSONSpace_trail_guarded = true.
Proof. vm_compute. reflexivity. Qed.
Lemma js_len_ok : gen_lookupJSONSpace_len =? 256 = true. Proof. vm_compute. reflexivity. Qed.

Lemma js_byte c : c < 256 ->
  assoc_get gen_onlyJSONWhitespace_step c = Some (negb (is_json_ws c)) /\
  assoc_get gen_trimJSONSpace_lead c = Some (is_json_ws c) /\
  assoc_get gen_trimJSONSpace_trail c = Some (is_json_ws c).
Proof.
  intros Hc. pose proof (forall_bytes _ js_fact_bytes_ok c Hc) as H. unfold js_fact_byte in H.
  apply andb_prop in H. destruct H as [H H3]. apply andb_prop in H. destruct H as [H1 H2].
  destruct (assoc_get gen_onlyJSONWhitespace_step c) as [b1|]; [|discriminate].
  destruct (assoc_get gen_trimJSONSpace_lead c) as [b2|]; [|discriminate].
  destruct (assoc_get gen_trimJSONSpace_trail c) as [b3|]; [|discriminate].
  apply eqb_prop in H1, H2, H3. subst. auto.
Qed.

(* indexing lookupJSONSpace by any byte never faults *)
Theorem json_space_no_fault c : c < 256 ->
  assoc_get gen_onlyJSONWhitespace_step c <> None /\
  assoc_get gen_trimJSONSpace_lead c <> None /\
  assoc_get gen_trimJSONSpace_trail c <> None.
Proof. intros Hc. destruct (js_byte c Hc) as (H1 & H2 & H3). rewrite H1, H2, H3. repeat split; discriminate. Qed.

Theorem only_json_ws_spec s : is_bytes s = true -> only_json_ws s = Some (forallb is_json_ws s).
Proof.
  induction s as [|c r IH]; intros Hb; cbn [only_json_ws forallb]; [reflexivity|].
  cbn [is_bytes forallb] in Hb. apply andb_prop in Hb. destruct Hb as [Hc Hr]. apply N.ltb_lt in Hc.
  destruct (js_byte c Hc) as (H1 & _ & _). rewrite H1.
  destruct (is_json_ws c); cbn [negb andb]; [apply IH, Hr|reflexivity].
Qed.

(* ---- trimJSONSpace ---- *)

Definition trim_spec (data : bytes) : bytes :=
  rev (drop_while is_json_ws (rev (drop_while is_json_ws data))).

Fixpoint lead_len (p : N -> bool) (s : bytes) : nat :=
  match s with [] => 0%nat | c :: r => if p c then S (lead_len p r) else 0%nat end.

Lemma drop_while_skipn p s : drop_while p s = skipn (lead_len p s) s.
Proof. induction s as [|c r IH]; cbn [drop_while lead_len]; [reflexivity|]. destruct (p c); [exact IH|reflexivity]. Qed.

Lemma lead_len_le p s : (lead_len p s <= length s)%nat.
Proof. induction s as [|c r IH]; cbn [lead_len length]; [lia|]. destruct (p c); lia. Qed.

Lemma guards : gen_trimJSONSpace_lead_guarded = true /\ gen_trimJSONSpace_trail_guarded = true.
Proof. pose proof js_guard_ok as H. apply andb_prop in H. exact H. Qed.

Open Scope Z_scope.

Lemma trim_lead_spec rest : is_bytes rest = true -> forall i j,
  j + 1 = i + Z.of_nat (length rest) ->
  trim_lead rest i j = Some (i + Z.of_nat (lead_len is_json_ws rest)).
Proof.
  destruct guards as [G _].
  induction rest as [|c r IH]; intros Hb i j Hj; cbn [trim_lead lead_len length] in *; rewrite G; cbn [andb].
  - destruct (Z.ltb_spec j i); [f_equal; lia|lia].
  - destruct (Z.ltb_spec j i); [lia|].
    cbn [is_bytes forallb] in Hb. apply andb_prop in Hb. destruct Hb as [Hc Hr]. apply N.ltb_lt in Hc.
    destruct (js_byte c Hc) as (_ & H2 & _). rewrite H2.
    destruct (is_json_ws c).
    + rewrite IH; [f_equal; lia|exact Hr|lia].
    + f_equal. lia.
Qed.

(* the trailing loop stops at the first non-whitespace byte from the right, or when j < i *)
Lemma trim_trail_spec rrest : is_bytes rrest = true -> forall i j,
  j + 1 = Z.of_nat (length rrest) -> 0 <= i <= j + 1 ->
  trim_trail rrest i j = Some (Z.max (i - 1) (j - Z.of_nat (lead_len is_json_ws rrest))).
Proof.
  destruct guards as [_ G].
  induction rrest as [|c r IH]; intros Hb i j Hj Hi; cbn [trim_trail lead_len length] in *; rewrite G; cbn [andb].
  - destruct (Z.ltb_spec j i); [f_equal; lia|lia].
  - destruct (Z.ltb_spec j i); [f_equal; destruct (is_json_ws c); lia|].
    cbn [is_bytes forallb] in Hb. apply andb_prop in Hb. destruct Hb as [Hc Hr]. apply N.ltb_lt in Hc.
    destruct (js_byte c Hc) as (_ & _ & H3). rewrite H3.
    destruct (is_json_ws c).
    + rewrite IH; [f_equal; lia|exact Hr|lia|lia].
    + f_equal. lia.
Qed.

Close Scope Z_scope.

Lemma is_bytes_rev s : is_bytes s = true -> is_bytes (rev s) = true.
Proof.
  unfold is_bytes. rewrite !forallb_forall. intros H x Hx. apply H. apply in_rev. exact Hx.
Qed.

Lemma lead_len_app_stop p a x b : p x = false -> (forall y, In y a -> p y = true) ->
  lead_len p (a ++ x :: b) = length a.
Proof.
  intros Hx. induction a as [|y a IH]; intros Ha; cbn [app lead_len length]; [rewrite Hx; reflexivity|].
  rewrite Ha by (left; reflexivity). f_equal. apply IH. intros z Hz. apply Ha. right. exact Hz.
Qed.

Lemma lead_len_all p a : lead_len p a = length a \/ exists pre x post, a = pre ++ x :: post /\ p x = false /\ lead_len p a = length pre /\ (forall y, In y pre -> p y = true).
Proof.
  induction a as [|c a IH]; cbn [lead_len length]; [left; reflexivity|].
  destruct (p c) eqn:Hc.
  - destruct IH as [IH|(pre & x & post & -> & Hx & Hl & Hall)].
    + left. f_equal. exact IH.
    + right. exists (c :: pre), x, post. repeat split; cbn [length app]; auto.
      intros y [<-|Hy]; auto.
  - right. exists [], c, a. repeat split; auto.
Qed.

(* lead_len on a list of the shape d ++ w where d (non empty) ends its own run before its end *)
Lemma lead_len_app_lt p d w : (lead_len p d < length d)%nat -> lead_len p (d ++ w) = lead_len p d.
Proof.
  induction d as [|c d IH]; cbn [lead_len length app]; [lia|].
  destruct (p c); [|reflexivity]. intros H. f_equal. apply IH. lia.
Qed.

Theorem trim_json_space_spec data : is_bytes data = true -> trim_json_space data = Some (trim_spec data).
Proof.
  intros Hb. unfold trim_json_space, trim_spec.
  destruct data as [|c0 r0] eqn:Hd; [reflexivity|]. rewrite <- Hd in *. assert (Hne : data <> []) by (rewrite Hd; discriminate).
  clear Hd c0 r0.
  set (len := Z.of_nat (length data)).
  rewrite (trim_lead_spec data Hb 0 (len - 1)%Z) by (subst len; lia).
  set (a := lead_len is_json_ws data). rewrite Z.add_0_l.
  pose proof (lead_len_le is_json_ws data) as Hal. fold a in Hal.
  rewrite (trim_trail_spec (rev data) (is_bytes_rev _ Hb) (Z.of_nat a) (len - 1)%Z)
    by (rewrite ?rev_length; subst len; lia).
  set (t := lead_len is_json_ws (rev data)).
  pose proof (lead_len_le is_json_ws (rev data)) as Htl. fold t in Htl. rewrite rev_length in Htl.
  rewrite (drop_while_skipn is_json_ws data). fold a.
  set (d := skipn a data).
  assert (Hdl : length d = (length data - a)%nat) by (subst d; apply skipn_length).
  (* relate t with the run of rev d *)
  assert (Hrev : rev data = rev d ++ rev (firstn a data)).
  { rewrite <- (firstn_skipn a data) at 1. rewrite rev_app_distr. reflexivity. }
  destruct (Nat.eq_dec a (length data)) as [Hall|Hnot].
  - (* all whitespace *)
    assert (Hdn : d = []) by (apply length_zero_iff_nil; lia).
    rewrite Hdn. cbn [rev drop_while].
    replace (Z.max (Z.of_nat a - 1) (len - 1 - Z.of_nat t)) with (len - 1)%Z by (subst len; lia).
    replace ((0 <=? Z.of_nat a)%Z && (Z.of_nat a <=? len - 1 + 1)%Z && (len - 1 + 1 <=? len)%Z) with true
      by (symmetry; rewrite !andb_true_iff; repeat split; apply Z.leb_le; subst len; lia).
    replace (Z.to_nat (len - 1 + 1 - Z.of_nat a)) with 0%nat by (subst len; lia). reflexivity.
  - (* d starts with a non-whitespace byte *)
    assert (Hd0 : exists x d', d = x :: d' /\ is_json_ws x = false).
    { destruct (lead_len_all is_json_ws data) as [He|(pre & x & post & Hdata & Hx & Hl & _)]; [fold a in He; lia|].
      fold a in Hl. exists x, post. subst d. rewrite Hdata, Hl.
      rewrite skipn_app, skipn_all, Nat.sub_diag. cbn [skipn app]. auto. }
    destruct Hd0 as (x & d' & Hdx & Hx).
    assert (Hrun : (lead_len is_json_ws (rev d) < length (rev d))%nat).
    { rewrite Hdx. cbn [rev].
      destruct (lead_len_all is_json_ws (rev d')) as [He|(pre & y & post & Hr & Hy & Hl & Hall)].
      - rewrite lead_len_app_stop; [rewrite app_length; cbn [length]; lia|exact Hx|].
        intros z Hz. clear - He Hz. revert He Hz. generalize (rev d'). intros l.
        induction l as [|c l IH]; cbn [lead_len length]; [intros _ []|].
        destruct (is_json_ws c) eqn:Hc; [|intros; lia]. intros He [<-|Hz]; [exact Hc|]. apply IH; [lia|exact Hz].
      - rewrite Hr. rewrite <- app_assoc. cbn [app]. rewrite lead_len_app_stop by assumption.
        rewrite !app_length. cbn [length]. lia. }
    assert (Ht : t = lead_len is_json_ws (rev d)).
    { subst t. rewrite Hrev. apply lead_len_app_lt. exact Hrun. }
    rewrite rev_length in Hrun. rewrite <- Ht in Hrun.
    replace (Z.max (Z.of_nat a - 1) (len - 1 - Z.of_nat t)) with (len - 1 - Z.of_nat t)%Z by (subst len; lia).
    replace ((0 <=? Z.of_nat a)%Z && (Z.of_nat a <=? len - 1 - Z.of_nat t + 1)%Z && (len - 1 - Z.of_nat t + 1 <=? len)%Z) with true
      by (symmetry; rewrite !andb_true_iff; repeat split; apply Z.leb_le; subst len; lia).
    rewrite Nat2Z.id. fold d. f_equal.
    replace (Z.to_nat (len - 1 - Z.of_nat t + 1 - Z.of_nat a)) with (length d - t)%nat by (subst len; lia).
    rewrite drop_while_skipn. rewrite <- Ht.
    rewrite skipn_rev, rev_involutive. reflexivity.
Qed.

Theorem trim_json_space_no_fault data : is_bytes data = true -> trim_json_space data <> None.
Proof. intros Hb. rewrite trim_json_space_spec by exact Hb. discriminate. Qed.
