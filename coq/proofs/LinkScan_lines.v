(* One line of collectReplacements, the loop over the lines, and the theorems
   about collectReplacements and replace for all documents. *)
From Verif Require Import Bytes IndexM Facts_linkscan LinkDestM LinkDestSpec LinkDest_proofs
  LinkScanM LinkScan_base LinkScan_parse LinkScan_inline LinkScan_loops.
From Coq Require Import Lia ZArith List.
Local Open Scope Z_scope.

Lemma lclass_eq_dec (a b : lclass) : {a = b} + {a <> b}.
Proof. decide equality. Qed.

(* ---------------- the block level predicates are total ---------------- *)

Lemma isIndentedCode_ok line : exists b, isIndentedCode line = LOk b.
Proof.
  unfold isIndentedCode. destruct (indentWidth_ok line) as (w & p & E & _). rewrite E. cbn [lbind]. eexists; reflexivity.
Qed.

Lemma isFenceStart_ok line : exists r, isFenceStart line = LOk r.
Proof.
  unfold isFenceStart. destruct (indentWidth_ok line) as (w & p & E & Hw & Hp). rewrite E. cbn [lbind].
  destruct ((gen_ls_max_indent <? w) || (zlen line <=? p)) eqn:Eg; [eexists; reflexivity|].
  apply Bool.orb_false_iff in Eg. destruct Eg as [_ Eg]. apply Z.leb_gt in Eg. zg.
  destruct (negb (mem gen_ls_fence_chars (bt line p))); [eexists; reflexivity|].
  destruct (countRun_ok line p (bt line p) ltac:(lia)) as (run & E2 & H0 & H1 & _). rewrite E2. cbn [lbind].
  destruct (run <? gen_ls_fence_min); [eexists; reflexivity|].
  destruct (N.eqb (bt line p) gen_ls_fence_noinfo); [|eexists; reflexivity].
  rewrite zsl_ok by lia. cbn [lbind]. destruct (0 <=? index_byte_z _ _); eexists; reflexivity.
Qed.

Lemma isFenceClose_ok line fc fl : exists b, isFenceClose line fc fl = LOk b.
Proof.
  unfold isFenceClose. destruct (indentWidth_ok line) as (w & p & E & Hw & Hp). rewrite E. cbn [lbind].
  destruct ((gen_ls_max_indent <? w) || (zlen line <=? p)) eqn:Eg; [eexists; reflexivity|].
  apply Bool.orb_false_iff in Eg. destruct Eg as [_ Eg]. apply Z.leb_gt in Eg.
  destruct (countRun_ok line p fc ltac:(lia)) as (run & E2 & H0 & H1 & _). rewrite E2. cbn [lbind].
  destruct (run <? fl); [eexists; reflexivity|]. rewrite zsl_ok by lia. cbn [lbind]. eexists; reflexivity.
Qed.

(* ---------------- bytes.IndexByte and the end of a line ---------------- *)

Lemma index_byte_z_spec c : forall s,
  (index_byte_z c s = -1 /\ forall k, 0 <= k < zlen s -> bt s k <> c)
  \/ (0 <= index_byte_z c s < zlen s /\ bt s (index_byte_z c s) = c /\ forall k, 0 <= k < index_byte_z c s -> bt s k <> c).
Proof.
  induction s as [|x s IH]; cbn [index_byte_z].
  - left. split; [reflexivity|]. intros k Hk. rewrite zlen_nil in Hk. lia.
  - destruct (N.eqb_spec x c) as [->|Hne].
    + right. rewrite zlen_cons. pose proof (zlen_nonneg s). split; [lia|]. split; [reflexivity|]. intros; lia.
    + assert (Hbt : forall k, 0 < k -> bt (x :: s) k = bt s (k - 1)).
      { intros k Hk. unfold bt. replace (Z.to_nat k) with (S (Z.to_nat (k - 1))) by lia. reflexivity. }
      destruct IH as [[E Hall]|(Hb & Hc & Hall)].
      * rewrite E. destruct (Z.ltb_spec (-1) 0); [|lia]. left. split; [reflexivity|]. intros k Hk. rewrite zlen_cons in Hk.
        destruct (Z.eq_dec k 0) as [->|]; [exact Hne|]. rewrite Hbt by lia. apply Hall. lia.
      * destruct (Z.ltb_spec (index_byte_z c s) 0); [lia|]. right. rewrite zlen_cons. split; [lia|]. split.
        -- rewrite Hbt by lia. replace (index_byte_z c s + 1 - 1) with (index_byte_z c s) by lia. exact Hc.
        -- intros k Hk. destruct (Z.eq_dec k 0) as [->|]; [exact Hne|]. rewrite Hbt by lia. apply Hall. lia.
Qed.

Lemma line_end_ok src ls : 0 <= ls <= zlen src ->
  exists le, line_end src ls = LOk le /\ ls <= le <= zlen src
    /\ (le < zlen src -> bt src le = b_nl) /\ (forall k, ls <= k < le -> bt src k <> b_nl).
Proof.
  intros H. unfold line_end. rewrite zsl_ok by lia. cbn [lbind].
  assert (Hl : zlen (sub src ls (zlen src)) = zlen src - ls) by (apply zlen_sub; lia).
  destruct (index_byte_z_spec b_nl (sub src ls (zlen src))) as [[E Hall]|(Hb & Hc & Hall)].
  - rewrite E. cbn [Z.eqb]. exists (zlen src). split; [reflexivity|]. split; [lia|]. split; [lia|].
    intros k Hk. specialize (Hall (k - ls) ltac:(lia)). rewrite bt_sub in Hall by lia.
    replace (ls + (k - ls)) with k in Hall by lia. exact Hall.
  - set (j := index_byte_z b_nl (sub src ls (zlen src))) in *.
    destruct (Z.eqb_spec j (-1)); [lia|]. exists (j + ls). split; [reflexivity|]. split; [lia|]. split.
    + intros _. rewrite bt_sub in Hc by lia. replace (j + ls) with (ls + j) by lia. exact Hc.
    + intros k Hk. specialize (Hall (k - ls) ltac:(lia)). rewrite bt_sub in Hall by lia.
      replace (ls + (k - ls)) with k in Hall by lia. exact Hall.
Qed.

Section WithDecide.
  Variable decide : bytes -> option bytes.

  (* ---------------- scanInlineLinks ---------------- *)

  Lemma scanInlineLinks_ok line ls src acc html : 0 <= ls ->
    exists st' tr, scanInlineLinks decide line ls src acc html = LOk (i_acc st', i_html st')
      /\ iruns decide line src ls (mkI 0 [] 0 html acc) tr st'.
  Proof.
    intros Hls. unfold scanInlineLinks. pose proof (zlen_nonneg line).
    destruct (inline_loop_runs decide line src ls Hls (S (length line)) (mkI 0 [] 0 html acc)) as (st' & tr & E & Hr);
      cbn [i_pos i_code]; [lia|lia|apply fuel_ok; lia|].
    rewrite E. cbn [lbind]. exists st', tr. split; [reflexivity|exact Hr].
  Qed.

  (* ---------------- one line ---------------- *)

  (* where a replacement of a reference definition comes from *)
  Definition refdef_origin (line src : bytes) (ls : Z) (r : repl) : Prop :=
    exists s e, 0 <= s /\ s < e /\ refdef_shape line s e
      /\ r_start r = ls + s /\ r_stop r = ls + e /\ ls + e <= zlen src
      /\ decide (sub src (ls + s) (ls + e)) = Some (r_text r).

  (* what one line does *)
  Definition line_post (src line : bytes) (ls : Z) (st st' : lstate) (cls : lclass) : Prop :=
    (l_inFence st = true -> cls = CFenceBody \/ cls = CFenceClose)
    /\ (cls = CFenceBody \/ cls = CFenceClose -> l_inFence st = true)
    /\ (cls = CFenceBody \/ cls = CFenceClose \/ cls = CFenceOpen \/ cls = CIndented -> l_acc st' = l_acc st /\ l_html st' = l_html st)
    /\ (cls = CFenceOpen \/ cls = CIndented \/ cls = CRefDef -> inHTML (l_html st) = false)
    /\ (cls = CRefDef -> l_html st' = l_html st
          /\ (l_acc st' = l_acc st \/ exists r, refdef_origin line src ls r /\ l_acc st' = l_acc st ++ [r]))
    /\ (cls = CInline -> exists tr sti, iruns decide line src ls (mkI 0 [] 0 (l_html st) (l_acc st)) tr sti
                                        /\ l_acc st' = i_acc sti /\ l_html st' = i_html sti).

  Ltac lp := unfold line_post; repeat split; intros;
    repeat match goal with H : _ \/ _ |- _ => destruct H end; try discriminate; try congruence; auto.

  Lemma line_step_ok src line ls st : 0 <= ls ->
    exists st' cls, line_step decide src line ls st = LOk (st', cls) /\ line_post src line ls st st' cls.
  Proof.
    intros Hls. unfold line_step. destruct (l_inFence st) eqn:Ef.
    { destruct (isFenceClose_ok line (l_fenceChar st) (l_fenceLen st)) as (b & E). rewrite E. cbn [lbind].
      destruct b; eexists _, _; (split; [reflexivity|]); lp. }
    assert (Hrest : forall blk, blk = None ->
      exists st' cls,
        match blk with
        | Some r => LOk r
        | None =>
          rd <- (if negb (inHTML (l_html st)) then parseReferenceDefinition line else LOk None) ;;
          match rd with
          | Some (start, stop) =>
            acc' <- appendReplacement decide (l_acc st) src (ls + start) (ls + stop) ;;
            LOk (mkL false (l_fenceChar st) (l_fenceLen st) (l_html st) acc', CRefDef)
          | None =>
            '(acc', h') <- scanInlineLinks decide line ls src (l_acc st) (l_html st) ;;
            LOk (mkL false (l_fenceChar st) (l_fenceLen st) h' acc', CInline)
          end
        end = LOk (st', cls) /\ line_post src line ls st st' cls).
    { intros blk ->.
      assert (Hinline : exists st' cls,
                ('(acc', h') <- scanInlineLinks decide line ls src (l_acc st) (l_html st) ;;
                 LOk (mkL false (l_fenceChar st) (l_fenceLen st) h' acc', CInline)) = LOk (st', cls)
                /\ line_post src line ls st st' cls).
      { destruct (scanInlineLinks_ok line ls src (l_acc st) (l_html st) Hls) as (sti & tr & E & Hr).
        rewrite E. cbn [lbind]. eexists _, _. split; [reflexivity|]. unfold line_post. rewrite Ef.
        split; [discriminate|]. split; [intros [H|H]; discriminate H|]. split; [intros [H|[H|[H|H]]]; discriminate H|].
        split; [intros [H|[H|H]]; discriminate H|]. split; [discriminate|]. intros _. exists tr, sti.
        split; [exact Hr|]. split; reflexivity. }
      destruct (inHTML (l_html st)) eqn:Eh; cbn [negb lbind]; [exact Hinline|].
      destruct (parseReferenceDefinition_ok line) as [E|(s & e & E & H1 & H2 & Hsh)]; rewrite E; cbn [lbind]; [exact Hinline|].
      destruct (appendReplacement_ok decide (l_acc st) src (ls + s) (ls + e)) as (acc' & Ea & Hacc). rewrite Ea. cbn [lbind].
      eexists _, _. split; [reflexivity|]. unfold line_post. rewrite Ef, Eh. cbn [l_acc l_html].
      split; [discriminate|]. split; [intros [H|H]; discriminate H|]. split; [intros [H|[H|[H|H]]]; discriminate H|].
      split; [reflexivity|]. split; [|discriminate]. intros _. split; [reflexivity|].
      destruct Hacc as [->|(t & Ha & Hb & Hc & Hd & ->)]; [left; reflexivity|]. right. exists (mkRepl (ls + s) (ls + e) t).
      split; [|reflexivity]. exists s, e. cbn [r_start r_stop r_text]. split; [lia|]. split; [lia|]. split; [exact Hsh|].
      split; [reflexivity|]. split; [reflexivity|]. split; [lia|exact Hd]. }
    destruct (inHTML (l_html st)) eqn:Eh; cbn [negb lbind]; [exact (Hrest None eq_refl)|].
    destruct (isFenceStart_ok line) as (fs & E). rewrite E. cbn [lbind]. destruct fs as [[fc fl]|]; cbn [lbind].
    { eexists _, _. split; [reflexivity|]. unfold line_post. rewrite Ef, Eh. cbn [l_acc l_html]. lp. }
    destruct (isIndentedCode_ok line) as (ic & E2). rewrite E2. cbn [lbind]. destruct ic; cbn [lbind].
    { eexists _, _. split; [reflexivity|]. unfold line_post. rewrite Ef, Eh. lp. }
    exact (Hrest None eq_refl).
  Qed.

  (* ---------------- the run of the loop over the lines ---------------- *)

  (* entries: lineStart, lineEnd, the state before the line, the class of the line *)
  Inductive lruns (src : bytes) : Z -> lstate -> list (Z * Z * lstate * lclass) -> lstate -> Prop :=
  | lr_end ls st : zlen src < ls -> lruns src ls st [] st
  | lr_step ls le st st' cls tr st'' : ls <= zlen src -> line_end src ls = LOk le ->
      line_step decide src (sub src ls le) ls st = LOk (st', cls) -> lruns src (le + 1) st' tr st'' ->
      lruns src ls st ((ls, le, st, cls) :: tr) st''.

  Lemma line_loop_runs src : forall fuel ls st, 0 <= ls -> (Z.to_nat (zlen src + 1 - ls) < fuel)%nat ->
    exists st' tr, line_loop decide fuel src ls st = LOk st' /\ lruns src ls st tr st'.
  Proof.
    induction fuel as [|fuel IH]; intros ls st Hls Hf; [lia|]. cbn [line_loop].
    destruct (Z.leb_spec ls (zlen src)) as [Hle|Hgt].
    - destruct (line_end_ok src ls ltac:(lia)) as (le & E & Hb & _). rewrite E. cbn [lbind].
      rewrite zsl_ok by lia. cbn [lbind].
      destruct (line_step_ok src (sub src ls le) ls st Hls) as (st1 & cls & E2 & _). rewrite E2. cbn [lbind fst].
      destruct (IH (le + 1) st1) as (st' & tr & E3 & Hr); [lia|lia|].
      exists st', ((ls, le, st, cls) :: tr). split; [exact E3|]. eapply lr_step; eassumption.
    - exists st, []. split; [reflexivity|]. apply lr_end. lia.
  Qed.

  (* where a replacement comes from, in terms of the run *)
  Definition origin_in_run (src : bytes) (tr : list (Z * Z * lstate * lclass)) (r : repl) : Prop :=
    exists ls le st cls, In (ls, le, st, cls) tr /\ ls <= r_start r /\ r_stop r <= le /\ l_inFence st = false
      /\ ((cls = CRefDef /\ inHTML (l_html st) = false /\ refdef_origin (sub src ls le) src ls r)
          \/ (cls = CInline
              /\ exists itr sti stk nxt,
                   iruns decide (sub src ls le) src ls (mkI 0 [] 0 (l_html st) (l_acc st)) itr sti
                   /\ In (stk, ILink, nxt) itr /\ in_code stk = false /\ inHTML (i_html stk) = false
                   /\ inline_origin decide (sub src ls le) src ls (i_pos stk) r /\ r_stop r < ls + nxt)).

  Lemma lruns_inv src : forall ls st tr st', lruns src ls st tr st' -> 0 <= ls ->
    exists added, l_acc st' = l_acc st ++ added
      /\ (forall p hi, chain_in p (l_acc st) hi -> hi <= ls -> hi <= zlen src -> chain_in p (l_acc st') (zlen src))
      /\ Forall (origin_in_run src tr) added
      /\ Forall (fun r => ls <= r_start r) added
      (* the lines are consecutive and cover the document *)
      /\ Forall (fun en => let '(a, b, stk, cls) := en in ls <= a /\ a <= b <= zlen src
                   /\ (b < zlen src -> bt src b = b_nl) /\ (forall k, a <= k < b -> bt src k <> b_nl)
                   /\ exists stk', line_post src (sub src a b) a stk stk' cls) tr.
  Proof.
    induction 1 as [ls st Hgt|ls le st st1 cls tr st' Hle E E2 Hr IH]; intros Hls.
    - exists []. rewrite app_nil_r. split; [reflexivity|]. split; [|split; [constructor|split; constructor]].
      intros p hi Hch H1 H2. eapply chain_in_mono; [exact Hch|lia].
    - destruct (line_end_ok src ls ltac:(lia)) as (le' & E' & Hb & Hnl & Hnonl). rewrite E in E'. injection E' as <-.
      destruct (line_step_ok src (sub src ls le) ls st Hls) as (st1' & cls' & E2' & Hpost).
      rewrite E2 in E2'. injection E2' as <- <-.
      destruct (IH ltac:(lia)) as (added & Eacc & Hchain & Horig & Hlow & Hseg).
      assert (Hlen : zlen (sub src ls le) = le - ls) by (apply zlen_sub; lia).
      assert (Hseg' : Forall (fun en => let '(a, b, stk, cls0) := en in ls <= a /\ a <= b <= zlen src
                   /\ (b < zlen src -> bt src b = b_nl) /\ (forall k, a <= k < b -> bt src k <> b_nl)
                   /\ exists stk', line_post src (sub src a b) a stk stk' cls0) ((ls, le, st, cls) :: tr)).
      { constructor; [split; [lia|]; split; [lia|]; split; [exact Hnl|]; split; [exact Hnonl|exists st1; exact Hpost]|].
        eapply Forall_impl; [|exact Hseg]. intros [[[a b] stk] c] (A & B & C). split; [lia|]. split; [exact B|exact C]. }
      assert (Hweak : forall r, origin_in_run src tr r -> origin_in_run src ((ls, le, st, cls) :: tr) r).
      { intros r (a & b & stk & c & Hin & R). exists a, b, stk, c. split; [right; exact Hin|exact R]. }
      destruct Hpost as (Pf & Pf' & Pskip & Phtml & Pref & Pin).
      assert (Hnofence : cls = CRefDef \/ cls = CInline -> l_inFence st = false).
      { intros Hc. destruct (l_inFence st) eqn:Ef; [|reflexivity]. destruct (Pf eq_refl) as [Hx|Hx]; rewrite Hx in Hc; destruct Hc; discriminate. }
      destruct (lclass_eq_dec cls CRefDef) as [->|Hnr].
      + destruct (Pref eq_refl) as (_ & [Hacc|(r & Ho & Hacc)]).
        * exists added. split; [rewrite Eacc, Hacc; reflexivity|]. split; [|split; [|split; [|exact Hseg']]].
          -- intros p hi Hch H1 H2. apply (Hchain p hi); [rewrite Hacc; exact Hch|lia|lia].
          -- eapply Forall_impl; [|exact Horig]. exact Hweak.
          -- eapply Forall_impl; [|exact Hlow]. intros r Hr0. cbn beta in *. lia.
        * destruct Ho as (s & e & H1 & H2 & Hsh & Hrs & Hre & Hsrc & Hd).
          assert (He : e <= le - ls).
          { destruct Hsh as (p0 & lb & _ & _ & _ & _ & _ & _ & Hds). destruct Hds as (p & _ & _ & _ & _ & Hds).
            destruct Hds as [Hds|Hds]; destruct Hds as (_ & _ & Hx & _); lia. }
          exists (r :: added). split; [rewrite Eacc, Hacc, <- app_assoc; reflexivity|].
          split; [|split; [|split; [|exact Hseg']]].
          -- intros p hi Hch Hh1 Hh2. apply (Hchain p (ls + e)); [|lia|lia]. rewrite Hacc.
             destruct r as [rs re rt]. cbn [r_start r_stop] in *. subst rs re.
             eapply chain_in_snoc; [exact Hch|lia|lia|lia].
          -- constructor.
             ++ exists ls, le, st, CRefDef. split; [left; reflexivity|]. split; [lia|]. split; [lia|].
                split; [apply Hnofence; left; reflexivity|]. left. split; [reflexivity|]. split; [apply Phtml; auto|].
                exists s, e. split; [lia|]. split; [lia|]. split; [exact Hsh|]. split; [exact Hrs|]. split; [exact Hre|]. split; [exact Hsrc|exact Hd].
             ++ eapply Forall_impl; [|exact Horig]. exact Hweak.
          -- constructor; [lia|]. eapply Forall_impl; [|exact Hlow]. intros r0 Hr0. cbn beta in *. lia.
      + destruct (lclass_eq_dec cls CInline) as [->|Hni].
        * destruct (Pin eq_refl) as (itr & sti & Hir & Hacc & _).
          destruct (iruns_inv decide (sub src ls le) src ls Hls _ _ _ Hir) as (iadded & Eia & Hich & Hiorig & Hilow & _);
            cbn [i_pos i_code]; [lia|lia|]. cbn [i_acc i_pos] in *.
          exists (iadded ++ added). split; [rewrite Eacc, Hacc, Eia, <- app_assoc; reflexivity|].
          split; [|split; [|split; [|exact Hseg']]].
          -- intros p hi Hch Hh1 Hh2. apply (Hchain p (ls + (le - ls))); [|lia|lia]. rewrite Hacc. rewrite <- Hlen.
             apply (Hich p hi); [exact Hch|lia].
          -- apply Forall_app. split; [|eapply Forall_impl; [|exact Horig]; exact Hweak].
             eapply Forall_impl; [|exact Hiorig]. intros r (stk & nxt & Hin & Hnc & Hnh & Ho & Hstop).
             assert (Hnx : nxt <= le - ls).
             { destruct (iruns_inv decide (sub src ls le) src ls Hls _ _ _ Hir) as (_ & _ & _ & _ & _ & Hsegs); cbn [i_pos i_code]; [lia|lia|].
               rewrite Forall_forall in Hsegs. specialize (Hsegs _ Hin). cbn in Hsegs. lia. }
             exists ls, le, st, CInline. split; [left; reflexivity|].
             destruct Ho as (s & e & Hi0 & Ho).
             assert (Hs : ls <= r_start r) by (destruct Ho as (? & ? & ? & ? & ? & ? & Hrs & ?); lia).
             split; [exact Hs|]. split; [lia|]. split; [apply Hnofence; right; reflexivity|]. right. split; [reflexivity|].
             exists itr, sti, stk, nxt. split; [exact Hir|]. split; [exact Hin|]. split; [exact Hnc|]. split; [exact Hnh|].
             split; [exists s, e; split; [exact Hi0|exact Ho]|exact Hstop].
          -- apply Forall_app. split; [eapply Forall_impl; [|exact Hilow]; intros r Hr0; cbn beta in *; lia|].
             eapply Forall_impl; [|exact Hlow]. intros r Hr0. cbn beta in *. lia.
        * assert (Hsk : l_acc st1 = l_acc st).
          { destruct cls; try congruence; apply Pskip; auto. }
          exists added. split; [rewrite Eacc, Hsk; reflexivity|]. split; [|split; [|split; [|exact Hseg']]].
          -- intros p hi Hch H1 H2. apply (Hchain p hi); [rewrite Hsk; exact Hch|lia|lia].
          -- eapply Forall_impl; [|exact Horig]. exact Hweak.
          -- eapply Forall_impl; [|exact Hlow]. intros r Hr0. cbn beta in *. lia.
  Qed.

  (* ---------------- collectReplacements ---------------- *)

  Theorem collect_runs src :
    exists st' tr, collectReplacements decide src = LOk (l_acc st') /\ lruns src 0 l_init tr st'.
  Proof.
    unfold collectReplacements.
    destruct (line_loop_runs src (S (S (length src))) 0 l_init ltac:(lia) ltac:(unfold zlen; lia)) as (st' & tr & E & Hr).
    rewrite E. cbn [lbind]. exists st', tr. split; [reflexivity|exact Hr].
  Qed.
End WithDecide.
