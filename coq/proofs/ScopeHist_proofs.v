(* C19 over histories of builds (model/ScopeHistM.v): the result of a build
   depends only on the contents of the embedder's maps at that build. *)
From Coq Require Import List NArith Bool Lia.
From Verif Require Import ScopeM Scope_proofs ScopeHistM.
Import ListNotations.
Open Scope N_scope.

(* ---- the Globals map ---- *)

Lemma glookup_gdel l x y : glookup (gdel l x) y = if N.eqb y x then None else glookup l y.
Proof.
  induction l as [|[k v] r IH]; cbn [gdel glookup]; [destruct (N.eqb y x); reflexivity|].
  destruct (N.eqb_spec k x) as [Ekx|Hkx].
  - subst k. rewrite IH. destruct (N.eqb_spec y x) as [Eyx|Hyx]; [reflexivity|].
    destruct (N.eqb_spec x y) as [Exy|_]; [congruence|reflexivity].
  - cbn [glookup]. rewrite IH. destruct (N.eqb_spec k y) as [Eky|Hky]; [|reflexivity].
    subst k. destruct (N.eqb_spec y x) as [Eyx|_]; [congruence|reflexivity].
Qed.

Lemma glookup_app l1 l2 y : glookup (l1 ++ l2) y = match glookup l1 y with Some v => Some v | None => glookup l2 y end.
Proof.
  induction l1 as [|[k v] r IH]; cbn [app glookup]; [reflexivity|]. destruct (N.eqb k y); [reflexivity|apply IH].
Qed.

Lemma glookup_gset l x id y : glookup (gset l x id) y = if N.eqb y x then Some id else glookup l y.
Proof.
  unfold gset. rewrite glookup_app, glookup_gdel. cbn [glookup].
  destruct (N.eqb_spec y x) as [Eyx|Hyx].
  - subst y. rewrite N.eqb_refl. reflexivity.
  - destruct (glookup l y); [reflexivity|]. destruct (N.eqb_spec x y) as [Exy|_]; [congruence|reflexivity].
Qed.

Lemma gdel_keys l x : ~ In x (map fst (gdel l x)).
Proof.
  induction l as [|[k v] r IH]; cbn [gdel map]; [intros []|].
  destruct (N.eqb_spec k x) as [->|Hkx]; [exact IH|]. cbn [map fst In]. intros [H|H]; [congruence|exact (IH H)].
Qed.

Lemma gdel_in l x k v : In (k, v) (gdel l x) -> In (k, v) l /\ k <> x.
Proof.
  induction l as [|[k0 v0] r IH]; cbn [gdel]; [intros []|].
  destruct (N.eqb_spec k0 x) as [->|Hkx].
  - intros H. destruct (IH H). split; [right; assumption|assumption].
  - cbn [In]. intros [H|H]; [injection H as -> ->; split; [left; reflexivity|exact Hkx]|].
    destruct (IH H). split; [right; assumption|assumption].
Qed.

Lemma gdel_nodup l x : NoDup (map fst l) -> NoDup (map fst (gdel l x)).
Proof.
  induction l as [|[k v] r IH]; cbn [gdel map]; [intros; constructor|]. intros H. inversion H as [|? ? Hn Hr]; subst.
  destruct (N.eqb k x); [apply IH, Hr|]. cbn [map fst]. constructor; [|apply IH, Hr].
  intros Hin. apply Hn. apply in_map_iff in Hin. destruct Hin as ([k' v'] & <- & Hin). apply gdel_in in Hin.
  apply in_map_iff. exists (k', v'). split; [reflexivity|tauto].
Qed.

(* the keys of the map stay distinct under the map operations *)
Lemma nodup_snoc (A : Type) (l : list A) (a : A) : NoDup l -> ~ In a l -> NoDup (l ++ [a]).
Proof.
  induction l as [|b r IH]; cbn [app]; intros Hn Hnot; [constructor; [intros []|constructor]|].
  inversion Hn as [|? ? Hb Hr]; subst. constructor.
  - intros Hin. apply in_app_or in Hin. destruct Hin as [Hin|[->|[]]]; [exact (Hb Hin)|]. apply Hnot. left. reflexivity.
  - apply IH; [exact Hr|]. intros Hin. apply Hnot. right. exact Hin.
Qed.

Lemma gset_nodup l x id : NoDup (map fst l) -> NoDup (map fst (gset l x id)).
Proof.
  intros H. unfold gset. rewrite map_app. cbn [map fst]. apply nodup_snoc; [apply gdel_nodup, H|apply gdel_keys].
Qed.

(* the global scope of the checker is the Globals map *)
Lemma lookup_global_map gl x :
  lookup (map (fun g : name * nid => (fst g, BNative (snd g) None)) gl) x =
  match glookup gl x with Some id => Some (BNative id None) | None => None end.
Proof.
  induction gl as [|[k v] r IH]; cbn [map lookup glookup fst snd]; [reflexivity|].
  destruct (N.eqb k x); [reflexivity|exact IH].
Qed.

(* ---- a build depends on the configuration only through the contents ---- *)

Definition scope_equiv (s1 s2 : scope) : Prop := forall x, lookup s1 x = lookup s2 x.

Definition cfg_equiv (c1 c2 : config) : Prop :=
  (forall p, c_importer c1 p = c_importer c2 p) /\
  (forall x, glookup (c_globals c1) x = glookup (c_globals c2) x) /\
  c_allow_go c1 = c_allow_go c2 /\ c_template c1 = c_template c2.

Lemma global_scope_equiv c1 c2 : cfg_equiv c1 c2 -> scope_equiv (global_scope c1) (global_scope c2).
Proof.
  intros (_ & Hg & _ & Ht) x. unfold global_scope. rewrite Ht. destruct (c_template c2); [|reflexivity].
  rewrite !lookup_global_map, Hg. reflexivity.
Qed.

Lemma resolve_ext locals file g1 g2 x : scope_equiv g1 g2 -> resolve locals file g1 x = resolve locals file g2 x.
Proof. intros H. unfold resolve. rewrite (H x). reflexivity. Qed.

Lemma check_ref_ext locals file g1 g2 r a : scope_equiv g1 g2 -> check_ref locals file g1 r a = check_ref locals file g2 r a.
Proof. intros H. unfold check_ref. destruct r as [x|p x]; rewrite (resolve_ext locals file g1 g2 _ H); reflexivity. Qed.

Lemma check_stmt_ext c1 c2 file g1 g2 : c_allow_go c1 = c_allow_go c2 -> scope_equiv g1 g2 ->
  forall s locals a, check_stmt c1 locals file g1 s a = check_stmt c2 locals file g2 s a.
Proof.
  intros Ha Hg. induction s as [r|r|r|x b IH] using stmt_ind2; intros locals a.
  - cbn [check_stmt]. apply check_ref_ext, Hg.
  - cbn [check_stmt]. rewrite (check_ref_ext locals file g1 g2 r a Hg), Ha. reflexivity.
  - cbn [check_stmt]. apply check_ref_ext, Hg.
  - rewrite !check_block. revert a. induction IH as [|s r Hs _ IHr]; intros a; cbn [check_stmts]; [reflexivity|].
    rewrite Hs. destruct (check_stmt c2 ((x, BLocal) :: locals) file g2 s a); [apply IHr|reflexivity].
Qed.

Lemma check_stmts_ext c1 c2 file g1 g2 : c_allow_go c1 = c_allow_go c2 -> scope_equiv g1 g2 ->
  forall l locals a, check_stmts c1 locals file g1 l a = check_stmts c2 locals file g2 l a.
Proof.
  intros Ha Hg. induction l as [|s r IH]; intros locals a; cbn [check_stmts]; [reflexivity|].
  rewrite (check_stmt_ext c1 c2 file g1 g2 Ha Hg). destruct (check_stmt c2 locals file g2 s a); [apply IH|reflexivity].
Qed.

Lemma check_imports_ext c1 c2 : (forall p, c_importer c1 p = c_importer c2 p) ->
  forall imps file asked, check_imports c1 imps file asked = check_imports c2 imps file asked.
Proof.
  intros Hi. induction imps as [|[form p] r IH]; intros file asked; cbn [check_imports]; [reflexivity|].
  rewrite Hi. destruct (c_importer c2 p) as [pkg| |]; [|reflexivity|reflexivity].
  destruct form as [|n| |].
  - destruct (lookup file (p_name pkg)); [reflexivity|apply IH].
  - destruct (lookup file n); [reflexivity|apply IH].
  - apply IH.
  - apply IH.
Qed.

Theorem check_ext c1 c2 g : cfg_equiv c1 c2 -> check c1 g = check c2 g.
Proof.
  intros H. pose proof (global_scope_equiv c1 c2 H) as Hg. destruct H as (Hi & _ & Ha & Ht).
  unfold check. rewrite (check_imports_ext c1 c2 Hi).
  destruct (check_imports c2 (g_imports g) [] []) as [[file0 asked]|]; [|reflexivity].
  rewrite (check_stmts_ext c1 c2 _ _ _ Ha Hg), Ht. reflexivity.
Qed.

(* ---- histories ---- *)

Definition build_result (b : hstate * bool * bool * prog) : outcome + error :=
  match b with (st, allow, template, g) => check (cfg_of st allow template) g end.

(* every build of a history returns what a single build returns on the maps as they are at its call *)
Theorem run_builds c st h : run c st h = map build_result (builds st h).
Proof.
  revert c st. induction h as [|ev r IH]; intros c st; cbn [run builds map]; [reflexivity|].
  destruct ev as [e|allow template g]; [apply IH|]. cbn [build build_result map]. rewrite IH. reflexivity.
Qed.

Definition state_equiv (s1 s2 : hstate) : Prop :=
  (forall p, combined (h_members s1) p = combined (h_members s2) p) /\
  (forall x, glookup (h_globals s1) x = glookup (h_globals s2) x).

Definition build_equiv (b1 b2 : hstate * bool * bool * prog) : Prop :=
  match b1, b2 with
  | (s1, a1, t1, g1), (s2, a2, t2, g2) => state_equiv s1 s2 /\ a1 = a2 /\ t1 = t2 /\ g1 = g2
  end.

Lemma build_result_ext b1 b2 : build_equiv b1 b2 -> build_result b1 = build_result b2.
Proof.
  destruct b1 as [[[s1 a1] t1] g1], b2 as [[[s2 a2] t2] g2]. intros ((Hm & Hg) & -> & -> & ->).
  cbn [build_result]. apply check_ext. repeat split; cbn; auto.
Qed.

(* two histories, whatever their earlier builds and edits: builds made on maps
   with the same contents give the same results *)
Theorem history_contents_only c1 c2 st1 st2 h1 h2 :
  Forall2 build_equiv (builds st1 h1) (builds st2 h2) -> run c1 st1 h1 = run c2 st2 h2.
Proof.
  intros H. rewrite !run_builds. induction H as [|b1 b2 l1 l2 Hb _ IH]; cbn [map]; [reflexivity|].
  rewrite (build_result_ext b1 b2 Hb), IH. reflexivity.
Qed.

(* in particular the builds that came before do not matter *)
Corollary earlier_builds_do_not_matter c st pre allow template g :
  let st' := fold_left (fun s ev => match ev with EvEdit e => apply_edit s e | EvBuild _ _ _ => s end) pre st in
  nth_error (run c st (pre ++ [EvBuild allow template g])) (length (builds st pre)) =
  Some (check (cfg_of st' allow template) g).
Proof.
  cbn zeta. revert c st. induction pre as [|ev r IH]; intros c st.
  - cbn. reflexivity.
  - destruct ev as [e|a t g0]; cbn [app run builds fold_left build length nth_error]; apply IH.
Qed.

(* confinement holds for every build of every history, with respect to the maps at its call *)
Definition confined (b : hstate * bool * bool * prog) (r : outcome + error) : Prop :=
  match b with
  | (st, allow, template, g) =>
    forall o, r = inl o ->
      (o_asked o = map snd (g_imports g) /\
       Forall (fun ip => exists pkg, combined (h_members st) (snd ip) = APkg pkg) (g_imports g)) /\
      (has_go (g_body g) = true -> allow = true) /\
      Forall (supplied (cfg_of st allow template) g) (o_natives o)
  end.

Theorem history_confined c st h : Forall2 confined (builds st h) (run c st h).
Proof.
  rewrite run_builds. induction (builds st h) as [|b r IH]; cbn [map]; constructor; [|exact IH].
  destruct b as [[[s a] t] g]. cbn [confined build_result]. intros o Ho.
  split; [exact (imports_from_importer _ g o Ho)|].
  split; [exact (go_needs_option _ g o Ho)|exact (natives_closed _ g o Ho)].
Qed.

(* a global withdrawn from the map is not in the global scope of the next build;
   a global whose value was replaced resolves to the new value *)
Lemma withdrawn_global st x allow template :
  lookup (global_scope (cfg_of (apply_edit st (EdGlobalDel x)) allow template)) x = None.
Proof.
  unfold global_scope. cbn [cfg_of apply_edit c_template c_globals h_globals]. destruct template; [|reflexivity].
  rewrite lookup_global_map, glookup_gdel, N.eqb_refl. reflexivity.
Qed.

Lemma replaced_global st x id allow :
  lookup (global_scope (cfg_of (apply_edit st (EdGlobalSet x id)) allow true)) x = Some (BNative id None).
Proof.
  unfold global_scope. cbn [cfg_of apply_edit c_template c_globals h_globals].
  rewrite lookup_global_map, glookup_gset, N.eqb_refl. reflexivity.
Qed.

(* the number of entries of the map says nothing: delete + add keeps it *)
Lemma delete_add_same_length l x y id : In x (map fst l) -> NoDup (map fst l) -> ~ In y (map fst l) ->
  length (gset (gdel l x) y id) = length l.
Proof.
  intros Hx Hn Hy. unfold gset. rewrite app_length. cbn [length].
  assert (Hd : forall l, ~ In y (map fst l) -> gdel l y = l).
  { induction l0 as [|[k v] r IH]; cbn [gdel map fst In]; [reflexivity|]. intros H.
    destruct (N.eqb_spec k y) as [->|_]; [exfalso; apply H; left; reflexivity|]. rewrite IH; [reflexivity|tauto]. }
  rewrite Hd.
  - clear Hy Hd. induction l as [|[k v] r IH]; cbn [gdel map fst In length] in *; [destruct Hx|].
    inversion Hn as [|? ? Hk Hr]; subst. destruct (N.eqb_spec k x) as [->|Hkx].
    + assert (Hd : forall l, ~ In x (map fst l) -> gdel l x = l).
      { induction l as [|[k' v'] r' IH']; cbn [gdel map fst In]; [reflexivity|]. intros H.
        destruct (N.eqb_spec k' x) as [->|_]; [exfalso; apply H; left; reflexivity|]. rewrite IH'; [reflexivity|tauto]. }
      rewrite (Hd r Hk). lia.
    + cbn [length]. destruct Hx as [Hx|Hx]; [congruence|]. specialize (IH Hx Hr). lia.
  - intros Hin. apply Hy. apply in_map_iff in Hin. destruct Hin as ([k v] & <- & Hin). apply gdel_in in Hin.
    apply in_map_iff. exists (k, v). tauto.
Qed.
