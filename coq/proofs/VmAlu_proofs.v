(* Lifting the ALU theorems (Alu_proofs.v) to machine states: one vm_step of
   an arithmetic, comparison or conversion instruction selected by the
   builder, from a state whose operand registers hold canonical values,
   writes the canonical form of the Go result into the destination register
   (or panics with a division by zero exactly when Go does). *)
From Coq Require Import FMapPositive.
From Verif Require Import GoInt GoBits Facts_alu Facts_limits VmBase Facts_vmexec AluM Alu_proofs VmExecM MiniGoSem.
Open Scope Z_scope.

Arguments wrap : simpl never.
Arguments canon : simpl never.

(* the eleven operator theorems of Alu_proofs.v as one *)
Lemma vm_binop_correct op k t x y g :
  kind_ity k = Some t -> in_range t x -> (if is_shift op then in_range U64 y else in_range t y) ->
  vm_binop op k x y g = Some (omap canon (bin op t x y)).
Proof.
  intros Hk Hx Hy. destruct op; cbn [is_shift] in Hy.
  - exact (vm_add_correct k t x y g Hk Hx Hy).
  - exact (vm_sub_correct k t x y g Hk Hx Hy).
  - exact (vm_mul_correct k t x y g Hk Hx Hy).
  - exact (vm_quo_correct k t x y g Hk Hx Hy).
  - exact (vm_rem_correct k t x y g Hk Hx Hy).
  - exact (vm_and_correct k t x y g Hk Hx Hy).
  - exact (vm_or_correct k t x y g Hk Hx Hy).
  - exact (vm_xor_correct k t x y g Hk Hx Hy).
  - exact (vm_andnot_correct k t x y g Hk Hx Hy).
  - exact (vm_shl_correct k t x y g Hk Hx Hy).
  - exact (vm_shr_correct k t x y g Hk Hx Hy).
Qed.

(* ---- register files ---- *)

Lemma rf_key_inj a b : 0 <= a -> 0 <= b -> rf_key a = rf_key b -> a = b.
Proof. unfold rf_key. intros Ha Hb H. apply Z2Pos.inj in H; lia. Qed.

Lemma rf_gss {A} (d : A) m a v : rf_get d (rf_set m a v) a = v.
Proof. unfold rf_get, rf_set. rewrite PositiveMap.gss. reflexivity. Qed.

(* a write at a non-negative address b leaves every other address alone *)
Lemma rf_gso {A} (d : A) m a b v : a <> b -> 0 <= b -> (0 <= a \/ 1 <= b) -> rf_get d (rf_set m b v) a = rf_get d m a.
Proof.
  intros Hne Hb Ha. unfold rf_get, rf_set. rewrite PositiveMap.gso; [reflexivity|].
  unfold rf_key. intros H.
  destruct (Z_lt_ge_dec a 0) as [Hneg|Hpos].
  - (* a < 0: its key is 1, the key of b >= 1 is at least 2 *)
    assert (Hb1 : 1 <= b) by lia.
    assert (Ha1 : Z.to_pos (a + 1) = 1%positive) by (destruct (a + 1) eqn:E; try reflexivity; lia).
    rewrite Ha1 in H.
    assert (2 <= Z.pos (Z.to_pos (b + 1))) by (rewrite Z2Pos.id; lia).
    rewrite <- H in H0. lia.
  - apply Z2Pos.inj in H; lia.
Qed.

(* ---- valid registers ---- *)

(* r is a directly addressed int register of the current frame, inside the stack *)
Definition valid_ireg (s : state) (r : Z) : Prop := 0 < r /\ q0 (s_fp s) + r < q0 (s_st s).

Definition upd_int (s : state) (r v : Z) : state := set_int_rf s (rf_set (s_int s) (q0 (s_fp s) + r) v).

Lemma rd_int_ok s r : valid_ireg s r -> rd_int s r = XOk (rf_get 0 (s_int s) (q0 (s_fp s) + r)).
Proof.
  intros [H1 H2]. unfold rd_int.
  destruct (Z.ltb_spec 0 r); [|lia]. destruct (Z.ltb_spec (q0 (s_fp s) + r) (q0 (s_st s))); [reflexivity|lia].
Qed.

Lemma rd_int_valid s r v : rd_int s r = XOk v -> valid_ireg s r.
Proof.
  unfold rd_int, valid_ireg. destruct (Z.ltb_spec 0 r); [|discriminate].
  destruct (Z.ltb_spec (q0 (s_fp s) + r) (q0 (s_st s))); [intros _; lia|discriminate].
Qed.

Lemma wr_int_ok s r v : valid_ireg s r -> wr_int s r v = XOk (upd_int s r v).
Proof.
  intros [H1 H2]. unfold wr_int, upd_int.
  destruct (Z.ltb_spec 0 r); [|lia]. destruct (Z.ltb_spec (q0 (s_fp s) + r) (q0 (s_st s))); [reflexivity|lia].
Qed.

Lemma rd_opt_ok s r k v : rd_intk s r k = XOk v -> rd_opt s r k = Some v.
Proof. unfold rd_opt. intros ->. reflexivity. Qed.

(* reading back after a write *)
Lemma rd_upd_same s r v : valid_ireg s r -> rd_int (upd_int s r v) r = XOk v.
Proof.
  intros H. rewrite rd_int_ok by exact H. unfold upd_int. cbn. rewrite rf_gss. reflexivity.
Qed.

(* ---- fetch ---- *)

Lemma vm_step_fetch p s f i :
  cur_func p s = Some f -> nthZ (f_body f) (s_pc s) = Some i ->
  vm_step p s = exec_instr p f (set_pc s (s_pc s + 1)) i.
Proof. intros Hf Hi. unfold vm_step. rewrite Hf, Hi. reflexivity. Qed.

(* the state after the fetch increment has the same registers *)
Lemma valid_ireg_set_pc s pc r : valid_ireg (set_pc s pc) r <-> valid_ireg s r.
Proof. unfold valid_ireg. cbn. tauto. Qed.
Lemma rd_int_set_pc s pc r : rd_int (set_pc s pc) r = rd_int s r.
Proof. reflexivity. Qed.
Lemma rd_intk_set_pc s pc r k : rd_intk (set_pc s pc) r k = rd_intk s r k.
Proof. reflexivity. Qed.

(* ---- the selected instructions ---- *)

Lemma bin_none_divide op t x y : bin op t x y = None -> op = Quo \/ op = Rem.
Proof. destruct op; cbn; try discriminate; auto. Qed.

(* the result of an operator stays in the range of the type *)
Lemma bin_in_range op t x y v :
  in_range t x -> (if is_shift op then in_range U64 y else in_range t y) ->
  bin op t x y = Some v -> in_range t v.
Proof.
  intros Hx Hy H. destruct op; cbn [bin is_shift] in *;
    try (injection H as <-; apply wrap_range).
  - destruct (y =? 0); [discriminate|]. injection H as <-. apply wrap_range.
  - destruct (y =? 0); [discriminate|]. injection H as <-. apply wrap_range.
  - injection H as <-. destruct (bits t <=? y).
    + unfold in_range, tmin, tmax. destruct (signed t); cbn; pose proof (bits_pos t);
        pose proof (pow2_pos (bits t - 1) ltac:(lia)); pose proof (pow2_pos (bits t) ltac:(lia)); lia.
    + apply wrap_range.
  - injection H as <-.
    assert (H0 : 0 <= y) by (unfold in_range, tmin in Hy; cbn in Hy; lia).
    destruct (Z.leb_spec (bits t) y).
    + rewrite <- (shr_big t x y Hx H). apply shr_range; assumption.
    + apply shr_range; assumption.
Qed.

(* opcodes of the selection tables are arithmetic opcodes of the step function *)
Ltac table_entry H :=
  match type of H with zassoc ?tbl ?k = Some _ => vm_compute in H; injection H as <- <- end.

(* for a register-form entry (A is the register of x) the term ignores operand A as a
   kind and the register c; for a kind-form entry it ignores the register a *)
Lemma gen_alu_forms op k t opc a :
  kind_ity k = Some t -> zassoc (select_tbl op) k = Some (opc, a) ->
  is_alu_op opc = true /\ 0 < opc /\
  (if a =? gen_select_reg_x
   then forall k1 k2 ra rb rc1 rc2, gen_alu opc k1 ra rb rc1 = gen_alu opc k2 ra rb rc2
   else forall ra1 ra2 rb rc, gen_alu opc a ra1 rb rc = gen_alu opc a ra2 rb rc).
Proof.
  intros Hk H. unfold select_tbl in H.
  destruct op; kinds Hk; table_entry H; (split; [reflexivity|split; [reflexivity|]]);
    (match goal with |- if ?c then _ else _ => let b := eval vm_compute in c in change c with b end);
    cbv iota; intros; reflexivity.
Qed.

(* which operands a division reads: used only on the division-by-zero path *)
Lemma alu_reads_div op k t opc a :
  kind_ity k = Some t -> (op = Quo \/ op = Rem) -> zassoc (select_tbl op) k = Some (opc, a) ->
  ((a =? gen_select_reg_x) = false /\ alu_reads opc a = (false, true, true)) \/
  (a = gen_select_reg_x /\ forall r, alu_reads opc r = (true, true, false)).
Proof.
  intros Hk Hop H. unfold select_tbl in H.
  destruct Hop as [-> | ->]; kinds Hk; table_entry H;
    first [left; split; vm_compute; reflexivity | right; split; [reflexivity|intros r; reflexivity]].
Qed.

Lemma need_ok s u r k v : rd_intk s r k = XOk v -> need s u r k = XOk tt.
Proof. intros H. unfold need. destruct u; [rewrite H|]; reflexivity. Qed.
Lemma need_unused s r k : need s false r k = XOk tt.
Proof. reflexivity. Qed.

(* The heart of alu_step_sound: x op y as the builder emits it.  The operand y
   is register b (or the immediate b when the operation is negative); for a
   register-form entry x is register a, for a kind-form entry A is the
   flattened kind and x is the destination register c (the z == x convention). *)
Lemma step_alu_binop op k t x y s i opc a :
  kind_ity k = Some t -> in_range t x -> (if is_shift op then in_range U64 y else in_range t y) ->
  zassoc (select_tbl op) k = Some (opc, a) ->
  rd_intk s (i_b i) (kneg i) = XOk (canon y) ->
  (if a =? gen_select_reg_x then rd_int s (i_a i) = XOk (canon x)
   else i_a i = a /\ rd_int s (i_c i) = XOk (canon x)) ->
  valid_ireg s (i_c i) ->
  step_alu s i opc =
    match bin op t x y with
    | Some v => XOk (upd_int s (i_c i) (canon v))
    | None => XPanic PDivide
    end.
Proof.
  intros Hk Hx Hy Htbl Hb Hplace Hc.
  pose proof (fun g => vm_binop_correct op k t x y g Hk Hx Hy) as Halu.
  destruct (gen_alu_forms op k t opc a Hk Htbl) as (_ & _ & Hform).
  unfold step_alu.
  rewrite (rd_opt_ok _ _ _ _ Hb).
  assert (Hgen : gen_alu opc (i_a i) (rd_opt s (i_a i) false) (Some (canon y)) (rd_opt s (i_c i) false)
                 = Some (omap canon (bin op t x y))).
  { unfold vm_binop in Halu. rewrite Htbl in Halu.
    destruct (a =? gen_select_reg_x) eqn:Ea.
    - rewrite (rd_opt_ok s (i_a i) false (canon x)) by exact Hplace.
      rewrite (Hform (i_a i) a _ _ (rd_opt s (i_c i) false) (Some 0)). apply (Halu 0).
    - destruct Hplace as [Ha Hcx]. rewrite Ha.
      rewrite (rd_opt_ok s (i_c i) false (canon x)) by exact Hcx.
      rewrite (Hform (rd_opt s a false) (Some 0)). apply (Halu 0). }
  rewrite Hgen. destruct (bin op t x y) as [v|] eqn:Ebin; cbn [omap].
  - apply wr_int_ok, Hc.
  - (* a division by zero: the operands the term reads are readable *)
    destruct (alu_reads_div op k t opc a Hk (bin_none_divide _ _ _ _ Ebin) Htbl) as [[Ea Hr]|[Ha Hr]].
    + rewrite Ea in Hplace. destruct Hplace as [Hai Hcx]. rewrite Hai, Hr.
      rewrite need_unused. cbn [xbind]. rewrite (need_ok _ _ _ _ _ Hb). cbn [xbind].
      rewrite (need_ok s true (i_c i) false (canon x)) by exact Hcx. reflexivity.
    + subst a. cbn [Z.eqb Pos.eqb gen_select_reg_x] in Hplace. rewrite (Hr (i_a i)).
      rewrite (need_ok s true (i_a i) false (canon x)) by exact Hplace. cbn [xbind].
      rewrite (need_ok _ _ _ _ _ Hb). cbn [xbind]. reflexivity.
Qed.

(* ---- one step of the machine ---- *)

Lemma select_has_neg op k t opc a :
  kind_ity k = Some t -> zassoc (select_tbl op) k = Some (opc, a) ->
  existsb (Z.eqb opc) gen_x_neg_ops = true.
Proof.
  intros Hk H. unfold select_tbl in H. destruct op; kinds Hk; table_entry H; reflexivity.
Qed.

Lemma exec_instr_alu p f s i opc :
  is_alu_op opc = true -> 0 < opc -> existsb (Z.eqb opc) gen_x_neg_ops = true ->
  (i_op i = opc \/ i_op i = - opc) ->
  exec_instr p f s i = of_xres s (step_alu s i opc).
Proof.
  intros Halu Hpos Hneg Hop. unfold exec_instr.
  assert (Habs : Z.abs (i_op i) = opc) by (destruct Hop as [-> | ->]; lia).
  rewrite Habs, Hneg, Halu. cbn [negb]. rewrite andb_false_r. reflexivity.
Qed.

(* alu_step_sound: the instruction the builder selects for x op y at kind k
   (generated selection table), executed by one step of the machine from a
   state whose operand registers hold the canonical forms of x and y, leaves
   the canonical form of Go's x op y in the destination register and changes
   nothing else but the pc; it panics with a division by zero exactly when Go
   does. *)
Theorem alu_step_sound p s f i op k t x y opc a :
  kind_ity k = Some t -> in_range t x -> (if is_shift op then in_range U64 y else in_range t y) ->
  zassoc (select_tbl op) k = Some (opc, a) ->
  cur_func p s = Some f -> nthZ (f_body f) (s_pc s) = Some i ->
  (i_op i = opc \/ i_op i = - opc) ->
  rd_intk s (i_b i) (kneg i) = XOk (canon y) ->
  (if a =? gen_select_reg_x then rd_int s (i_a i) = XOk (canon x)
   else i_a i = a /\ rd_int s (i_c i) = XOk (canon x)) ->
  valid_ireg s (i_c i) ->
  vm_step p s =
    match bin op t x y with
    | Some v => SNext (upd_int (set_pc s (s_pc s + 1)) (i_c i) (canon v))
    | None => SPanic PDivide (set_pc s (s_pc s + 1))
    end.
Proof.
  intros Hk Hx Hy Htbl Hf Hi Hop Hb Hplace Hc.
  rewrite (vm_step_fetch p s f i Hf Hi).
  destruct (gen_alu_forms op k t opc a Hk Htbl) as (Halu & Hpos & _).
  rewrite (exec_instr_alu p f _ i opc Halu Hpos (select_has_neg op k t opc a Hk Htbl) Hop).
  rewrite (step_alu_binop op k t x y (set_pc s (s_pc s + 1)) i opc a Hk Hx Hy Htbl);
    [destruct (bin op t x y); reflexivity | exact Hb | exact Hplace | apply valid_ireg_set_pc, Hc].
Qed.

(* the destination holds the canonical value afterwards, and the value is in range *)
Corollary alu_step_result s r v : valid_ireg s r -> rd_int (upd_int s r (canon v)) r = XOk (canon v).
Proof. apply rd_upd_same. Qed.

(* ---- unary minus: emitNeg ---- *)

Lemma neg_entry k t opc a :
  kind_ity k = Some t -> zassoc gen_select_Neg k = Some (opc, a) ->
  opc = gen_OpNeg /\ forall ra1 ra2 rb rc1 rc2, gen_alu opc a ra1 rb rc1 = gen_alu opc a ra2 rb rc2.
Proof.
  intros Hk H. kinds Hk; table_entry H; (split; [reflexivity|intros; reflexivity]).
Qed.

Theorem neg_step_sound p s f i k t y opc a :
  kind_ity k = Some t -> in_range t y -> zassoc gen_select_Neg k = Some (opc, a) ->
  cur_func p s = Some f -> nthZ (f_body f) (s_pc s) = Some i ->
  i_op i = opc -> i_a i = a -> rd_int s (i_b i) = XOk (canon y) -> valid_ireg s (i_c i) ->
  vm_step p s = SNext (upd_int (set_pc s (s_pc s + 1)) (i_c i) (canon (un Neg t y))).
Proof.
  intros Hk Hy Htbl Hf Hi Hop Ha Hb Hc.
  rewrite (vm_step_fetch p s f i Hf Hi).
  destruct (neg_entry k t opc a Hk Htbl) as [-> Hform].
  unfold exec_instr. rewrite Hop. change (Z.abs gen_OpNeg) with gen_OpNeg.
  change (gen_OpNeg <? 0) with false. cbn [andb].
  change (is_alu_op gen_OpNeg) with true. cbv iota.
  unfold step_alu. rewrite Ha.
  assert (Hk' : kneg i = false) by (unfold kneg; rewrite Hop; reflexivity).
  rewrite Hk'. cbn [rd_intk] in *.
  rewrite (rd_opt_ok (set_pc s (s_pc s + 1)) (i_b i) false (canon y)) by exact Hb.
  pose proof (vm_neg_correct k t y 0 Hk Hy) as Hn. unfold vm_neg in Hn. rewrite Htbl in Hn.
  rewrite (Hform _ (Some 0) _ _ (Some 0)), Hn.
  rewrite wr_int_ok by (apply valid_ireg_set_pc, Hc). reflexivity.
Qed.

(* ---- conversions between integer types: emitConvert ---- *)

Theorem convert_step_sound p s f i ks ts kd td x opc :
  kind_ity ks = Some ts -> kind_ity kd = Some td -> in_range ts x ->
  zassoc gen_select_Convert ks = Some opc ->
  cur_func p s = Some f -> nthZ (f_body f) (s_pc s) = Some i ->
  i_op i = opc -> nthZ (f_types f) (u8 (i_b i)) = Some kd ->
  rd_int s (i_a i) = XOk (canon x) -> valid_ireg s (i_c i) ->
  vm_step p s = SNext (upd_int (set_pc s (s_pc s + 1)) (i_c i) (canon (wrap td x))).
Proof.
  intros Hs Hd Hx Htbl Hf Hi Hop Hty Ha Hc.
  rewrite (vm_step_fetch p s f i Hf Hi).
  pose proof (vm_convert_correct ks ts kd td x Hs Hd Hx) as Hv. unfold vm_convert in Hv. rewrite Htbl in Hv.
  assert (Hopc : opc = gen_OpConvertInt \/ opc = gen_OpConvertUint).
  { clear - Hs Htbl. kinds Hs; vm_compute in Htbl; injection Htbl as <-; auto. }
  unfold exec_instr. rewrite Hop.
  destruct Hopc as [-> | ->].
  - change (Z.abs gen_OpConvertInt) with gen_OpConvertInt. change (gen_OpConvertInt <? 0) with false. cbn [andb].
    change (is_alu_op gen_OpConvertInt) with false. change (gen_OpConvertInt =? gen_OpConvertInt) with true. cbn [orb]. cbv iota.
    unfold step_convert. rewrite Hty. rewrite rd_int_set_pc, Ha. cbn [xbind].
    change (gen_OpConvertInt =? gen_OpConvertInt) with true in *. cbv iota in *. rewrite Hv.
    rewrite wr_int_ok by (apply valid_ireg_set_pc, Hc). reflexivity.
  - change (Z.abs gen_OpConvertUint) with gen_OpConvertUint. change (gen_OpConvertUint <? 0) with false. cbn [andb].
    change (is_alu_op gen_OpConvertUint) with false. change (gen_OpConvertUint =? gen_OpConvertInt) with false.
    change (gen_OpConvertUint =? gen_OpConvertUint) with true. cbn [orb]. cbv iota.
    unfold step_convert. rewrite Hty. rewrite rd_int_set_pc, Ha. cbn [xbind].
    change (gen_OpConvertUint =? gen_OpConvertInt) with false in *. change (gen_OpConvertUint =? gen_OpConvertUint) with true in *.
    cbv iota in *. rewrite Hv.
    rewrite wr_int_ok by (apply valid_ireg_set_pc, Hc). reflexivity.
Qed.

(* ---- comparisons used as conditions: emitComparison + OpIfInt ---- *)

Theorem cmp_step_sound p s f i c k t x y cnd :
  kind_ity k = Some t -> in_range t x -> in_range t y ->
  zassoc (select_cmp_tbl c) k = Some cnd ->
  cur_func p s = Some f -> nthZ (f_body f) (s_pc s) = Some i ->
  (i_op i = gen_OpIfInt \/ i_op i = - gen_OpIfInt) -> i_b i = cnd ->
  rd_int s (i_a i) = XOk (canon x) -> rd_intk s (i_c i) (kneg i) = XOk (canon y) ->
  vm_step p s = SNext (set_pc s (if cmp c x y then s_pc s + 2 else s_pc s + 1)).
Proof.
  intros Hk Hx Hy Htbl Hf Hi Hop Hb Ha Hc.
  rewrite (vm_step_fetch p s f i Hf Hi).
  pose proof (vm_cmp_correct c k t x y Hk Hx Hy) as Hv. unfold vm_cmp in Hv. rewrite Htbl in Hv.
  unfold exec_instr.
  assert (Habs : Z.abs (i_op i) = gen_OpIfInt) by (destruct Hop as [-> | ->]; reflexivity).
  rewrite Habs.
  change (existsb (Z.eqb gen_OpIfInt) gen_x_neg_ops) with true. cbn [negb]. rewrite andb_false_r.
  change (is_alu_op gen_OpIfInt) with false.
  change ((gen_OpIfInt =? gen_OpConvertInt) || (gen_OpIfInt =? gen_OpConvertUint)) with false.
  change (gen_OpIfInt =? gen_OpMove) with false. change (gen_OpIfInt =? gen_OpIfInt) with true. cbv iota.
  unfold step_ifint. rewrite Hb.
  rewrite (rd_opt_ok (set_pc s (s_pc s + 1)) (i_a i) false (canon x)) by exact Ha.
  rewrite (rd_opt_ok (set_pc s (s_pc s + 1)) (i_c i) (kneg i) (canon y)) by exact Hc.
  rewrite Hv. destruct (cmp c x y); cbn [of_xres set_pc s_pc]; f_equal.
  unfold set_pc; cbn. f_equal. lia.
Qed.
