(* C13, the show functions that issue several Write calls: each of the
   programs of WriteProgM (with its own handling of the err variable) is equal
   to the early-exit run of its list of Write calls, which is how RendererM /
   TCalcM run a show function given as data (sv_chunks, sv_err); hence a
   failing k-th Write is the last one and its error is what is returned. *)
From Coq Require Import List NArith Bool Lia.
From Verif Require Import Bytes Facts_render RendererM Renderer_proofs TCalcM TCalc_proofs EscapersM ShowLeavesM WriteProgM.
Import ListNotations.
Open Scope N_scope.

(* ---------------------------------------------------------------- on_ok, write_all *)

Lemma on_ok_assoc st k1 k2 :
  on_ok (on_ok st k1) k2 = on_ok st (fun ws => on_ok (k1 ws) k2).
Proof. destruct st as [ws [|e|]]; reflexivity. Qed.

Lemma on_ok_ok ws k : on_ok (ws, ROk) k = k ws.
Proof. reflexivity. Qed.

Lemma write_all_nil w ws : write_all [] w ws = (ws, ROk).
Proof. reflexivity. Qed.

Lemma write_all_cons c cs w ws :
  write_all (c :: cs) w ws = on_ok (wr_res c w ws) (fun ws1 => write_all cs w ws1).
Proof.
  unfold write_all, wr_res. cbn [map run_script]. destruct (wr w ws c) as [ws' [e|]]; reflexivity.
Qed.

Lemma write_all_one c w ws : write_all [c] w ws = wr_res c w ws.
Proof.
  rewrite write_all_cons. unfold wr_res. destruct (wr w ws c) as [ws' [e|]]; reflexivity.
Qed.

Lemma write_all_app a b w : forall ws,
  write_all (a ++ b) w ws = on_ok (write_all a w ws) (fun ws1 => write_all b w ws1).
Proof.
  induction a as [|c a IH]; intros ws; cbn [app].
  - reflexivity.
  - rewrite !write_all_cons, on_ok_assoc. unfold wr_res. destruct (wr w ws c) as [ws' [e|]]; cbn [on_ok]; [reflexivity|apply IH].
Qed.

Lemma write_all_not_fault cs w : forall ws, snd (write_all cs w ws) <> RFault.
Proof.
  induction cs as [|c cs IH]; intros ws; [discriminate|].
  rewrite write_all_cons. unfold wr_res. destruct (wr w ws c) as [ws' [e|]]; cbn [on_ok snd]; [discriminate|apply IH].
Qed.

(* ---------------------------------------------------------------- run_shown *)

Lemma run_shown_none cs w ws : run_shown (cs, None) w ws = write_all cs w ws.
Proof.
  unfold run_shown, write_all. cbn [fst snd].
  destruct (run_script w ws (map AWrite cs)) as [ws' [|e|]]; reflexivity.
Qed.

Lemma run_shown_app a b e w ws :
  run_shown (a ++ b, e) w ws = on_ok (write_all a w ws) (fun ws1 => run_shown (b, e) w ws1).
Proof.
  unfold run_shown. cbn [fst snd]. fold (write_all (a ++ b) w ws). rewrite write_all_app.
  destruct (write_all a w ws) as [ws1 [|e1|]]; cbn [on_ok]; reflexivity.
Qed.

Lemma run_shown_cons c cs e w ws :
  run_shown (c :: cs, e) w ws = on_ok (wr_res c w ws) (fun ws1 => run_shown (cs, e) w ws1).
Proof.
  change (c :: cs) with ([c] ++ cs). rewrite run_shown_app, write_all_one. reflexivity.
Qed.

(* a show function that ends with an error of its own never returns nil *)
Lemma run_shown_some_not_ok cs e w ws : snd (run_shown (cs, Some e) w ws) <> ROk.
Proof.
  unfold run_shown. cbn [fst snd].
  destruct (run_script w ws (map AWrite cs)) as [ws' [|e1|]]; cbn [snd]; discriminate.
Qed.

Lemma on_ok_not_ok st k : snd st <> ROk -> on_ok st k = st.
Proof. destruct st as [ws [|e|]]; cbn [snd on_ok]; [congruence|reflexivity|reflexivity]. Qed.

(* ---------------------------------------------------------------- the base64 encoder and escapeBytes *)

Lemma b64_blocks_fuel fuel : forall p, (length p <= fuel)%nat -> b64_blocks fuel p <> None.
Proof.
  induction fuel as [|f IH]; intros p Hl.
  - destruct p; [|simpl in Hl; lia]. cbn. discriminate.
  - cbn [b64_blocks]. destruct (N.ltb_spec (nlen p) 3) as [H3|H3]; [discriminate|].
    set (nn := if b64_block <=? nlen p then b64_block else nlen p - nlen p mod 3).
    assert (Hnn : 1 <= nn <= nlen p).
    { unfold nn, b64_block. clear nn. pose proof (N.mod_lt (nlen p) 3 ltac:(lia)) as Hm.
      set (m := nlen p mod 3) in *. clearbody m. destruct (N.leb_spec 768 (nlen p)); lia. }
    assert (Hs : (length (skipn (N.to_nat nn) p) <= f)%nat).
    { rewrite skipn_length. rewrite nlen_eq in Hnn. lia. }
    specialize (IH _ Hs). destruct (b64_blocks f (skipn (N.to_nat nn) p)) as [[bl rest]|]; [discriminate|congruence].
Qed.

Lemma enc_write_blocks_view w bl : forall ws,
  write_all (map base64 bl) w ws =
  match enc_write_blocks w ws bl with
  | (ws', None) => (ws', ROk)
  | (ws', Some e) => (ws', RErr e)
  end.
Proof.
  induction bl as [|b r IH]; intros ws; cbn [map enc_write_blocks].
  - reflexivity.
  - rewrite write_all_cons. unfold wr_res. destruct (wr w ws (base64 b)) as [ws' [e|]]; cbn [on_ok]; [reflexivity|apply IH].
Qed.

Theorem escapeBytes_view q b w ws :
  escapeBytes q b w ws = write_all (escapeBytes_chunks q b) w ws.
Proof.
  unfold escapeBytes, escapeBytes_chunks, enc_write. cbn [e_err e_buf].
  pose proof (b64_blocks_fuel (length b) b (Nat.le_refl _)) as Hf.
  destruct (b64_blocks (length b) b) as [[bl rest]|]; [clear Hf|congruence].
  assert (Core : forall ws1,
    match (let '(ws', r) := enc_write_blocks w ws1 bl in
           match r with None => Some (ws', mkEnc None rest) | Some e => Some (ws', mkEnc (Some e) []) end) with
    | None => (ws1, RFault)
    | Some (ws2, en) =>
      match enc_close w ws2 en with
      | (ws3, None) => if q then wr_res quote w ws3 else (ws3, ROk)
      | (ws3, Some e) => (ws3, RErr e)
      end
    end = write_all (map base64 bl ++ match rest with [] => [] | _ => [base64 rest] end ++ (if q then [quote] else [])) w ws1).
  { intros ws1. rewrite write_all_app, enc_write_blocks_view.
    destruct (enc_write_blocks w ws1 bl) as [ws2 [e|]]; cbn [on_ok].
    - unfold enc_close. cbn [e_err e_buf]. reflexivity.
    - unfold enc_close. cbn [e_err e_buf]. destruct rest as [|c rest'].
      + cbn [app]. destruct q; [rewrite write_all_one|]; reflexivity.
      + rewrite write_all_app, write_all_one.
        assert (Hw : wr_res (base64 (c :: rest')) w ws2 =
                     match wr w ws2 (base64 (c :: rest')) with (ws', None) => (ws', ROk) | (ws', Some e) => (ws', RErr e) end)
          by reflexivity.
        rewrite Hw. clear Hw.
        destruct (wr w ws2 (base64 (c :: rest'))) as [ws3 [e|]]; cbn [on_ok]; [reflexivity|].
        destruct q; [rewrite write_all_one|]; reflexivity. }
  destruct q.
  - cbn [app]. rewrite write_all_cons.
    assert (Hw : wr_res quote w ws =
                 match wr w ws quote with (ws', None) => (ws', ROk) | (ws', Some e) => (ws', RErr e) end) by reflexivity.
    rewrite Hw. clear Hw.
    destruct (wr w ws quote) as [ws1 [e|]]; cbn [on_ok]; [reflexivity|].
    rewrite <- Core. destruct (enc_write_blocks w ws1 bl) as [ws2 [e|]]; reflexivity.
  - cbn [app]. rewrite <- (Core ws). destruct (enc_write_blocks w ws bl) as [ws2 [e|]]; reflexivity.
Qed.

(* ---------------------------------------------------------------- showInJS / showInJSON *)

Section JvalInd.
  Variable P : jval -> Prop.
  Hypothesis HText : forall t, P (JText t).
  Hypothesis HStr : forall s, P (JStr s).
  Hypothesis HTime : forall t, P (JTime t).
  Hypothesis HBytes : forall b, P (JBytes b).
  Hypothesis HSeq : forall xs, Forall P xs -> P (JSeq xs).
  Hypothesis HObj : forall ms, Forall (fun m => P (snd m)) ms -> P (JObj ms).
  Hypothesis HFail : P JFail.

  Fixpoint jval_ind' (v : jval) : P v :=
    match v with
    | JText t => HText t
    | JStr s => HStr s
    | JTime t => HTime t
    | JBytes b => HBytes b
    | JSeq xs =>
      HSeq xs ((fix go (l : list jval) : Forall P l :=
                  match l with [] => Forall_nil P | x :: r => Forall_cons x (jval_ind' x) (go r) end) xs)
    | JObj ms =>
      HObj ms ((fix go (l : list (bytes * jval)) : Forall (fun m => P (snd m)) l :=
                  match l with
                  | [] => Forall_nil _
                  | m :: r => Forall_cons m (jval_ind' (snd m)) (go r)
                  end) ms)
    | JFail => HFail
    end.
End JvalInd.

Definition js_ok (x : jval) : Prop := forall w ws, show_js x w ws = run_shown (js_chunks x) w ws.

(* first call, a run of calls, last call, chained by if err == nil *)
Lemma chain3 a mid c w ws :
  on_ok (on_ok (wr_res a w ws) (fun ws1 => write_all mid w ws1)) (fun ws2 => wr_res c w ws2)
  = write_all (a :: mid ++ [c]) w ws.
Proof.
  rewrite write_all_cons. destruct (wr_res a w ws) as [ws1 [|e|]]; cbn [on_ok]; try reflexivity.
  rewrite write_all_app. destruct (write_all mid w ws1) as [ws2 [|e|]]; cbn [on_ok]; reflexivity.
Qed.

Lemma str_prog_view s w ws :
  str_prog s w ws = write_all (quote :: js_string_chunks s ++ [quote]) w ws.
Proof. apply chain3. Qed.

Lemma seq_loop_view w xs : Forall js_ok xs -> forall first st,
  seq_loop show_js w xs first st = on_ok st (fun ws => run_shown (seq_view js_chunks xs first) w ws).
Proof.
  induction 1 as [|x r Hx _ IH]; intros first st.
  - cbn [seq_loop seq_view]. destruct st as [ws [|e|]]; cbn [on_ok]; try reflexivity.
    rewrite run_shown_none, write_all_one. reflexivity.
  - cbn [seq_loop seq_view]. destruct st as [ws0 [|e|]]; cbn [on_ok]; try reflexivity.
    rewrite IH. set (sep := if first then [] else [[44]]).
    assert (Hsep : (if first then (ws0, ROk) else wr_res [44] w ws0) = write_all sep w ws0).
    { unfold sep. destruct first; [reflexivity|rewrite write_all_one; reflexivity]. }
    rewrite Hsep. rewrite on_ok_assoc.
    destruct (js_chunks x) as [cs [e|]] eqn:Ev.
    + rewrite run_shown_app. destruct (write_all sep w ws0) as [ws1 [|e1|]]; cbn [on_ok]; try reflexivity.
      rewrite (Hx w ws1), Ev. apply on_ok_not_ok, run_shown_some_not_ok.
    + destruct (seq_view js_chunks r false) as [cr er] eqn:Er.
      rewrite run_shown_app. destruct (write_all sep w ws0) as [ws1 [|e1|]]; cbn [on_ok]; try reflexivity.
      rewrite run_shown_app, (Hx w ws1), Ev, run_shown_none. reflexivity.
Qed.

Lemma obj_loop_view w ms : Forall (fun m => js_ok (snd m)) ms -> forall first st,
  obj_loop show_js w ms first st = on_ok st (fun ws => run_shown (obj_view js_chunks ms first) w ws).
Proof.
  induction 1 as [|[name x] r Hx _ IH]; intros first st.
  - cbn [obj_loop obj_view]. destruct st as [ws [|e|]]; cbn [on_ok]; try reflexivity.
    rewrite run_shown_none, write_all_one. reflexivity.
  - cbn [obj_loop obj_view snd] in *. destruct st as [ws0 [|e|]]; cbn [on_ok]; try reflexivity.
    rewrite IH. set (q1 := if first then quote else [44; 34]).
    assert (Hq : (if first then wr_res quote w ws0 else wr_res [44; 34] w ws0) = wr_res q1 w ws0)
      by (unfold q1; destruct first; reflexivity).
    rewrite Hq.
    assert (Hhead : forall K,
      on_ok (on_ok (on_ok (wr_res q1 w ws0) (fun ws1 => write_all (js_string_chunks name) w ws1))
                   (fun ws2 => wr_res [34; 58] w ws2)) K
      = on_ok (write_all (q1 :: js_string_chunks name ++ [[34; 58]]) w ws0) K).
    { intros K. rewrite chain3. reflexivity. }
    rewrite on_ok_assoc, Hhead.
    destruct (js_chunks x) as [cs [e|]] eqn:Ev.
    + rewrite run_shown_app.
      destruct (write_all (q1 :: js_string_chunks name ++ [[34; 58]]) w ws0) as [ws1 [|e1|]]; cbn [on_ok]; try reflexivity.
      rewrite (Hx w ws1), Ev. apply on_ok_not_ok, run_shown_some_not_ok.
    + destruct (obj_view js_chunks r false) as [cr er] eqn:Er.
      rewrite run_shown_app.
      destruct (write_all (q1 :: js_string_chunks name ++ [[34; 58]]) w ws0) as [ws1 [|e1|]]; cbn [on_ok]; try reflexivity.
      rewrite run_shown_app, (Hx w ws1), Ev, run_shown_none. reflexivity.
Qed.

Theorem show_js_view : forall v w ws, show_js v w ws = run_shown (js_chunks v) w ws.
Proof.
  intros v. change (js_ok v). induction v using jval_ind'; intros w ws.
  - cbn [show_js js_chunks]. rewrite run_shown_none, write_all_one. reflexivity.
  - cbn [show_js js_chunks]. rewrite run_shown_none. apply str_prog_view.
  - cbn [show_js js_chunks]. rewrite run_shown_none.
    change (fun ws1 : wst => wr_res t w ws1) with (fun ws1 : wst => write_all [t] w ws1).
    apply (chain3 quote [t] quote).
  - cbn [show_js js_chunks]. rewrite run_shown_none. apply escapeBytes_view.
  - cbn [show_js js_chunks]. rewrite seq_loop_view by assumption.
    destruct (seq_view js_chunks xs true) as [cs e]. rewrite run_shown_cons. reflexivity.
  - cbn [show_js js_chunks]. rewrite obj_loop_view by assumption.
    destruct (obj_view js_chunks ms true) as [cs e]. rewrite run_shown_cons. reflexivity.
  - cbn [show_js js_chunks]. reflexivity.
Qed.

(* ---------------------------------------------------------------- every modelled context *)

Lemma css_str_prog_view s w ws :
  css_str_prog s w ws = write_all (quote :: cssStringEscape s ++ [quote]) w ws.
Proof. apply chain3. Qed.

Theorem show_prog_view ctx v p view :
  show_prog ctx v = Some p -> show_view ctx v = Some view ->
  forall w ws, p w ws = run_shown view w ws.
Proof.
  unfold show_prog, show_view. intros Hp Hv w ws. destruct v as [s|b|j].
  - repeat match type of Hp with
           | (if ?c then _ else _) = _ => destruct c
           end; try discriminate; injection Hp as <-; injection Hv as <-; rewrite run_shown_none;
      try reflexivity; try apply css_str_prog_view; try apply str_prog_view.
  - repeat match type of Hp with
           | (if ?c then _ else _) = _ => destruct c
           end; try discriminate; injection Hp as <-; injection Hv as <-; rewrite run_shown_none;
      try apply escapeBytes_view. rewrite write_all_one. reflexivity.
  - destruct ((ctx =? gen_ContextJS) || (ctx =? gen_ContextJSON)); [|discriminate].
    injection Hp as <-. injection Hv as <-. apply show_js_view.
Qed.

Lemma show_prog_view_defined ctx v p :
  show_prog ctx v = Some p -> exists view, show_view ctx v = Some view.
Proof.
  unfold show_prog, show_view. destruct v as [s|b|j];
    repeat match goal with
           | |- (if ?c then _ else _) = _ -> _ => destruct c
           end; intros H; try discriminate; eexists; reflexivity.
Qed.

(* ---------------------------------------------------------------- the failing k-th Write is the last one *)

Lemma script_chunks_map cs : script_chunks (map AWrite cs) = cs.
Proof. induction cs as [|c r IH]; [reflexivity|]. cbn [map script_chunks]. rewrite IH. reflexivity. Qed.

Lemma script_ok_map cs : script_ok (map AWrite cs) = true.
Proof. induction cs as [|c r IH]; [reflexivity|exact IH]. Qed.

Lemma run_script_never_all cs ws :
  run_script never ws (map AWrite cs) = (mkW (w_calls ws + nlen cs) (w_out ws ++ cs), ROk).
Proof.
  pose proof (run_script_all (map AWrite cs) ws (script_ok_map cs)) as H. unfold never.
  rewrite H, script_chunks_map. f_equal. f_equal. rewrite !nlen_eq, map_length. reflexivity.
Qed.

(* a show function given by its calls: if the writer fails for the first time
   at its k-th call, k at most the number of calls of the successful run, then
   exactly k calls are made, the accepted chunks are the first k - 1, and the
   result is the error of the writer *)
Theorem run_shown_fail_stops view w k e :
  first_fail w k e -> 0 < k -> k <= nlen (fst view) ->
  let x := run_shown view w w0 in
  w_calls (fst x) = k /\ w_out (fst x) = firstn (N.to_nat (k - 1)) (fst view) /\ snd x = RErr e.
Proof.
  intros FF Hk Hle. destruct view as [cs err]. cbn [fst] in Hle. unfold run_shown. cbn [fst snd].
  destruct (run_script_spec w k e FF (map AWrite cs) w0 wf_w0 Hk) as [S _].
  rewrite (run_script_never_all cs w0) in S. cbn [w_calls w_out w0 app fst snd] in S.
  destruct S as [[H _]|[_ [H1 [H2 H3]]]]; [cbn in H; lia|].
  destruct (run_script w w0 (map AWrite cs)) as [ws' r]. cbn [fst snd] in *.
  unfold is_err in H3. subst r. cbn [fst snd]. auto.
Qed.

(* the writes after which nothing more is written: also when the failing call is beyond the end *)
Theorem run_shown_no_write_after_failure view w k e :
  first_fail w k e -> 0 < k ->
  w_calls (fst (run_shown view w w0)) <= k.
Proof.
  intros FF Hk. destruct view as [cs err]. unfold run_shown. cbn [fst snd].
  destruct (run_script_spec w k e FF (map AWrite cs) w0 wf_w0 Hk) as [S _].
  rewrite (run_script_never_all cs w0) in S. cbn [w_calls w_out w0 app fst snd] in S.
  destruct S as [[H E]|[_ [H1 _]]].
  - injection E as E1 E2. destruct (run_script w w0 (map AWrite cs)) as [ws' r]. cbn [fst snd] in *.
    subst ws'. destruct r; cbn [fst w_calls]; cbn in H; lia.
  - destruct (run_script w w0 (map AWrite cs)) as [ws' r]. cbn [fst snd] in *. destruct r; cbn [fst]; lia.
Qed.

Theorem show_write_fail_stops ctx v p view w k e :
  show_prog ctx v = Some p -> show_view ctx v = Some view ->
  first_fail w k e -> 0 < k -> k <= nlen (fst view) ->
  let x := p w w0 in
  w_calls (fst x) = k /\ w_out (fst x) = firstn (N.to_nat (k - 1)) (fst view) /\ snd x = RErr e.
Proof.
  intros Hp Hv FF Hk Hle. cbv zeta. rewrite (show_prog_view ctx v p view Hp Hv).
  apply run_shown_fail_stops; assumption.
Qed.

(* the chunk boundaries of the base64 encoder: 768 input bytes per call, the
   rest in a call of its own, the last one or two bytes at Close *)
Example escapeBytes_chunk_example :
  map (fun c => nlen c) (escapeBytes_chunks true (repeat 65 1540)) = [1; 1024; 1024; 4; 4; 1] /\
  map (fun c => nlen c) (escapeBytes_chunks false (repeat 65 768)) = [1024] /\
  escapeBytes_chunks true [] = [quote; quote].
Proof. vm_compute. repeat split; reflexivity. Qed.

(* a composite value: [1,"a<"] *)
Example show_js_example :
  js_chunks (JSeq [JText [49]; JStr [97; 60]])
  = ([[91]; [49]; [44]; quote; [97]; [92; 117; 48; 48; 51; 99]; quote; [93]], None) /\
  show_js (JSeq [JText [49]; JStr [97; 60]]) (fun j => if j =? 4 then Some 7 else None) w0
  = (mkW 4 [[91]; [49]; [44]], RErr 7).
Proof. vm_compute. split; reflexivity. Qed.
