(* C27 over the primary-expression grammar: the round trip of printable
   expressions (String, the lexer on the printed form, parseExpr), from the
   main statement and the fuel bound. *)
From Coq Require Import List NArith Bool Lia Arith.
From Verif Require Import Bytes ExprFullM ExprFullOk ExprFull_base ExprFull_eqs ExprFull_main ExprFull_fuel.
Import ListNotations.
Open Scope N_scope.

Section Top.
Variable op_string : list (N * bytes).
Variable bin_prec : list (N * N).
Variable un_prec : N.
Variable unary_tokens : list (bytes * N).
Variable binary_tokens : list (bytes * N).
Variable op_receive op_pointer op_extended_not op_not_contains : N.
Variable lit_string lit_int lit_float : N.
Variable dir_none dir_recv dir_send : N.
Variable kw_text : kwd -> bytes.
Variable sym_arrow sym_mul sym_not sym_contains : bytes.
Variable name_ident name_lbrack : bytes.
Variable result_start : list bytes.
Variable macro_results : list bytes.
Variable keywords tmpl_keywords : list (bytes * bytes).
Variable quote : bytes -> bytes.
Variable valid_path : bytes -> bool.
Variable expanded : bool.
Variable tmpl : bool.

Notation pp := (pp op_string bin_prec un_prec op_receive op_pointer op_extended_not lit_string dir_recv dir_send sym_arrow quote expanded).
Notation ok := (ok op_string bin_prec un_prec unary_tokens binary_tokens op_receive op_pointer op_extended_not op_not_contains lit_string dir_none dir_recv dir_send sym_arrow sym_mul sym_not sym_contains name_ident name_lbrack kw_text result_start macro_results quote valid_path expanded tmpl).
Notation printable := (printable op_string bin_prec un_prec unary_tokens binary_tokens op_receive op_pointer op_extended_not op_not_contains lit_string lit_int lit_float dir_none dir_recv dir_send sym_arrow sym_mul sym_not sym_contains name_ident name_lbrack kw_text result_start macro_results keywords tmpl_keywords quote valid_path expanded tmpl).
Notation printable_type := (printable_type op_string bin_prec un_prec unary_tokens binary_tokens op_receive op_pointer op_extended_not op_not_contains lit_string lit_int lit_float dir_none dir_recv dir_send sym_arrow sym_mul sym_not sym_contains name_ident name_lbrack kw_text result_start macro_results keywords tmpl_keywords quote valid_path expanded tmpl).
Notation roundtrip := (roundtrip op_string bin_prec un_prec unary_tokens binary_tokens op_receive op_pointer op_extended_not op_not_contains lit_string lit_int lit_float dir_none dir_recv dir_send kw_text sym_arrow sym_mul sym_not sym_contains name_ident name_lbrack result_start macro_results keywords tmpl_keywords quote valid_path expanded tmpl).
Notation pexpr := (pexpr bin_prec un_prec unary_tokens binary_tokens op_receive op_pointer op_not_contains lit_string dir_none dir_recv dir_send kw_text sym_arrow sym_mul sym_not sym_contains name_ident name_lbrack result_start macro_results valid_path tmpl).
Notation relex := (relex lit_string lit_int lit_float kw_text keywords tmpl_keywords tmpl).
Notation stop_tok := (stop_tok binary_tokens sym_not).
Notation norm := (norm bin_prec un_prec op_receive op_pointer).
Notation starts_result := (starts_result kw_text name_ident name_lbrack result_start).
Notation cost := (cost bin_prec un_prec op_receive op_pointer).
Notation need := (need bin_prec un_prec op_receive op_pointer expanded).
Notation full := (full bin_prec un_prec op_receive op_pointer expanded).

Hypothesis dir_none_recv : dir_none <> dir_recv.
Hypothesis dir_none_send : dir_none <> dir_send.
Hypothesis dir_recv_send : dir_recv <> dir_send.
Hypothesis result_start_lp : starts_result KLP = false.
Hypothesis quote_plain : forall s, plain_path s = true -> quote s = 34 :: s ++ [34].
Hypothesis sym_arrow_mul : sym_arrow <> sym_mul.
Hypothesis sym_mul_ok : is_nil sym_mul = false /\ no_byte 32 sym_mul = true.

Lemma lex_stable_toks ps : lex_stable lit_string lit_int lit_float kw_text keywords tmpl_keywords tmpl ps = true -> relex ps = LexOk (toks ps).
Proof.
  unfold ExprFullOk.lex_stable. destruct (relex ps) as [ts| |]; try discriminate. intros h. apply tks_eqb_eq in h. subst. reflexivity.
Qed.

(* the round trip of a printable expression: String does not panic, the lexer
   reads the printed tokens, parseExpr returns the expression with its
   parenthesis counts recomputed and stops at the token that follows *)
Theorem roundtrip_printable : forall guard suffix e,
  printable guard (hd_error suffix) e = true ->
  exists ps, pp e = Some ps /\
    roundtrip guard suffix e = RtRes (ROk (Some (norm e), suffix)) /\
    xerase (norm e) = xerase e.
Proof.
  intros guard suffix e hp. unfold ExprFullOk.printable in hp.
  destruct (pp e) as [ps|] eqn:epp; [|discriminate]. exists ps. split; [reflexivity|]. split; [|apply xerase_norm].
  apply andb_prop in hp. destruct hp as [hp hok]. apply andb_prop in hp. destruct hp as [hstop hlex].
  unfold ExprFullM.roundtrip. rewrite epp, (lex_stable_toks ps hlex). f_equal. unfold parse_top.
  assert (hgen : ok false false e (hd_error suffix) = true ->
            pexpr (fuel_of (toks ps ++ suffix)) (mkfl guard false false false) (toks ps ++ suffix) = ROk (Some (norm e), suffix)).
  { intros hok'. apply (parse_full op_string bin_prec un_prec unary_tokens binary_tokens op_receive op_pointer op_extended_not op_not_contains
                          lit_string dir_none dir_recv dir_send kw_text sym_arrow sym_mul sym_not sym_contains name_ident name_lbrack
                          result_start macro_results quote valid_path expanded tmpl
                          dir_none_recv dir_none_send dir_recv_send result_start_lp quote_plain sym_arrow_mul sym_mul_ok
                          e false (hd_error suffix) ps suffix guard); try assumption; try reflexivity.
    eapply fuel_enough; eassumption. }
  destruct e; try (apply hgen; exact hok).
  destruct t as [t|]; [apply hgen; exact hok|].
  (* the guard of a type switch *)
  apply andb_prop in hok. destruct hok as [hok hx]. apply andb_prop in hok. destruct hok as [hok _].
  apply andb_prop in hok. destruct hok as [hg hnop]. apply negb_true_iff in hnop. subst guard.
  cbn [ExprFullM.pp omap opt_pieces] in epp. destruct (pp e) as [px|] eqn:epx; [|discriminate]. injection epp as <-.
  rewrite !toks_app. cbn [toks ExprFullM.T app]. rewrite <- !app_assoc. cbn [app ExprFull_base.norm omap].
  apply (parse_guard op_string bin_prec un_prec unary_tokens binary_tokens op_receive op_pointer op_extended_not op_not_contains
           lit_string dir_none dir_recv dir_send kw_text sym_arrow sym_mul sym_not sym_contains name_ident name_lbrack
           result_start macro_results quote valid_path expanded tmpl
           dir_none_recv dir_none_send dir_recv_send result_start_lp quote_plain sym_arrow_mul sym_mul_ok
           e px suffix); try assumption.
  pose proof (fuel_enough op_string bin_prec un_prec unary_tokens binary_tokens op_receive op_pointer op_extended_not op_not_contains
                lit_string dir_none dir_recv dir_send kw_text sym_arrow sym_mul sym_not sym_contains name_ident name_lbrack
                result_start macro_results quote valid_path expanded tmpl e false false (Some KPeriod) px [] hx epx) as hf.
  unfold ExprFull_base.full, fuel_of in *. rewrite !app_length in *. cbn [length] in *. lia.
Qed.

(* the same for a type read with mustBeType *)
Theorem roundtrip_type : forall suffix e g0 b0,
  printable_type (hd_error suffix) e = true ->
  exists ps, pp e = Some ps /\ relex ps = LexOk (toks ps) /\
    pexpr (fuel_of (toks ps ++ suffix)) (mkfl g0 false true b0) (toks ps ++ suffix) = ROk (Some (norm e), suffix) /\
    xerase (norm e) = xerase e.
Proof.
  intros suffix e g0 b0 hp. unfold ExprFullOk.printable_type in hp.
  destruct (pp e) as [ps|] eqn:epp; [|discriminate]. exists ps. split; [reflexivity|].
  apply andb_prop in hp. destruct hp as [hlex hok]. split; [apply lex_stable_toks; exact hlex|]. split; [|apply xerase_norm].
  apply (parse_type op_string bin_prec un_prec unary_tokens binary_tokens op_receive op_pointer op_extended_not op_not_contains
           lit_string dir_none dir_recv dir_send kw_text sym_arrow sym_mul sym_not sym_contains name_ident name_lbrack
           result_start macro_results quote valid_path expanded tmpl
           dir_none_recv dir_none_send dir_recv_send result_start_lp quote_plain sym_arrow_mul sym_mul_ok
           e (hd_error suffix) ps suffix g0 b0); try assumption; try reflexivity.
  eapply fuel_enough; eassumption.
Qed.

End Top.
