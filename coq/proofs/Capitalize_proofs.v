(* builtin.Capitalize, CapitalizeAll, ToKebab: index safety and exact
   characterisation, for every classification oracle of package unicode. *)
From Verif Require Import Bytes Utf8 MiscRunes Facts_builtin BuiltinM MiscRunes_proofs.
Open Scope N_scope.

(* ---------------------------------------------------------------- Capitalize *)

(* the documented result, on the list of (byte index, rune) of the string:
   separators are skipped; the first other rune is replaced by its upper case
   form (when it differs), everything before and after it stays in place *)
Fixpoint cap_from (U : unicode) (whole : bytes) (l : list (N * N)) : bytes :=
  match l with
  | [] => whole
  | (i, r) :: t =>
    if is_separator U r then cap_from U whole t
    else if u_upper U r then whole
    else if u_to_upper U r =? r then whole
    else firstn (N.to_nat i) whole ++ write_rune (u_to_upper U r)
         ++ skipn (N.to_nat (i + N.of_nat (rune_size (skipn (N.to_nat i) whole)))) whole
  end.

Definition cap_spec (U : unicode) (s : bytes) : bytes := cap_from U s (range_str s).

Lemma skipn_cons_tail {A} (l : list A) n c r : skipn n l = c :: r -> skipn (S n) l = r /\ (n < length l)%nat.
Proof.
  revert n; induction l as [|x l IH]; intros n H.
  - rewrite skipn_nil in H. discriminate.
  - destruct n; cbn [skipn] in *.
    + injection H as _ ->. split; [destruct r; reflexivity|cbn [length]; lia].
    + apply IH in H. cbn [length]. destruct H as [H1 H2]. split; [exact H1|lia].
Qed.

Lemma cap_loop_spec U whole rest : forall skip i0,
  rest = skipn (N.to_nat i0) whole ->
  cap_loop U whole rest skip i0 = Some (cap_from U whole (range_aux rest skip i0)).
Proof.
  induction rest as [|c r IH]; intros skip i0 Hrest; cbn [cap_loop range_aux]; [reflexivity|].
  symmetry in Hrest. destruct (skipn_cons_tail _ _ _ _ Hrest) as [Htail Hlt].
  assert (Hr : r = skipn (N.to_nat (i0 + 1)) whole) by (replace (N.to_nat (i0 + 1)) with (S (N.to_nat i0)) by lia; congruence).
  destruct skip as [|k]; [|apply IH, Hr].
  cbn [cap_from].
  destruct (is_separator U (fst (decode_rune (c :: r)))); [apply IH, Hr|].
  destruct (u_upper U (fst (decode_rune (c :: r)))); [reflexivity|].
  destruct (u_to_upper U (fst (decode_rune (c :: r))) =? fst (decode_rune (c :: r))); [reflexivity|].
  rewrite nlen_eq. destruct (N.ltb_spec (N.of_nat (length whole)) i0); [lia|].
  rewrite Hrest.
  assert (Hsz : (rune_size (c :: r) <= length (c :: r))%nat) by (apply rune_size_bounds; discriminate).
  assert (Hl : length (c :: r) = (length whole - N.to_nat i0)%nat) by (rewrite <- Hrest; apply skipn_length).
  destruct (N.ltb_spec (N.of_nat (length whole)) (i0 + N.of_nat (rune_size (c :: r)))); [lia|]. reflexivity.
Qed.

Theorem Capitalize_spec U s : Capitalize U s = Some (cap_spec U s).
Proof. unfold Capitalize, cap_spec, range_str. apply cap_loop_spec. reflexivity. Qed.

(* the part of the string in front of the changed rune and behind it is unchanged:
   restated on the output *)
Theorem Capitalize_unchanged_or_one U s :
  cap_spec U s = s \/
  exists i r, In (i, r) (range_str s) /\ is_separator U r = false /\
    cap_spec U s = firstn (N.to_nat i) s ++ write_rune (u_to_upper U r)
                   ++ skipn (N.to_nat (i + N.of_nat (rune_size (skipn (N.to_nat i) s)))) s.
Proof.
  unfold cap_spec. generalize (range_str s) as l. intros l.
  assert (H : forall l0, (forall x, In x l0 -> In x l) ->
    cap_from U s l0 = s \/ exists i r, In (i, r) l /\ is_separator U r = false /\
      cap_from U s l0 = firstn (N.to_nat i) s ++ write_rune (u_to_upper U r)
                   ++ skipn (N.to_nat (i + N.of_nat (rune_size (skipn (N.to_nat i) s)))) s).
  { induction l0 as [|[i r] t IH]; intros Hsub; cbn [cap_from]; [left; reflexivity|].
    destruct (is_separator U r) eqn:Hs; [apply IH; intros x Hx; apply Hsub; right; exact Hx|].
    destruct (u_upper U r); [left; reflexivity|].
    destruct (u_to_upper U r =? r); [left; reflexivity|].
    right. exists i, r. split; [apply Hsub; left; reflexivity|]. split; [exact Hs|reflexivity]. }
  intros. apply H. auto.
Qed.

(* ------------------------------------------------------------- CapitalizeAll *)

Theorem cap_all_runes_spec U rs : forall p,
  cap_all_runes U p rs
  = map (fun pr => if is_separator U (fst pr) then u_to_upper U (snd pr) else snd pr) (combine (p :: rs) rs).
Proof.
  induction rs as [|r t IH]; intros p; cbn [cap_all_runes combine map fst snd]; [reflexivity|].
  f_equal. apply IH.
Qed.

Theorem cap_all_runes_length U rs p : length (cap_all_runes U p rs) = length rs.
Proof. revert p; induction rs as [|r t IH]; intros p; cbn [cap_all_runes length]; [reflexivity|]. f_equal. apply IH. Qed.

(* ------------------------------------------------------------------- ToKebab *)

Definition last_opt {A} (l : list A) : option A := match rev l with x :: _ => Some x | [] => None end.

(* index free description: prev = the rune before the current one, the next one is the head of the rest *)
Fixpoint kebab_spec (U : unicode) (prev : option N) (rest : list N) (noDash : bool) (acc : list N) : list N :=
  match rest with
  | [] => acc
  | r :: rest' =>
    if u_lower U r || u_digit U r then kebab_spec U (Some r) rest' true (r :: acc)
    else if u_upper U r then
      let d := noDash && (match prev with Some p => u_lower U p | None => false end
                          || match rest' with nx :: _ => u_lower U nx | [] => false end) in
      kebab_spec U (Some r) rest' true (u_to_lower U r :: (if d then 45 :: acc else acc))
    else if noDash && (match rest' with [] => false | _ :: _ => true end)
      then kebab_spec U (Some r) rest' false (45 :: acc)
      else kebab_spec U (Some r) rest' noDash acc
  end.

Lemma last_opt_snoc {A} (l : list A) x : last_opt (l ++ [x]) = Some x.
Proof. unfold last_opt. rewrite rev_app_distr. reflexivity. Qed.

Lemma nth_z_mid {A} (a : list A) x b : nth_z (a ++ x :: b) (Z.of_nat (length a)) = Some x.
Proof.
  unfold nth_z. destruct (Z.ltb_spec (Z.of_nat (length a)) 0); [lia|]. rewrite Nat2Z.id.
  rewrite nth_error_app2 by lia. rewrite Nat.sub_diag. reflexivity.
Qed.

Lemma kebab_loop_spec U rest : forall done noDash acc,
  (noDash = true -> done <> []) ->
  kebab_loop U (done ++ rest) rest (Z.of_nat (length done)) noDash acc
  = Some (kebab_spec U (last_opt done) rest noDash acc).
Proof.
  induction rest as [|r rest' IH]; intros done nd acc Hnd; cbn [kebab_loop kebab_spec]; [reflexivity|].
  assert (Hstep : forall nd' acc', (nd' = true -> done ++ [r] <> []) ->
            kebab_loop U (done ++ r :: rest') rest' (Z.of_nat (length done) + 1) nd' acc'
            = Some (kebab_spec U (Some r) rest' nd' acc')).
  { intros nd' acc' H'. specialize (IH (done ++ [r]) nd' acc' H').
    rewrite <- app_assoc in IH. cbn [app] in IH. rewrite app_length in IH. cbn [length] in IH.
    rewrite last_opt_snoc in IH. rewrite <- IH. f_equal. lia. }
  assert (Hne : done ++ [r] <> []) by (destruct done; discriminate).
  assert (Hn : (Z.of_nat (length done) + 1 <? Z.of_nat (length (done ++ r :: rest')))%Z
               = match rest' with [] => false | _ :: _ => true end).
  { rewrite app_length. cbn [length]. destruct rest'; cbn [length].
    - apply Z.ltb_ge. lia.
    - apply Z.ltb_lt. lia. }
  destruct (u_lower U r || u_digit U r); [apply Hstep; auto|].
  destruct (u_upper U r).
  - destruct nd; cbn [andb].
    + destruct (exists_last (Hnd eq_refl)) as (d0 & x & Hd). subst done.
      rewrite app_length. cbn [length].
      replace (Z.of_nat (length d0 + 1) - 1)%Z with (Z.of_nat (length d0)) by lia.
      rewrite <- app_assoc. cbn [app]. rewrite nth_z_mid. rewrite last_opt_snoc.
      replace (d0 ++ x :: r :: rest') with ((d0 ++ [x]) ++ r :: rest') by (rewrite <- app_assoc; reflexivity).
      replace (Z.of_nat (length d0 + 1)) with (Z.of_nat (length (d0 ++ [x]))) by (rewrite app_length; reflexivity).
      destruct (u_lower U x); cbn [orb].
      * apply Hstep; auto.
      * rewrite Hn. destruct rest' as [|nx rest''].
        -- apply Hstep; auto.
        -- replace ((d0 ++ [x]) ++ r :: nx :: rest'') with (((d0 ++ [x]) ++ [r]) ++ nx :: rest'') by (rewrite <- !app_assoc; reflexivity).
           replace (Z.of_nat (length (d0 ++ [x])) + 1)%Z with (Z.of_nat (length ((d0 ++ [x]) ++ [r]))) by (rewrite (app_length _ [r]); cbn [length]; lia).
           rewrite nth_z_mid.
           replace (((d0 ++ [x]) ++ [r]) ++ nx :: rest'') with ((d0 ++ [x]) ++ r :: nx :: rest'') by (rewrite <- !app_assoc; reflexivity).
           replace (Z.of_nat (length ((d0 ++ [x]) ++ [r]))) with (Z.of_nat (length (d0 ++ [x])) + 1)%Z by (rewrite (app_length _ [r]); cbn [length]; lia).
           apply Hstep; auto.
    + apply Hstep; auto.
  - rewrite Hn. destruct (nd && match rest' with [] => false | _ :: _ => true end).
    + apply Hstep. discriminate.
    + apply Hstep. intros _. exact Hne.
Qed.

Theorem ToKebab_no_fault U s : ToKebab_runes U s <> None.
Proof.
  unfold ToKebab_runes.
  pose proof (kebab_loop_spec U (decode_all s) [] false []) as H. cbn [app length] in H. change (Z.of_nat 0) with 0%Z in H.
  rewrite H by discriminate.
  destruct (kebab_spec U (last_opt []) (decode_all s) false []) as [|x t]; [discriminate|].
  destruct x as [|p]; [discriminate|]. repeat (destruct p as [p|p|]; try discriminate).
Qed.

Definition trim_dash (acc : list N) : list N :=
  match acc with x :: t => if x =? 45 then rev t else rev acc | [] => [] end.

Theorem ToKebab_spec U s :
  ToKebab_runes U s = Some (trim_dash (kebab_spec U None (decode_all s) false [])).
Proof.
  unfold ToKebab_runes.
  pose proof (kebab_loop_spec U (decode_all s) [] false []) as H. cbn [app length] in H. change (Z.of_nat 0) with 0%Z in H.
  rewrite H by discriminate. change (last_opt []) with (@None N).
  destruct (kebab_spec U None (decode_all s) false []) as [|x t]; [reflexivity|].
  unfold trim_dash. destruct (N.eqb_spec x 45) as [->|Hne]; [reflexivity|].
  destruct x as [|p]; [reflexivity|].
  repeat (destruct p as [p|p|]; try reflexivity). contradiction.
Qed.
