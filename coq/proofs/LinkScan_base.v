(* Basic lemmas for the scanner model (LinkScanM): checked indexing and slicing,
   the small loops (no fault, no fuel exhaustion, bounds, what they skip). *)
From Verif Require Import Bytes IndexM Facts_linkscan LinkDestM LinkScanM.
From Coq Require Import Lia ZArith List.
Local Open Scope Z_scope.

(* proof-side views: the byte at i, the segment [a, b) *)
Definition bt (s : bytes) (i : Z) : N := nth (Z.to_nat i) s 0%N.
Definition sub (s : bytes) (a b : Z) : bytes := firstn (Z.to_nat (b - a)) (skipn (Z.to_nat a) s).

Lemma zlen_nonneg (s : bytes) : 0 <= zlen s.
Proof. unfold zlen. lia. Qed.

Lemma zlen_app (a b : bytes) : zlen (a ++ b) = zlen a + zlen b.
Proof. unfold zlen. rewrite app_length. lia. Qed.

Lemma zlen_cons c (s : bytes) : zlen (c :: s) = 1 + zlen s.
Proof. unfold zlen. cbn [length]. lia. Qed.

Lemma zlen_nil : zlen [] = 0.
Proof. reflexivity. Qed.

Lemma zget_ok s i : 0 <= i < zlen s -> zget s i = LOk (bt s i).
Proof.
  intros H. unfold zget, bt. destruct (Z.ltb_spec i 0); [lia|].
  destruct (nth_error s (Z.to_nat i)) eqn:E.
  - erewrite nth_error_nth by exact E. reflexivity.
  - apply nth_error_None in E. unfold zlen in H. lia.
Qed.

Lemma zget_inv s i c : zget s i = LOk c -> 0 <= i < zlen s /\ c = bt s i.
Proof.
  unfold zget. destruct (Z.ltb_spec i 0); [discriminate|].
  destruct (nth_error s (Z.to_nat i)) eqn:E; [|discriminate].
  intros H0. injection H0 as <-. split.
  - assert (Hl : (Z.to_nat i < length s)%nat) by (apply nth_error_Some; congruence). unfold zlen. lia.
  - unfold bt. erewrite nth_error_nth by exact E. reflexivity.
Qed.

Lemma zsl_ok s a b : 0 <= a -> a <= b -> b <= zlen s -> zsl s a b = LOk (sub s a b).
Proof. intros H1 H2 H3. unfold zsl, zslice, sub.
  apply Z.leb_le in H1. apply Z.leb_le in H2. apply Z.leb_le in H3. rewrite H1, H2, H3. reflexivity.
Qed.

Lemma zsl_inv s a b t : zsl s a b = LOk t -> 0 <= a /\ a <= b /\ b <= zlen s /\ t = sub s a b.
Proof.
  unfold zsl, zslice, sub. destruct (Z.leb_spec 0 a); cbn [andb]; [|discriminate].
  destruct (Z.leb_spec a b); cbn [andb]; [|discriminate].
  destruct (Z.leb_spec b (zlen s)); [|discriminate].
  intros H2. injection H2 as <-. auto.
Qed.

Lemma zlen_sub s a b : 0 <= a -> a <= b -> b <= zlen s -> zlen (sub s a b) = b - a.
Proof.
  intros H1 H2 H3. unfold sub, zlen in *. rewrite firstn_length, skipn_length. lia.
Qed.

Lemma nth_firstn_lt {A} (d : A) : forall n k l, (k < n)%nat -> nth k (firstn n l) d = nth k l d.
Proof. induction n as [|n IH]; intros k l H; [lia|]. destruct l as [|x l]; [destruct k; reflexivity|]. destruct k as [|k]; [reflexivity|]. cbn [firstn nth]. apply IH. lia. Qed.

Lemma nth_skipn_add {A} (d : A) : forall n k l, nth k (skipn n l) d = nth (n + k) l d.
Proof. induction n as [|n IH]; intros k l; [reflexivity|]. destruct l as [|x l]; [destruct k; reflexivity|]. cbn [skipn Nat.add nth]. apply IH. Qed.

Lemma bt_sub s a b k : 0 <= a -> a <= b -> b <= zlen s -> 0 <= k < b - a -> bt (sub s a b) k = bt s (a + k).
Proof.
  intros H1 H2 H3 H4. unfold bt, sub.
  rewrite nth_firstn_lt by lia. rewrite nth_skipn_add. f_equal. lia.
Qed.

Lemma sub_full s : sub s 0 (zlen s) = s.
Proof. unfold sub, zlen. cbn [Z.to_nat skipn]. rewrite Z.sub_0_r, Nat2Z.id. apply firstn_all. Qed.

Lemma fuel_ok (line : bytes) i : 0 <= i -> (Z.to_nat (zlen line - i) < S (length line))%nat.
Proof. intros H. unfold zlen. lia. Qed.

(* one level of the monad *)
Lemma lbind_ok {A B} (m : lres A) (f : A -> lres B) r :
  lbind m f = LOk r -> exists x, m = LOk x /\ f x = LOk r.
Proof. destruct m; cbn [lbind]; intros H; try discriminate. eauto. Qed.

Ltac zg := rewrite zget_ok by lia; cbn [lbind].

(* ---------------- esc_at ---------------- *)

Definition esc_b (line : bytes) (i : Z) : bool :=
  N.eqb (bt line i) b_bs && (i + 1 <? zlen line) && is_punct (bt line (i + 1)).

Lemma esc_at_ok line i : 0 <= i < zlen line -> esc_at line i (bt line i) = LOk (esc_b line i).
Proof.
  intros H. unfold esc_at, esc_b. destruct (N.eqb (bt line i) b_bs); cbn [andb]; [|reflexivity].
  destruct (Z.ltb_spec (i + 1) (zlen line)); cbn [andb]; [|reflexivity]. zg. reflexivity.
Qed.

Lemma esc_b_next line i : esc_b line i = true -> i + 2 <= zlen line.
Proof.
  unfold esc_b. intros H. apply andb_prop in H. destruct H as [H _]. apply andb_prop in H. destruct H as [_ H].
  apply Z.ltb_lt in H. lia.
Qed.

(* ---------------- countRun ---------------- *)

Lemma run_loop_ok line c : forall fuel i, 0 <= i <= zlen line -> (Z.to_nat (zlen line - i) < fuel)%nat ->
  exists j, run_loop fuel line i c = LOk j /\ i <= j <= zlen line
            /\ (forall k, i <= k < j -> bt line k = c) /\ (j < zlen line -> bt line j <> c).
Proof.
  induction fuel as [|fuel IH]; intros i Hi Hf; [lia|]. cbn [run_loop].
  destruct (Z.ltb_spec i (zlen line)) as [Hlt|Hge].
  - zg. destruct (N.eqb_spec (bt line i) c) as [He|Hne].
    + destruct (IH (i + 1)) as (j & E & Hj & Hall & Hend); [lia|lia|].
      exists j. rewrite E. split; [reflexivity|]. split; [lia|]. split; [|exact Hend].
      intros k Hk. destruct (Z.eq_dec k i) as [->|]; [exact He|apply Hall; lia].
    + exists i. split; [reflexivity|]. split; [lia|]. split; [intros; lia|]. intros _. exact Hne.
  - exists i. split; [reflexivity|]. split; [lia|]. split; intros; lia.
Qed.

Lemma countRun_ok line pos c : 0 <= pos <= zlen line ->
  exists run, countRun line pos c = LOk run /\ 0 <= run /\ pos + run <= zlen line
              /\ (forall k, pos <= k < pos + run -> bt line k = c)
              /\ (pos + run < zlen line -> bt line (pos + run) <> c).
Proof.
  intros H. unfold countRun. destruct (run_loop_ok line c (S (length line)) pos H (fuel_ok line pos ltac:(lia)))
    as (j & E & Hj & Hall & Hend). rewrite E. cbn [lbind]. exists (j - pos).
  split; [reflexivity|]. split; [lia|]. split; [lia|]. split.
  - intros k Hk. apply Hall. lia.
  - replace (pos + (j - pos)) with j by lia. exact Hend.
Qed.

Lemma countRun_pos line pos c : 0 <= pos < zlen line -> bt line pos = c ->
  exists run, countRun line pos c = LOk run /\ 1 <= run /\ pos + run <= zlen line.
Proof.
  intros H Hc. destruct (countRun_ok line pos c ltac:(lia)) as (run & E & H0 & H1 & _ & Hend).
  exists run. split; [exact E|]. split; [|exact H1].
  destruct (Z.eq_dec run 0) as [->|]; [|lia]. exfalso. apply Hend; [lia|]. rewrite Z.add_0_r. exact Hc.
Qed.

(* ---------------- skipSpaces ---------------- *)

Lemma skip_loop_ok line : forall fuel pos count, 0 <= pos <= zlen line -> (Z.to_nat (zlen line - pos) < fuel)%nat ->
  exists p, skip_loop fuel line pos count = LOk (p, count + (p - pos)) /\ pos <= p <= zlen line
            /\ (forall k, pos <= k < p -> is_space (bt line k) = true)
            /\ (p < zlen line -> is_space (bt line p) = false).
Proof.
  induction fuel as [|fuel IH]; intros pos count Hi Hf; [lia|]. cbn [skip_loop].
  destruct (Z.ltb_spec pos (zlen line)) as [Hlt|Hge].
  - zg. destruct (is_space (bt line pos)) eqn:Es.
    + destruct (IH (pos + 1) (count + 1)) as (p & E & Hp & Hall & Hend); [lia|lia|].
      exists p. rewrite E. split; [f_equal; f_equal; lia|]. split; [lia|]. split; [|exact Hend].
      intros k Hk. destruct (Z.eq_dec k pos) as [->|]; [exact Es|apply Hall; lia].
    + exists pos. split; [f_equal; f_equal; lia|]. split; [lia|]. split; [intros; lia|]. intros _. exact Es.
  - exists pos. split; [f_equal; f_equal; lia|]. split; [lia|]. split; intros; lia.
Qed.

Lemma skipSpacesCount_ok line pos : 0 <= pos <= zlen line ->
  exists p, skipSpacesCount line pos = LOk (p, p - pos) /\ pos <= p <= zlen line
            /\ (forall k, pos <= k < p -> is_space (bt line k) = true)
            /\ (p < zlen line -> is_space (bt line p) = false).
Proof.
  intros H. unfold skipSpacesCount.
  destruct (skip_loop_ok line (S (length line)) pos 0 H (fuel_ok line pos ltac:(lia))) as (p & E & R).
  exists p. rewrite E. split; [reflexivity|exact R].
Qed.

Lemma skipSpaces_ok line pos : 0 <= pos <= zlen line ->
  exists p, skipSpaces line pos = LOk p /\ pos <= p <= zlen line
            /\ (forall k, pos <= k < p -> is_space (bt line k) = true)
            /\ (p < zlen line -> is_space (bt line p) = false).
Proof.
  intros H. unfold skipSpaces. destruct (skipSpacesCount_ok line pos H) as (p & E & R).
  exists p. rewrite E. cbn [lbind]. split; [reflexivity|exact R].
Qed.

(* ---------------- util.IndentWidth ---------------- *)

Lemma tabWidth_pos p : 0 <= p -> 1 <= tabWidth p.
Proof.
  intros H. unfold tabWidth. change gen_ls_tab_base with 4. change gen_ls_tab_mod with 4.
  pose proof (Z.rem_bound_pos p 4 H ltac:(lia)). lia.
Qed.

Lemma indent_loop_ok bs cur : 0 <= cur -> forall fuel i width pos, 0 <= i <= zlen bs -> 0 <= width -> 0 <= pos <= i ->
  (Z.to_nat (zlen bs - i) < fuel)%nat ->
  exists w p, indent_loop fuel bs i cur width pos = LOk (w, p) /\ width <= w /\ pos <= p /\ p - pos <= zlen bs - i.
Proof.
  intros Hc. induction fuel as [|fuel IH]; intros i width pos Hi Hw Hp Hf; [lia|]. cbn [indent_loop].
  destruct (Z.ltb_spec i (zlen bs)) as [Hlt|Hge].
  - zg. destruct (mem gen_ls_indent_space (bt bs i)).
    + destruct (IH (i + 1) (width + 1) (pos + 1)) as (w & p & E & R); [lia|lia|lia|lia|].
      exists w, p. rewrite E. split; [reflexivity|lia].
    + destruct (mem gen_ls_indent_tab (bt bs i)).
      * pose proof (tabWidth_pos (cur + width) ltac:(lia)).
        destruct (IH (i + 1) (width + tabWidth (cur + width)) (pos + 1)) as (w & p & E & R); [lia|lia|lia|lia|].
        exists w, p. rewrite E. split; [reflexivity|lia].
      * exists width, pos. split; [reflexivity|lia].
  - exists width, pos. split; [reflexivity|lia].
Qed.

Lemma indentWidth_ok bs : exists w p, indentWidth bs 0 = LOk (w, p) /\ 0 <= w /\ 0 <= p <= zlen bs.
Proof.
  unfold indentWidth. pose proof (zlen_nonneg bs).
  destruct (indent_loop_ok bs 0 ltac:(lia) (S (length bs)) 0 0 0 ltac:(lia) ltac:(lia) ltac:(lia) (fuel_ok bs 0 ltac:(lia)))
    as (w & p & E & R). exists w, p. rewrite E. split; [reflexivity|lia].
Qed.

(* ---------------- titles and labels ---------------- *)

Lemma title_loop_ok line closer : forall fuel i, 0 <= i <= zlen line -> (Z.to_nat (zlen line - i) < fuel)%nat ->
  title_loop fuel line i closer = LOk None
  \/ exists e, title_loop fuel line i closer = LOk (Some e) /\ i < e <= zlen line.
Proof.
  induction fuel as [|fuel IH]; intros i Hi Hf; [lia|]. cbn [title_loop].
  destruct (Z.ltb_spec i (zlen line)) as [Hlt|Hge]; [|left; reflexivity].
  zg. rewrite esc_at_ok by lia. cbn [lbind].
  destruct (esc_b line i) eqn:Ee.
  - apply esc_b_next in Ee. destruct (IH (i + 2)) as [E|(e & E & He)]; [lia|lia|left; exact E|].
    right. exists e. split; [exact E|lia].
  - destruct (N.eqb (bt line i) closer).
    + right. exists (i + 1). split; [reflexivity|lia].
    + destruct (IH (i + 1)) as [E|(e & E & He)]; [lia|lia|left; exact E|].
      right. exists e. split; [exact E|lia].
Qed.

Lemma parseTitle_ok line pos : 0 <= pos < zlen line ->
  parseTitle line pos = LOk None \/ exists e, parseTitle line pos = LOk (Some e) /\ pos + 1 < e <= zlen line.
Proof.
  intros H. unfold parseTitle. zg.
  destruct (title_loop_ok line (if N.eqb (bt line pos) b_lp then b_rp else bt line pos) (S (length line)) (pos + 1)
              ltac:(lia) (fuel_ok line (pos + 1) ltac:(lia))) as [E|(e & E & He)].
  - left. exact E.
  - right. exists e. split; [exact E|lia].
Qed.

Lemma label_loop_ok line : forall fuel i, 0 <= i <= zlen line -> (Z.to_nat (zlen line - i) < fuel)%nat ->
  exists r, label_loop fuel line i = LOk r /\ (r = -1 \/ (i <= r < zlen line /\ bt line r = b_rb)).
Proof.
  induction fuel as [|fuel IH]; intros i Hi Hf; [lia|]. cbn [label_loop].
  destruct (Z.ltb_spec i (zlen line)) as [Hlt|Hge]; [|exists (-1); split; [reflexivity|left; reflexivity]].
  zg. rewrite esc_at_ok by lia. cbn [lbind].
  destruct (esc_b line i) eqn:Ee.
  - apply esc_b_next in Ee. destruct (IH (i + 2)) as (r & E & Hr); [lia|lia|].
    exists r. split; [exact E|]. destruct Hr as [->|[Hr Hb]]; [left; reflexivity|right; split; [lia|exact Hb]].
  - destruct (N.eqb (bt line i) b_lb); [exists (-1); split; [reflexivity|left; reflexivity]|].
    destruct (N.eqb_spec (bt line i) b_rb) as [Hb|_]; [exists i; split; [reflexivity|right; split; [lia|exact Hb]]|].
    destruct (IH (i + 1)) as (r & E & Hr); [lia|lia|].
    exists r. split; [exact E|]. destruct Hr as [->|[Hr Hb]]; [left; reflexivity|right; split; [lia|exact Hb]].
Qed.

Lemma findLabelEnd_ok line pos : 0 <= pos <= zlen line ->
  exists r, findLabelEnd line pos = LOk r /\ (r = -1 \/ (pos <= r < zlen line /\ bt line r = b_rb)).
Proof. intros H. apply label_loop_ok; [exact H|apply fuel_ok; lia]. Qed.
