(* The two loops of the scanner model as relations (their runs), the proof that
   the executable loops produce such a run without fault and within their
   fuel, and the invariants of the runs. *)
From Verif Require Import Bytes IndexM Facts_linkscan LinkDestM LinkScanM LinkScan_base LinkScan_parse LinkScan_inline.
From Coq Require Import Lia ZArith List.
Local Open Scope Z_scope.

Lemma iclass_eq_dec (a b : iclass) : {a = b} + {a <> b}.
Proof. decide equality. Qed.

Section WithDecide.
  Variable decide : bytes -> option bytes.

  (* ---------------- the run of the loop of scanInlineLinks ---------------- *)

  (* entries: the state before the iteration, its class, and the position after
     it (the end of the line when the function returns inside the iteration) *)
  Inductive iruns (line src : bytes) (ls : Z) : istate -> list (istate * iclass * Z) -> istate -> Prop :=
  | ir_end st : zlen line <= i_pos st -> iruns line src ls st [] st
  | ir_ret st st' cls : i_pos st < zlen line -> inline_step decide line src ls st = LOk (IRet st', cls) ->
      iruns line src ls st [(st, cls, zlen line)] st'
  | ir_go st st' cls tr st'' : i_pos st < zlen line -> inline_step decide line src ls st = LOk (IGo st', cls) ->
      iruns line src ls st' tr st'' -> iruns line src ls st ((st, cls, i_pos st') :: tr) st''.

  Lemma inline_loop_runs line src ls : 0 <= ls -> forall fuel st, 0 <= i_pos st <= zlen line -> 0 <= i_code st ->
    (Z.to_nat (zlen line - i_pos st) < fuel)%nat ->
    exists st' tr, inline_loop decide fuel line src ls st = LOk st' /\ iruns line src ls st tr st'.
  Proof.
    intros Hls. induction fuel as [|fuel IH]; intros st Hp Hc Hf; [lia|]. cbn [inline_loop].
    destruct (Z.ltb_spec (i_pos st) (zlen line)) as [Hlt|Hge].
    - destruct (inline_step_ok decide line src ls st ltac:(lia) Hls Hc) as (r & cls & E & Hsc & Hpost).
      rewrite E. cbn [lbind fst]. destruct r as [st1|st1].
      + destruct Hpost as (Hp1 & Hc1 & _). destruct (IH st1) as (st' & tr & E2 & Hr); [lia|lia|lia|].
        exists st', ((st, cls, i_pos st1) :: tr). split; [exact E2|]. eapply ir_go; eassumption.
      + exists st1, [(st, cls, zlen line)]. split; [reflexivity|]. eapply ir_ret; eassumption.
    - exists st, []. split; [reflexivity|]. apply ir_end. lia.
  Qed.

  (* where a replacement of the inline scanner comes from: an iteration at
     position i in the plain state on `](`, destination [s, e) *)
  Definition inline_origin (line src : bytes) (ls : Z) (i : Z) (r : repl) : Prop :=
    exists s e, 0 <= i /\ bt line i = b_rb /\ i + 1 < zlen line /\ bt line (i + 1) = b_lp
      /\ i + 2 <= s /\ s < e /\ dest_shape line (i + 2) s e
      /\ r_start r = ls + s /\ r_stop r = ls + e /\ ls + e <= zlen src
      /\ decide (sub src (ls + s) (ls + e)) = Some (r_text r).

  (* the invariants of a run *)
  Lemma iruns_inv line src ls : 0 <= ls -> forall st tr st', iruns line src ls st tr st' ->
    0 <= i_pos st <= zlen line -> 0 <= i_code st ->
    exists added, i_acc st' = i_acc st ++ added
      (* increasing, non overlapping, inside the rest of the line *)
      /\ (forall p hi, chain_in p (i_acc st) hi -> hi <= ls + i_pos st -> chain_in p (i_acc st') (ls + zlen line))
      (* every added replacement comes from an iteration of class ILink in the plain state, and lies strictly inside it *)
      /\ Forall (fun r => exists stk nxt, In (stk, ILink, nxt) tr /\ in_code stk = false /\ inHTML (i_html stk) = false
                          /\ inline_origin line src ls (i_pos stk) r /\ r_stop r < ls + nxt) added
      /\ Forall (fun r => ls + i_pos st <= r_start r) added
      (* the iterations are consecutive segments of the line; the state decides the class *)
      /\ Forall (fun en => let '(stk, cls, nxt) := en in
                   i_pos st <= i_pos stk /\ i_pos stk < nxt <= zlen line /\ state_class stk cls) tr.
  Proof.
    intros Hls. induction 1 as [st Hge|st st' cls Hlt E|st st1 cls tr st' Hlt E Hr IH]; intros Hp Hc.
    - exists []. rewrite app_nil_r. split; [reflexivity|]. split; [|split; [constructor|split; constructor]].
      intros p hi Hch Hhi. eapply chain_in_mono; [exact Hch|lia].
    - destruct (inline_step_ok decide line src ls st ltac:(lia) Hls Hc) as (r & cls' & E' & Hsc & Hpost).
      rewrite E in E'. injection E' as <- <-. destruct Hpost as (_ & Hacc & _).
      exists []. rewrite app_nil_r. split; [exact Hacc|]. split; [|split; [constructor|split; [constructor|]]].
      + intros p hi Hch Hhi. rewrite Hacc. eapply chain_in_mono; [exact Hch|lia].
      + constructor; [|constructor]. split; [lia|]. split; [lia|exact Hsc].
    - destruct (inline_step_ok decide line src ls st ltac:(lia) Hls Hc) as (r & cls' & E' & Hsc & Hpost).
      rewrite E in E'. injection E' as <- <-. destruct Hpost as (Hp1 & Hc1 & Hlink & Hother).
      destruct (IH ltac:(lia) Hc1) as (added & Eacc & Hchain & Horig & Hlow & Hseg).
      assert (Hseg' : Forall (fun en => let '(stk, cls0, nxt) := en in
                        i_pos st <= i_pos stk /\ i_pos stk < nxt <= zlen line /\ state_class stk cls0) ((st, cls, i_pos st1) :: tr)).
      { constructor; [split; [lia|]; split; [lia|exact Hsc]|].
        eapply Forall_impl; [|exact Hseg]. intros [[stk c] n] (A & B & C). split; [lia|]. split; [exact B|exact C]. }
      destruct (iclass_eq_dec cls ILink) as [->|Hne].
      + destruct (Hsc) as (_ & _ & _ & Hplain). destruct (Hplain eq_refl) as [Hnc Hnh].
        destruct (Hlink eq_refl) as (Hrb & Hl1 & Hlp & _ & s & e & H1 & H2 & H3 & H4 & H5 & Hacc).
        destruct Hacc as [Hacc|(t & Hse & Hd & Hsrc & Hacc)].
        * exists added. split; [rewrite Eacc, Hacc; reflexivity|]. split; [|split; [|split; [|exact Hseg']]].
          -- intros p hi Hch Hhi. apply (Hchain p hi); [rewrite Hacc; exact Hch|lia].
          -- eapply Forall_impl; [|exact Horig]. intros r (stk & nxt & Hin & R). exists stk, nxt. split; [right; exact Hin|exact R].
          -- eapply Forall_impl; [|exact Hlow]. intros r Hr0. cbn beta in *. lia.
        * exists (mkRepl (ls + s) (ls + e) t :: added). split; [rewrite Eacc, Hacc, <- app_assoc; reflexivity|].
          split; [|split; [|split; [|exact Hseg']]].
          -- intros p hi Hch Hhi. apply (Hchain p (ls + e)); [|lia]. rewrite Hacc.
             eapply chain_in_snoc; [exact Hch|lia|lia|lia].
          -- constructor.
             ++ exists st, (i_pos st1). split; [left; reflexivity|]. split; [exact Hnc|]. split; [exact Hnh|].
                split; [|cbn [r_stop]; lia]. exists s, e. cbn [r_start r_stop r_text].
                split; [lia|]. split; [exact Hrb|]. split; [exact Hl1|]. split; [exact Hlp|]. split; [lia|]. split; [exact Hse|].
                split; [apply H5; exact Hse|]. split; [reflexivity|]. split; [reflexivity|]. split; [exact Hsrc|exact Hd].
             ++ eapply Forall_impl; [|exact Horig]. intros r (stk & nxt & Hin & R). exists stk, nxt. split; [right; exact Hin|exact R].
          -- constructor; [cbn [r_start]; lia|]. eapply Forall_impl; [|exact Hlow]. intros r Hr0. cbn beta in *. lia.
      + specialize (Hother Hne). exists added. split; [rewrite Eacc, Hother; reflexivity|].
        split; [|split; [|split; [|exact Hseg']]].
        * intros p hi Hch Hhi. apply (Hchain p hi); [rewrite Hother; exact Hch|lia].
        * eapply Forall_impl; [|exact Horig]. intros r (stk & nxt & Hin & R). exists stk, nxt. split; [right; exact Hin|exact R].
        * eapply Forall_impl; [|exact Hlow]. intros r Hr0. cbn beta in *. lia.
  Qed.
End WithDecide.
