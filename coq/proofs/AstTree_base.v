(* Basic lemmas about generic trees: unfolding equations of the nested
   fixpoints, an induction principle, boolean reflection helpers. *)
From Coq Require Import List NArith Bool Lia Arith.
From Verif Require Import Bytes AstSchema AstTreeM AstTreeSpec.
Import ListNotations.
Open Scope N_scope.

(* ---- induction principle for trees ---- *)
Section TreeInd.
Variable P : tree -> Prop.
Hypothesis H : forall i k sc kd,
  (forall fl c, In fl kd -> In c (snd fl) -> P c) -> P (T i k sc kd).

Fixpoint tree_ind2 (t : tree) : P t :=
  match t with
  | T i k sc kd =>
    H i k sc kd
      ((fix go (l : list (N * list tree)) : forall fl c, In fl l -> In c (snd fl) -> P c :=
          match l with
          | [] => fun fl c (h : In fl []) _ => match h with end
          | fl0 :: r =>
            fun fl c (h : In fl (fl0 :: r)) (hc : In c (snd fl)) =>
              match h with
              | or_introl e =>
                (fix go2 (cs : list tree) : forall c, In c cs -> P c :=
                   match cs with
                   | [] => fun c (h2 : In c []) => match h2 with end
                   | c0 :: r2 =>
                     fun c (h2 : In c (c0 :: r2)) =>
                       match h2 with
                       | or_introl e2 => eq_rect c0 P (tree_ind2 c0) c e2
                       | or_intror h3 => go2 r2 c h3
                       end
                   end) (snd fl0) c (eq_rect_r (fun x => In c (snd x)) hc e)
              | or_intror h1 => go r fl c h1 hc
              end
          end) kd)
  end.
End TreeInd.

(* ---- unfolding equations ---- *)
Lemma subtrees_eq i k sc kd :
  subtrees (T i k sc kd) = T i k sc kd :: flat_map (fun fl => flat_map subtrees (snd fl)) kd.
Proof.
  reflexivity.
Qed.

Lemma erase_eq i k sc kd :
  erase (T i k sc kd) = T 0 k sc (map (fun fl => (fst fl, map erase (snd fl))) kd).
Proof.
  reflexivity.
Qed.

Definition lmax (l : list nat) : nat := fold_right Nat.max O l.

Lemma height_eq i k sc kd :
  height (T i k sc kd) = S (lmax (map (fun fl => lmax (map height (snd fl))) kd)).
Proof.
  cbn [height]. f_equal.
  induction kd as [|fl r IH]; [reflexivity|].
  cbn [map lmax fold_right]. fold (lmax (map (fun fl0 => lmax (map height (snd fl0))) r)).
  rewrite <- IH. f_equal.
  induction (snd fl) as [|c r2 IH2]; [reflexivity|].
  cbn [map lmax fold_right]. fold (lmax (map height r2)). rewrite <- IH2. reflexivity.
Qed.

Lemma lmax_in l x : In x l -> (x <= lmax l)%nat.
Proof.
  induction l as [|a r IH]; cbn [lmax fold_right In]; [tauto|].
  fold (lmax r). intros [->|h]; [lia|]. specialize (IH h). lia.
Qed.

Lemma height_child i k sc kd fl c :
  In fl kd -> In c (snd fl) -> (height c < height (T i k sc kd))%nat.
Proof.
  intros hfl hc. rewrite height_eq.
  assert (h1 : (height c <= lmax (map height (snd fl)))%nat) by (apply lmax_in, in_map, hc).
  assert (h2 : (lmax (map height (snd fl)) <= lmax (map (fun fl0 => lmax (map height (snd fl0))) kd))%nat).
  { apply lmax_in. apply (in_map (fun fl0 => lmax (map height (snd fl0)))), hfl. }
  lia.
Qed.

Lemma ids_eq i k sc kd :
  ids (T i k sc kd) = i :: flat_map (fun fl => flat_map ids (snd fl)) kd.
Proof.
  unfold ids. rewrite subtrees_eq. cbn [map t_id]. f_equal.
  induction kd as [|fl r IH]; [reflexivity|].
  cbn [flat_map]. rewrite map_app, IH. f_equal.
  induction (snd fl) as [|c r2 IH2]; [reflexivity|].
  cbn [flat_map]. rewrite map_app, IH2. reflexivity.
Qed.

Lemma subtrees_child i k sc kd fl c :
  In fl kd -> In c (snd fl) -> incl (subtrees c) (subtrees (T i k sc kd)).
Proof.
  intros hfl hc x hx. rewrite subtrees_eq. right.
  apply in_flat_map. exists fl. split; [exact hfl|].
  apply in_flat_map. exists c. split; assumption.
Qed.

Lemma subtrees_self t : In t (subtrees t).
Proof. destruct t. rewrite subtrees_eq. left. reflexivity. Qed.

(* ---- reflection helpers ---- *)
Lemma list_eqb_eq a b : list_eqb a b = true -> a = b.
Proof.
  revert b. induction a as [|x r IH]; destruct b as [|y s]; cbn [list_eqb]; try discriminate; [reflexivity|].
  intros h. apply andb_prop in h. destruct h as [h1 h2]. apply N.eqb_eq in h1. subst. f_equal. auto.
Qed.

Lemma scal_eqb_eq a b : scal_eqb a b = true -> a = b.
Proof.
  revert b. induction a as [|[f v] r IH]; destruct b as [|[g w] s]; cbn [scal_eqb]; try discriminate; [reflexivity|].
  intros h. apply andb_prop in h. destruct h as [h h3]. apply andb_prop in h. destruct h as [h1 h2].
  apply N.eqb_eq in h1. apply bytes_eqb_eq in h2. subst. f_equal. auto.
Qed.

Lemma pair_eqb_eq a b : pair_eqb a b = true <-> a = b.
Proof.
  destruct a, b. unfold pair_eqb. cbn [fst snd]. rewrite andb_true_iff, !N.eqb_eq.
  split; [intros [-> ->]; reflexivity | intros e; inversion e; auto].
Qed.

Lemma memp_in l p : memp l p = true <-> In p l.
Proof.
  unfold memp. rewrite existsb_exists. split.
  - intros [x [hx e]]. apply pair_eqb_eq in e. subst. exact hx.
  - intros h. exists p. split; [exact h | apply pair_eqb_eq; reflexivity].
Qed.

Lemma mem_in l c : mem l c = true <-> In c l.
Proof.
  unfold mem. rewrite existsb_exists. split.
  - intros [x [hx e]]. apply N.eqb_eq in e. subst. exact hx.
  - intros h. exists c. split; [exact h | apply N.eqb_refl].
Qed.

Lemma nodupb_nodup l : nodupb l = true -> NoDup l.
Proof.
  induction l as [|a r IH]; cbn [nodupb]; intros h; [constructor|].
  apply andb_prop in h. destruct h as [h1 h2]. constructor; [|auto].
  intros hin. apply mem_in in hin. rewrite hin in h1. discriminate.
Qed.

Lemma lookup2_in {A} (l : list ((N * N) * A)) c k a : lookup2 l c k = Some a -> In ((c, k), a) l.
Proof.
  induction l as [|[[c' k'] a'] r IH]; cbn [lookup2]; [discriminate|].
  destruct ((c' =? c) && (k' =? k)) eqn:e.
  - intros h. inversion h. subst. apply andb_prop in e. destruct e as [e1 e2].
    apply N.eqb_eq in e1, e2. subst. left. reflexivity.
  - intros h. right. auto.
Qed.

Lemma assoc_get_cons {A} k (v : A) r c :
  assoc_get ((k, v) :: r) c = if N.eqb k c then Some v else assoc_get r c.
Proof. reflexivity. Qed.

Lemma assoc_get_nodup {A} (l : list (N * A)) f a :
  NoDup (map fst l) -> In (f, a) l -> assoc_get l f = Some a.
Proof.
  induction l as [|[g b] r IH]; cbn [map fst In]; [tauto|].
  intros hnd [e|hin].
  - inversion e. subst. rewrite assoc_get_cons, N.eqb_refl. reflexivity.
  - inversion hnd as [|x y hx hy]. subst. rewrite assoc_get_cons.
    destruct (N.eqb_spec g f) as [->|ne].
    + exfalso. apply hx. apply (in_map fst) in hin. exact hin.
    + auto.
Qed.

Lemma forallb2_length {A B} (p : A -> B -> bool) a b : forallb2 p a b = true -> length a = length b.
Proof.
  revert b. induction a as [|x r IH]; destruct b as [|y s]; cbn [forallb2]; try discriminate; [reflexivity|].
  intros h. apply andb_prop in h. destruct h as [_ h]. cbn [length]. f_equal. auto.
Qed.
