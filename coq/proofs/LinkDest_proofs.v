(* Proofs about the model of applyReplacements, markdownURLEscape,
   markdownUnescape and the decision of appendReplacement (C29). *)
From Verif Require Import Bytes IndexM Index_proofs Facts_linkdest LinkDestM LinkDestSpec LinkDestSpec_proofs.
Open Scope N_scope.

(* ------------------------------------------------------------------ *)
(* applyReplacements                                                     *)

(* the elements the loop does not skip *)
Fixpoint kept (prev : Z) (rs : list repl) : list repl :=
  match rs with
  | [] => []
  | r :: rs' => if (r_start r <? prev)%Z then kept prev rs' else r :: kept (r_stop r) rs'
  end.

(* what appendReplacement guarantees for every element it appends *)
Definition valid (src : bytes) (r : repl) : Prop :=
  (0 <= r_start r)%Z /\ (r_start r <= r_stop r)%Z /\ (r_stop r <= zlen src)%Z.

(* src[start:stop] *)
Definition range (src : bytes) (r : repl) : bytes :=
  firstn (Z.to_nat (r_stop r - r_start r)) (skipn (Z.to_nat (r_start r)) src).

Lemma zslice_ok s a b : (0 <= a)%Z -> (a <= b)%Z -> (b <= zlen s)%Z ->
  zslice s a b = Some (firstn (Z.to_nat (b - a)) (skipn (Z.to_nat a) s)).
Proof.
  intros H1 H2 H3. unfold zslice.
  apply Z.leb_le in H1. apply Z.leb_le in H2. apply Z.leb_le in H3. rewrite H1, H2, H3. reflexivity.
Qed.

Lemma skipn_add {A} (y : nat) : forall (l : list A) (x : nat), skipn x (skipn y l) = skipn (y + x) l.
Proof.
  induction y as [|y IH]; intros l x; [reflexivity|].
  destruct l as [|a l]; [rewrite !skipn_nil; reflexivity|]. cbn [skipn Nat.add]. apply IH.
Qed.

Lemma skipn_split (s : bytes) (a b : Z) : (0 <= a)%Z -> (a <= b)%Z ->
  skipn (Z.to_nat a) s = firstn (Z.to_nat (b - a)) (skipn (Z.to_nat a) s) ++ skipn (Z.to_nat b) s.
Proof.
  intros H1 H2. rewrite <- (firstn_skipn (Z.to_nat (b - a)) (skipn (Z.to_nat a) s)) at 1.
  f_equal. rewrite skipn_add. f_equal. lia.
Qed.

Lemma skipn_to_end (s : bytes) (a : Z) : (0 <= a)%Z -> (a <= zlen s)%Z ->
  firstn (Z.to_nat (zlen s - a)) (skipn (Z.to_nat a) s) = skipn (Z.to_nat a) s.
Proof.
  intros H1 H2. apply firstn_all2. rewrite skipn_length. unfold zlen in *. lia.
Qed.

(* The loop on ANY list whose elements are valid: the output and the source
   are the same untouched segments, interleaved with the replacement texts in
   the output and with the replaced ranges in the source. *)
Lemma apply_loop_weave src : forall rs prev out,
  (0 <= prev)%Z -> (prev <= zlen src)%Z -> Forall (valid src) rs ->
  exists first rest_out rest_src,
    apply_loop src prev rs out = Some (out ++ weave first rest_out)
    /\ skipn (Z.to_nat prev) src = weave first rest_src
    /\ map snd rest_out = map snd rest_src
    /\ map fst rest_out = map r_text (kept prev rs)
    /\ map fst rest_src = map (range src) (kept prev rs).
Proof.
  induction rs as [|r rs IH]; intros prev out H0 H1 Hv.
  - exists (skipn (Z.to_nat prev) src), [], []. unfold weave. cbn [apply_loop kept map flat_map].
    rewrite zslice_ok by lia. rewrite skipn_to_end by lia. rewrite !app_nil_r. repeat split; reflexivity.
  - inversion Hv as [|? ? (Ha & Hb & Hc) Hv']; subst. cbn [apply_loop kept].
    destruct (Z.ltb_spec (r_start r) prev) as [Hlt|Hge].
    + apply IH; assumption.
    + rewrite zslice_ok by lia.
      destruct (IH (r_stop r) (out ++ firstn (Z.to_nat (r_start r - prev)) (skipn (Z.to_nat prev) src) ++ r_text r))
        as (f & ro & rs' & E1 & E2 & E3 & E4 & E5); [lia|lia|assumption|].
      exists (firstn (Z.to_nat (r_start r - prev)) (skipn (Z.to_nat prev) src)),
             ((r_text r, f) :: ro), ((range src r, f) :: rs').
      rewrite E1. unfold weave in *. cbn [flat_map map fst snd].
      repeat split.
      * rewrite <- !app_assoc. reflexivity.
      * pose proof (skipn_split src prev (r_start r) H0 Hge) as S1.
        pose proof (skipn_split src (r_start r) (r_stop r) Ha Hb) as S2.
        rewrite S1 at 1. f_equal. rewrite S2 at 1. unfold range.
        rewrite <- app_assoc. f_equal. exact E2.
      * f_equal. exact E3.
      * f_equal. exact E4.
      * f_equal. exact E5.
Qed.

Theorem apply_outside_unchanged src rs :
  Forall (valid src) rs ->
  exists first rest_out rest_src,
    apply_loop src 0 rs [] = Some (weave first rest_out)
    /\ src = weave first rest_src
    /\ map snd rest_out = map snd rest_src
    /\ map fst rest_out = map r_text (kept 0 rs)
    /\ map fst rest_src = map (range src) (kept 0 rs).
Proof.
  intros Hv. destruct (apply_loop_weave src rs 0%Z [] ltac:(lia) ltac:(unfold zlen; lia) Hv)
    as (f & ro & rs' & E1 & E2 & E3 & E4 & E5).
  exists f, ro, rs'. repeat split; assumption.
Qed.

(* sorted, non overlapping lists: nothing is skipped *)
Fixpoint chain (prev : Z) (rs : list repl) : Prop :=
  match rs with
  | [] => True
  | r :: rs' => (prev <= r_start r)%Z /\ chain (r_stop r) rs'
  end.

Lemma kept_chain rs : forall prev, chain prev rs -> kept prev rs = rs.
Proof.
  induction rs as [|r rs IH]; intros prev H; [reflexivity|]. destruct H as [H1 H2].
  cbn [kept]. destruct (Z.ltb_spec (r_start r) prev); [lia|]. f_equal. apply IH. exact H2.
Qed.

(* the sort is the identity on a list already sorted by start *)
Fixpoint sorted_from (lo : Z) (l : list repl) : Prop :=
  match l with
  | [] => True
  | r :: l' => (lo <= r_start r)%Z /\ sorted_from (r_start r) l'
  end.

Lemma insert_end r : forall l, Forall (fun x => (r_start x <= r_start r)%Z) l -> insert_by_start r l = l ++ [r].
Proof.
  induction l as [|x l IH]; intros H; [reflexivity|]. inversion H; subst.
  cbn [insert_by_start]. destruct (Z.ltb_spec (r_start r) (r_start x)); [lia|].
  cbn [app]. f_equal. apply IH. assumption.
Qed.

Lemma sort_sorted_aux : forall l acc lo,
  Forall (fun y => (r_start y <= lo)%Z) acc -> sorted_from lo l ->
  fold_left (fun a r => insert_by_start r a) l acc = acc ++ l.
Proof.
  induction l as [|r l IH]; intros acc lo Ha Hs; [rewrite app_nil_r; reflexivity|].
  destruct Hs as [H1 H2]. cbn [fold_left].
  rewrite insert_end by (eapply Forall_impl; [|exact Ha]; cbn; intros; lia).
  rewrite (IH (acc ++ [r]) (r_start r)); [rewrite <- app_assoc; reflexivity| |exact H2].
  apply Forall_app. split; [eapply Forall_impl; [|exact Ha]; cbn; intros; lia|].
  constructor; [lia|constructor].
Qed.

Lemma sort_sorted l lo : sorted_from lo l -> sort_by_start l = l.
Proof. intros H. unfold sort_by_start. apply (sort_sorted_aux l [] lo); [constructor|exact H]. Qed.

Lemma insert_valid src r : forall l, valid src r -> Forall (valid src) l -> Forall (valid src) (insert_by_start r l).
Proof.
  induction l as [|x l IH]; intros Hr Hl; cbn [insert_by_start]; [constructor; [assumption|constructor]|].
  inversion Hl; subst. destruct (r_start r <? r_start x)%Z; constructor; auto.
Qed.

Lemma sort_valid src : forall l acc, Forall (valid src) l -> Forall (valid src) acc ->
  Forall (valid src) (fold_left (fun a r => insert_by_start r a) l acc).
Proof.
  induction l as [|r l IH]; intros acc Hl Ha; [exact Ha|]. inversion Hl; subst.
  cbn [fold_left]. apply IH; [assumption|]. apply insert_valid; assumption.
Qed.

(* no slice of applyReplacements goes out of range when every element is valid, in any order *)
Theorem applyReplacements_no_fault src rs : Forall (valid src) rs -> applyReplacements src rs <> None.
Proof.
  intros Hv. unfold applyReplacements. destruct rs as [|r rs]; [discriminate|].
  assert (Hs : Forall (valid src) (sort_by_start (r :: rs))) by (apply sort_valid; [exact Hv|constructor]).
  destruct (apply_outside_unchanged src _ Hs) as (f & ro & _ & E & _). rewrite E. discriminate.
Qed.

(* ------------------------------------------------------------------ *)
(* obligations on the generated facts                                    *)

Definition fact_linkdest : bool :=
  (gen_mdurl_esc_search =? 92) && (gen_mdurl_esc_written =? 92)
  && bytes_eqb gen_mdurl_esc_doubles gen_mdurl_escapable
  && match gen_mdurl_unesc_escape with
     | [(k, l)] => (k =? 92) && bytes_eqb l gen_mdurl_escapable
     | _ => false
     end
  && match gen_mdurl_unesc_subst with
     | [(c, (d, w))] => (c =? 194) && (d =? 160) && (w =? 32)
     | _ => false
     end
  && gen_mdurl_unesc_writes_next && gen_mdurl_unesc_last_plain
  && gen_ld_guard_ok && gen_ld_apply_loop_ok
  && forallb (fun k => k <? 256) gen_mdurl_escapable
  && forallb (fun c => Bool.eqb (mem gen_mdurl_escapable c) (url_escapable c)) all_bytes.
Lemma fact_linkdest_ok : fact_linkdest = true. Proof. vm_compute. reflexivity. Qed.

Lemma url_escapable_oob c : 256 <= c -> url_escapable c = false.
Proof. intros H. unfold url_escapable. apply mem_oob; [reflexivity|exact H]. Qed.

Lemma facts :
  gen_mdurl_esc_search = 92 /\ gen_mdurl_esc_written = 92
  /\ gen_mdurl_esc_doubles = gen_mdurl_escapable
  /\ gen_mdurl_unesc_escape = [(92, gen_mdurl_escapable)]
  /\ gen_mdurl_unesc_subst = [(194, (160, 32))]
  /\ (forall c, mem gen_mdurl_escapable c = url_escapable c).
Proof.
  pose proof fact_linkdest_ok as H. unfold fact_linkdest in H.
  repeat (apply andb_prop in H; destruct H as [H ?]).
  apply N.eqb_eq in H.
  repeat match goal with
         | X : (_ =? _) = true |- _ => apply N.eqb_eq in X
         | X : bytes_eqb _ _ = true |- _ => apply bytes_eqb_eq in X
         end.
  repeat split; try assumption.
  (* the two table equalities are closed by conversion inside `repeat split` *)
  - intros c. destruct (N.lt_ge_cases c 256) as [Hc|Hc].
    + match goal with X : forallb (fun c => Bool.eqb _ _) all_bytes = true |- _ =>
        pose proof (forall_bytes _ X c Hc) as E end. apply eqb_prop in E. exact E.
    + rewrite url_escapable_oob by assumption. apply mem_oob; assumption.
Qed.

(* ------------------------------------------------------------------ *)
(* markdownURLEscape computes url_escape                                 *)

Lemma index_byte_some c : forall s k r, index_byte c s k = Some r ->
  exists pre post, s = pre ++ c :: post /\ r = k + nlen pre /\ Forall (fun x => x <> c) pre.
Proof.
  induction s as [|x s IH]; intros k r H; [discriminate|]. cbn [index_byte] in H.
  destruct (N.eqb_spec x c) as [->|Hx].
  - injection H as <-. exists [], s. rewrite nlen_nil. repeat split; [lia|constructor].
  - apply IH in H. destruct H as (pre & post & -> & -> & Hf).
    exists (x :: pre), post. rewrite nlen_cons. repeat split; [lia|constructor; assumption].
Qed.

Lemma index_byte_none c : forall s k, index_byte c s k = None -> Forall (fun x => x <> c) s.
Proof.
  induction s as [|x s IH]; intros k H; [constructor|]. cbn [index_byte] in H.
  destruct (N.eqb_spec x c) as [->|Hx]; [discriminate|]. constructor; [assumption|eapply IH; eassumption].
Qed.

Lemma url_escape_plain pre : Forall (fun x => x <> 92) pre -> forall t, url_escape (pre ++ t) = pre ++ url_escape t.
Proof.
  induction 1 as [|x pre Hx _ IH]; intros t; [reflexivity|].
  cbn [app url_escape]. apply N.eqb_neq in Hx. rewrite Hx, IH. reflexivity.
Qed.

Lemma slice_prefix (pre : bytes) c post : slice (pre ++ c :: post) 0 (nlen pre + 1) = Some (pre ++ [c]).
Proof.
  rewrite slice_ok; [|lia|rewrite nlen_app, nlen_cons; lia]. f_equal.
  rewrite seg_snoc by lia. f_equal. unfold seg. rewrite N.sub_0_r, nlen_nat. cbn [N.to_nat skipn].
  rewrite firstn_app, Nat.sub_diag, firstn_all. cbn [firstn]. apply app_nil_r.
Qed.

Lemma slice_suffix (pre : bytes) c post :
  slice (pre ++ c :: post) (nlen pre + 1) (nlen (pre ++ c :: post)) = Some post.
Proof.
  rewrite slice_ok; [|rewrite nlen_app, nlen_cons; lia|lia]. f_equal. unfold seg.
  replace (pre ++ c :: post) with ((pre ++ [c]) ++ post) by (rewrite <- app_assoc; reflexivity).
  rewrite <- (nlen_snoc pre c), nlen_app.
  replace (nlen (pre ++ [c]) + nlen post - nlen (pre ++ [c])) with (nlen post) by lia.
  rewrite !nlen_nat. rewrite skipn_app, skipn_all, Nat.sub_diag. cbn [app skipn]. apply firstn_all.
Qed.

Lemma slice_one (pre : bytes) c post : slice (pre ++ c :: post) (nlen pre) (nlen pre + 1) = Some [c].
Proof.
  rewrite slice_ok; [|lia|rewrite nlen_app, nlen_cons; lia].
  rewrite seg_snoc by lia. rewrite seg_same. reflexivity.
Qed.

Lemma ue_loop_spec : forall fuel s b, (length s < fuel)%nat ->
  exists b' s', ue_loop fuel s b = LOk (b', s') /\ b' ++ s' = b ++ url_escape s.
Proof.
  destruct facts as (Hsearch & Hwr & Hdbl & _ & _ & Hesc).
  induction fuel as [|fuel IH]; intros s b Hf; [lia|].
  cbn [ue_loop]. destruct s as [|x s0]; [exists b, []; split; reflexivity|].
  remember (x :: s0) as s eqn:Es. rewrite Hsearch.
  destruct (index_byte 92 s 0) as [i|] eqn:Ei.
  - apply index_byte_some in Ei. destruct Ei as (pre & post & -> & -> & Hpre). rewrite N.add_0_l.
    rewrite slice_prefix, slice_suffix.
    rewrite url_escape_plain by exact Hpre. cbn [url_escape N.eqb Pos.eqb].
    assert (Hlen : (length post < fuel)%nat) by (rewrite app_length in Hf; simpl in Hf; lia).
    destruct post as [|d post'].
    + assert (E : nlen pre + 1 =? nlen (pre ++ [92]) = true) by (apply N.eqb_eq; rewrite nlen_snoc; reflexivity).
      rewrite E, Hwr.
      destruct fuel; [simpl in Hf; rewrite app_length in Hf; simpl in Hf; lia|]. cbn [ue_loop].
      eexists _, []. split; [reflexivity|]. rewrite <- !app_assoc. reflexivity.
    + assert (E : nlen pre + 1 =? nlen (pre ++ 92 :: d :: post') = false)
        by (apply N.eqb_neq; rewrite nlen_app, !nlen_cons; lia).
      rewrite E, get_next, Hdbl, Hesc, Hwr.
      destruct (url_escapable d).
      * destruct (IH (d :: post') ((b ++ pre ++ [92]) ++ [92]) Hlen) as (b' & s' & E1 & E2).
        exists b', s'. split; [exact E1|]. rewrite E2. rewrite <- !app_assoc. reflexivity.
      * destruct (IH (d :: post') (b ++ pre ++ [92]) Hlen) as (b' & s' & E1 & E2).
        exists b', s'. split; [exact E1|]. rewrite E2. rewrite <- !app_assoc. reflexivity.
  - apply index_byte_none in Ei. exists b, s. split; [reflexivity|].
    rewrite <- (app_nil_r s) at 2. rewrite url_escape_plain by exact Ei. cbn [url_escape]. rewrite app_nil_r. reflexivity.
Qed.

Theorem markdownURLEscape_spec s : markdownURLEscape s = LOk (url_escape s).
Proof.
  unfold markdownURLEscape. destruct (ue_loop_spec (S (length s)) s []) as (b' & s' & E1 & E2); [lia|].
  rewrite E1. cbn [app] in E2. destruct (N.eqb_spec (nlen b') 0) as [H0|H0].
  - destruct b'; [cbn [app] in E2; rewrite E2; reflexivity|rewrite nlen_cons in H0; lia].
  - rewrite E2. reflexivity.
Qed.

(* ------------------------------------------------------------------ *)
(* markdownUnescape computes url_unescape                                *)

Lemma un_loop_spec : forall fuel pre post last out,
  last <= nlen pre -> (length post < fuel)%nat ->
  un_loop fuel (pre ++ post) (nlen pre) last out
  = LOk (out ++ seg (pre ++ post) last (nlen pre) ++ url_unescape post).
Proof.
  destruct facts as (_ & _ & _ & Hesc & Hsub & Hmem).
  induction fuel as [|fuel IH]; intros pre post last out Hl Hf; [lia|].
  cbn [un_loop]. destruct post as [|c post].
  - rewrite app_nil_r. rewrite N.ltb_irrefl.
    destruct (N.eqb_spec last (nlen pre)) as [->|Hne].
    + rewrite seg_same, !app_nil_r. reflexivity.
    + rewrite slice_ok by lia. cbn [url_unescape]. rewrite app_nil_r. reflexivity.
  - assert (Hi : nlen pre <? nlen (pre ++ c :: post) = true)
      by (apply N.ltb_lt; rewrite nlen_app, nlen_cons; lia).
    rewrite Hi, get_app_mid.
    assert (Hs : pre ++ c :: post = (pre ++ [c]) ++ post) by (rewrite <- app_assoc; reflexivity).
    assert (Hstep : un_loop fuel (pre ++ c :: post) (nlen pre + 1) last out
                    = LOk (out ++ seg (pre ++ c :: post) last (nlen pre) ++ c :: url_unescape post)).
    { rewrite Hs, <- nlen_snoc with (c := c). rewrite IH; [|rewrite nlen_snoc; lia|simpl in Hf; lia].
      rewrite <- Hs, nlen_snoc, seg_snoc by assumption. rewrite <- !app_assoc. reflexivity. }
    assert (Hflush : (if last =? nlen pre then Some out
                      else match slice (pre ++ c :: post) last (nlen pre) with
                           | Some t => Some (out ++ t) | None => None end)
                     = Some (out ++ seg (pre ++ c :: post) last (nlen pre))).
    { destruct (N.eqb_spec last (nlen pre)) as [->|Hne].
      - rewrite seg_same, app_nil_r. reflexivity.
      - rewrite slice_ok; [reflexivity|lia|rewrite nlen_app; lia]. }
    destruct post as [|d r].
    + assert (H1 : nlen pre + 1 <? nlen (pre ++ [c]) = false) by (apply N.ltb_ge; rewrite nlen_snoc; lia).
      rewrite H1. exact Hstep.
    + assert (H1 : nlen pre + 1 <? nlen (pre ++ c :: d :: r) = true)
        by (apply N.ltb_lt; rewrite nlen_app, !nlen_cons; lia).
      rewrite H1, get_next, Hflush, url_unescape_two.
      assert (Hs2 : pre ++ c :: d :: r = (pre ++ [c; d]) ++ r) by (rewrite <- app_assoc; reflexivity).
      assert (Hn2 : nlen (pre ++ [c; d]) = nlen pre + 2) by (rewrite nlen_app, !nlen_cons, nlen_nil; lia).
      assert (Hjump : forall o, un_loop fuel (pre ++ c :: d :: r) (nlen pre + 2) (nlen pre + 2) o
                                = LOk (o ++ url_unescape r)).
      { intros o. rewrite Hs2, <- Hn2. rewrite IH; [|lia|simpl in Hf; lia]. rewrite seg_same. reflexivity. }
      unfold assoc_list, un_subst. rewrite Hesc, Hsub. unfold assoc_get.
      destruct (N.eqb_spec 92 c) as [<-|Hc92].
      * rewrite Hmem. cbn [N.eqb Pos.eqb andb]. destruct (url_escapable d).
        -- assert (Hsl : slice (pre ++ 92 :: d :: r) (nlen pre + 1) (nlen pre + 2) = Some [d]).
           { replace (pre ++ 92 :: d :: r) with ((pre ++ [92]) ++ d :: r) by (rewrite <- app_assoc; reflexivity).
             replace (nlen pre + 2) with (nlen pre + 1 + 1) by lia.
             rewrite <- (nlen_snoc pre 92). apply slice_one. }
           rewrite Hsl, Hjump. rewrite <- !app_assoc. reflexivity.
        -- cbn [mem existsb]. exact Hstep.
      * assert (Hc' : (c =? 92) = false) by (apply N.eqb_neq; congruence). rewrite Hc'. cbn [andb].
        unfold mem at 1. cbn [existsb].
        destruct (N.eqb_spec 194 c) as [<-|Hc194].
        -- cbn [N.eqb Pos.eqb andb]. destruct (N.eqb_spec d 160) as [->|Hd].
           ++ rewrite Hjump. rewrite <- !app_assoc. reflexivity.
           ++ exact Hstep.
        -- assert (Hc'' : (c =? 194) = false) by (apply N.eqb_neq; congruence). rewrite Hc''. cbn [andb].
           exact Hstep.
Qed.

Theorem markdownUnescape_spec s : markdownUnescape s = LOk (url_unescape s).
Proof.
  unfold markdownUnescape. pose proof (un_loop_spec (S (length s)) [] s 0 []) as H.
  assert (E : nlen (@nil N) = 0) by apply nlen_nil. rewrite E in H. cbn [app] in H.
  rewrite H; [|lia|lia]. rewrite seg_same. reflexivity.
Qed.

(* the modelled decision of appendReplacement is the specification-level one *)
Lemma appendReplacement_repl_spec (url : Type) parse (scheme host path : url -> bytes) rewrite to_string raw :
  appendReplacement_repl url parse scheme host path rewrite to_string raw
  = repl_spec url parse scheme host path rewrite to_string raw.
Proof.
  unfold appendReplacement_repl, repl_spec. rewrite markdownUnescape_spec. cbn [lres_opt].
  destruct (parse (url_unescape raw)) as [u|]; [|reflexivity].
  unfold is_empty. destruct (negb _ || _); [reflexivity|].
  rewrite markdownURLEscape_spec. reflexivity.
Qed.
