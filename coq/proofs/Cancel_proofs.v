(* C11: lemmas about the cancellation model CancelM. *)
From Coq Require Import List NArith Bool Arith Lia.
Import ListNotations.
From Verif Require Import Facts_vm_sites CancelM.
Close Scope N_scope.

(* ---- the generated list of blocking sites agrees with its committed classification ---- *)

Definition site_ok (s : site) : bool :=
  let known_cond := N.eqb (s_cond s) 1%N || N.eqb (s_cond s) 2%N in
  if N.eqb (s_class s) 1%N then          (* no-context-only: the then branch of a test that holds exactly without a context *)
    known_cond && N.eqb (s_branch s) 1%N
  else if N.eqb (s_class s) 2%N then     (* guarded-by-done-case: the else branch, a select with the done case whose index returns vm.stop() *)
    known_cond && N.eqb (s_branch s) 2%N && N.eqb (s_kind s) 0%N && site_guarded s
  else false.

Lemma sites_ok :
  forallb site_ok block_sites = true /\ stale_site_entries = 0%N /\
  head_check_first = true /\ hasDefaultCase_only_false = true.
Proof. repeat split; vm_compute; reflexivity. Qed.

Lemma all_guarded : forall b, op_guarded b = true.
Proof. destruct b; vm_compute; reflexivity. Qed.

(* ---- cancel_bounded ---- *)

(* at the head of the loop with env.done set: the context error, in one iteration *)
Lemma cancel_bounded_head orc s : cdone s = true -> crun true orc 1 s = Some RCtxErr.
Proof. intros H. simpl. unfold cstep. rewrite H. reflexivity. Qed.

Definition cancelled_at (orc : oracle) (t : nat) : bool :=
  match o_cancel_at orc with Some c => Nat.leb c t | None => false end.

Lemma cancelled_unfold orc s : cancelled orc s = cancelled_at orc (clock s).
Proof. reflexivity. Qed.

(* in the middle of any instruction with env.done set (hence the context
   done): the context error within two iterations, unless the instruction in
   flight is a Stop/Fatal, whose own result is returned at once *)
Lemma cancel_bounded_mid orc s :
  (forall b, op_guarded b = true) ->
  cdone s = true -> cancelled orc s = true ->
  crun_mid true orc 2 s = Some RCtxErr \/
  exists o, o_prog orc (cpc s) = KAbort o /\ crun_mid true orc 2 s = Some (ROwn o).
Proof.
  intros Hg Hd Hc. unfold crun_mid, cbody. rewrite Hd, Hc. simpl.
  destruct (o_prog orc (cpc s)) as [|b|o|o] eqn:Hp.
  - left. reflexivity.
  - rewrite Hg. destruct (o_ready orc (clock s)); [|left; reflexivity].
    destruct (o_pick_done orc (clock s)); left; reflexivity.
  - left. reflexivity.
  - right. exists o. split; reflexivity.
Qed.

(* one iteration that does not return advances the clock, keeps the context
   cancelled once it is, and records the watcher *)
Lemma cstep_next orc s s' :
  (forall b, op_guarded b = true) ->
  cancelled orc s = true -> cstep true orc s = CNext s' ->
  clock s' = S (clock s) /\ cancelled orc s' = true /\
  (o_watcher orc (clock s) = true -> cdone s' = true).
Proof.
  intros Hg Hc H. unfold cstep in H. destruct (cdone s) eqn:Hd; simpl in H; [discriminate|].
  unfold cbody in H. rewrite Hd, Hc in H. simpl in H.
  assert (Hmono : forall pc d, cancelled orc (tick s pc d) = true).
  { intros pc d. unfold cancelled, tick in *. simpl. destruct (o_cancel_at orc); [|discriminate].
    apply Nat.leb_le in Hc. apply Nat.leb_le. lia. }
  destruct (o_prog orc (cpc s)) as [|b|o|o].
  - inversion H; subst. split; [reflexivity|]. split; [apply Hmono|]. simpl. intros ->. reflexivity.
  - rewrite Hg in H. destruct (o_ready orc (clock s)); [|discriminate].
    destruct (o_pick_done orc (clock s)); [discriminate|].
    inversion H; subst. split; [reflexivity|]. split; [apply Hmono|]. simpl. intros ->. reflexivity.
  - destruct (o_watcher orc (clock s)); discriminate.
  - discriminate.
Qed.

(* once the context is cancelled, if the watcher goroutine runs within d
   ticks, the loop returns within d + 2 iterations, whatever the program, the
   readiness of its channels and the choices of select *)
Lemma cancel_bounded_watcher orc :
  (forall b, op_guarded b = true) ->
  forall d s, cancelled orc s = true ->
    (exists k, k < d /\ o_watcher orc (clock s + k) = true) ->
    exists r, crun true orc (S (S d)) s = Some r.
Proof.
  intros Hg. induction d as [|d IH]; intros s Hc [k [Hk Hw]]; [lia|].
  cbn [crun]. destruct (cstep true orc s) as [s'|r] eqn:Hs; [|eauto].
  destruct (cstep_next orc s s' Hg Hc Hs) as [Hcl [Hc' Hdone]].
  destruct k as [|k].
  - rewrite Nat.add_0_r in Hw. specialize (Hdone Hw).
    exists RCtxErr. cbn [crun]. unfold cstep. rewrite Hdone. reflexivity.
  - apply IH; [exact Hc'|]. exists k. split; [lia|]. rewrite Hcl. rewrite <- Hw. f_equal. lia.
Qed.

(* ---- finish_first_wins ---- *)

Lemma finish_first_wins hc orc : forall n s r,
  cdone s = false ->
  (forall t, t < clock s + n -> cancelled_at orc t = false) ->
  crun hc orc n s = Some r -> exists o, r = ROwn o.
Proof.
  induction n; intros s r Hd Hnc Hr; simpl in Hr; [discriminate|].
  assert (Hc : cancelled orc s = false) by (rewrite cancelled_unfold; apply Hnc; lia).
  unfold cstep in Hr. rewrite Hd in Hr. rewrite andb_false_r in Hr.
  unfold cbody in Hr. rewrite Hd, Hc in Hr. rewrite andb_false_r in Hr. simpl in Hr.
  assert (Hnext : forall pc, crun hc orc n (tick s pc false) = Some r -> exists o, r = ROwn o).
  { intros pc H. apply (IHn (tick s pc false)); [reflexivity| |exact H].
    intros t Ht. apply Hnc. simpl in Ht. lia. }
  destruct (o_prog orc (cpc s)) as [|b|o|o].
  - eapply Hnext; eassumption.
  - destruct (hc && op_guarded b); destruct (o_ready orc (clock s)); eapply Hnext; eassumption.
  - rewrite andb_false_r in Hr. inversion Hr. eauto.
  - inversion Hr. eauto.
Qed.

(* what happens if a blocking site is not guarded: the loop can stay blocked
   for ever although the context is cancelled (the reason for the side condition) *)
Lemma unguarded_blocks_forever orc b :
  op_guarded b = false -> (forall pc, o_prog orc pc = KBlock b) -> (forall t, o_ready orc t = false) ->
  (forall t, o_watcher orc t = false) ->
  forall n s, cdone s = false -> crun true orc n s = None.
Proof.
  intros Hg Hp Hr Hw. induction n; intros s Hd; [reflexivity|].
  simpl. unfold cstep. rewrite Hd. simpl. unfold cbody. rewrite Hp, Hg, Hr, Hd, Hw. simpl.
  rewrite andb_false_r. apply IHn. reflexivity.
Qed.

Lemma cancel_bounded_watcher_all :
  forall orc d s, cancelled orc s = true ->
    (exists k, k < d /\ o_watcher orc (clock s + k) = true) ->
    exists r, crun true orc (S (S d)) s = Some r.
Proof. intros orc. exact (cancel_bounded_watcher orc all_guarded). Qed.
