(* C11: lemmas about the cancellation model CancelM. *)
From Coq Require Import List NArith Bool Arith Lia.
Import ListNotations.
From Verif Require Import Facts_vm_sites CancelM.
Close Scope N_scope.

(* ---- the generated list of blocking sites agrees with its committed classification ---- *)

Definition site_ok (s : site) : bool :=
  let known_cond := N.eqb (s_cond s) 1%N || N.eqb (s_cond s) 2%N in
  if N.eqb (s_class s) 1%N then          (* no-context-only: the then branch of a test that holds exactly without a context *)
    known_cond && N.eqb (s_branch s) 1%N
  else if N.eqb (s_class s) 2%N then     (* guarded-by-done-case: the else branch, a select with the done case whose index returns vm.stop() *)
    known_cond && N.eqb (s_branch s) 2%N && N.eqb (s_kind s) 0%N && site_guarded s
  else false.

Lemma sites_ok :
  forallb site_ok block_sites = true /\ stale_site_entries = 0%N /\
  head_check_first = true /\ hasDefaultCase_only_false = true.
Proof. repeat split; vm_compute; reflexivity. Qed.

(* the failure signal of goroutines is installed after the context (generated
   from Program.Run and Template.Run) *)
Lemma goroutines_signal_after_context : goroutines_after_context = true.
Proof. vm_compute; reflexivity. Qed.

Lemma all_guarded : forall b, op_guarded b = true.
Proof. destruct b; vm_compute; reflexivity. Qed.

(* ---- the final statements of runFunc (generated table) ---- *)

Arguments leave : simpl never.

(* with a context and env.done set, the error of the context is returned,
   also while a panic is pending *)
Lemma tail_ctx_first : forall pending, runfunc_tail true true pending = 1%N.
Proof. destruct pending; vm_compute; reflexivity. Qed.

(* otherwise the pending panic, or nil *)
Lemma tail_own : forall has_ctx pending,
  runfunc_tail has_ctx false pending = (if pending then 2%N else 0%N).
Proof. destruct has_ctx, pending; vm_compute; reflexivity. Qed.

Lemma tail_no_ctx : forall done pending,
  runfunc_tail false done pending = (if pending then 2%N else 0%N).
Proof. destruct done, pending; vm_compute; reflexivity. Qed.

(* a goroutine started by a go statement ended with an error (env.failed() is
   not nil, which sets env.done): that error is returned, before the error of
   the context and a pending panic; if no goroutine failed nothing changes *)
Lemma tail_goroutine_failure_first : forall has_ctx pending,
  runfunc_tail_g true has_ctx true pending = 3%N.
Proof. destruct has_ctx, pending; vm_compute; reflexivity. Qed.

Lemma tail_no_failure : forall has_ctx done pending,
  runfunc_tail_g false has_ctx done pending = runfunc_tail has_ctx done pending.
Proof. reflexivity. Qed.

Lemma leave_ctx pending : leave true true pending = CRet RCtxErr.
Proof. unfold leave. rewrite tail_ctx_first. reflexivity. Qed.

Lemma leave_own has_ctx pending :
  leave has_ctx false pending = CRet (if pending then RPanicErr else RNil).
Proof. unfold leave. rewrite tail_own. destruct pending; reflexivity. Qed.

Lemma leave_no_ctx done pending :
  leave false done pending = CRet (if pending then RPanicErr else RNil).
Proof. unfold leave. rewrite tail_no_ctx. destruct pending; reflexivity. Qed.

(* ---- cancel_bounded ---- *)

(* at the head of the loop with env.done set: the context error, in one
   iteration, whether or not a panic is pending *)
Lemma cancel_bounded_head orc s : cdone s = true -> crun true orc 1 s = Some RCtxErr.
Proof. intros H. cbn [crun]. unfold cstep. rewrite H. cbn [andb]. rewrite leave_ctx. reflexivity. Qed.

Definition cancelled_at (orc : oracle) (t : nat) : bool :=
  match o_cancel_at orc with Some c => Nat.leb c t | None => false end.

Lemma cancelled_unfold orc s : cancelled orc s = cancelled_at orc (clock s).
Proof. reflexivity. Qed.

(* in the middle of any instruction with env.done set (hence the context
   done): the context error within two iterations, unless the instruction in
   flight is a Stop/Fatal, whose own result is returned at once *)
Lemma cancel_bounded_mid orc s :
  (forall b, op_guarded b = true) ->
  cdone s = true -> cancelled orc s = true ->
  crun_mid true orc 2 s = Some RCtxErr \/
  exists o, o_prog orc (cpc s) = KAbort o /\ crun_mid true orc 2 s = Some (ROwn o).
Proof.
  intros Hg Hd Hc. unfold crun_mid, cbody. rewrite Hd, Hc. cbn -[leave].
  destruct (o_prog orc (cpc s)) as [|b|fr| | |o] eqn:Hp.
  - left. unfold cstep. cbn -[leave]. rewrite leave_ctx. reflexivity.
  - rewrite Hg. destruct (o_ready orc (clock s)); [|left; rewrite leave_ctx; reflexivity].
    destruct (o_pick_done orc (clock s)); left; [rewrite leave_ctx; reflexivity|].
    unfold cstep. cbn -[leave]. rewrite leave_ctx. reflexivity.
  - destruct fr; left; [|rewrite leave_ctx; reflexivity].
    unfold cstep. cbn -[leave]. rewrite leave_ctx. reflexivity.
  - left. unfold cstep. cbn -[leave]. rewrite leave_ctx. reflexivity.
  - left. rewrite leave_ctx. reflexivity.
  - right. exists o. split; reflexivity.
Qed.

(* a blocked instruction whose context is cancelled returns the context error
   at once (the done case is the only ready one), also while a panic is pending *)
Lemma blocked_cancel_returns_ctx orc s b :
  (forall b, op_guarded b = true) ->
  o_prog orc (cpc s) = KBlock b -> o_ready orc (clock s) = false -> cancelled orc s = true ->
  cstep true orc s = CRet RCtxErr.
Proof.
  intros Hg Hp Hr Hc. unfold cstep. destruct (cdone s); cbn -[leave]; [apply leave_ctx|].
  unfold cbody. rewrite Hp, Hg, Hr, Hc. cbn -[leave]. apply leave_ctx.
Qed.

(* one iteration that does not return advances the clock, keeps the context
   cancelled once it is, and records the watcher *)
Lemma cstep_next orc s s' :
  (forall b, op_guarded b = true) ->
  cancelled orc s = true -> cstep true orc s = CNext s' ->
  clock s' = S (clock s) /\ cancelled orc s' = true /\
  (o_watcher orc (clock s) = true -> cdone s' = true).
Proof.
  intros Hg Hc H. unfold cstep in H. destruct (cdone s) eqn:Hd; cbn -[leave] in H; [rewrite leave_ctx in H; discriminate|].
  unfold cbody in H. rewrite Hd, Hc in H. cbn -[leave] in H.
  assert (Hmono : forall pc d p, cancelled orc (tick_pending s pc d p) = true).
  { intros pc d p. unfold cancelled, tick_pending in *. cbn -[leave]. destruct (o_cancel_at orc); [|discriminate].
    apply Nat.leb_le in Hc. apply Nat.leb_le. lia. }
  assert (Hmono' : forall pc d, cancelled orc (tick s pc d) = true) by (intros; apply Hmono).
  destruct (o_prog orc (cpc s)) as [|b|fr| | |o].
  - inversion H; subst. split; [reflexivity|]. split; [apply Hmono'|]. cbn -[leave]. intros ->. reflexivity.
  - rewrite Hg in H. destruct (o_ready orc (clock s)); [|rewrite leave_ctx in H; discriminate].
    destruct (o_pick_done orc (clock s)); [rewrite leave_ctx in H; discriminate|].
    inversion H; subst. split; [reflexivity|]. split; [apply Hmono'|]. cbn -[leave]. intros ->. reflexivity.
  - destruct fr; [|unfold leave in H; discriminate].
    inversion H; subst. split; [reflexivity|]. split; [apply Hmono|]. cbn -[leave]. intros ->. reflexivity.
  - inversion H; subst. split; [reflexivity|]. split; [apply Hmono|]. cbn -[leave]. intros ->. reflexivity.
  - unfold leave in H. discriminate.
  - discriminate.
Qed.

(* once the context is cancelled, if the watcher goroutine runs within d
   ticks, the loop returns within d + 2 iterations, whatever the program, the
   readiness of its channels and the choices of select *)
Lemma cancel_bounded_watcher orc :
  (forall b, op_guarded b = true) ->
  forall d s, cancelled orc s = true ->
    (exists k, k < d /\ o_watcher orc (clock s + k) = true) ->
    exists r, crun true orc (S (S d)) s = Some r.
Proof.
  intros Hg. induction d as [|d IH]; intros s Hc [k [Hk Hw]]; [lia|].
  cbn [crun]. destruct (cstep true orc s) as [s'|r] eqn:Hs; [|eauto].
  destruct (cstep_next orc s s' Hg Hc Hs) as [Hcl [Hc' Hdone]].
  destruct k as [|k].
  - rewrite Nat.add_0_r in Hw. specialize (Hdone Hw).
    exists RCtxErr. assert (Hh := cancel_bounded_head orc s' Hdone). cbn [crun] in Hh.
    destruct (cstep true orc s') as [s2|r2]; [discriminate|]. exact Hh.
  - apply IH; [exact Hc'|]. exists k. split; [lia|]. rewrite Hcl. rewrite <- Hw. f_equal. lia.
Qed.

(* ---- what is returned ---- *)

(* the outcome of the code itself: nil, the pending PanicError, or the value of a Stop/Fatal *)
Definition own (r : result) : Prop := r <> RCtxErr.

(* once env.done is set at the head of the loop, whatever the loop returns
   later is the context error: with cancel_bounded_head, in one iteration *)
Lemma flag_set_returns_ctx orc : forall n s r,
  cdone s = true -> crun true orc n s = Some r -> r = RCtxErr.
Proof.
  intros n s r Hd Hr. destruct n; [discriminate|].
  cbn -[leave] in Hr. unfold cstep in Hr. rewrite Hd in Hr. cbn -[leave] in Hr. rewrite leave_ctx in Hr.
  inversion Hr. reflexivity.
Qed.

(* a PanicError is returned only if the loop was left before env.done was seen
   set: while a panic is pending a cancellation that has been noticed wins *)
Lemma pending_panic_not_returned_after_flag orc s :
  cdone s = true -> crun true orc 1 s <> Some RPanicErr.
Proof. intros Hd. rewrite cancel_bounded_head by exact Hd. discriminate. Qed.

(* ---- finish_first_wins ---- *)

Lemma finish_first_wins hc orc : forall n s r,
  cdone s = false ->
  (forall t, t < clock s + n -> cancelled_at orc t = false) ->
  crun hc orc n s = Some r -> own r.
Proof.
  induction n; intros s r Hd Hnc Hr; cbn -[leave] in Hr; [discriminate|].
  assert (Hc : cancelled orc s = false) by (rewrite cancelled_unfold; apply Hnc; lia).
  unfold cstep in Hr. rewrite Hd in Hr. rewrite andb_false_r in Hr.
  unfold cbody in Hr. rewrite Hd, Hc in Hr. rewrite andb_false_r in Hr. cbn -[leave] in Hr.
  assert (Hnext : forall pc p, crun hc orc n (tick_pending s pc false p) = Some r -> own r).
  { intros pc p H. apply (IHn (tick_pending s pc false p)); [reflexivity| |exact H].
    intros t Ht. apply Hnc. cbn -[leave] in Ht. lia. }
  assert (Hnext' : forall pc, crun hc orc n (tick s pc false) = Some r -> own r) by (intros pc; apply Hnext).
  assert (Hleave : forall p, leave hc false p = CRet r -> own r).
  { intros p H. rewrite leave_own in H. inversion H. destruct p; discriminate. }
  destruct (o_prog orc (cpc s)) as [|b|fr| | |o].
  - eapply Hnext'; eassumption.
  - destruct (hc && op_guarded b); destruct (o_ready orc (clock s)); eapply Hnext'; eassumption.
  - destruct fr; [eapply Hnext; eassumption|].
    destruct (leave hc false true) as [|r'] eqn:Hl; [discriminate|]. inversion Hr; subst. eapply Hleave; eassumption.
  - eapply Hnext; eassumption.
  - destruct (leave hc false (cpending s)) as [|r'] eqn:Hl; [discriminate|]. inversion Hr; subst. eapply Hleave; eassumption.
  - inversion Hr. discriminate.
Qed.

(* more precisely: without a cancellation the end of the code returns nil when
   no panic is pending and the PanicError when one is *)
Lemma finish_returns_pending hc orc s :
  cdone s = false -> cancelled orc s = false -> o_prog orc (cpc s) = KFinish ->
  cstep hc orc s = CRet (if cpending s then RPanicErr else RNil).
Proof.
  intros Hd Hc Hp. unfold cstep. rewrite Hd, andb_false_r. unfold cbody. rewrite Hp, Hd, Hc.
  rewrite andb_false_r. cbn -[leave]. apply leave_own.
Qed.

(* what happens if a blocking site is not guarded: the loop can stay blocked
   for ever although the context is cancelled (the reason for the side condition) *)
Lemma unguarded_blocks_forever orc b :
  op_guarded b = false -> (forall pc, o_prog orc pc = KBlock b) -> (forall t, o_ready orc t = false) ->
  (forall t, o_watcher orc t = false) ->
  forall n s, cdone s = false -> crun true orc n s = None.
Proof.
  intros Hg Hp Hr Hw. induction n; intros s Hd; [reflexivity|].
  cbn -[leave]. unfold cstep. rewrite Hd. cbn -[leave]. unfold cbody. rewrite Hp, Hg, Hr, Hd, Hw. cbn -[leave].
  rewrite andb_false_r. apply IHn. reflexivity.
Qed.

Lemma cancel_bounded_watcher_all :
  forall orc d s, cancelled orc s = true ->
    (exists k, k < d /\ o_watcher orc (clock s + k) = true) ->
    exists r, crun true orc (S (S d)) s = Some r.
Proof. intros orc. exact (cancel_bounded_watcher orc all_guarded). Qed.

(* the phase of the seeded change C11-c: a panic that is not recovered, then a
   deferred function that blocks; the cancellation makes Run return the error
   of the context and not the PanicError *)
Lemma cancel_in_deferred_after_panic :
  scenario5 0 false false 2 1 = 2%N /\ scenario5 2 false false 2 1 = 2%N /\
  scenario5 0 true false 2 1 = 2%N /\ scenario5 0 false true 1 1 = 3%N /\ scenario5 0 false true 0 1 = 3%N.
Proof. vm_compute. repeat split. Qed.
