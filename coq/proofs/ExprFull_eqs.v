(* C27 over the primary-expression grammar: the unfolding equations of the
   parser model, one per shape of the token stream.  Each is the definition
   read off by conversion; the main proof rewrites with them and never
   unfolds the mutual fixpoint. *)
From Coq Require Import List NArith Bool Lia Arith.
From Verif Require Import Bytes ExprFullM ExprFullOk ExprFull_base.
Import ListNotations.
Open Scope N_scope.

Section Eqs.
Variable bin_prec : list (N * N).
Variable un_prec : N.
Variable unary_tokens : list (bytes * N).
Variable binary_tokens : list (bytes * N).
Variable op_receive op_pointer op_not_contains : N.
Variable lit_string : N.
Variable dir_none dir_recv dir_send : N.
Variable kw_text : kwd -> bytes.
Variable sym_arrow sym_mul sym_not sym_contains : bytes.
Variable name_ident name_lbrack : bytes.
Variable result_start : list bytes.
Variable macro_results : list bytes.
Variable valid_path : bytes -> bool.
Variable tmpl : bool.

Notation pexpr := (pexpr bin_prec un_prec unary_tokens binary_tokens op_receive op_pointer op_not_contains lit_string dir_none dir_recv dir_send kw_text sym_arrow sym_mul sym_not sym_contains name_ident name_lbrack result_start macro_results valid_path tmpl).
Notation poperand := (poperand bin_prec un_prec unary_tokens binary_tokens op_receive op_pointer op_not_contains lit_string dir_none dir_recv dir_send kw_text sym_arrow sym_mul sym_not sym_contains name_ident name_lbrack result_start macro_results valid_path tmpl).
Notation ppost := (ppost bin_prec un_prec unary_tokens binary_tokens op_receive op_pointer op_not_contains lit_string dir_none dir_recv dir_send kw_text sym_arrow sym_mul sym_not sym_contains name_ident name_lbrack result_start macro_results valid_path tmpl).
Notation pelems := (pelems bin_prec un_prec unary_tokens binary_tokens op_receive op_pointer op_not_contains lit_string dir_none dir_recv dir_send kw_text sym_arrow sym_mul sym_not sym_contains name_ident name_lbrack result_start macro_results valid_path tmpl).
Notation pargs := (pargs bin_prec un_prec unary_tokens binary_tokens op_receive op_pointer op_not_contains lit_string dir_none dir_recv dir_send kw_text sym_arrow sym_mul sym_not sym_contains name_ident name_lbrack result_start macro_results valid_path tmpl).
Notation pfields := (pfields bin_prec un_prec unary_tokens binary_tokens op_receive op_pointer op_not_contains lit_string dir_none dir_recv dir_send kw_text sym_arrow sym_mul sym_not sym_contains name_ident name_lbrack result_start macro_results valid_path tmpl).
Notation pfield := (pfield bin_prec un_prec unary_tokens binary_tokens op_receive op_pointer op_not_contains lit_string dir_none dir_recv dir_send kw_text sym_arrow sym_mul sym_not sym_contains name_ident name_lbrack result_start macro_results valid_path tmpl).
Notation pfunc := (pfunc bin_prec un_prec unary_tokens binary_tokens op_receive op_pointer op_not_contains lit_string dir_none dir_recv dir_send kw_text sym_arrow sym_mul sym_not sym_contains name_ident name_lbrack result_start macro_results valid_path tmpl).
Notation pparams := (pparams bin_prec un_prec unary_tokens binary_tokens op_receive op_pointer op_not_contains lit_string dir_none dir_recv dir_send kw_text sym_arrow sym_mul sym_not sym_contains name_ident name_lbrack result_start macro_results valid_path tmpl).
Notation pplist := (pplist bin_prec un_prec unary_tokens binary_tokens op_receive op_pointer op_not_contains lit_string dir_none dir_recv dir_send kw_text sym_arrow sym_mul sym_not sym_contains name_ident name_lbrack result_start macro_results valid_path tmpl).
Notation bprec := (bprec bin_prec).
Notation reduce := (reduce bin_prec un_prec).
Notation starts_result := (starts_result kw_text name_ident name_lbrack result_start).
Notation unquote := ExprFullM.unquote.

(* flags of the expression mode with nextIsBlockBrace false, and of the type mode *)
Definition FE (g e : bool) : pflags := mkfl g e false false.
Definition FT (g e b : bool) : pflags := mkfl g e true b.

Notation poperand_body := (poperand_body unary_tokens op_receive lit_string dir_none dir_recv dir_send sym_arrow sym_mul valid_path).
Notation ppost_body := (ppost_body bin_prec un_prec binary_tokens op_not_contains sym_not sym_contains tmpl).
Notation pfield_body := (pfield_body op_pointer lit_string sym_mul).
Notation pparams_body := (pparams_body kw_text name_ident name_lbrack result_start macro_results).

Lemma pexpr_S m fl ts : pexpr (S m) fl ts = poperand m fl false (fl_guard fl) false [] ts.
Proof. reflexivity. Qed.

Lemma poperand_S m fl c g mb P ts :
  poperand (S m) fl c g mb P ts = poperand_body (pexpr m) (poperand m) (ppost m) (pfields m) (pfunc m) fl c g mb P ts.
Proof. reflexivity. Qed.
Lemma ppost_S m fl c g mb P o ts :
  ppost (S m) fl c g mb P o ts = ppost_body (pexpr m) (poperand m) (ppost m) (pelems m) (pargs m) fl c g mb P o ts.
Proof. reflexivity. Qed.
Lemma pfield_S m ts : pfield (S m) ts = pfield_body (pexpr m) ts.
Proof. reflexivity. Qed.
Lemma pparams_S m macro isr ts : pparams (S m) macro isr ts = pparams_body (pexpr m) (pplist m) macro isr ts.
Proof. reflexivity. Qed.

Lemma pfunc_S0 m macro lit ts : pfunc (S m) macro lit ts = pfunc_body (pparams m) macro lit ts.
Proof. reflexivity. Qed.
Lemma pplist_S0 m isr ts acc ei : pplist (S m) isr ts acc ei = pplist_body (pexpr m) (pplist m) isr ts acc ei.
Proof. reflexivity. Qed.

Ltac step_po := rewrite poperand_S; unfold ExprFullM.poperand_body; cbn [fl_type fl_elide fl_block fl_guard FE FT orb andb negb].
Ltac step_pt := rewrite ppost_S; unfold ExprFullM.ppost_body; cbn [fl_type fl_elide fl_block fl_guard FE FT orb andb negb].
Ltac step_pf := rewrite pfield_S; unfold ExprFullM.pfield_body; cbn beta iota zeta.
Ltac step_pp := rewrite pparams_S; unfold ExprFullM.pparams_body; cbn beta iota zeta.

(* ---- the operand switch ---- *)
Lemma po_lp m fl c g mb P r :
  poperand (S m) fl c g mb P (KLP :: r) =
  rbind (pexpr m (mkfl false false (fl_type fl) false) r) (fun x =>
    match x with
    | (Some e, KRP :: r') => ppost m fl c g mb P (Some (add_paren e)) r'
    | _ => RErr
    end).
Proof. reflexivity. Qed.

Lemma po_map m fl c g mb P r1 :
  poperand (S m) fl c g mb P (KKw WMap :: KLBrack :: r1) =
  rbind (pexpr m fl_typ r1) (fun x =>
    match x with
    | (k, KRBrack :: r2) =>
      rbind (pexpr m fl_typ r2) (fun y =>
        match y with
        | (Some v, r3) => ppost m fl true g mb P (Some (XMap 0 k v)) r3
        | (None, _) => RErr
        end)
    | _ => RErr
    end).
Proof. reflexivity. Qed.

Lemma po_struct m fl c g mb P r1 :
  poperand (S m) fl c g mb P (KKw WStruct :: KLBrace :: r1) =
  rbind (pfields m r1) (fun x => ppost m fl true g mb P (Some (XStruct 0 (fst x))) (snd x)).
Proof. reflexivity. Qed.

Lemma po_interface m fl c g mb P r1 :
  poperand (S m) fl c g mb P (KKw WInterface :: KLBrace :: KRBrace :: r1) =
  ppost m fl c g mb P (Some (XInterface 0)) r1.
Proof. reflexivity. Qed.

Lemma po_func m fl c g mb P r :
  poperand (S m) fl c g mb P (KKw WFunc :: r) =
  rbind (pfunc m false (negb (fl_type fl)) r) (fun x => ppost m fl c g mb P (Some (fst x)) (snd x)).
Proof. reflexivity. Qed.

Lemma po_macro m fl c g mb P r :
  poperand (S m) fl c g mb P (KKw WMacro :: r) =
  rbind (pfunc m true false r) (fun x => ppost m fl c g mb P (Some (fst x)) (snd x)).
Proof. reflexivity. Qed.

Definition chan_dir (r : list tk) : N * list tk :=
  match r with
  | KSym s :: r' => if bytes_eqb s sym_arrow then (dir_send, r') else (dir_none, r)
  | _ => (dir_none, r)
  end.

Lemma po_chan m fl c g mb P r :
  poperand (S m) fl c g mb P (KKw WChan :: r) =
  rbind (pexpr m fl_typ (snd (chan_dir r))) (fun x =>
    match x with
    | (Some e, r2) => ppost m fl c g mb P (Some (XChan 0 (fst (chan_dir r)) e)) r2
    | (None, _) => RErr
    end).
Proof. unfold chan_dir. destruct r as [|[] r]; try reflexivity. step_po. destruct (bytes_eqb s sym_arrow); reflexivity. Qed.

Lemma po_recvchan m fl c g mb P r1 :
  poperand (S m) fl c g mb P (KSym sym_arrow :: KKw WChan :: r1) =
  rbind (pexpr m fl_typ r1) (fun x =>
    match x with
    | (Some e, r2) => ppost m fl c g mb P (Some (XChan 0 dir_recv e)) r2
    | (None, _) => RErr
    end).
Proof.
  step_po. replace (bytes_eqb sym_arrow sym_arrow) with true; [reflexivity|].
  symmetry. apply bytes_eqb_eq. reflexivity.
Qed.

(* a symbol where an operand is expected, not followed by chan when it is the arrow *)
Definition not_chan (r : list tk) : bool := match r with KKw WChan :: _ => false | _ => true end.

Lemma po_receive m g0 e0 c g mb P r : not_chan r = true ->
  poperand (S m) (FE g0 e0) c g mb P (KSym sym_arrow :: r) = poperand m (FE g0 e0) c false mb (GUn op_receive :: P) r.
Proof.
  intros h. step_po. replace (bytes_eqb sym_arrow sym_arrow) with true.
  - destruct r as [|[] r]; try reflexivity. destruct w; try reflexivity. discriminate.
  - symmetry. apply bytes_eqb_eq. reflexivity.
Qed.

Lemma po_unary m fl c g mb P s u r :
  bytes_eqb s sym_arrow = false -> klookup unary_tokens s = Some u ->
  (fl_type fl && negb (bytes_eqb s sym_mul)) = false ->
  poperand (S m) fl c g mb P (KSym s :: r) = poperand m fl c false mb (GUn u :: P) r.
Proof. intros h1 h2 h3. step_po. rewrite h1, h2, h3. reflexivity. Qed.

Lemma po_lit m g0 e0 c g mb P k s r :
  poperand (S m) (FE g0 e0) c g mb P (KLit k s :: r) = ppost m (FE g0 e0) c g mb P (Some (XLit 0 k s)) r.
Proof. reflexivity. Qed.

Lemma po_ident m g0 e0 c g mb P a r :
  poperand (S m) (FE g0 e0) c g mb P (KIdent a :: r) = ppost m (FE g0 e0) c g mb P (Some (XIdent 0 a)) r.
Proof. reflexivity. Qed.

Lemma po_ident_sel m g0 e0 b0 c g mb P a b r2 :
  poperand (S m) (FT g0 e0 b0) c g mb P (KIdent a :: KPeriod :: KIdent b :: r2) =
  ppost m (FT g0 e0 b0) c g mb P (Some (XSel 0 (XIdent 0 a) b)) r2.
Proof. reflexivity. Qed.

Definition not_period (r : list tk) : bool := match r with KPeriod :: _ => false | _ => true end.

Lemma po_ident_t m g0 e0 b0 c g mb P a r : not_period r = true ->
  poperand (S m) (FT g0 e0 b0) c g mb P (KIdent a :: r) = ppost m (FT g0 e0 b0) c g mb P (Some (XIdent 0 a)) r.
Proof. intros h. destruct r as [|[] r]; try reflexivity. discriminate. Qed.

(* [ ... ] T *)
Lemma po_slice m fl c g mb P r2 :
  poperand (S m) fl c g mb P (KLBrack :: KRBrack :: r2) =
  rbind (pexpr m fl_typ r2) (fun y =>
    match y with
    | (Some e, r3) => ppost m fl true g mb P (Some (XSlice 0 e)) r3
    | (None, _) => RErr
    end).
Proof. reflexivity. Qed.

Lemma po_array_dots m fl c g mb P r2 :
  poperand (S m) fl c g mb P (KLBrack :: KEllipsis :: KRBrack :: r2) =
  rbind (pexpr m fl_typ r2) (fun y =>
    match y with
    | (Some e, r3) => ppost m fl true g mb P (Some (XArray 0 None e)) r3
    | (None, _) => RErr
    end).
Proof. reflexivity. Qed.

Definition not_dots_rbrack (r : list tk) : bool :=
  match r with KEllipsis :: _ | KRBrack :: _ => false | _ => true end.

Lemma po_array_len m fl c g mb P r : not_dots_rbrack r = true ->
  poperand (S m) fl c g mb P (KLBrack :: r) =
  rbind (pexpr m fl_expr r) (fun x =>
    match x with
    | (Some l, KRBrack :: r2) =>
      rbind (pexpr m fl_typ r2) (fun y =>
        match y with
        | (Some e, r3) => ppost m fl true g mb P (Some (XArray 0 (Some l) e)) r3
        | (None, _) => RErr
        end)
    | _ => RErr
    end).
Proof.
  intros h. destruct r as [|[] r]; try discriminate; step_po;
    (destruct (pexpr m fl_expr _) as [[[l|] [|[] r1]]| | | |]; reflexivity).
Qed.

Lemma po_render m g0 e0 c g mb P s r1 :
  poperand (S m) (FE g0 e0) c g mb P (KKw WRender :: KLit lit_string s :: r1) =
  rbind (unquote s) (fun path =>
    if valid_path path then ppost m (FE g0 e0) c g mb P (Some (XRender 0 path)) r1 else RErr).
Proof. step_po. rewrite N.eqb_refl. reflexivity. Qed.

(* no expression: the tokens that end an expression, the end of the source *)
Definition ender (t : tk) : bool :=
  match t with KRP | KRBrack | KRBrace | KComma | KColon | KSemi | KEllipsis | KPeriod => true | _ => false end.

Definition stopper (t : tk) : bool :=
  match t with KRP | KRBrack | KRBrace | KComma | KColon | KSemi | KEllipsis => true | _ => false end.

Lemma po_none m fl c g mb t r : ender t = true ->
  poperand (S m) fl c g mb [] (t :: r) = ROk (None, t :: r).
Proof. destruct t; try discriminate; reflexivity. Qed.

Lemma po_none_nil m fl c g mb : poperand (S m) fl c g mb [] [] = ROk (None, []).
Proof. reflexivity. Qed.

Lemma po_elided m g0 c g mb P r :
  poperand (S m) (FE g0 true) c g mb P (KLBrace :: r) = ppost m (FE g0 true) c g mb P None (KLBrace :: r).
Proof. reflexivity. Qed.

(* ---- the postfix loop ---- *)
Lemma pt_type m g0 e0 b0 c g mb P o ts :
  ppost (S m) (FT g0 e0 b0) c g mb P o ts = finish P o ts.
Proof. step_pt. rewrite orb_true_r. reflexivity. Qed.

Lemma pt_ret m g0 e0 c g P o t r : stopper t = true ->
  ppost (S m) (FE g0 e0) c g false P o (t :: r) = finish P o (t :: r).
Proof. destruct t; try discriminate; reflexivity. Qed.

Lemma pt_ret_nil m g0 e0 c g P o : ppost (S m) (FE g0 e0) c g false P o [] = finish P o [].
Proof. reflexivity. Qed.

Lemma pt_ret_guard m g0 e0 c g P o t r : stopper t = true -> is_type_guard o = true ->
  ppost (S m) (FE g0 e0) c g true P o (t :: r) = finish P o (t :: r).
Proof. intros h1 h2. destruct t; try discriminate; step_pt; rewrite h2; reflexivity. Qed.

Lemma pt_ret_guard_nil m g0 e0 c g P o : is_type_guard o = true ->
  ppost (S m) (FE g0 e0) c g true P o [] = finish P o [].
Proof. intros h2. step_pt. rewrite h2. reflexivity. Qed.

Lemma pt_sym_inert m g0 e0 c g P o s r :
  bytes_eqb s sym_not = false -> klookup binary_tokens s = None ->
  ppost (S m) (FE g0 e0) c g false P o (KSym s :: r) = finish P o (KSym s :: r).
Proof. intros h1 h2. step_pt. rewrite h1, h2. reflexivity. Qed.

Lemma pt_sym_inert_guard m g0 e0 c g P o s r :
  bytes_eqb s sym_not = false -> klookup binary_tokens s = None -> is_type_guard o = true ->
  ppost (S m) (FE g0 e0) c g true P o (KSym s :: r) = finish P o (KSym s :: r).
Proof. intros h1 h2 h3. step_pt. rewrite h1, h2, h3. reflexivity. Qed.

Lemma pt_lbrace m g0 e0 c g mb P o r :
  match o with Some e => Nat.eqb (parens_of e) 0 | None => true end = true ->
  ppost (S m) (FE g0 e0) c g mb P o (KLBrace :: r) =
  rbind (pelems m r) (fun x =>
    match snd x with
    | KRBrace :: r1 => ppost m (FE g0 e0) false g mb P (Some (XCompLit 0 o (fst x))) r1
    | _ => RErr
    end).
Proof.
  intros h. step_pt.
  destruct o as [e|]; [rewrite h|]; reflexivity.
Qed.

Definition call_tail (r1 : list tk) : bool * list tk :=
  match r1 with KEllipsis :: r' => (true, r') | _ => (false, r1) end.

Lemma pt_call m g0 e0 c g mb P f r :
  ppost (S m) (FE g0 e0) c g mb P (Some f) (KLP :: r) =
  rbind (pargs m r []) (fun x =>
    if fst (call_tail (snd x)) && match fst x with [] => true | _ => false end then RErr
    else match snd (call_tail (snd x)) with
         | KRP :: r3 => ppost m (FE g0 e0) false g mb P (Some (XCall 0 f (fst x) (fst (call_tail (snd x))))) r3
         | _ => RErr
         end).
Proof.
  step_pt. destruct (pargs m r []) as [[args r1]| | | |]; try reflexivity.
  cbn [rbind fst snd]. unfold call_tail. destruct r1 as [|[] r1]; reflexivity.
Qed.

Lemma pt_index m g0 e0 c g mb P x0 r :
  ppost (S m) (FE g0 e0) c g mb P (Some x0) (KLBrack :: r) =
  rbind (pexpr m fl_expr r) (fun a =>
    match snd a with
    | KColon :: r2 =>
      rbind (pexpr m fl_expr r2) (fun b =>
        match snd b with
        | KColon :: r4 =>
          rbind (pexpr m fl_expr r4) (fun c0 =>
            match snd c0 with
            | KRBrack :: r6 => ppost m (FE g0 e0) c g mb P (Some (XSlicing 0 x0 (fst a) (fst b) (fst c0) true)) r6
            | _ => RErr
            end)
        | KRBrack :: r4 => ppost m (FE g0 e0) c g mb P (Some (XSlicing 0 x0 (fst a) (fst b) None false)) r4
        | _ => RErr
        end)
    | KRBrack :: r2 =>
      match fst a with
      | Some i => ppost m (FE g0 e0) c g mb P (Some (XIndex 0 x0 i)) r2
      | None => RErr
      end
    | _ => RErr
    end).
Proof.
  step_pt.
  destruct (pexpr m fl_expr r) as [[index r1]| | | |]; try reflexivity. cbn [rbind fst snd].
  destruct r1 as [|[] r1]; try reflexivity.
  destruct (pexpr m fl_expr r1) as [[high r3]| | | |]; try reflexivity. cbn [rbind fst snd].
  destruct r3 as [|[] r3]; try reflexivity.
  destruct (pexpr m fl_expr r3) as [[mx r5]| | | |]; reflexivity.
Qed.

Lemma pt_sel m g0 e0 c g mb P x0 a r1 :
  ppost (S m) (FE g0 e0) c g mb P (Some x0) (KPeriod :: KIdent a :: r1) =
  ppost m (FE g0 e0) c g mb P (Some (XSel 0 x0 a)) r1.
Proof. reflexivity. Qed.

Lemma pt_guard m g0 e0 c mb P x0 r3 :
  ppost (S m) (FE g0 e0) c true mb P (Some x0) (KPeriod :: KLP :: KKw WType :: KRP :: r3) =
  ppost m (FE g0 e0) c true true P (Some (XTypeAssert 0 x0 None)) r3.
Proof. reflexivity. Qed.

Definition assert_start_ok (r1 : list tk) : bool :=
  match r1 with KKw WType :: _ => false | KIdent a :: _ => negb (bytes_eqb a [95]) | _ => true end.

Lemma pt_assert m g0 e0 c g mb P x0 r1 : assert_start_ok r1 = true ->
  ppost (S m) (FE g0 e0) c g mb P (Some x0) (KPeriod :: KLP :: r1) =
  rbind (pexpr m (mkfl true false true false) r1) (fun a =>
    match a with
    | (Some t, KRP :: r3) => ppost m (FE g0 e0) c g mb P (Some (XTypeAssert 0 x0 (Some t))) r3
    | _ => RErr
    end).
Proof.
  intros h. destruct r1 as [|[] r1]; try reflexivity.
  - cbn [assert_start_ok] in h. apply negb_true_iff in h. step_pt. rewrite h. reflexivity.
  - destruct w; try reflexivity. discriminate.
Qed.

Lemma pt_binary m g0 e0 c g mb P e s b pb P' l r :
  bytes_eqb s sym_not = false -> klookup binary_tokens s = Some b -> bprec b = Some pb ->
  reduce P pb e = Some (P', l) ->
  ppost (S m) (FE g0 e0) c g mb P (Some e) (KSym s :: r) = poperand m (FE g0 e0) c false mb (GBin b l :: P') r.
Proof.
  intros h1 h2 h3 h4. step_pt. rewrite h1, h2, h3, h4. reflexivity.
Qed.

Lemma pt_not_contains m g0 e0 c g mb P e pb P' l r :
  bprec op_not_contains = Some pb -> reduce P pb e = Some (P', l) ->
  ppost (S m) (FE g0 e0) c g mb P (Some e) (KSym sym_not :: KSym sym_contains :: r) =
  poperand m (FE g0 e0) c false mb (GBin op_not_contains l :: P') r.
Proof.
  intros h3 h4. step_pt.
  replace (bytes_eqb sym_not sym_not) with true by (symmetry; apply bytes_eqb_eq; reflexivity).
  replace (bytes_eqb sym_contains sym_contains) with true by (symmetry; apply bytes_eqb_eq; reflexivity).
  rewrite h3, h4. reflexivity.
Qed.

Lemma pt_default m g0 e0 c g mb P l r : tmpl = true -> default_left_ok l = true ->
  ppost (S m) (FE g0 e0) c g mb P (Some l) (KKw WDefault :: r) =
  rbind (pexpr m fl_expr r) (fun a =>
    match a with
    | (Some e2, r1) => ppost m (FE g0 e0) c g mb P (Some (XDefault 0 l e2)) r1
    | (None, _) => RErr
    end).
Proof. intros h1 h2. step_pt. rewrite h1, h2. reflexivity. Qed.

(* ---- the lists ---- *)
Lemma pelems_S m ts :
  pelems (S m) ts =
  rbind (pexpr m fl_elem ts) (fun a =>
    match a with
    | (None, r) => ROk ([], r)
    | (Some e, r) =>
      match r with
      | KColon :: r1 =>
        rbind (pexpr m fl_elem r1) (fun b =>
          match b with
          | (None, _) => RErr
          | (Some v, r2) =>
            match r2 with
            | KRBrace :: _ => ROk ([(Some e, v)], r2)
            | [] => RCrash
            | _ :: r3 => rbind (pelems m r3) (fun c => ROk ((Some e, v) :: fst c, snd c))
            end
          end)
      | KComma :: r1 => rbind (pelems m r1) (fun c => ROk ((None, e) :: fst c, snd c))
      | KRBrace :: _ => ROk ([(None, e)], r)
      | _ => RErr
      end
    end).
Proof. reflexivity. Qed.

Lemma pargs_S m ts acc :
  pargs (S m) ts acc =
  rbind (pexpr m fl_expr ts) (fun a =>
    match a with
    | (None, r) =>
      match acc, r with
      | [], _ => ROk ([], r)
      | _ :: _, KRP :: _ => ROk (acc, r)
      | _ :: _, _ => RErr
      end
    | (Some e, r) =>
      match r with
      | KComma :: r1 => pargs m r1 (acc ++ [e])
      | _ => ROk (acc ++ [e], r)
      end
    end).
Proof. reflexivity. Qed.

Lemma pfields_end m r : pfields (S m) (KRBrace :: r) = ROk ([], r).
Proof. reflexivity. Qed.

Definition not_rbrace (ts : list tk) : bool := match ts with KRBrace :: _ => false | _ => true end.

Lemma pfields_S m ts : not_rbrace ts = true ->
  pfields (S m) ts = rbind (pfield m ts) (fun a => rbind (pfields m (snd a)) (fun b => ROk (fst a :: fst b, snd b))).
Proof. intros h. destruct ts as [|[] ts]; try reflexivity. discriminate. Qed.

(* the end of parseField: the tag and the separator *)
Definition field_after (names : list bytes) (t : ex) (tag : bytes) (r1 : list tk) : xres (field * list tk) :=
  match r1 with
  | KSemi :: r2 => ROk ((names, t, tag), r2)
  | KRBrace :: _ => ROk ((names, t, tag), r1)
  | _ => RErr
  end.
Definition field_tail (names : list bytes) (t : ex) (r : list tk) : xres (field * list tk) :=
  match r with
  | KLit k s :: r1 => if k =? lit_string then rbind (unquote s) (fun tag => field_after names t tag r1) else field_after names t [] r
  | _ => field_after names t [] r
  end.

Lemma pfield_star_sel m a b r2 :
  pfield (S m) (KSym sym_mul :: KIdent a :: KPeriod :: KIdent b :: r2) =
  field_tail [] (XUn 0 op_pointer (XSel 0 (XIdent 0 a) b)) r2.
Proof.
  step_pf. replace (bytes_eqb sym_mul sym_mul) with true by (symmetry; apply bytes_eqb_eq; reflexivity).
  reflexivity.
Qed.

Lemma pfield_star m a r1 : not_period r1 = true ->
  pfield (S m) (KSym sym_mul :: KIdent a :: r1) = field_tail [] (XUn 0 op_pointer (XIdent 0 a)) r1.
Proof.
  intros h. step_pf. replace (bytes_eqb sym_mul sym_mul) with true by (symmetry; apply bytes_eqb_eq; reflexivity).
  destruct r1 as [|[] r1]; try reflexivity. discriminate.
Qed.

Lemma pfield_sel m a b r2 :
  pfield (S m) (KIdent a :: KPeriod :: KIdent b :: r2) = field_tail [] (XSel 0 (XIdent 0 a) b) r2.
Proof. reflexivity. Qed.

Lemma pfield_names m a r :
  pfield (S m) (KIdent a :: KComma :: r) =
  rbind (pnames (KComma :: r) [a]) (fun x =>
  rbind (pexpr m fl_typ (snd x)) (fun y =>
    match y with
    | (Some t, r2) => field_tail (fst x) t r2
    | (None, _) => RErr
    end)).
Proof. reflexivity. Qed.

Lemma pfield_embedded_tag m a s r1 :
  pfield (S m) (KIdent a :: KLit lit_string s :: r1) = field_tail [] (XIdent 0 a) (KLit lit_string s :: r1).
Proof. step_pf. unfold field_tail, field_after. rewrite !N.eqb_refl. reflexivity. Qed.

Definition field_plain (r : list tk) : bool :=
  match r with KPeriod :: _ | KComma :: _ | KLit _ _ :: _ => false | _ => true end.

Lemma pfield_one m a r : field_plain r = true ->
  pfield (S m) (KIdent a :: r) =
  rbind (pexpr m fl_typ r) (fun y =>
    match y with
    | (Some t, r2) => field_tail [a] t r2
    | (None, r2) => field_tail [] (XIdent 0 a) r2
    end).
Proof. intros h. destruct r as [|[] r]; try reflexivity; discriminate. Qed.

Definition not_ident (ts : list tk) : bool := match ts with KIdent _ :: _ => false | _ => true end.

Lemma pfunc_S m macro lit ts : not_ident ts = true ->
  pfunc (S m) macro lit ts =
  rbind (pparams m macro false ts) (fun a =>
    match fst (fst a) with
    | None => RErr
    | Some ps =>
      rbind (pparams m macro true (snd a)) (fun b =>
        match fst (fst b), macro with
        | None, true => RErr
        | _, _ =>
          let t := XFunc 0 macro ps (match fst (fst b) with Some rs => rs | None => [] end) (snd (fst a)) in
          if lit then match snd b with KLBrace :: _ => RUnsup | _ => ROk (t, snd b) end
          else ROk (t, snd b)
        end)
    end).
Proof.
  intros h. destruct ts as [|[] ts]; try discriminate; rewrite pfunc_S0; unfold ExprFullM.pfunc_body; cbn beta iota zeta;
    (destruct (pparams m macro false _) as [[[ps v] r1]| | | |]; [|reflexivity..]; cbn [rbind fst snd];
     destruct ps as [ps|]; [|reflexivity];
     destruct (pparams m macro true r1) as [[[rs v'] r2]| | | |]; reflexivity).
Qed.

Lemma pparams_list m macro r :
  match r with KRP :: _ => False | _ => True end ->
  pparams (S m) macro false (KLP :: r) = pplist m false r [] None.
Proof. intros h. destruct r as [|[] r]; try reflexivity. contradiction. Qed.

Lemma pparams_empty m macro r1 : pparams (S m) macro false (KLP :: KRP :: r1) = ROk (Some [], false, r1).
Proof. reflexivity. Qed.

Lemma pparams_macro_result m a r : memb macro_results a = true ->
  pparams (S m) true true (KIdent a :: r) = ROk (Some [(None, Some (XIdent 0 a))], false, r).
Proof. intros h. step_pp. rewrite h. reflexivity. Qed.

Lemma pparams_result_bare m t r : starts_result t = true ->
  pparams (S m) false true (t :: r) =
  rbind (pexpr m (mkfl false false true true) (t :: r)) (fun a =>
    match a with
    | (Some e, r') => ROk (Some [(None, Some e)], false, r')
    | (None, _) => RCrash
    end).
Proof. intros h. step_pp. rewrite h. reflexivity. Qed.

Lemma pparams_result_none m t r : starts_result t = false -> t <> KLP ->
  pparams (S m) false true (t :: r) = ROk (None, false, t :: r).
Proof. intros h1 h2. step_pp. rewrite h1. destruct t; try reflexivity. contradiction. Qed.

Lemma pparams_result_none_nil m : pparams (S m) false true [] = ROk (None, false, []).
Proof. reflexivity. Qed.

Lemma pparams_result_list m r : starts_result KLP = false ->
  match r with KRP :: _ => False | _ => True end ->
  pparams (S m) false true (KLP :: r) = pplist m true r [] None.
Proof. intros h1 h. step_pp. rewrite h1. destruct r as [|[] r]; try reflexivity. contradiction. Qed.

Lemma pparams_result_empty m r1 : starts_result KLP = false ->
  pparams (S m) false true (KLP :: KRP :: r1) = ROk (Some [], false, r1).
Proof. intros h1. step_pp. rewrite h1. reflexivity. Qed.

Definition pp_step (acc : list param) (ei : option nat) (r : list tk) : option nat * list tk :=
  match r with
  | KEllipsis :: r' => (match ei with None => Some (length acc) | Some _ => ei end, r')
  | _ => (ei, r)
  end.

Definition pp_param (t ide : option ex) : option param :=
  match ide with
  | Some i =>
    match t with
    | Some ty => match ident_name ty with Some a => Some (Some a, Some i) | None => None end
    | None => Some (None, Some i)
    end
  | None => Some (None, t)
  end.

Lemma pplist_S m is_result ts acc ei :
  pplist (S m) is_result ts acc ei =
  rbind (pexpr m fl_typ ts) (fun a =>
  rbind (pexpr m fl_typ (snd (pp_step acc ei (snd a)))) (fun b =>
    match pp_param (fst a) (fst b) with
    | None => RErr
    | Some (None, None) =>
      match snd b with
      | KRP :: r3 => params_finish is_result acc (fst (pp_step acc ei (snd a))) r3
      | _ => RErr
      end
    | Some q' =>
      match snd b with
      | KComma :: r3 => pplist m is_result r3 (acc ++ [q']) (fst (pp_step acc ei (snd a)))
      | KRP :: r3 => params_finish is_result (acc ++ [q']) (fst (pp_step acc ei (snd a))) r3
      | _ => RErr
      end
    end)).
Proof.
  rewrite pplist_S0; unfold ExprFullM.pplist_body; cbn beta iota zeta. destruct (pexpr m fl_typ ts) as [[t r]| | | |]; try reflexivity. cbn [rbind fst snd].
  unfold pp_step. destruct r as [|[] r]; cbn [fst snd]; (destruct (pexpr m fl_typ _) as [[ide r2]| | | |]; reflexivity).
Qed.

End Eqs.
