(* The second pass of the pipeline: what is proved about idempotence, and the
   witnesses that refute the full statement. *)
From Verif Require Import Bytes IndexM Facts_linkscan LinkDestM LinkDestSpec LinkDest_proofs
  LinkScanM LinkScan_base LinkScan_parse LinkScan_inline LinkScan_loops LinkScan_lines LinkScan_proofs.
From Coq Require Import Lia ZArith List.
Local Open Scope Z_scope.

(* the decision leaves alone every text it wrote (C29_idempotent_model proves
   this of appendReplacement_repl under three properties of net/url) *)
Definition leaves_own_texts (decide : bytes -> option bytes) : Prop :=
  forall raw t, decide raw = Some t -> decide t = None.

(* FULL statement: the whole pipeline is idempotent *)
Definition pipeline_idempotent_statement : Prop :=
  forall decide, leaves_own_texts decide ->
  forall src out, replace decide src = LOk out -> replace decide out = LOk out.

Section WithDecide.
  Variable decide : bytes -> option bytes.

  (* a document in which the scanner finds nothing to rewrite is a fixed point *)
  Theorem pipeline_fixpoint out : collectReplacements decide out = LOk [] -> replace decide out = LOk out.
  Proof. intros H. unfold replace. rewrite H. reflexivity. Qed.

  (* whatever a pass rewrites is a destination by the scanner's grammar whose
     bytes are not a text written by the decision: a pass never touches a
     destination that is, byte for byte, a rewritten one *)
  Theorem second_pass_spares_rewritten_texts : leaves_own_texts decide -> forall out,
    exists rs, collectReplacements decide out = LOk rs
      /\ Forall (fun r => exists ls le, is_line out ls le /\ ls <= r_start r /\ r_stop r <= le
                   /\ (refdef_origin decide (sub out ls le) out ls r
                       \/ exists i, inline_origin decide (sub out ls le) out ls i r)
                   /\ decide (sub out (r_start r) (r_stop r)) = Some (r_text r)
                   /\ forall raw, decide raw <> Some (sub out (r_start r) (r_stop r))) rs.
  Proof.
    intros H1 out. destruct (ranges_are_destinations_by_syntax decide out) as (rs & E & Hall).
    exists rs. split; [exact E|]. eapply Forall_impl; [|exact Hall].
    intros r (ls & le & Hl & Hs & He & Ho). exists ls, le. split; [exact Hl|]. split; [exact Hs|]. split; [exact He|].
    split; [exact Ho|].
    assert (Hd : decide (sub out (r_start r) (r_stop r)) = Some (r_text r)).
    { destruct Ho as [(s & e & _ & _ & _ & Hrs & Hre & _ & Hd)|(i & s & e & _ & _ & _ & _ & _ & _ & _ & Hrs & Hre & _ & Hd)];
        rewrite Hrs, Hre; exact Hd. }
    split; [exact Hd|]. intros raw Hraw. apply H1 in Hraw. congruence.
  Qed.
End WithDecide.

(* ---------------- the full statement is false ---------------- *)

(* a decision in the style of appendReplacement: a destination that starts with
   h: is absolute and left alone; any other one is rewritten to h: followed
   by its bytes, where the NBSP pair becomes a space (markdownUnescape) and a
   double quote becomes %22 (url.String()) *)
Fixpoint toy_tr (s : bytes) : bytes :=
  match s with
  | [] => []
  | c :: r =>
    if N.eqb c 34 then 37%N :: 50%N :: 50%N :: toy_tr r
    else match r with
         | d :: r' => if N.eqb c 194 && N.eqb d 160 then 32%N :: toy_tr r' else c :: toy_tr r
         | [] => [c]
         end
  end.

Definition toy_decide (raw : bytes) : option bytes :=
  if is_prefix [104; 58]%N raw then None else Some ([104; 58]%N ++ toy_tr raw).

Lemma toy_leaves_own_texts : leaves_own_texts toy_decide.
Proof.
  intros raw t. unfold toy_decide. destruct (is_prefix [104; 58]%N raw); [discriminate|].
  intros H. injection H as <-. cbn [app is_prefix]. rewrite !N.eqb_refl. reflexivity.
Qed.

(* [[t](x?q=a<NBSP>b) ](rel) : the first pass turns the NBSP into a space, the
   inner link is no longer one, and the second pass rewrites rel *)
Definition idem_witness_1 : bytes :=
  [91; 91; 116; 93; 40; 120; 63; 113; 61; 97; 194; 160; 98; 41; 32; 93; 40; 114; 101; 108; 41]%N.

(* [a]: x Q[b](cQ) Q  where Q is the double quote: the first pass writes %22 for
   the quote inside the destination, the title now ends at the last quote, the
   line has become a reference definition and the second pass rewrites x *)
Definition idem_witness_2 : bytes :=
  [91; 97; 93; 58; 32; 120; 32; 34; 91; 98; 93; 40; 99; 34; 41; 32; 34]%N.

Definition twice (src : bytes) : option (bytes * bytes) :=
  match replace toy_decide src with
  | LOk out => match replace toy_decide out with LOk out2 => Some (out, out2) | _ => None end
  | _ => None
  end.

Theorem pipeline_idempotent_refuted :
  exists decide, leaves_own_texts decide
    /\ (exists src out out2, replace decide src = LOk out /\ replace decide out = LOk out2 /\ out2 <> out)
    /\ (exists src out out2, src = idem_witness_2 /\ replace decide src = LOk out /\ replace decide out = LOk out2 /\ out2 <> out).
Proof.
  exists toy_decide. split; [exact toy_leaves_own_texts|]. split.
  - destruct (twice idem_witness_1) as [[out out2]|] eqn:E; [|vm_compute in E; discriminate E].
    exists idem_witness_1, out, out2. unfold twice in E.
    destruct (replace toy_decide idem_witness_1) as [o| |] eqn:E1; try discriminate E.
    destruct (replace toy_decide o) as [o2| |] eqn:E2; try discriminate E. injection E as <- <-.
    split; [reflexivity|]. split; [exact E2|].
    intros Heq. subst o2. vm_compute in E1. injection E1 as <-. vm_compute in E2. discriminate E2.
  - destruct (twice idem_witness_2) as [[out out2]|] eqn:E; [|vm_compute in E; discriminate E].
    exists idem_witness_2, out, out2. unfold twice in E.
    destruct (replace toy_decide idem_witness_2) as [o| |] eqn:E1; try discriminate E.
    destruct (replace toy_decide o) as [o2| |] eqn:E2; try discriminate E. injection E as <- <-.
    split; [reflexivity|]. split; [reflexivity|]. split; [exact E2|].
    intros Heq. subst o2. vm_compute in E1. injection E1 as <-. vm_compute in E2. discriminate E2.
Qed.

Theorem pipeline_idempotent_statement_false : ~ pipeline_idempotent_statement.
Proof.
  intros H. destruct pipeline_idempotent_refuted as (d & Hd & (src & out & out2 & E1 & E2 & Hne) & _).
  specialize (H d Hd src out E1). rewrite E2 in H. injection H as ->. apply Hne. reflexivity.
Qed.
