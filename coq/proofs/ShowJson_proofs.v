(* C08: what showInJSON / showInJS write for a value of an accepted type is the
   text of one well formed JSON value (JavaScript: plus new Date(string)), and
   the parser of Json.v reads it back. Instance of the induction of
   Show_js_proofs with the predicate `is the print of a well formed value`. *)
From Coq Require Import List NArith ZArith Bool Lia.
From Verif Require Import Bytes ShowTree Facts_show ShowTypesM ShowJsonM ShowLeavesM Json
  ShowTree_proofs Show_flat_proofs Show_js_checks Show_js_proofs Show_c09_proofs Json_proofs ShowLeaves_proofs.
Import ListNotations.
Open Scope N_scope.

Definition is_js (f : showfn) : bool := match f with FJS => true | FJSON => false end.

(* the assumptions on the oracle: what the model does not compute *)
Record oracle_ok (O : leaves) : Prop := {
  (* strconv.FormatFloat yields a number token: true of finite floats only *)
  o_float : forall bits x, is_number (lf_float O bits x) = true;
  (* time.Format(RFC3339) has no quote, backslash or control character *)
  o_time_json : forall x, body_ok (lf_time_json O x) = true;
  (* showTimeInJS returns new Date(string), or panics *)
  o_time_js : forall x, match lf_time_js O x with
                        | Some t => exists b, body_ok b = true /\ t = t_date_open ++ b ++ t_date_close
                        | None => True
                        end;
  (* native.JS / native.JSON values and the texts of JS / JSON methods are trusted to be literals *)
  o_trusted : forall f c t v, exists j, wf_json (is_js f) j = true /\ lf_trusted O f c t v = json_print j
}.

Section Wf.
  Variable O : leaves.
  Variable f : showfn.
  Hypothesis HO : oracle_ok O.

  Let L := concrete O.

  (* the result is the text of a well formed value; showInJS may also panic (a year that Date cannot represent) *)
  Definition printed (r : result) : Prop :=
    match r with
    | ROk out => exists j, wf_json (is_js f) j = true /\ out = json_print j
    | RPanic => is_js f = true
    | _ => False
    end.

  Lemma printed_ok j : wf_json (is_js f) j = true -> printed (ROk (json_print j)).
  Proof. intro H. exists j. split; [exact H | reflexivity]. Qed.

  Lemma join_results_printed rs :
    Forall printed rs -> forall first,
    (exists js, forallb (wf_json (is_js f)) js = true /\ join_results rs first = ROk (print_elems json_print js first)
                /\ (rs = [] <-> js = []))
    \/ (is_js f = true /\ join_results rs first = RPanic).
  Proof.
    intro H. induction H as [| r rs Hr Hrs IH]; intro first.
    - left. exists []. split; [reflexivity | split; [reflexivity | tauto]].
    - cbn [join_results]. destruct r as [out | | |]; cbn [printed] in Hr; try contradiction.
      + destruct Hr as [j [Hw Ho]]. subst out. cbn [bind].
        destruct (IH false) as [[js [Hws [Hj Hnil]]] | [Hp Hj]]; rewrite Hj; cbn [bind].
        * left. exists (j :: js). split; [cbn [forallb]; rewrite Hw, Hws; reflexivity |].
          split; [reflexivity | split; intro Hc; discriminate Hc].
        * right. split; [exact Hp | reflexivity].
      + right. split; [exact Hr | reflexivity].
  Qed.

  Lemma array_printed rs : Forall printed rs -> printed (array_lit rs).
  Proof.
    intro H. unfold array_lit. destruct rs as [| r rs'].
    - apply (printed_ok (JArr [])). reflexivity.
    - destruct (join_results_printed (r :: rs') H true) as [[js [Hws [Hj Hnil]]] | [Hp Hj]]; rewrite Hj; cbn [bind printed].
      + exists (JArr js). split; [exact Hws | reflexivity].
      + exact Hp.
  Qed.

  Lemma join_members_printed ms :
    Forall (fun m : bytes * result => printed (snd m)) ms -> forall first,
    (exists jm, forallb (fun m : bytes * json => body_ok (fst m) && wf_json (is_js f) (snd m)) jm = true /\
                join_members L f ms first = ROk (print_members json_print jm first))
    \/ (is_js f = true /\ join_members L f ms first = RPanic).
  Proof.
    intro H. induction H as [| [name r] ms Hr Hrs IH]; intro first.
    - left. exists []. split; reflexivity.
    - cbn [join_members]. cbn [snd] in Hr. destruct r as [out | | |]; cbn [printed] in Hr; try contradiction.
      + destruct Hr as [j [Hw Ho]]. subst out. cbn [bind].
        destruct (IH false) as [[jm [Hws Hj]] | [Hp Hj]]; rewrite Hj; cbn [bind].
        * left. exists ((js_escape name, j) :: jm). split.
          -- cbn [forallb fst snd]. rewrite (js_escape_ok name), Hw, Hws. reflexivity.
          -- cbn [print_members]. unfold L. cbn [lf_string concrete]. destruct first; cbn [app]; rewrite <- ?app_assoc; reflexivity.
        * right. split; [exact Hp | reflexivity].
      + right. split; [exact Hr | reflexivity].
  Qed.

  Lemma object_printed ms : Forall (fun m : bytes * result => printed (snd m)) ms -> printed (object_lit L f ms).
  Proof.
    intro H. unfold object_lit.
    destruct (join_members_printed ms H true) as [[jm [Hws Hj]] | [Hp Hj]]; rewrite Hj; cbn [bind printed].
    - exists (JObj jm). split; [exact Hws | reflexivity].
    - exact Hp.
  Qed.

  (* every value of an accepted type that is not an interface type is written as one well formed literal *)
  Theorem show_val_printed : forall n, P L f (fun _ _ _ r => printed r) n.
  Proof.
    apply show_val_plain.
    - apply (printed_ok JNull). reflexivity.
    - intro b. destruct b; [apply (printed_ok (JBool true)) | apply (printed_ok (JBool false))]; reflexivity.
    - intro z. apply (printed_ok (JNum (dec_of_Z z))). apply dec_of_Z_number.
    - intro n. apply (printed_ok (JNum (dec_of_N n))). apply dec_of_N_number.
    - intros c x. apply (printed_ok (JNum (lf_float L c x))). unfold L. cbn [lf_float concrete]. apply (o_float O HO).
    - intro s. unfold quoted, L. cbn [lf_string concrete]. apply (printed_ok (JStr (js_escape s))). apply js_escape_ok.
    - intro b. unfold L. cbn [lf_base64 concrete]. apply (printed_ok (JStr (base64 b))). apply base64_ok.
    - intro x. unfold L. cbn [lf_time_js lf_time_json concrete]. unfold printed. destruct f.
      + pose proof (o_time_js O HO x) as Ht. destruct (lf_time_js O x) as [t |]; [| reflexivity].
        destruct Ht as [b [Hb Ht]]. subst t. exists (JDate b). split; [cbn [wf_json is_js andb]; exact Hb | reflexivity].
      + exists (JStr (lf_time_json O x)). split; [apply (o_time_json O HO) | reflexivity].
    - intros c t v. unfold L. cbn [lf_trusted concrete]. destruct (o_trusted O HO f c t v) as [j [Hw Hj]]. rewrite Hj. apply printed_ok. exact Hw.
    - apply array_printed.
    - apply object_printed.
  Qed.
End Wf.

(* ---- C08: well formedness ---- *)

(* JSON: the text is written (no error, no panic) and parses as exactly one JSON value *)
Theorem show_json_wf :
  forall (O : leaves) (conv : bool) (t : ty) (v : value),
    oracle_ok O ->
    is_rec t = false -> is_iface t = false -> wf_tyb t = true -> flag t w_EmptyInterface = false ->
    static_ok ctx_JSON t = OOk ->
    has_typeb [] t v = true -> boxed_okb FJSON v = true ->
    exists out j, show_any (concrete O) conv ctx_JSON false t v = ROk out /\
                  wf_json false j = true /\ out = json_print j /\ json_parse out = Some j.
Proof.
  intros O conv t v HO Hr Hi Hw Hemp Hs Hty Hbox.
  pose proof (kind_lt_of_wf t Hr Hw) as Hk.
  unfold show_any, dyn_type. rewrite Hi.
  pose proof (dispatch_js conv FJSON (Some t) Hk) as Hd. cbn [ctx_of] in Hd. rewrite Hd.
  assert (Hp : printed FJSON (show_top (concrete O) FJSON t v)).
  { unfold show_top. destruct t; try discriminate Hr; rewrite Hi;
      apply (show_val_printed O FJSON HO (S (vsize v))); try assumption; try lia; try apply env_ok_nil;
      apply (static_js FJSON); assumption. }
  destruct (show_top (concrete O) FJSON t v) as [out | | |]; cbn [printed is_js] in Hp; try contradiction; try discriminate Hp.
  destruct Hp as [j [Hwj Ho]]. exists out, j. split; [reflexivity |]. split; [exact Hwj |]. split; [exact Ho |].
  subst out. apply (parse_print false j Hwj).
Qed.

(* JavaScript: the text is one expression of the literal grammar (JSON plus new Date(string)),
   unless showTimeInJS panics on a year outside of its range *)
Theorem show_js_wf :
  forall (O : leaves) (conv : bool) (t : ty) (v : value),
    oracle_ok O ->
    is_rec t = false -> is_iface t = false -> wf_tyb t = true -> flag t w_EmptyInterface = false ->
    static_ok ctx_JS t = OOk ->
    has_typeb [] t v = true -> boxed_okb FJS v = true ->
    show_any (concrete O) conv ctx_JS false t v = RPanic \/
    exists out j, show_any (concrete O) conv ctx_JS false t v = ROk out /\
                  wf_json true j = true /\ out = json_print j /\ js_parse out = Some j.
Proof.
  intros O conv t v HO Hr Hi Hw Hemp Hs Hty Hbox.
  pose proof (kind_lt_of_wf t Hr Hw) as Hk.
  unfold show_any, dyn_type. rewrite Hi.
  pose proof (dispatch_js conv FJS (Some t) Hk) as Hd. cbn [ctx_of] in Hd. rewrite Hd.
  assert (Hp : printed FJS (show_top (concrete O) FJS t v)).
  { unfold show_top. destruct t; try discriminate Hr; rewrite Hi;
      apply (show_val_printed O FJS HO (S (vsize v))); try assumption; try lia; try apply env_ok_nil;
      apply (static_js FJS); assumption. }
  destruct (show_top (concrete O) FJS t v) as [out | | |]; cbn [printed is_js] in Hp; try contradiction.
  - right. destruct Hp as [j [Hwj Ho]]. exists out, j. split; [reflexivity |]. split; [exact Hwj |]. split; [exact Ho |].
    subst out. apply (parse_print true j Hwj).
  - left. reflexivity.
Qed.
