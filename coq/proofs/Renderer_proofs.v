(* Proofs about the renderer model: no operation sequence faults (C05 part 1)
   and the output of a show inside a URL attribute is confined (slot lemma). *)
From Verif Require Import Bytes Facts_render RendererM.
Open Scope N_scope.

(* ---------------------------------------------------------------- scripts *)

Fixpoint script_ok (sc : list act) : bool :=
  match sc with
  | [] => true
  | AFault :: _ => false
  | AWrite _ :: r => script_ok r
  end.

Fixpoint script_chunks (sc : list act) : list bytes :=
  match sc with
  | AWrite c :: r => c :: script_chunks r
  | _ => []
  end.

Definition script_bytes (sc : list act) : bytes := concat (script_chunks sc).

Lemma script_ok_app a b : script_ok (a ++ b) = script_ok a && script_ok b.
Proof.
  induction a as [|x a IH]; simpl; [reflexivity|]. destruct x; [apply IH|reflexivity].
Qed.

Lemma flushp_ok p : script_ok (flushp p) = true.
Proof. destruct p; reflexivity. Qed.

Lemma script_chunks_app a b : script_ok a = true -> script_chunks (a ++ b) = script_chunks a ++ script_chunks b.
Proof.
  induction a as [|x a IH]; simpl; intros H; [reflexivity|]. destruct x; [|discriminate].
  simpl. f_equal. apply IH, H.
Qed.

Lemma flushp_bytes p : concat (script_chunks (flushp p)) = p.
Proof. destruct p; simpl; [reflexivity|]. rewrite app_nil_r. reflexivity. Qed.

Lemma run_script_no_fault w sc : forall ws,
  script_ok sc = true -> is_fault (snd (run_script w ws sc)) = false.
Proof.
  induction sc as [|a sc IH]; intros ws H; simpl; [reflexivity|].
  destruct a as [c|]; [|discriminate]. simpl in H.
  destruct (wr w ws c) as [ws' [e|]]; simpl; [reflexivity|]. apply IH, H.
Qed.

(* the chunks accepted by the writer are a prefix of the script, appended to what was there *)
Lemma run_script_prefix w sc : forall ws,
  exists k, w_out (fst (run_script w ws sc)) = w_out ws ++ firstn k (script_chunks sc).
Proof.
  induction sc as [|a sc IH]; intros ws; simpl.
  - exists 0%nat. simpl. rewrite app_nil_r. reflexivity.
  - destruct a as [c|]; [|exists 0%nat; simpl; rewrite app_nil_r; reflexivity].
    unfold wr. destruct (w (w_calls ws + 1)) as [e|]; simpl.
    + exists 0%nat. simpl. rewrite app_nil_r. reflexivity.
    + destruct (IH (mkW (w_calls ws + 1) (w_out ws ++ [c]))) as [k Hk].
      exists (S k). rewrite Hk. simpl. rewrite <- app_assoc. reflexivity.
Qed.

(* with a writer that never fails the whole script is written *)
Lemma run_script_all sc : forall ws,
  script_ok sc = true ->
  run_script (fun _ => None) ws sc = (mkW (w_calls ws + nlen sc) (w_out ws ++ script_chunks sc), ROk).
Proof.
  induction sc as [|a sc IH]; intros ws H; simpl.
  - rewrite nlen_nil, N.add_0_r, app_nil_r. destruct ws; reflexivity.
  - destruct a as [c|]; [|discriminate]. simpl in H. unfold wr. rewrite IH by exact H. simpl.
    rewrite nlen_cons, <- app_assoc. simpl. replace (w_calls ws + 1 + nlen sc) with (w_calls ws + (1 + nlen sc)) by lia. reflexivity.
Qed.

(* ---------------------------------------------------------------- pathEscape never indexes out of range *)

Lemma look_need_3 : 3 <=? gen_pathEscape_look_need = true.
Proof. reflexivity. Qed.

Lemma pe_byte_some q c r : pe_byte q c r <> None.
Proof.
  unfold pe_byte. pose proof look_need_3 as L. apply N.leb_le in L.
  destruct (assoc_get (pe_tbl q) c); [|discriminate].
  destruct (mem gen_pathEscape_lookbytes c); [|discriminate].
  destruct (N.leb_spec gen_pathEscape_look_need (1 + nlen r)) as [H|H]; [|discriminate].
  destruct r as [|a r'].
  - rewrite nlen_nil in H. lia.
  - destruct (mem gen_pathEscape_look1 a); [|discriminate].
    destruct r' as [|b r''].
    + rewrite nlen_cons, nlen_nil in H. lia.
    + destruct (mem gen_pathEscape_look2 b); discriminate.
Qed.

Lemma pe_loop_ok q s : forall pend, script_ok (pe_loop q s pend) = true.
Proof.
  induction s as [|c r IH]; intros pend; simpl; [apply flushp_ok|].
  destruct (pe_byte q c r) as [[rep|]|] eqn:E.
  - rewrite script_ok_app, flushp_ok. simpl. apply IH.
  - apply IH.
  - exfalso. exact (pe_byte_some _ _ _ E).
Qed.

Lemma qe_loop_ok s : forall pend, script_ok (qe_loop s pend) = true.
Proof.
  induction s as [|c r IH]; intros pend; simpl; [apply flushp_ok|].
  destruct (assoc_get gen_queryEscape c).
  - rewrite script_ok_app, flushp_ok. simpl. apply IH.
  - apply IH.
Qed.

Lemma last_opt_mem s c : mem s c = true -> last_opt s <> None.
Proof.
  destruct s as [|x s]; [discriminate|]. intros _. revert x.
  induction s as [|y s IH]; intros x; simpl; [discriminate|]. apply IH.
Qed.

Lemma r_show_url_ok st s q : script_ok (snd (r_show_url st s q)) = true.
Proof.
  unfold r_show_url, pathEscape, queryEscape.
  destruct (query st).
  - destruct (remQ st); simpl; [apply pe_loop_ok|apply qe_loop_ok].
  - destruct (mem s 63) eqn:M; simpl; [|apply pe_loop_ok].
    destruct (last_opt s) eqn:L; simpl; [apply pe_loop_ok|].
    exfalso. exact (last_opt_mem _ _ M L).
Qed.

(* ---------------------------------------------------------------- renderer_no_fault *)

Lemma r_text_no_fault w st ws txt u isSet :
  txt <> [] -> is_fault (snd (r_text w st ws txt u isSet)) = false.
Proof.
  intros Hne. unfold r_text.
  destruct u; [|destruct (wr w ws txt) as [? [?|]]; reflexivity].
  destruct (isSet && mem txt 44); [destruct (wr w ws txt) as [? [?|]]; reflexivity|].
  destruct (query (url_switch st true)); [|destruct (wr w ws txt) as [? [?|]]; reflexivity].
  destruct txt as [|c r]; [congruence|].
  set (t1 := if remQ (url_switch st true) then _ else _).
  assert (Ht : exists t, t1 = Some t).
  { unfold t1. destruct (remQ (url_switch st true)); eexists; reflexivity. }
  destruct Ht as [t ->].
  match goal with |- context [if ?b then wr _ _ _ else _] => destruct b end.
  - destruct (wr w ws amp_entity) as [ws1 [e|]]; [reflexivity|].
    destruct (wr w ws1 t) as [? [?|]]; reflexivity.
  - destruct (wr w ws t) as [? [?|]]; reflexivity.
Qed.

Lemma r_show_no_fault w st ws c v :
  op_ok (OShow c v) = true -> is_fault (snd (r_show w st ws c v)) = false.
Proof.
  unfold op_ok, r_show. destruct (decode_ctx c) as [[[ctx u] s]|]; [|discriminate].
  intros K. destruct u.
  - destruct (sv_url v) as [s'|]; [|reflexivity].
    pose proof (r_show_url_ok (url_switch st true) s' (ctx =? gen_ContextQuotedAttr)) as Hok.
    destruct (r_show_url (url_switch st true) s' (ctx =? gen_ContextQuotedAttr)) as [st' sc]. simpl in Hok.
    pose proof (run_script_no_fault w sc ws Hok) as Hr.
    destruct (run_script w ws sc) as [ws' r]. exact Hr.
  - rewrite K.
    assert (Hok : script_ok (map AWrite (sv_chunks v)) = true) by (induction (sv_chunks v); simpl; auto).
    pose proof (run_script_no_fault w _ ws Hok) as Hr.
    destruct (run_script w ws (map AWrite (sv_chunks v))) as [ws' r]. simpl in Hr.
    destruct r; simpl; try reflexivity; try discriminate. destruct (sv_err v); reflexivity.
Qed.

Lemma r_op_no_fault w st ws o :
  op_ok o = true -> is_fault (snd (r_op w st ws o)) = false.
Proof.
  destruct o as [txt u isSet|c v]; intros H.
  - apply r_text_no_fault. destruct txt; [discriminate|congruence].
  - apply r_show_no_fault, H.
Qed.

Theorem renderer_no_fault : forall (w : writer) (ops : list op) (st : rstate) (ws : wst),
  forallb op_ok ops = true ->
  forallb (fun r => negb (is_fault r)) (snd (r_run w st ws ops)) = true.
Proof.
  intros w ops. induction ops as [|o ops IH]; intros st ws H; simpl; [reflexivity|].
  simpl in H. apply andb_prop in H. destruct H as [Ho Hr].
  pose proof (r_op_no_fault w st ws o Ho) as Hf.
  destruct (r_op w st ws o) as [[st1 ws1] x]. simpl in Hf.
  pose proof (IH st1 ws1 Hr) as H2.
  destruct (r_run w st1 ws1 ops) as [[st2 ws2] xs]. simpl in *. rewrite Hf. exact H2.
Qed.

(* the precondition is needed: an empty Text in a URL query after a value with a question mark faults *)
Lemma empty_text_faults :
  let ops := [OShow 135 (mkShown [] None (Some [120; 63; 121])); OText [] true false] in
  snd (r_run (fun _ => None) r0 w0 ops) = [ROk; RFault].
Proof. vm_compute. reflexivity. Qed.

(* the state comment of renderer.go: the three URL flags are false outside URLs *)
Definition st_inv (st : rstate) : Prop :=
  inURL st = false -> query st = false /\ addAmp st = false /\ remQ st = false.

Lemma url_switch_inv st u : st_inv st -> st_inv (url_switch st u) /\ inURL (url_switch st u) = u.
Proof.
  unfold url_switch, st_inv. destruct st as [i q a r]; simpl. destruct i, u; simpl; intros H; split; auto; try discriminate.
Qed.

Lemma r_op_inv w st ws o : st_inv st -> st_inv (fst (fst (r_op w st ws o))).
Proof.
  intros Hi. destruct o as [txt u isSet|c v]; simpl.
  - unfold r_text. destruct (url_switch_inv st u Hi) as [H1 H2].
    destruct u.
    + assert (G : forall x, inURL x = true -> st_inv x) by (intros x Hx Hf; congruence).
      repeat match goal with
      | |- context [match wr ?w ?a ?b with _ => _ end] => destruct (wr w a b) as [? [?|]]
      | |- context [if ?b then _ else _] => destruct b
      | |- context [match ?t with [] => _ | _ :: _ => _ end] => destruct t
      end; simpl; try (apply G; simpl; exact H2); try exact H1.
    + destruct (wr w ws txt) as [? [?|]]; exact H1.
  - unfold r_show. destruct (decode_ctx c) as [[[ctx u] s]|]; [|exact Hi].
    destruct (url_switch_inv st u Hi) as [H1 H2].
    destruct u.
    + destruct (sv_url v) as [s'|]; [|exact H1].
      assert (G : inURL (fst (r_show_url (url_switch st true) s' (ctx =? gen_ContextQuotedAttr))) = true).
      { unfold r_show_url. repeat match goal with |- context [if ?b then _ else _] => destruct b
        | |- context [match last_opt ?s with _ => _ end] => destruct (last_opt s) end; simpl; exact H2. }
      destruct (r_show_url (url_switch st true) s' (ctx =? gen_ContextQuotedAttr)) as [st' sc].
      destruct (run_script w ws sc) as [ws' r]. simpl in *. intros Hf. congruence.
    + destruct (mem gen_show_known_ctx ctx); [|exact H1].
      destruct (run_script w ws (map AWrite (sv_chunks v))) as [ws' r]. destruct r; exact H1.
Qed.

(* ---------------------------------------------------------------- the URL slot *)

(* per byte form of the two escapers *)
Fixpoint pe_flat (q : bool) (s : bytes) : bytes :=
  match s with
  | [] => []
  | c :: r =>
    match pe_byte q c r with
    | Some (Some rep) => rep ++ pe_flat q r
    | _ => c :: pe_flat q r
    end
  end.

Fixpoint qe_flat (s : bytes) : bytes :=
  match s with
  | [] => []
  | c :: r =>
    match assoc_get gen_queryEscape c with
    | Some rep => rep ++ qe_flat r
    | None => c :: qe_flat r
    end
  end.

Lemma pe_loop_bytes q s : forall pend, script_bytes (pe_loop q s pend) = pend ++ pe_flat q s.
Proof.
  unfold script_bytes. induction s as [|c r IH]; intros pend; simpl.
  - rewrite flushp_bytes, app_nil_r. reflexivity.
  - destruct (pe_byte q c r) as [[rep|]|] eqn:E.
    + rewrite script_chunks_app by apply flushp_ok. rewrite concat_app, flushp_bytes. simpl.
      rewrite IH. reflexivity.
    + rewrite IH, <- app_assoc. reflexivity.
    + exfalso. exact (pe_byte_some _ _ _ E).
Qed.

Lemma qe_loop_bytes s : forall pend, script_bytes (qe_loop s pend) = pend ++ qe_flat s.
Proof.
  unfold script_bytes. induction s as [|c r IH]; intros pend; simpl.
  - rewrite flushp_bytes, app_nil_r. reflexivity.
  - destruct (assoc_get gen_queryEscape c) as [rep|].
    + rewrite script_chunks_app by apply flushp_ok. rewrite concat_app, flushp_bytes. simpl.
      rewrite IH. reflexivity.
    + rewrite IH, <- app_assoc. reflexivity.
Qed.

(* bytes that cannot end or leave an attribute value: no quote, apostrophe,
   less-than, greater-than, backquote; and no ASCII white space when the
   attribute is not quoted *)
Definition url_safe (q : bool) (c : N) : bool :=
  negb (mem [34; 39; 60; 62; 96] c) && (q || negb (mem [9; 10; 12; 13; 32] c)).

(* the character references the escapers emit, without the leading ampersand *)
Definition ent_tails : list bytes := [[97; 109; 112; 59]; [35; 52; 51; 59]; [35; 51; 50; 59]].

Fixpoint prefixb (p s : bytes) : bool :=
  match p, s with
  | [], _ => true
  | x :: p', y :: s' => (x =? y) && prefixb p' s'
  | _, [] => false
  end.

(* every ampersand starts one of the three references *)
Fixpoint amp_ok (s : bytes) : bool :=
  match s with
  | [] => true
  | c :: r => (if c =? 38 then existsb (fun e => prefixb e r) ent_tails else true) && amp_ok r
  end.

Definition rep_ok (q : bool) (rep : bytes) : bool :=
  forallb (url_safe q) rep &&
  (negb (mem rep 38) || existsb (fun e => bytes_eqb rep (38 :: e)) ent_tails).

Definition keep_ok (q : bool) (c : N) : bool := url_safe q c && negb (c =? 38).

Lemma pe_tbl_ok q :
  forallb (fun c => match assoc_get (pe_tbl q) c with
                    | None => keep_ok q c
                    | Some rep => rep_ok q rep && (if mem gen_pathEscape_lookbytes c then keep_ok q c else true)
                    end) all_bytes = true.
Proof. destruct q; vm_compute; reflexivity. Qed.

Lemma qe_tbl_ok :
  forallb (fun c => match assoc_get gen_queryEscape c with
                    | None => keep_ok false c
                    | Some rep => rep_ok false rep
                    end) all_bytes = true.
Proof. vm_compute. reflexivity. Qed.

Lemma pe_tbl_keys q : forallb (fun kv => fst kv <? 256) (pe_tbl q) = true.
Proof. destruct q; vm_compute; reflexivity. Qed.
Lemma qe_tbl_keys : forallb (fun kv => fst kv <? 256) gen_queryEscape = true.
Proof. vm_compute. reflexivity. Qed.

Lemma keep_ok_oob q c : 256 <= c -> keep_ok q c = true.
Proof.
  intros H. unfold keep_ok, url_safe.
  rewrite (mem_oob [34; 39; 60; 62; 96] c eq_refl H), (mem_oob [9; 10; 12; 13; 32] c eq_refl H).
  destruct (N.eqb_spec c 38); [lia|]. destruct q; reflexivity.
Qed.

(* the decision of the loop body for any number c and any following bytes *)
Lemma pe_byte_ok q c r :
  match pe_byte q c r with
  | Some (Some rep) => rep_ok q rep = true
  | _ => keep_ok q c = true
  end.
Proof.
  destruct (N.lt_ge_cases c 256) as [Hc|Hc].
  - pose proof (forall_bytes _ (pe_tbl_ok q) c Hc) as H. cbv beta in H.
    unfold pe_byte. destruct (assoc_get (pe_tbl q) c) as [rep|]; [|exact H].
    apply andb_prop in H. destruct H as [H1 H2].
    destruct (mem gen_pathEscape_lookbytes c); [|exact H1].
    repeat match goal with
    | |- context [if ?b then _ else _] => destruct b
    | |- context [match ?l with [] => _ | _ :: _ => _ end] => destruct l
    end; assumption.
  - unfold pe_byte. rewrite (assoc_get_oob _ c (pe_tbl_keys q) Hc). apply keep_ok_oob, Hc.
Qed.

Lemma amp_ok_app_noamp a b : mem a 38 = false -> amp_ok (a ++ b) = amp_ok b.
Proof.
  unfold mem. induction a as [|x a IH]; cbn [existsb app amp_ok]; intros H; [reflexivity|].
  apply orb_false_elim in H. destruct H as [H1 H2].
  rewrite N.eqb_sym in H1. rewrite H1. cbn [andb]. apply IH, H2.
Qed.

Lemma amp_ok_rep q rep b : rep_ok q rep = true -> amp_ok (rep ++ b) = amp_ok b.
Proof.
  unfold rep_ok. intros H. apply andb_prop in H. destruct H as [_ H].
  apply orb_prop in H. destruct H as [H|H].
  - apply amp_ok_app_noamp. destruct (mem rep 38); [discriminate|reflexivity].
  - unfold ent_tails in H. simpl in H.
    repeat (apply orb_prop in H; destruct H as [H|H]); try discriminate;
      apply bytes_eqb_eq in H; subst rep; reflexivity.
Qed.

Lemma amp_ok_keep q c b : keep_ok q c = true -> amp_ok (c :: b) = amp_ok b.
Proof.
  unfold keep_ok. intros H. apply andb_prop in H. destruct H as [_ H]. simpl.
  destruct (c =? 38); [discriminate|reflexivity].
Qed.

Lemma pe_flat_confined q s :
  forallb (url_safe q) (pe_flat q s) = true /\ amp_ok (pe_flat q s) = true.
Proof.
  induction s as [|c r [IH1 IH2]]; simpl; [split; reflexivity|].
  pose proof (pe_byte_ok q c r) as H.
  destruct (pe_byte q c r) as [[rep|]|].
  - split.
    + rewrite forallb_app, IH1. unfold rep_ok in H. apply andb_prop in H. destruct H as [H _]. rewrite H. reflexivity.
    + rewrite (amp_ok_rep q rep _ H). exact IH2.
  - split.
    + simpl. rewrite IH1. unfold keep_ok in H. apply andb_prop in H. destruct H as [H _]. rewrite H. reflexivity.
    + rewrite (amp_ok_keep q c _ H). exact IH2.
  - split.
    + simpl. rewrite IH1. unfold keep_ok in H. apply andb_prop in H. destruct H as [H _]. rewrite H. reflexivity.
    + rewrite (amp_ok_keep q c _ H). exact IH2.
Qed.

Lemma url_safe_weaken q c : url_safe false c = true -> url_safe q c = true.
Proof.
  unfold url_safe. intros H. apply andb_prop in H. destruct H as [H1 H2]. rewrite H1. simpl in *.
  destruct q; [reflexivity|exact H2].
Qed.

Lemma qe_flat_confined q s :
  forallb (url_safe q) (qe_flat s) = true /\ amp_ok (qe_flat s) = true.
Proof.
  induction s as [|c r [IH1 IH2]]; simpl; [split; reflexivity|].
  assert (H : match assoc_get gen_queryEscape c with
              | None => keep_ok false c = true | Some rep => rep_ok false rep = true end).
  { destruct (N.lt_ge_cases c 256) as [Hc|Hc].
    - pose proof (forall_bytes _ qe_tbl_ok c Hc) as H. cbv beta in H.
      destruct (assoc_get gen_queryEscape c); exact H.
    - rewrite (assoc_get_oob _ c qe_tbl_keys Hc). apply keep_ok_oob, Hc. }
  destruct (assoc_get gen_queryEscape c) as [rep|].
  - split.
    + rewrite forallb_app, IH1. unfold rep_ok in H. apply andb_prop in H. destruct H as [H _].
      rewrite andb_true_r. rewrite forallb_forall in *. intros x Hx. apply url_safe_weaken, H, Hx.
    + rewrite (amp_ok_rep false rep _ H). exact IH2.
  - split.
    + simpl. rewrite IH1. unfold keep_ok in H. apply andb_prop in H. destruct H as [H _].
      rewrite (url_safe_weaken q c H). reflexivity.
    + rewrite (amp_ok_keep false c _ H). exact IH2.
Qed.

(* URL slot lemma: whatever the state and the value, showInURL performs writes
   without faulting, their concatenation is the path escaping of the value (or
   its query escaping in a query that did not start inside a value), it
   contains no byte that ends the attribute value and every ampersand in it
   starts a character reference *)
Theorem show_url_confined : forall (st : rstate) (s : bytes) (q : bool),
  let sc := snd (r_show_url st s q) in
  script_ok sc = true /\
  script_bytes sc = (if query st && negb (remQ st) then qe_flat s else pe_flat q s) /\
  forallb (url_safe q) (script_bytes sc) = true /\
  amp_ok (script_bytes sc) = true.
Proof.
  intros st s q sc. split; [apply r_show_url_ok|].
  assert (E : script_bytes sc = (if query st && negb (remQ st) then qe_flat s else pe_flat q s)).
  { unfold sc, r_show_url, pathEscape, queryEscape.
    destruct (query st); simpl.
    - destruct (remQ st); simpl; [apply (pe_loop_bytes q s [])|apply (qe_loop_bytes s [])].
    - destruct (mem s 63) eqn:M; simpl; [|apply (pe_loop_bytes q s [])].
      destruct (last_opt s) eqn:L; simpl; [apply (pe_loop_bytes q s [])|].
      exfalso. exact (last_opt_mem _ _ M L). }
  split; [exact E|]. rewrite E.
  destruct (query st && negb (remQ st)); [apply qe_flat_confined|apply pe_flat_confined].
Qed.

(* Text inside a URL writes the template text unchanged, except that in a
   query a leading question mark is dropped after a value that brought its own
   and the amp reference is inserted before a text that does not start with an
   ampersand *)
Theorem text_url_shape : forall (st : rstate) (ws : wst) (txt : bytes) (u isSet : bool),
  txt <> [] ->
  let '(_, ws', r) := r_text (fun _ => None) st ws txt u isSet in
  r = ROk /\
  exists t, (t = txt \/ (txt = 63 :: t /\ remQ (url_switch st u) = true)) /\
            (w_out ws' = w_out ws ++ [t] \/
             (w_out ws' = w_out ws ++ [amp_entity; t] /\ addAmp (url_switch st u) = true /\ u = true)).
Proof.
  intros st ws txt u isSet Hne. unfold r_text, wr. simpl.
  destruct u; [|split; [reflexivity|exists txt; split; [left; reflexivity|left; reflexivity]]].
  destruct (isSet && mem txt 44); [split; [reflexivity|exists txt; split; [left; reflexivity|left; reflexivity]]|].
  destruct (query (url_switch st true)); [|split; [reflexivity|exists txt; split; [left; reflexivity|left; reflexivity]]].
  destruct txt as [|c r]; [congruence|].
  destruct (remQ (url_switch st true)) eqn:RQ.
  - destruct (N.eqb_spec c 63) as [->|Hc].
    + destruct (addAmp (url_switch st true) && _) eqn:A; simpl; (split; [reflexivity|]); exists r; (split; [right; split; reflexivity|]).
      * right. rewrite <- app_assoc. simpl. apply andb_prop in A. destruct A as [A _]. auto.
      * left. reflexivity.
    + destruct (addAmp (url_switch st true) && _) eqn:A; simpl; (split; [reflexivity|]); exists (c :: r); (split; [left; reflexivity|]).
      * right. rewrite <- app_assoc. simpl. apply andb_prop in A. destruct A as [A _]. auto.
      * left. reflexivity.
  - destruct (addAmp (url_switch st true) && _) eqn:A; simpl; (split; [reflexivity|]); exists (c :: r); (split; [left; reflexivity|]).
    + right. rewrite <- app_assoc. simpl. apply andb_prop in A. destruct A as [A _]. auto.
    + left. reflexivity.
Qed.

(* ---------------------------------------------------------------- render context encoding *)

(* the runtime and the compiler copies of decodeRenderContext agree on every byte *)
Lemma decode_copies_equal : gen_rt_decodeRenderContext = gen_cc_decodeRenderContext.
Proof. reflexivity. Qed.

(* decoding what the compiler encodes gives back the context and the flags
   (isURLSet only matters inside a URL), for the 16 values a context can take *)
Lemma decode_encode :
  forallb (fun e => match e with
     | (ctx, u, s, c) =>
       match assoc_get gen_rt_decodeRenderContext c with
       | Some (ctx', u', s') => (ctx' =? ctx) && Bool.eqb u' u && Bool.eqb s' (u && s)
       | None => false
       end
     end) gen_encodeRenderContext = true.
Proof. vm_compute. reflexivity. Qed.

(* every context the emitter can encode (0..13) is handled by renderer.Show *)
Lemma encoded_ctx_known :
  forallb (fun e => match e with
     | (ctx, u, s, c) => negb (ctx <=? gen_ContextSpacesCodeBlock) || op_ok (OShow c (mkShown [] None None))
     end) gen_encodeRenderContext = true.
Proof. vm_compute. reflexivity. Qed.

(* the Text instruction: the operand emitted by the builder decodes to the same flags in VM.run *)
Lemma text_flags_roundtrip :
  forallb (fun e => match e with
     | (u, s, c) =>
       match find (fun kv => Z.eqb (fst kv) c) gen_OpText_flags with
       | Some (_, (u', s')) => Bool.eqb u' u && Bool.eqb s' (u && s)
       | None => false
       end
     end) gen_emitText_c = true.
Proof. vm_compute. reflexivity. Qed.
