(* The 512 bit float arithmetic of the model (fl_add, fl_sub, fl_mul, fl_quo,
   big_of_Z, big_of_rat: big.Float Add, Sub, Mul, Quo, SetInt, SetRat at the
   precision of floatConst) and the conversions to float64 / float32 return
   the exact result rounded once to the format, nearest, ties to even. *)
From Coq Require Import ZArith Bool Lia QArith Qpower Qabs Lqa.
From Verif Require Import Facts_consts ConstsM Consts_proofs Consts_proofs2 Consts_proofs3 Round_core Round_proofs Round_spec.
Open Scope Z_scope.

Definition P := gen_bigfloat_prec.
Lemma P_pos : 0 < P.
Proof. reflexivity. Qed.

Definition big_rounds (x : Q) (r : fl) : Prop := rounds_to P None x (flQ r).

Lemma fmtbig_prec : f_prec fmtbig = P. Proof. reflexivity. Qed.
Lemma fmtbig_emin : f_emin fmtbig = None. Proof. reflexivity. Qed.

Lemma flQ_FZero n : (flQ (FZero n) == 0)%Q.
Proof. unfold flQ. cbn. ring. Qed.

Lemma round_pos_big_some neg p e st : exists r, round_pos fmtbig neg p e st = Some r.
Proof.
  destruct (round_pos fmtbig neg p e st) as [r|] eqn:E; [exists r; reflexivity|].
  exfalso. exact (round_pos_total fmtbig neg p e st eq_refl E).
Qed.

(* rounding of a float to 512 bits *)
Lemma big_round_fl_rounds x : big_rounds (flQ x) (big_round_fl x).
Proof.
  unfold big_rounds, big_round_fl. destruct (round_fl fmtbig x) as [r|] eqn:E.
  - exact (round_fl_rounds fmtbig x r P_pos E).
  - exfalso. destruct x as [n|n m e]; cbn [round_fl] in E; [discriminate|].
    exact (round_pos_total fmtbig n m e false eq_refl E).
Qed.

(* an integer mantissa and an exponent *)
Lemma big_of_mz_rounds m e : big_rounds (inject_Z m * T e) (big_of_mz m e).
Proof.
  unfold big_rounds.
  destruct m as [|p|p]; unfold big_of_mz.
  - apply (rounds_to_ext _ _ 0%Q _ 0%Q); [change (inject_Z 0) with 0%Q; ring|symmetry; apply flQ_FZero|].
    apply rounds_to_0. exact P_pos.
  - destruct (round_pos_big_some false p e false) as [r E]. rewrite E.
    pose proof (round_fl_rounds fmtbig (FFin false p e) r P_pos E) as H.
    refine (rounds_to_ext _ _ _ _ _ _ _ (Qeq_refl _) H). apply flQ_T.
  - destruct (round_pos_big_some true p e false) as [r E]. rewrite E.
    pose proof (round_fl_rounds fmtbig (FFin true p e) r P_pos E) as H.
    refine (rounds_to_ext _ _ _ _ _ _ _ (Qeq_refl _) H). apply flQ_T.
Qed.

(* SetInt and SetRat *)
Theorem big_of_Z_rounds z : big_rounds (inject_Z z) (big_of_Z z).
Proof.
  unfold big_rounds, big_of_Z. destruct (round_Z fmtbig z) as [r|] eqn:E.
  - exact (round_Z_rounds fmtbig z r P_pos E).
  - exfalso. destruct z; cbn [round_Z] in E; [discriminate| |];
      exact (round_pos_total fmtbig _ _ _ _ eq_refl E).
Qed.

Theorem big_of_rat_rounds n d : big_rounds (n # d) (big_of_rat n d).
Proof.
  unfold big_rounds, big_of_rat. destruct (round_rat fmtbig n d) as [r|] eqn:E.
  - exact (round_rat_rounds fmtbig n d r P_pos E).
  - exfalso. destruct n; cbn [round_rat] in E; [discriminate| |];
      destruct (quo_bits (f_prec fmtbig) p d) as [[q e] s];
      exact (round_pos_total fmtbig _ _ _ _ eq_refl E).
Qed.

(* the exact sum of two floats *)
Lemma fl_sum_mz_value a b sub :
  (inject_Z (fst (fl_sum_mz a b sub)) * T (snd (fl_sum_mz a b sub)) ==
   if sub then flQ a - flQ b else flQ a + flQ b)%Q.
Proof.
  unfold fl_sum_mz. cbn [fst snd]. set (e := Z.min (fl_e a) (fl_e b)).
  destruct sub; rewrite (flQ_scaled a e), (flQ_scaled b e) by (unfold e; lia); fold (T e);
    rewrite inject_Z_plus; [rewrite inject_Z_opp|]; ring.
Qed.

Lemma fl_nonzero_cases x : fl_is_zero x = false -> exists n m e, x = FFin n m e.
Proof. destruct x as [|n m e]; [discriminate|]. intros _. exists n, m, e. reflexivity. Qed.

Theorem fl_add_rounds x y : big_rounds (flQ x + flQ y) (fl_add x y).
Proof.
  destruct x as [a|a m1 e1], y as [b|b m2 e2]; unfold fl_add.
  - unfold big_rounds. apply (rounds_to_ext _ _ 0%Q _ 0%Q); [rewrite !flQ_FZero; ring|symmetry; apply flQ_FZero|].
    apply rounds_to_0. exact P_pos.
  - pose proof (big_round_fl_rounds (FFin b m2 e2)) as H. unfold big_rounds in *.
    refine (rounds_to_ext _ _ _ _ _ _ _ (Qeq_refl _) H). rewrite flQ_FZero. ring.
  - pose proof (big_round_fl_rounds (FFin a m1 e1)) as H. unfold big_rounds in *.
    refine (rounds_to_ext _ _ _ _ _ _ _ (Qeq_refl _) H). rewrite flQ_FZero. ring.
  - pose proof (fl_sum_mz_value (FFin a m1 e1) (FFin b m2 e2) false) as V.
    destruct (fl_sum_mz (FFin a m1 e1) (FFin b m2 e2) false) as [m e]. cbn [fst snd] in V.
    pose proof (big_of_mz_rounds m e) as H. unfold big_rounds in *.
    exact (rounds_to_ext _ _ _ _ _ _ V (Qeq_refl _) H).
Qed.

Theorem fl_sub_rounds x y : big_rounds (flQ x - flQ y) (fl_sub x y).
Proof.
  destruct x as [a|a m1 e1], y as [b|b m2 e2]; unfold fl_sub.
  - unfold big_rounds. apply (rounds_to_ext _ _ 0%Q _ 0%Q); [rewrite !flQ_FZero; ring|symmetry; apply flQ_FZero|].
    apply rounds_to_0. exact P_pos.
  - pose proof (big_round_fl_rounds (fl_opp (FFin b m2 e2))) as H. unfold big_rounds in *.
    refine (rounds_to_ext _ _ _ _ _ _ _ (Qeq_refl _) H). rewrite flQ_FZero.
    cbn [fl_opp]. rewrite !flQ_T. destruct b; cbn [negb sgn];
      [change (Z.neg m2) with (- Z.pos m2)|change (Z.neg m2) with (- Z.pos m2)]; rewrite inject_Z_opp; ring.
  - pose proof (big_round_fl_rounds (FFin a m1 e1)) as H. unfold big_rounds in *.
    refine (rounds_to_ext _ _ _ _ _ _ _ (Qeq_refl _) H). rewrite flQ_FZero. ring.
  - pose proof (fl_sum_mz_value (FFin a m1 e1) (FFin b m2 e2) true) as V.
    destruct (fl_sum_mz (FFin a m1 e1) (FFin b m2 e2) true) as [m e]. cbn [fst snd] in V.
    pose proof (big_of_mz_rounds m e) as H. unfold big_rounds in *.
    exact (rounds_to_ext _ _ _ _ _ _ V (Qeq_refl _) H).
Qed.

Lemma sgn_mul a b m1 m2 : sgn (xorb a b) (m1 * m2) = sgn a m1 * sgn b m2.
Proof. destruct a, b; reflexivity. Qed.

Theorem fl_mul_rounds x y : big_rounds (flQ x * flQ y) (fl_mul x y).
Proof.
  destruct x as [a|a m1 e1], y as [b|b m2 e2]; unfold fl_mul;
    try (unfold big_rounds; apply (rounds_to_ext _ _ 0%Q _ 0%Q);
         [rewrite ?flQ_FZero; ring|symmetry; apply flQ_FZero|apply rounds_to_0; exact P_pos]).
  destruct (round_pos_big_some (xorb a b) (m1 * m2) (e1 + e2) false) as [r E]. rewrite E.
  pose proof (round_fl_rounds fmtbig (FFin (xorb a b) (m1 * m2) (e1 + e2)) r P_pos E) as H.
  unfold big_rounds. refine (rounds_to_ext _ _ _ _ _ _ _ (Qeq_refl _) H).
  rewrite !flQ_T, sgn_mul, inject_Z_mult, T_add. ring.
Qed.

Lemma sgn_signed a m : (inject_Z (sgn a m) == signed a (inject_Z (Zpos m)))%Q.
Proof. destruct a; cbn [sgn signed]; [|reflexivity]. change (Z.neg m) with (- Z.pos m). rewrite inject_Z_opp. reflexivity. Qed.

Lemma T_opp k : (T (- k) == / T k)%Q.
Proof. unfold T. apply Qpower_opp. Qed.

Lemma Qmake_div n d : (Zpos n # d == inject_Z (Zpos n) / inject_Z (Zpos d))%Q.
Proof.
  assert (Hd : ~ (inject_Z (Zpos d) == 0)%Q) by (intros H; apply (inject_Z_injective (Zpos d) 0) in H; lia).
  apply (Qmult_inj_r _ _ (inject_Z (Zpos d)) Hd). rewrite Qmake_mult. field. exact Hd.
Qed.

(* y is not zero *)
Theorem fl_quo_rounds x y : fl_is_zero y = false -> big_rounds (flQ x / flQ y) (fl_quo x y).
Proof.
  intros Hy. destruct (fl_nonzero_cases y Hy) as [b [m2 [e2 Ey]]]. subst y.
  destruct x as [a|a m1 e1]; unfold fl_quo.
  - unfold big_rounds. apply (rounds_to_ext _ _ 0%Q _ 0%Q);
      [rewrite flQ_FZero; unfold Qdiv; ring|symmetry; apply flQ_FZero|apply rounds_to_0; exact P_pos].
  - pose proof (round_mag_quo_rounds P None m1 m2 (e1 - e2) P_pos) as M.
    change gen_bigfloat_prec with P.
    destruct (quo_bits P m1 m2) as [[q e] s].
    replace (e + e1 - e2) with (e + (e1 - e2)) by lia.
    destruct (round_pos_big_some (xorb a b) q (e + (e1 - e2)) s) as [r E]. rewrite E.
    pose proof (round_pos_value fmtbig (xorb a b) q (e + (e1 - e2)) s r P_pos E) as V.
    rewrite fmtbig_prec, fmtbig_emin in V.
    apply (rounds_to_signed _ _ (xorb a b)) in M. unfold big_rounds.
    refine (rounds_to_ext _ _ _ _ _ _ _ _ M); [|symmetry; exact V].
    (* the value *)
    assert (H2 : ~ (inject_Z (Zpos m2) == 0)%Q) by (intros H; apply (inject_Z_injective (Zpos m2) 0) in H; lia).
    assert (HT : ~ (T e2 == 0)%Q) by (pose proof (T_pos e2); lra).
    assert (EQ : ((Z.pos m1 # m2) * T (e1 - e2) ==
                  inject_Z (Zpos m1) * T e1 / (inject_Z (Zpos m2) * T e2))%Q).
    { rewrite Qmake_div. unfold Z.sub. rewrite T_add, T_opp. field. split; assumption. }
    rewrite !flQ_T.
    destruct a, b; cbn [xorb signed sgn]; rewrite EQ;
      try change (Z.neg m1) with (- Z.pos m1); try change (Z.neg m2) with (- Z.pos m2);
      rewrite ?inject_Z_opp; field; split; assumption.
Qed.

(* ------------------------------------------------------------------ conversions to float64 and float32 *)

Definition f64_rounds (x : Q) (r : fl) : Prop :=
  rounds_to 53 (Some (-1074)) x (flQ r) /\ (Qabs (flQ r) < T 1024)%Q.
Definition f32_rounds (x : Q) (r : fl) : Prop :=
  rounds_to 24 (Some (-149)) x (flQ r) /\ (Qabs (flQ r) < T 128)%Q.

(* a value that was not rejected is below 2^mx *)
Lemma pair_bound q e' mx : 0 <= q -> bitlen q + e' <= mx ->
  (inject_Z q * T e' < T mx)%Q.
Proof.
  intros Hq Hb. destruct (Z.eq_dec q 0) as [E|E].
  - rewrite E. change (inject_Z 0) with 0%Q. pose proof (T_pos mx). lra.
  - pose proof (bitlen_bounds_Z q ltac:(lia)) as [_ B]. pose proof (bitlen_ge1_Z q ltac:(lia)).
    apply Qlt_le_trans with (T (bitlen q + e')); [|apply T_le; exact Hb].
    rewrite T_add, (T_Z (bitlen q)) by lia. apply Qmult_lt_r; [apply T_pos|]. apply inject_Z_lt. exact B.
Qed.

Lemma round_pos_bound f mx neg m e st r : 0 < f_prec f -> f_maxexp f = Some mx ->
  round_pos f neg m e st = Some r -> (Qabs (flQ r) < T mx)%Q.
Proof.
  intros Hp Hmx H. pose proof (round_pos_value f neg m e st r Hp H) as V.
  rewrite round_pos_eq in H. cbn zeta in H. rewrite Hmx in H.
  pose proof (round_mag_fst_nonneg (f_prec f) (f_emin f) m e st Hp) as Hq.
  destruct (Z.ltb_spec mx (bitlen (fst (round_mag (f_prec f) (f_emin f) m e st)) + snd (round_mag (f_prec f) (f_emin f) m e st))) as [Hlt|Hge]; [discriminate|].
  rewrite V. unfold pairQ.
  pose proof (pair_bound _ _ mx Hq Hge) as B.
  rewrite Qabs_signed; [exact B|].
  pose proof (T_pos (snd (round_mag (f_prec f) (f_emin f) m e st))).
  assert (0 <= inject_Z (fst (round_mag (f_prec f) (f_emin f) m e st)))%Q by (apply (inject_Z_le 0); exact Hq). nra.
Qed.

Lemma round_fl_bound f mx x r : 0 < f_prec f -> f_maxexp f = Some mx ->
  round_fl f x = Some r -> (Qabs (flQ r) < T mx)%Q.
Proof.
  intros Hp Hmx H. destruct x as [n|n m e]; cbn [round_fl] in H.
  - inversion H. rewrite flQ_FZero. change (Qabs 0) with 0%Q. apply T_pos.
  - exact (round_pos_bound f mx n m e false r Hp Hmx H).
Qed.

Lemma round_rat_bound f mx n d r : 0 < f_prec f -> f_maxexp f = Some mx ->
  round_rat f n d = Some r -> (Qabs (flQ r) < T mx)%Q.
Proof.
  intros Hp Hmx H. destruct n as [|p|p]; cbn [round_rat] in H.
  - inversion H. rewrite flQ_FZero. change (Qabs 0) with 0%Q. apply T_pos.
  - destruct (quo_bits (f_prec f) p d) as [[q e] s]. exact (round_pos_bound f mx _ _ _ _ r Hp Hmx H).
  - destruct (quo_bits (f_prec f) p d) as [[q e] s]. exact (round_pos_bound f mx _ _ _ _ r Hp Hmx H).
Qed.

(* floatConst.representedBy(float64), floatConst.representedBy(float32) *)
Theorem repr_bigf_float64 x :
  (repr_bigf KFloat64 x = Err EOverflows <-> (T 1024 - T 970 <= Qabs (flQ x))%Q) /\
  (forall c, repr_bigf KFloat64 x = Ok c -> exists r, c = F64 r /\ f64_rounds (flQ x) r) /\
  repr_bigf KFloat64 x <> Fault.
Proof.
  pose proof (round_fl_overflow fmt64 1024 x fmt64_ok) as Hov.
  change (overflow_threshold fmt64 1024) with (T 1024 - T (1024 - 53 - 1))%Q in Hov.
  change (1024 - 53 - 1) with 970 in Hov.
  unfold repr_bigf. cbn [is_signed_kind is_unsigned_kind].
  destruct (round_fl fmt64 x) as [r|] eqn:E; cbn [repr_f64 is_signed_kind is_unsigned_kind is_float_kind is_complex_kind orb].
  - split; [|split; [|discriminate]].
    + split; [discriminate|]. intros H. apply Hov in H. discriminate.
    + intros c Hc. inversion Hc. exists r. split; [reflexivity|]. split.
      * exact (round_fl_rounds fmt64 x r eq_refl E).
      * exact (round_fl_bound fmt64 1024 x r eq_refl eq_refl E).
  - split; [|split; [|discriminate]].
    + split; [intros _; apply Hov; reflexivity|reflexivity].
    + intros c Hc. discriminate.
Qed.

Theorem repr_bigf_float32 x :
  (repr_bigf KFloat32 x = Err EOverflows <-> (T 128 - T 103 <= Qabs (flQ x))%Q) /\
  (forall c, repr_bigf KFloat32 x = Ok c -> exists r, c = F64 r /\ f32_rounds (flQ x) r) /\
  repr_bigf KFloat32 x <> Fault.
Proof.
  pose proof (round_fl_overflow fmt32 128 x fmt32_ok) as Hov.
  change (overflow_threshold fmt32 128) with (T 128 - T (128 - 24 - 1))%Q in Hov.
  change (128 - 24 - 1) with 103 in Hov.
  unfold repr_bigf. cbn [is_signed_kind is_unsigned_kind].
  destruct (round_fl fmt32 x) as [r|] eqn:E.
  - split; [|split; [|discriminate]].
    + split; [discriminate|]. intros H. apply Hov in H. discriminate.
    + intros c Hc. inversion Hc. exists r. split; [reflexivity|]. split.
      * exact (round_fl_rounds fmt32 x r eq_refl E).
      * exact (round_fl_bound fmt32 128 x r eq_refl eq_refl E).
  - split; [|split; [|discriminate]].
    + split; [intros _; apply Hov; reflexivity|reflexivity].
    + intros c Hc. discriminate.
Qed.

(* ratConst.representedBy(float64 / float32): the rational is rounded once
   (fix 9f165da; before, it was rounded to 512 bits first) *)
Theorem repr_rat_float64 n d : (d =? 1)%positive = false ->
  (repr_rat KFloat64 n d = Err EOverflows <-> (T 1024 - T 970 <= Qabs (n # d))%Q) /\
  (forall c, repr_rat KFloat64 n d = Ok c -> exists r, c = F64 r /\ f64_rounds (n # d) r) /\
  repr_rat KFloat64 n d <> Fault.
Proof.
  intros Hd. pose proof (round_rat_overflow fmt64 1024 n d fmt64_ok) as Hov.
  change (overflow_threshold fmt64 1024) with (T 1024 - T (1024 - 53 - 1))%Q in Hov.
  change (1024 - 53 - 1) with 970 in Hov.
  unfold repr_rat. rewrite Hd. cbn [is_integer_kind is_signed_kind is_unsigned_kind orb].
  destruct (round_rat fmt64 n d) as [r|] eqn:E.
  - split; [|split; [|discriminate]].
    + split; [discriminate|]. intros H. apply Hov in H. discriminate.
    + intros c Hc. inversion Hc. exists r. split; [reflexivity|]. split.
      * exact (round_rat_rounds fmt64 n d r eq_refl E).
      * exact (round_rat_bound fmt64 1024 n d r eq_refl eq_refl E).
  - split; [|split; [|discriminate]].
    + split; [intros _; apply Hov; reflexivity|reflexivity].
    + intros c Hc. discriminate.
Qed.

Theorem repr_rat_float32 n d : (d =? 1)%positive = false ->
  (repr_rat KFloat32 n d = Err EOverflows <-> (T 128 - T 103 <= Qabs (n # d))%Q) /\
  (forall c, repr_rat KFloat32 n d = Ok c -> exists r, c = F64 r /\ f32_rounds (n # d) r) /\
  repr_rat KFloat32 n d <> Fault.
Proof.
  intros Hd. pose proof (round_rat_overflow fmt32 128 n d fmt32_ok) as Hov.
  change (overflow_threshold fmt32 128) with (T 128 - T (128 - 24 - 1))%Q in Hov.
  change (128 - 24 - 1) with 103 in Hov.
  unfold repr_rat. rewrite Hd. cbn [is_integer_kind is_signed_kind is_unsigned_kind orb].
  destruct (round_rat fmt32 n d) as [r|] eqn:E.
  - split; [|split; [|discriminate]].
    + split; [discriminate|]. intros H. apply Hov in H. discriminate.
    + intros c Hc. inversion Hc. exists r. split; [reflexivity|]. split.
      * exact (round_rat_rounds fmt32 n d r eq_refl E).
      * exact (round_rat_bound fmt32 128 n d r eq_refl eq_refl E).
  - split; [|split; [|discriminate]].
    + split; [intros _; apply Hov; reflexivity|reflexivity].
    + intros c Hc. discriminate.
Qed.
