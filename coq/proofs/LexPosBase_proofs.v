(* Lines and columns (C21 token_pos_correct): the reference position function
   of LexPos.v as a fold over bytes, the notion of a (line, column) pair that
   is in sync with an offset of the source up to the ghost deviation flags,
   the partial correctness predicate `psafe` used by the position proofs, and
   the position effect of the primitives advance / emit_at. *)
From Verif Require Import Bytes Utf8 Facts_lexer LexBase LexCodeM LexerM LexTables LexPos LexBase_proofs Utf8_proofs.
Open Scope N_scope.

(* ---- the reference as a fold ---- *)
Definition adv_str (lc : N * N) (bs : bytes) : N * N := fold_left adv_pos bs lc.
Definition is_start (c : N) : bool := (c <? 128) || (191 <? c).
Fixpoint cstart (bs : bytes) : N :=
  match bs with [] => 0 | c :: r => (if is_start c then 1 else 0) + cstart r end.
Definition nolf (bs : bytes) : bool := forallb (fun c => negb (c =? 10)) bs.
Fixpoint cnl (bs : bytes) : N :=
  match bs with [] => 0 | c :: r => (if c =? 10 then 1 else 0) + cnl r end.
Definition plain (c : N) : bool := (c <? 128) && negb (c =? 10).

Lemma adv_str_app lc a b : adv_str lc (a ++ b) = adv_str (adv_str lc a) b.
Proof. unfold adv_str. apply fold_left_app. Qed.

Lemma adv_pos_eq ln cl c :
  adv_pos (ln, cl) c = if c =? 10 then (ln + 1, 1) else if is_start c then (ln, cl + 1) else (ln, cl).
Proof. reflexivity. Qed.

Lemma adv_str_cons ln cl c r :
  adv_str (ln, cl) (c :: r) = adv_str (if c =? 10 then (ln + 1, 1) else if is_start c then (ln, cl + 1) else (ln, cl)) r.
Proof. reflexivity. Qed.

Lemma adv_str_line bs : forall ln cl, fst (adv_str (ln, cl) bs) = ln + cnl bs.
Proof.
  induction bs as [|c r IH]; intros ln cl; [cbn; lia|].
  rewrite adv_str_cons. cbn [cnl]. destruct (c =? 10); [rewrite IH; lia|].
  destruct (is_start c); rewrite IH; lia.
Qed.

Lemma adv_str_nolf bs : forall ln cl, nolf bs = true -> adv_str (ln, cl) bs = (ln, cl + cstart bs).
Proof.
  induction bs as [|c r IH]; intros ln cl H; [cbn; f_equal; lia|].
  cbn [nolf forallb] in H. apply andb_prop in H. destruct H as [Hc Hr]. apply negb_true_iff in Hc.
  rewrite adv_str_cons, Hc. cbn [cstart]. destruct (is_start c); rewrite (IH _ _ Hr); f_equal; lia.
Qed.

(* the column does not depend on the line *)
Lemma adv_str_col_line bs : forall a b x, snd (adv_str (a, x) bs) = snd (adv_str (b, x) bs).
Proof.
  induction bs as [|c r IH]; intros a b x; [reflexivity|].
  rewrite !adv_str_cons. destruct (c =? 10); [apply IH|]. destruct (is_start c); apply IH.
Qed.

(* after a new line the column does not depend on where the bytes started *)
Lemma adv_str_col_lf bs : forall ln cl ln' cl', nolf bs = false -> snd (adv_str (ln, cl) bs) = snd (adv_str (ln', cl') bs).
Proof.
  induction bs as [|c r IH]; intros ln cl ln' cl' H; [discriminate|].
  cbn [nolf forallb] in H. rewrite !adv_str_cons.
  destruct (c =? 10); [apply adv_str_col_line|]. cbn [negb andb] in H.
  destruct (is_start c); apply IH; exact H.
Qed.

Lemma nolf_app a b : nolf (a ++ b) = nolf a && nolf b.
Proof. unfold nolf. apply forallb_app. Qed.
Lemma cstart_app a b : cstart (a ++ b) = cstart a + cstart b.
Proof. induction a as [|c r IH]; [reflexivity|]. cbn [app cstart]. rewrite IH. lia. Qed.
Lemma cnl_app a b : cnl (a ++ b) = cnl a + cnl b.
Proof. induction a as [|c r IH]; [reflexivity|]. cbn [app cnl]. rewrite IH. lia. Qed.
Lemma nolf_cnl bs : nolf bs = true <-> cnl bs = 0.
Proof.
  induction bs as [|c r IH]; [split; reflexivity|]. cbn [nolf forallb cnl].
  destruct (c =? 10); cbn [negb andb]; [split; [discriminate|lia]|]. rewrite <- IH. reflexivity.
Qed.
Lemma cnl_count_nl bs : cnl bs = count_nl bs.
Proof.
  unfold count_nl. induction bs as [|c r IH]; [reflexivity|]. cbn [cnl filter].
  rewrite (N.eqb_sym 10 c). destruct (c =? 10); [rewrite nlen_cons, IH; reflexivity|rewrite IH; lia].
Qed.

Lemma plain_all bs : forallb plain bs = true -> nolf bs = true /\ cstart bs = nlen bs.
Proof.
  induction bs as [|c r IH]; intros H; [split; reflexivity|].
  cbn [forallb] in H. apply andb_prop in H. destruct H as [Hc Hr]. destruct (IH Hr) as [H1 H2].
  unfold plain in Hc. apply andb_prop in Hc. destruct Hc as [Hc1 Hc2].
  split; [cbn [nolf forallb]; rewrite Hc2; exact H1|].
  cbn [cstart]. unfold is_start. rewrite Hc1. cbn [orb]. rewrite H2, nlen_cons. reflexivity.
Qed.

(* ---- take / drop ---- *)
Lemma take_add a n s : take (a + n) s = take a s ++ take n (drop a s).
Proof.
  unfold take, drop. replace (N.to_nat (a + n)) with (N.to_nat a + N.to_nat n)%nat by lia.
  generalize (N.to_nat a) (N.to_nat n). intros x y. revert s. induction x as [|x IH]; intros s; [reflexivity|].
  destruct s as [|c s]; [cbn; rewrite firstn_nil; reflexivity|]. cbn. rewrite IH. reflexivity.
Qed.
Lemma take_0 s : take 0 s = [].
Proof. reflexivity. Qed.
Lemma take_1 s c : get s 0 = Some c -> take 1 s = [c].
Proof. destruct s as [|d s]; cbn; [discriminate|]. intros H; injection H as ->. reflexivity. Qed.
Lemma get_drop0 s p : get (drop p s) 0 = get s p.
Proof. rewrite get_drop, N.add_0_r. reflexivity. Qed.
Lemma take_snoc s p c : get s p = Some c -> take (p + 1) s = take p s ++ [c].
Proof. intros H. rewrite take_add. f_equal. apply take_1. rewrite get_drop0. exact H. Qed.
Lemma take_all s n : nlen s <= n -> take n s = s.
Proof. intros H. unfold take. apply firstn_all2. rewrite nlen_eq in H. lia. Qed.
Lemma take_take a b s : a <= b -> take a (take b s) = take a s.
Proof.
  intros H. unfold take. rewrite firstn_firstn. f_equal. lia.
Qed.
Lemma drop_take_comm a n s : take n (drop a s) = drop a (take (a + n) s).
Proof.
  rewrite take_add. unfold drop at 2. rewrite skipn_app.
  assert (Hl : (length (take a s) <= N.to_nat a)%nat) by (unfold take; rewrite firstn_length; lia).
  rewrite (skipn_all2 (take a s)) by exact Hl. cbn [app].
  destruct (Nat.eq_dec (length (take a s)) (N.to_nat a)) as [E|E]; [rewrite E, Nat.sub_diag; reflexivity|].
  (* a is beyond the end: both sides are empty *)
  assert (Hs : (length s < N.to_nat a)%nat) by (unfold take in *; rewrite firstn_length in *; lia).
  unfold drop. rewrite (skipn_all2 s) by lia. unfold take. rewrite firstn_nil, skipn_nil. reflexivity.
Qed.

Lemma plain_take1 s c : get s 0 = Some c -> plain c = true -> forallb plain (take 1 s) = true.
Proof. intros H Hc. rewrite (take_1 _ _ H). cbn. rewrite Hc. reflexivity. Qed.
Lemma plain_take2 s c d :
  get s 0 = Some c -> get s 1 = Some d -> plain c = true -> plain d = true -> forallb plain (take 2 s) = true.
Proof.
  intros H0 H1 Hc Hd. change (take 2 s) with (take (1 + 1) s). rewrite (take_snoc _ _ _ H1), (take_1 _ _ H0). cbn. rewrite Hc, Hd. reflexivity.
Qed.
Lemma plain_take3 s c d e :
  get s 0 = Some c -> get s 1 = Some d -> get s 2 = Some e -> plain c = true -> plain d = true -> plain e = true ->
  forallb plain (take 3 s) = true.
Proof.
  intros H0 H1 H2 Hc Hd He. change (take 3 s) with (take (2 + 1) s). rewrite (take_snoc _ _ _ H2).
  change (take 2 s) with (take (1 + 1) s). rewrite (take_snoc _ _ _ H1), (take_1 _ _ H0). cbn. rewrite Hc, Hd, He. reflexivity.
Qed.

(* a run of k plain bytes at position p *)
Definition plain_at (s : bytes) (p k : N) : Prop :=
  forallb plain (take k (drop p s)) = true /\ nlen (take k (drop p s)) = k.

Lemma plain_at_0 s p : plain_at s p 0.
Proof. split; reflexivity. Qed.
Lemma plain_at_snoc s p k c :
  plain_at s p k -> get s (p + k) = Some c -> plain c = true -> plain_at s p (k + 1).
Proof.
  intros [H1 H2] Hg Hc. rewrite <- get_drop in Hg. unfold plain_at. rewrite (take_snoc _ k c Hg). split.
  - rewrite forallb_app, H1. cbn. rewrite Hc. reflexivity.
  - rewrite nlen_app, H2. reflexivity.
Qed.
Lemma plain_at_app s p k j : plain_at s p k -> plain_at s (p + k) j -> plain_at s p (k + j).
Proof.
  intros [H1 H2] [H3 H4]. unfold plain_at. rewrite take_add, drop_drop. split.
  - rewrite forallb_app, H1, H3. reflexivity.
  - rewrite nlen_app, H2, H4. reflexivity.
Qed.
Lemma plain_at_take s k : plain_at s 0 k -> forallb plain (take k s) = true /\ nlen (take k s) = k.
Proof. intros H. exact H. Qed.
Lemma plain_at_bound s p k : plain_at s p k -> 0 < k -> p + k <= nlen s.
Proof.
  intros [_ H] Hk. assert (Hl : nlen (take k (drop p s)) <= nlen (drop p s)).
  { unfold take. rewrite !nlen_eq, firstn_length. lia. }
  rewrite nlen_drop in Hl. lia.
Qed.

(* ---- linecol ---- *)
Lemma linecol_add src a n : linecol src (a + n) = adv_str (linecol src a) (take n (drop a src)).
Proof. unfold linecol. rewrite take_add. apply adv_str_app. Qed.
Lemma linecol_0 src : linecol src 0 = (1, 1).
Proof. reflexivity. Qed.

(* (ln, cl) with the ghost flags (cd, ld) is in sync with the offset off *)
Definition synced (text : bytes) (off ln cl : N) (cd ld : bool) : Prop :=
  ld = false -> ln = fst (linecol text off) /\ (cd = false -> cl = snd (linecol text off)).

(* the lexer replays the bytes as the reference does: it stays in sync, and
   a new line brings the column back in sync *)
Lemma synced_adv text off n bs ln cl cd ld ln' cl' cd' :
  synced text off ln cl cd ld -> take n (drop off text) = bs ->
  (ln', cl') = adv_str (ln, cl) bs -> cd' = (if nolf bs then cd else false) ->
  synced text (off + n) ln' cl' cd' ld.
Proof.
  intros H Hbs Hlc Hcd Hld. destruct (H Hld) as [H1 H2]. rewrite linecol_add, Hbs.
  destruct (linecol text off) as [a b]. cbn [fst snd] in H1, H2. subst ln. split.
  - rewrite adv_str_line. replace ln' with (fst (ln', cl')) by reflexivity. rewrite Hlc, adv_str_line. reflexivity.
  - intros Hcd'. replace cl' with (snd (ln', cl')) by reflexivity. rewrite Hlc.
    destruct (nolf bs) eqn:En.
    + subst cd'. rewrite (H2 Hcd'). reflexivity.
    + apply adv_str_col_lf. exact En.
Qed.

(* the lexer does not account for the columns of the bytes, only for their lines *)
Lemma synced_cd text off n bs ln cl cd ld ln' cl' :
  synced text off ln cl cd ld -> take n (drop off text) = bs -> ln' = ln + cnl bs ->
  synced text (off + n) ln' cl' true ld.
Proof.
  intros H Hbs Hln Hld. destruct (H Hld) as [H1 _]. rewrite linecol_add, Hbs.
  destruct (linecol text off) as [a b]. cbn [fst] in H1. subst ln.
  split; [rewrite adv_str_line; exact Hln|discriminate].
Qed.

Lemma synced_ld text off ln cl cd : synced text off ln cl cd true.
Proof. intros H. discriminate. Qed.

(* weakening: raising the column flag *)
Lemma synced_mark text off ln cl cl' cd ld : synced text off ln cl cd ld -> synced text off ln cl' true ld.
Proof. intros H Hld. destruct (H Hld) as [H1 _]. split; [exact H1|discriminate]. Qed.

Lemma synced_plain text off n ln cl cd ld :
  synced text off ln cl cd ld -> plain_at text off n -> synced text (off + n) ln (cl + n) cd ld.
Proof.
  intros H [Hp Hn]. destruct (plain_all _ Hp) as [H1 H2].
  eapply synced_adv; [exact H|reflexivity| |rewrite H1; reflexivity].
  rewrite (adv_str_nolf _ _ _ H1), H2, Hn. reflexivity.
Qed.

(* ---- decoded runes as chunks of bytes ---- *)
Lemma is_start_cont b : 128 <= b < 192 -> is_start b = false /\ (b =? 10) = false.
Proof.
  intros H. unfold is_start. split; [|apply N.eqb_neq; lia].
  apply orb_false_intro; apply N.ltb_ge; lia.
Qed.
Lemma is_start_hi b : 192 <= b -> is_start b = true /\ (b =? 10) = false.
Proof.
  intros H. unfold is_start. split; [|apply N.eqb_neq; lia].
  apply orb_true_intro. right. apply N.ltb_lt. lia.
Qed.

(* the bytes consumed by utf8.DecodeRune hold no new line after the first
   byte and exactly one character start if the first byte is one *)
Lemma decode_chunk b0 r0 r w :
  decode_rune (b0 :: r0) = (r, w) -> b0 <> 10 ->
  nolf (firstn w (b0 :: r0)) = true /\ cstart (firstn w (b0 :: r0)) = (if is_start b0 then 1 else 0).
Proof.
  intros Hd Hb. pose proof (decode_rune_shape b0 r0) as Hs. rewrite Hd in Hs. cbn [fst snd] in Hs.
  assert (Hb0 : (b0 =? 10) = false) by (apply N.eqb_neq; exact Hb).
  destruct Hs as [H|H|b1 r1 Hr H0 H1|b1 b2 r2 Hr H0 H1 H2 Hov|b1 b2 b3 r3 c Hr H0 H1 H2 H3 Hc4].
  - cbn [firstn nolf forallb cstart]. rewrite Hb0. split; [reflexivity|]. destruct (is_start b0); reflexivity.
  - cbn [firstn nolf forallb cstart]. rewrite Hb0. split; [reflexivity|]. destruct (is_start b0); reflexivity.
  - subst r0. destruct (is_start_cont b1 H1) as [A1 A2]. destruct (is_start_hi b0 ltac:(lia)) as [B1 B2].
    cbn [firstn nolf forallb cstart]. rewrite Hb0, A1, A2, B1. split; reflexivity.
  - subst r0. destruct (is_start_cont b1 H1) as [A1 A2]. destruct (is_start_cont b2 H2) as [C1 C2].
    destruct (is_start_hi b0 ltac:(lia)) as [B1 B2].
    cbn [firstn nolf forallb cstart]. rewrite Hb0, A1, A2, B1, C1, C2. split; reflexivity.
  - subst r0. destruct (is_start_cont b1 H1) as [A1 A2]. destruct (is_start_cont b2 H2) as [C1 C2].
    destruct (is_start_cont b3 H3) as [D1 D2]. destruct (is_start_hi b0 ltac:(lia)) as [B1 B2].
    cbn [firstn nolf forallb cstart]. rewrite Hb0, A1, A2, B1, C1, C2, D1, D2. split; reflexivity.
Qed.

(* an encoding error is one byte that is not ASCII; a byte that is not the
   start of a character is always an encoding error *)
Lemma decode_not_start b0 r0 r w :
  decode_rune (b0 :: r0) = (r, w) -> is_start b0 = false -> r = rune_error /\ w = 1%nat.
Proof.
  unfold is_start. intros Hd Hs. apply orb_false_elim in Hs. destruct Hs as [H1 H2].
  unfold decode_rune in Hd. rewrite H1 in Hd.
  assert (Hlt : (b0 <? 194) = true) by (apply N.ltb_lt; apply N.ltb_ge in H2; lia).
  rewrite Hlt in Hd. injection Hd as <- <-. auto.
Qed.
Lemma decode_ascii b0 r0 : b0 < 128 -> decode_rune (b0 :: r0) = (b0, 1%nat).
Proof. intros H. unfold decode_rune. apply N.ltb_lt in H. rewrite H. reflexivity. Qed.
Lemma decode_w1 b0 r0 r : decode_rune (b0 :: r0) = (r, 1%nat) -> r = rune_error \/ (b0 < 128 /\ r = b0).
Proof.
  intros Hd. pose proof (decode_rune_shape b0 r0) as Hs. rewrite Hd in Hs. cbn [fst snd] in Hs.
  inversion Hs; subst; auto.
Qed.
(* the first byte of a decoded rune that is not an encoding error starts a character *)
Lemma decode_valid_start b0 r0 r w :
  decode_rune (b0 :: r0) = (r, w) -> (r =? rune_error) && Nat.eqb w 1 = false -> is_start b0 = true.
Proof.
  intros Hd Hv. destruct (is_start b0) eqn:E; [reflexivity|].
  destruct (decode_not_start _ _ _ _ Hd E) as [-> ->]. discriminate.
Qed.

Lemma drop_cons_get s p : p < nlen s -> exists c r, drop p s = c :: r /\ get s p = Some c.
Proof.
  intros H. destruct (drop p s) as [|c r] eqn:E.
  - exfalso. apply (drop_nonempty _ _ H E).
  - exists c, r. split; [reflexivity|]. rewrite <- get_drop0, E. reflexivity.
Qed.

(* ---- the source of a well formed lexer state ---- *)
Lemma drop_app_len (pre s : bytes) : drop (nlen pre) (pre ++ s) = s.
Proof.
  unfold drop. rewrite nlen_eq, Nat2N.id. rewrite skipn_app, skipn_all, Nat.sub_diag. reflexivity.
Qed.
Lemma wf_drop_base text l : wf text l -> drop (l_base l) text = l_src l.
Proof. intros (pre & -> & ->). apply drop_app_len. Qed.
Lemma wf_drop_at text l p : wf text l -> drop (l_base l + p) text = drop p (l_src l).
Proof. intros H. rewrite <- drop_drop, (wf_drop_base _ _ H). reflexivity. Qed.
Lemma wf_get text l i c : wf text l -> get (l_src l) i = Some c -> get text (l_base l + i) = Some c.
Proof. intros H Hg. rewrite <- get_drop, (wf_drop_base _ _ H). exact Hg. Qed.

Lemma is_bytes_get s i c : is_bytes s = true -> get s i = Some c -> c < 256.
Proof.
  unfold is_bytes, get. intros H Hg. apply nth_error_In in Hg. rewrite forallb_forall in H.
  apply H in Hg. unfold is_byte in Hg. apply N.ltb_lt in Hg. exact Hg.
Qed.
Lemma is_bytes_app a b : is_bytes (a ++ b) = is_bytes a && is_bytes b.
Proof. unfold is_bytes. apply forallb_app. Qed.

Lemma isStartChar_is_start c : c < 256 -> isStartChar c = is_start c.
Proof.
  intros H. apply eqb_prop.
  apply (forall_bytes (fun c => Bool.eqb (isStartChar c) (is_start c))); [vm_compute; reflexivity|exact H].
Qed.

(* ---- partial correctness: what holds of a result, and of the state of an
   error (E); nothing is claimed of Fault and NoFuel, which C04 excludes ---- *)
Definition psafeE {A} (E : lexer -> Prop) (r : res A) (Q : A -> Prop) : Prop :=
  match r with Ok a => Q a | Err l => E l | _ => True end.

Section PSafe.
Variable E : lexer -> Prop.
Local Notation psafe := (psafeE E).
Lemma psafe_bind {A B} (r : res A) (k : A -> res B) Q' Q :
  psafe r Q' -> (forall a, Q' a -> psafe (k a) Q) -> psafe (bind r k) Q.
Proof. destruct r; simpl; auto. Qed.
Lemma psafe_bind_eq {A B} (r : res A) (k : A -> res B) Q :
  (forall l, r = Err l -> E l) -> (forall a, r = Ok a -> psafe (k a) Q) -> psafe (bind r k) Q.
Proof. destruct r; simpl; auto. Qed.
Lemma psafe_mono {A} (r : res A) (Q Q' : A -> Prop) : psafe r Q -> (forall a, Q a -> Q' a) -> psafe r Q'.
Proof. destruct r; simpl; auto. Qed.
Lemma psafe_loop {S} (body : S -> res (step S)) (J Q : S -> Prop) :
  (forall s, J s -> psafe (body s) (fun r => match r with Again s' => J s' | Stop s' => Q s' end)) ->
  forall fuel s, J s -> psafe (loop fuel body s) Q.
Proof.
  intros Hb fuel. induction fuel as [|f IH]; intros s Hi; [exact I|].
  simpl. specialize (Hb s Hi). destruct (body s) as [[s'|s']| | |]; simpl in *; auto.
Qed.
Lemma pidx l i {B} (k : N -> res B) Q :
  (forall c, get (l_src l) i = Some c -> psafe (k c) Q) -> psafe (bind (idx l i) k) Q.
Proof. intros H. unfold idx. destruct (get (l_src l) i) as [c|]; simpl; auto. Qed.
Lemma pidx_is l i c {B} (k : bool -> res B) Q :
  (forall x, get (l_src l) i = Some x -> psafe (k (x =? c)) Q) -> psafe (bind (idx_is l i c) k) Q.
Proof. intros H. unfold idx_is, idx. destruct (get (l_src l) i) as [x|]; simpl; auto. Qed.
Lemma pandm {B} a (r : res bool) (k : bool -> res B) Q :
  (a = true -> psafe (bind r k) Q) -> (a = false -> psafe (k false) Q) -> psafe (bind (andm a r) k) Q.
Proof. destruct a; simpl; auto. Qed.
Lemma porm {B} a (r : res bool) (k : bool -> res B) Q :
  (a = false -> psafe (bind r k) Q) -> (a = true -> psafe (k true) Q) -> psafe (bind (orm a r) k) Q.
Proof. destruct a; simpl; auto. Qed.
Lemma pnxt l i {B} (k : option N -> res B) Q :
  (len l <= i -> psafe (k None) Q) ->
  (forall x, get (l_src l) i = Some x -> psafe (k (Some x)) Q) ->
  psafe (bind (nxt l i) k) Q.
Proof.
  intros H1 H2. unfold nxt. destruct (N.ltb_spec i (len l)).
  - rewrite bind_assoc. apply pidx. intros c Hc. simpl. apply H2, Hc.
  - simpl. apply H1. assumption.
Qed.
(* index tests raise no error *)
Lemma ptest_idx_is a l i c : psafe (andm a (idx_is l i c)) (fun _ => True).
Proof. unfold andm, idx_is, idx. destruct a; [destruct (get (l_src l) i)|]; exact I. Qed.
End PSafe.
Arguments psafe_bind {E A B} r k Q' Q _ _.
Arguments psafe_bind_eq {E A B} r k Q _ _.
Arguments psafe_mono {E A} r Q Q' _ _.
Arguments psafe_loop {E S} body J Q _ fuel s _.
Arguments pidx {E} l i {B} k Q _.
Arguments pidx_is {E} l i c {B} k Q _.
Arguments pandm {E B} a r k Q _ _.
Arguments porm {E B} a r k Q _ _.
Arguments pnxt {E} l i {B} k Q _ _.
Arguments ptest_idx_is {E} a l i c.

Ltac pstep :=
  match goal with
  | |- psafeE _ (bind (idx ?l ?i) _) _ => apply pidx; intros ?c ?Hc
  | |- psafeE _ (bind (idx_is ?l ?i ?c) _) _ => apply pidx_is; intros ?x ?Hx
  | |- psafeE _ (bind (nxt ?l ?i) _) _ => apply pnxt; [intros ?Hn | intros ?x ?Hx]
  | |- psafeE _ (bind (andm ?a _) _) _ => apply pandm; intros ?Ha
  | |- psafeE _ (bind (orm ?a _) _) _ => apply porm; intros ?Ha
  | |- psafeE _ (bind (bind _ _) _) _ => rewrite bind_assoc
  | |- psafeE _ (bind (Ok _) _) _ => rewrite bind_ok
  | |- psafeE _ (bind (if ?b then _ else _) _) _ => destruct b eqn:?
  | |- psafeE _ (if ?b then _ else _) _ => destruct b eqn:?
  | |- psafeE _ (bind Fault _) _ => exact I
  | |- psafeE _ Fault _ => exact I
  end.

Tactic Notation "pget" ident(c) ident(H) := rewrite ?bind_assoc; apply pidx; intros c H; rewrite ?bind_ok.
Tactic Notation "pgetis" ident(x) ident(H) := rewrite ?bind_assoc; apply pidx_is; intros x H; rewrite ?bind_ok.

(* reduction of the projections of updated lexer states *)
Ltac lcbn :=
  cbn [l_src l_base l_line l_col l_ctx l_ctxs l_tag l_att l_tidx l_tctx l_raw l_last l_tot l_out l_cdev l_ldev l_tsyn
       set_src set_line set_col set_ctx set_ctxs set_tag set_att set_tidx set_tctx set_raw set_last set_tot set_out
       set_cdev set_ldev newline addcol mark_cdev mark_ldev fst snd].
Ltac lcbn_in H :=
  cbn [l_src l_base l_line l_col l_ctx l_ctxs l_tag l_att l_tidx l_tctx l_raw l_last l_tot l_out l_cdev l_ldev l_tsyn
       set_src set_line set_col set_ctx set_ctxs set_tag set_att set_tidx set_tctx set_raw set_last set_tot set_out
       set_cdev set_ldev newline addcol mark_cdev mark_ldev fst snd] in H.

(* ---- tokens and lexer states in sync ---- *)
Definition tok_ok (text : bytes) (t : token) : Prop :=
  synced text (tok_off t) (t_line t) (t_col t) (t_cdev t) (t_ldev t).

(* the source is consumed from the left and every token sent so far is right *)
Definition WO (text : bytes) (l : lexer) : Prop := wf text l /\ Forall (tok_ok text) (l_out l).
(* the line and column of the lexer are those of the offset off *)
Definition SY (text : bytes) (off : N) (l : lexer) : Prop :=
  synced text off (l_line l) (l_col l) (l_cdev l) (l_ldev l).

Lemma same_core_WO text l l' : same_core l l' -> WO text l -> WO text l'.
Proof.
  intros (Hs & [Hb _] & Ho) [[pre [Ht Hp]] Hf]. split; [exists pre; rewrite Hs, Hb; auto|rewrite Ho; exact Hf].
Qed.

Lemma SY_eq text off l l' :
  l_line l' = l_line l -> l_col l' = l_col l -> l_cdev l' = l_cdev l -> l_ldev l' = l_ldev l ->
  SY text off l -> SY text off l'.
Proof. unfold SY. intros -> -> -> ->. auto. Qed.

Lemma advance_inv n l l' :
  advance n l = Ok l' -> n <= len l /\ l' = set_src (drop n (l_src l)) (l_base l + n) l.
Proof. unfold advance. destruct (N.ltb_spec (len l) n) as [Hlt|Hge]; [discriminate|]. intros E; injection E as <-. auto. Qed.

Lemma advance_WO text n l l' : advance n l = Ok l' -> WO text l -> WO text l'.
Proof.
  intros H [Hw Hf]. destruct (advance_inv _ _ _ H) as [Hn ->]. split; [apply wf_drop; assumption|exact Hf].
Qed.

(* what emit_at does, as far as positions are concerned *)
Lemma emit_at_inv line col cd ld typ n l l' :
  emit_at line col cd ld typ n l = Ok l' ->
  n <= len l /\
  (exists tok, l_out l' = tok :: l_out l /\ t_typ tok = typ /\ t_len tok = n
               /\ t_start tok = (if (n =? 0) && (typ =? gen_tokenSemicolon) then l_base l - 1 else l_base l)
               /\ t_line tok = line /\ t_col tok = col /\ t_cdev tok = cd /\ t_ldev tok = ld) /\
  l_src l' = drop n (l_src l) /\ l_base l' = l_base l + n /\
  l_line l' = l_line l /\ l_col l' = l_col l /\ l_cdev l' = l_cdev l /\ l_ldev l' = l_ldev l /\
  l_ctx l' = l_ctx l /\ l_tsyn l' = l_tsyn l.
Proof.
  unfold emit_at. destruct (N.ltb_spec (len l) n) as [Hlt0|Hge0]; [discriminate|].
  set (ctx := if typ =? gen_tokenText then gen_ContextText else l_ctx l).
  destruct (N.eqb_spec n 0) as [->|Hn0].
  - change (0 <? 0) with false. cbv iota.
    destruct (typ =? gen_tokenSemicolon); cbn [l_tsyn set_out set_tot];
    (destruct (l_tsyn l) eqn:Ets; [destruct (typ =? gen_tokenRaw); [destruct (_ =? gen_tokenStartStatement)|
      destruct (typ =? gen_tokenIdentifier); [cbn [l_raw set_out set_tot]; destruct (l_raw l); [destruct (_ =? gen_tokenRaw)|]|
      destruct (typ =? gen_tokenEnd)]]|]);
    intros H; injection H as <-; (split; [lia|]); (split; [eexists; cbn; repeat split|]);
    cbn; rewrite ?N.add_0_r; repeat split; exact Ets.
  - assert (Hlt : (0 <? n) = true) by (apply N.ltb_lt; lia). rewrite Hlt. cbn [andb l_tsyn set_out set_tot].
    destruct (l_tsyn l) eqn:Ets; [destruct (typ =? gen_tokenRaw); [destruct (_ =? gen_tokenStartStatement)|
      destruct (typ =? gen_tokenIdentifier); [cbn [l_raw set_out set_tot]; destruct (l_raw l); [destruct (_ =? gen_tokenRaw)|]|
      destruct (typ =? gen_tokenEnd)]]|];
    intros H; injection H as <-; (split; [lia|]); (split; [eexists; cbn; repeat split|]);
    cbn; repeat split; exact Ets.
Qed.

(* emit_at keeps WO when the given line and column are in sync with the base
   (an inserted semicolon stands for the byte after its offset: the base) *)
Lemma emit_at_WO text line col cd ld typ n l l' :
  emit_at line col cd ld typ n l = Ok l' -> WO text l ->
  synced text (l_base l) line col cd ld ->
  (n = 0 -> typ = gen_tokenSemicolon -> 1 <= l_base l) ->
  WO text l' /\ n <= len l /\ l_src l' = drop n (l_src l) /\ l_base l' = l_base l + n /\
  l_line l' = l_line l /\ l_col l' = l_col l /\ l_cdev l' = l_cdev l /\ l_ldev l' = l_ldev l /\
  l_ctx l' = l_ctx l /\ l_tsyn l' = l_tsyn l.
Proof.
  intros He [Hw Hf] Hs Hsemi.
  destruct (emit_at_inv _ _ _ _ _ _ _ _ He) as (Hn & (tok & Ho & Hty & Hlen & Hst & Hl & Hc & Hcd & Hld) & Hsrc & Hb & R).
  split; [|split; [exact Hn|split; [exact Hsrc|split; [exact Hb|exact R]]]].
  split.
  - destruct (wf_drop text l n Hw Hn) as [pre [Hp1 Hp2]]. cbn in Hp1, Hp2. exists pre. rewrite Hsrc, Hb. auto.
  - rewrite Ho. constructor; [|exact Hf]. unfold tok_ok, tok_off. rewrite Hl, Hc, Hcd, Hld, Hlen, Hty, Hst.
    destruct ((n =? 0) && (typ =? gen_tokenSemicolon)) eqn:E; [|exact Hs].
    apply andb_prop in E. destruct E as [E1 E2]. apply N.eqb_eq in E1, E2.
    specialize (Hsemi E1 E2). replace (l_base l - 1 + 1) with (l_base l) by lia. exact Hs.
Qed.

(* a token announced as deviating in line and column is right whatever its position *)
Lemma emit_at_WO_ld text line col cd typ n l l' :
  emit_at line col cd true typ n l = Ok l' -> WO text l ->
  WO text l' /\ n <= len l /\ l_src l' = drop n (l_src l) /\ l_base l' = l_base l + n /\
  l_line l' = l_line l /\ l_col l' = l_col l /\ l_cdev l' = l_cdev l /\ l_ldev l' = l_ldev l /\
  l_ctx l' = l_ctx l /\ l_tsyn l' = l_tsyn l.
Proof.
  intros He [Hw Hf].
  destruct (emit_at_inv _ _ _ _ _ _ _ _ He) as (Hn & (tok & Ho & Hty & Hlen & Hst & Hl & Hc & Hcd & Hld) & Hsrc & Hb & R).
  split; [|split; [exact Hn|split; [exact Hsrc|split; [exact Hb|exact R]]]].
  split.
  - destruct (wf_drop text l n Hw Hn) as [pre [Hp1 Hp2]]. cbn in Hp1, Hp2. exists pre. rewrite Hsrc, Hb. auto.
  - rewrite Ho. constructor; [|exact Hf]. unfold tok_ok. rewrite Hld. apply synced_ld.
Qed.

(* ---- bytes.IndexAny(s, "\n" + BOM) and bytes.Index ---- *)
Lemma take_cons n c s : 0 < n -> take n (c :: s) = c :: take (n - 1) s.
Proof.
  intros H. unfold take. replace (N.to_nat n) with (S (N.to_nat (n - 1))) by lia. reflexivity.
Qed.

Lemma index_nl_bom_from_some fuel : forall s i k,
  (length s <= fuel)%nat -> index_nl_bom_from fuel s i = Some k -> i <= k /\ nolf (take (k - i) s) = true.
Proof.
  induction fuel as [|f IH]; intros s i k Hf; [discriminate|]. cbn [index_nl_bom_from].
  destruct s as [|c s']; [discriminate|].
  destruct (c <? 128) eqn:E128.
  - destruct (N.eqb_spec c 10) as [->|N10].
    + intros H; injection H as <-. rewrite N.sub_diag. split; [lia|reflexivity].
    + intros H. apply IH in H; [|cbn in *; lia]. cbn [skipn] in H. destruct H as [H1 H2]. split; [lia|].
      rewrite take_cons by lia. cbn [nolf forallb]. apply N.eqb_neq in N10. rewrite N10. cbn [negb andb].
      replace (k - i - 1) with (k - (i + 1)) by lia. exact H2.
  - destruct (decode_rune (c :: s')) as [r w] eqn:Hd.
    destruct (r =? gen_lex_BOM).
    + intros H; injection H as <-. rewrite N.sub_diag. split; [lia|reflexivity].
    + intros H. destruct (decode_rune_width (c :: s') r w ltac:(discriminate) Hd) as [Hw1 Hw2].
      apply IH in H; [|rewrite skipn_length; cbn [length] in *; lia]. destruct H as [H1 H2]. split; [lia|].
      assert (Hc10 : c <> 10) by (apply N.ltb_ge in E128; lia).
      destruct (decode_chunk _ _ _ _ Hd Hc10) as [A1 _].
      replace (k - i) with (N.of_nat w + (k - (i + N.of_nat w))) by lia.
      rewrite take_add, nolf_app. unfold take at 1. rewrite Nat2N.id, A1. unfold drop. rewrite Nat2N.id. exact H2.
Qed.
Lemma index_nl_bom_from_none fuel : forall s i,
  (length s <= fuel)%nat -> index_nl_bom_from fuel s i = None -> nolf s = true.
Proof.
  induction fuel as [|f IH]; intros s i Hf; [destruct s; [reflexivity|cbn in Hf; lia]|]. cbn [index_nl_bom_from].
  destruct s as [|c s']; [reflexivity|].
  destruct (c <? 128) eqn:E128.
  - destruct (N.eqb_spec c 10) as [->|N10]; [discriminate|].
    intros H. apply IH in H; [|cbn in *; lia]. cbn [skipn] in H. cbn [nolf forallb]. apply N.eqb_neq in N10. rewrite N10. exact H.
  - destruct (decode_rune (c :: s')) as [r w] eqn:Hd.
    destruct (r =? gen_lex_BOM); [discriminate|].
    intros H. destruct (decode_rune_width (c :: s') r w ltac:(discriminate) Hd) as [Hw1 Hw2].
    apply IH in H; [|rewrite skipn_length; cbn [length] in *; lia].
    assert (Hc10 : c <> 10) by (apply N.ltb_ge in E128; lia).
    destruct (decode_chunk _ _ _ _ Hd Hc10) as [A1 _].
    rewrite <- (firstn_skipn w (c :: s')), nolf_app, A1. exact H.
Qed.
Lemma index_nl_bom_some s k : index_nl_bom s = Some k -> nolf (take k s) = true.
Proof.
  intros H. apply index_nl_bom_from_some in H; [|lia]. destruct H as [_ H]. rewrite N.sub_0_r in H. exact H.
Qed.
Lemma index_nl_bom_none s : index_nl_bom s = None -> nolf s = true.
Proof. intros H. apply index_nl_bom_from_none in H; [exact H|lia]. Qed.

Lemma index_from_prefix s pat : forall i k, index_from s pat i = Some k -> has_prefix (drop (k - i) s) pat = true.
Proof.
  induction s as [|c s IH]; intros i k; cbn [index_from].
  - destruct (has_prefix [] pat) eqn:E; [|discriminate]. intros H; injection H as <-. rewrite N.sub_diag. exact E.
  - destruct (has_prefix (c :: s) pat) eqn:E.
    + intros H; injection H as <-. rewrite N.sub_diag. exact E.
    + intros H. pose proof (index_from_bound _ _ _ _ H) as [Hb _]. apply IH in H.
      replace (k - i) with (1 + (k - (i + 1))) by lia. rewrite <- drop_drop. exact H.
Qed.
Lemma index_prefix s pat k : index s pat = Some k -> has_prefix (drop k s) pat = true.
Proof. intros H. apply index_from_prefix in H. rewrite N.sub_0_r in H. exact H. Qed.
Lemma has_prefix_take s p : has_prefix s p = true -> take (nlen p) s = p.
Proof.
  revert s; induction p as [|c p IH]; intros s H; [reflexivity|].
  destruct s as [|d s]; [discriminate|]. cbn [has_prefix] in H. apply andb_prop in H. destruct H as [H1 H2].
  apply N.eqb_eq in H1. subst d. rewrite nlen_cons, take_cons by lia. f_equal.
  replace (1 + nlen p - 1) with (nlen p) by lia. apply IH, H2.
Qed.

(* a new line among the first n bytes *)
Lemma cnl_take_ge s k n : get s k = Some 10 -> k < n -> 1 <= cnl (take n s).
Proof.
  intros Hg Hk. replace n with (k + 1 + (n - (k + 1))) by lia.
  rewrite take_add, (take_snoc _ _ _ Hg), !cnl_app. change (cnl [10]) with 1. lia.
Qed.
Lemma index_byte_from_first s c : forall i k, index_byte_from s c i = Some k -> ~ In c (take (k - i) s).
Proof.
  induction s as [|d s IH]; intros i k; cbn [index_byte_from]; [discriminate|].
  destruct (N.eqb_spec d c) as [->|Hd].
  - intros H; injection H as <-. rewrite N.sub_diag. intros [].
  - intros H. pose proof (index_byte_from_bound _ _ _ _ H) as [Hb _]. apply IH in H.
    rewrite take_cons by lia. intros [E|E]; [congruence|]. apply H. replace (k - (i + 1)) with (k - i - 1) by lia. exact E.
Qed.
Lemma index_byte_nolf s k : index_byte s 10 = Some k -> nolf (take k s) = true.
Proof.
  intros H. apply index_byte_from_first in H. rewrite N.sub_0_r in H.
  unfold nolf. apply forallb_forall. intros x Hx. apply negb_true_iff, N.eqb_neq. intros ->. exact (H Hx).
Qed.

(* the primitives raise no error *)
Lemma emit_at_noerr line col cd ld typ n l l' : emit_at line col cd ld typ n l = Err l' -> False.
Proof.
  unfold emit_at. destruct (len l <? n); [discriminate|].
  destruct (n =? 0); [destruct (typ =? gen_tokenSemicolon)|]; cbv iota beta; destruct (0 <? n); discriminate.
Qed.
Lemma emit_noerr typ n l l' : emit typ n l = Err l' -> False.
Proof. apply emit_at_noerr. Qed.
Lemma advance_noerr n l l' : advance n l = Err l' -> False.
Proof. unfold advance. destruct (len l <? n); discriminate. Qed.
Lemma hex_run_noerr l : forall n q r l', hex_run l q n r = Err l' -> False.
Proof.
  induction n as [|n IH]; intros q r l'; [discriminate|]. cbn [hex_run]. unfold idx.
  destruct (get (l_src l) q) as [c|]; [|discriminate]. cbn [bind]. destruct (hexval c); [apply IH|discriminate].
Qed.
Lemma emitc_noerr typ n l l' : emitc typ n l = Err l' -> False.
Proof. unfold emitc. destruct (emit typ n l) eqn:E; cbn; try discriminate. intros H; injection H as <-. exact (emit_noerr _ _ _ _ E). Qed.
