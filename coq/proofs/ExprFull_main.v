(* C27 over the primary-expression grammar: the parser model reads the printed
   form of every printable expression back to the expression (up to the
   recorded parenthesis counts).  Main statement: from the operand switch, the
   tokens of e take the parser to the postfix loop with the right spine of e
   on the operator path and its last operand as the operand (A_stmt). *)
From Coq Require Import List NArith Bool Lia Arith.
From Verif Require Import Bytes ExprFullM ExprFullOk ExprFull_base ExprFull_eqs.
Import ListNotations.
Open Scope N_scope.

Section Main.
Variable op_string : list (N * bytes).
Variable bin_prec : list (N * N).
Variable un_prec : N.
Variable unary_tokens : list (bytes * N).
Variable binary_tokens : list (bytes * N).
Variable op_receive op_pointer op_extended_not op_not_contains : N.
Variable lit_string : N.
Variable dir_none dir_recv dir_send : N.
Variable kw_text : kwd -> bytes.
Variable sym_arrow sym_mul sym_not sym_contains : bytes.
Variable name_ident name_lbrack : bytes.
Variable result_start : list bytes.
Variable macro_results : list bytes.
Variable quote : bytes -> bytes.
Variable valid_path : bytes -> bool.
Variable expanded : bool.
Variable tmpl : bool.

Notation pexpr := (pexpr bin_prec un_prec unary_tokens binary_tokens op_receive op_pointer op_not_contains lit_string dir_none dir_recv dir_send kw_text sym_arrow sym_mul sym_not sym_contains name_ident name_lbrack result_start macro_results valid_path tmpl).
Notation poperand := (poperand bin_prec un_prec unary_tokens binary_tokens op_receive op_pointer op_not_contains lit_string dir_none dir_recv dir_send kw_text sym_arrow sym_mul sym_not sym_contains name_ident name_lbrack result_start macro_results valid_path tmpl).
Notation ppost := (ppost bin_prec un_prec unary_tokens binary_tokens op_receive op_pointer op_not_contains lit_string dir_none dir_recv dir_send kw_text sym_arrow sym_mul sym_not sym_contains name_ident name_lbrack result_start macro_results valid_path tmpl).
Notation pelems := (pelems bin_prec un_prec unary_tokens binary_tokens op_receive op_pointer op_not_contains lit_string dir_none dir_recv dir_send kw_text sym_arrow sym_mul sym_not sym_contains name_ident name_lbrack result_start macro_results valid_path tmpl).
Notation pargs := (pargs bin_prec un_prec unary_tokens binary_tokens op_receive op_pointer op_not_contains lit_string dir_none dir_recv dir_send kw_text sym_arrow sym_mul sym_not sym_contains name_ident name_lbrack result_start macro_results valid_path tmpl).
Notation pfields := (pfields bin_prec un_prec unary_tokens binary_tokens op_receive op_pointer op_not_contains lit_string dir_none dir_recv dir_send kw_text sym_arrow sym_mul sym_not sym_contains name_ident name_lbrack result_start macro_results valid_path tmpl).
Notation pfield := (pfield bin_prec un_prec unary_tokens binary_tokens op_receive op_pointer op_not_contains lit_string dir_none dir_recv dir_send kw_text sym_arrow sym_mul sym_not sym_contains name_ident name_lbrack result_start macro_results valid_path tmpl).
Notation pfunc := (pfunc bin_prec un_prec unary_tokens binary_tokens op_receive op_pointer op_not_contains lit_string dir_none dir_recv dir_send kw_text sym_arrow sym_mul sym_not sym_contains name_ident name_lbrack result_start macro_results valid_path tmpl).
Notation pparams := (pparams bin_prec un_prec unary_tokens binary_tokens op_receive op_pointer op_not_contains lit_string dir_none dir_recv dir_send kw_text sym_arrow sym_mul sym_not sym_contains name_ident name_lbrack result_start macro_results valid_path tmpl).
Notation pplist := (pplist bin_prec un_prec unary_tokens binary_tokens op_receive op_pointer op_not_contains lit_string dir_none dir_recv dir_send kw_text sym_arrow sym_mul sym_not sym_contains name_ident name_lbrack result_start macro_results valid_path tmpl).

Notation pp := (pp op_string bin_prec un_prec op_receive op_pointer op_extended_not lit_string dir_recv dir_send sym_arrow quote expanded).
Notation ok := (ok op_string bin_prec un_prec unary_tokens binary_tokens op_receive op_pointer op_extended_not op_not_contains lit_string dir_none dir_recv dir_send sym_arrow sym_mul sym_not sym_contains name_ident name_lbrack kw_text result_start macro_results quote valid_path expanded tmpl).
Notation first_tok := (first_tok op_string bin_prec un_prec op_receive op_pointer op_extended_not lit_string dir_recv dir_send sym_arrow quote expanded).
Notation stop_tok := (stop_tok binary_tokens sym_not).
Notation xun_ok := (xun_ok op_string unary_tokens op_receive sym_arrow).
Notation xbin_ok := (xbin_ok op_string bin_prec binary_tokens op_not_contains sym_not sym_contains).
Notation spelled_mul := (spelled_mul op_string sym_mul).
Notation embedded_ok := (embedded_ok op_string op_pointer sym_mul).
Notation op_first := (op_first op_string).
Notation starts_result := (starts_result kw_text name_ident name_lbrack result_start).
Notation starts_result_o := (starts_result_o name_ident name_lbrack kw_text result_start).
Notation np_un := (np_un bin_prec un_prec op_receive).
Notation np_bin := (np_bin bin_prec un_prec).
Notation np_call := (np_call op_receive op_pointer).
Notation oprec := (oprec bin_prec un_prec).
Notation bprec := (bprec bin_prec).
Notation fprec := (fprec bin_prec un_prec).
Notation reduce := (reduce bin_prec un_prec).
Notation spell := (spell op_string).
Notation norm := (norm bin_prec un_prec op_receive op_pointer).
Notation spine := (spine bin_prec un_prec op_receive op_pointer).
Notation lastop := (lastop bin_prec un_prec op_receive op_pointer).
Notation wrapped_un := (wrapped_un bin_prec un_prec op_receive).
Notation wrapped_bin := (wrapped_bin bin_prec un_prec).
Notation cost := (cost bin_prec un_prec op_receive op_pointer).
Notation need := (need bin_prec un_prec op_receive op_pointer expanded).
Notation full := (full bin_prec un_prec op_receive op_pointer expanded).
Notation FE := ExprFull_eqs.FE.
Notation FT := ExprFull_eqs.FT.

(* the flags of a call in type mode (ty) or in expression mode without a block expected *)
Definition FL (ty g0 el b0 : bool) : pflags := mkfl g0 el ty (ty && b0).

(* ---- precedence invariant of the operator path ---- *)
(* e is not an operator, or an operator that binds more tightly than pb *)
Definition above (pb : N) (e : ex) : Prop :=
  is_operator e = true -> exists pe, oprec e = Some pe /\ pb < pe.

Definition head_ok (P : list fr) (e : ex) : Prop :=
  is_operator e = true ->
  match P with
  | [] => True
  | f :: _ => exists pf pe, fprec f = Some pf /\ oprec e = Some pe /\ pf < pe
  end.

Lemma above_nonop pb e : is_operator e = false -> above pb e.
Proof. unfold above. intros -> h. discriminate. Qed.

Lemma head_ok_nonop P e : is_operator e = false -> head_ok P e.
Proof. unfold head_ok. intros -> h. discriminate. Qed.

Lemma head_ok_nil e : head_ok [] e.
Proof. intros _. exact I. Qed.

Lemma head_ok_cons f P e pf : fprec f = Some pf -> above pf e -> head_ok (f :: P) e.
Proof. intros h1 h2 h3. destruct (h2 h3) as [pe [h4 h5]]. exists pf, pe. auto. Qed.

Lemma above_trans pb pb' e : pb' <= pb -> above pb e -> above pb' e.
Proof. intros h1 h2 h3. destruct (h2 h3) as [pe [h4 h5]]. exists pe. split; [exact h4|lia]. Qed.

(* ---- facts about the generated tables and the external functions (hypotheses
   of the section, discharged by computation where the model is instantiated) ---- *)
Hypothesis dir_none_recv : dir_none <> dir_recv.
Hypothesis dir_none_send : dir_none <> dir_send.
Hypothesis dir_recv_send : dir_recv <> dir_send.
Hypothesis result_start_lp : starts_result KLP = false.
Hypothesis quote_plain : forall s, plain_path s = true -> quote s = 34 :: s ++ [34].

(* ---- statements ---- *)
Definition A_stmt (e : ex) : Prop :=
  forall ty el nxt, ok ty el e nxt = true ->
  forall ps, pp e = Some ps ->
  forall g0 b0 c g P rest, hd_error rest = nxt -> head_ok P e ->
  exists c', forall n, (need ty e <= n)%nat ->
    poperand (cost ty e + n) (FL ty g0 el b0) c g false P (toks ps ++ rest) =
    ppost n (FL ty g0 el b0) c' (g && negb (is_operator e)) false (spine e ++ P) (Some (lastop e)) rest.

Definition B_stmt (e : ex) : Prop :=
  forall ty el nxt, ok ty el e nxt = true -> (ty = false -> stop_tok nxt = true) ->
  forall ps, pp e = Some ps ->
  forall g0 b0 rest, hd_error rest = nxt ->
  forall m, (full ty e <= m)%nat ->
    pexpr m (FL ty g0 el b0) (toks ps ++ rest) = ROk (Some (norm e), rest).

Lemma finish_some P o ts : finish P (Some o) ts = ROk (Some (close P o), ts).
Proof. destruct P; reflexivity. Qed.

Lemma FL_true g0 el b0 : FL true g0 el b0 = FT g0 el b0.
Proof. reflexivity. Qed.
Lemma FL_false g0 el b0 : FL false g0 el b0 = FE g0 el.
Proof. reflexivity. Qed.

(* the postfix loop returns at a token that ends the expression *)
Lemma ppost_stop n g0 el c g P o rest :
  stop_tok (hd_error rest) = true ->
  ppost (S n) (FE g0 el) c g false P (Some o) rest = ROk (Some (close P o), rest).
Proof.
  intros h. destruct rest as [|t r]; [rewrite (pt_ret_nil); apply finish_some|].
  cbn [hd_error ExprFullOk.stop_tok] in h.
  destruct t; try discriminate; try (rewrite pt_ret by reflexivity; apply finish_some).
  apply andb_prop in h. destruct h as [h1 h2]. apply negb_true_iff in h1.
  destruct (klookup binary_tokens s) eqn:ek; [discriminate|].
  rewrite pt_sym_inert by assumption. apply finish_some.
Qed.

Lemma A_B e : A_stmt e -> B_stmt e.
Proof.
  intros hA ty el nxt hok hstop ps hpp g0 b0 rest hnxt m hm.
  destruct (hA ty el nxt hok ps hpp g0 b0 false g0 [] rest hnxt (head_ok_nil e)) as [c' h].
  unfold ExprFull_base.full in hm.
  destruct m as [|k]; [lia|]. rewrite pexpr_S.
  replace k with (cost ty e + S (k - cost ty e - 1))%nat by lia.
  cbn [fl_guard FL]. rewrite h by lia. rewrite app_nil_r.
  destruct ty.
  - rewrite FL_true, pt_type, finish_some, close_spine. reflexivity.
  - rewrite FL_false, ppost_stop by (rewrite hnxt; apply hstop; reflexivity). rewrite close_spine. reflexivity.
Qed.

(* ---- tokens of the printed pieces ---- *)
Lemma toks_T (t : tk) : toks (ExprFullM.T t) = [t].
Proof. reflexivity. Qed.
Lemma toks_wrapp b ps : toks (wrapp b ps) = if b then KLP :: toks ps ++ [KRP] else toks ps.
Proof. destruct b; [|reflexivity]. unfold wrapp. rewrite !toks_app. reflexivity. Qed.

(* ---- a child printed with or without parentheses ---- *)
Lemma child_A c (b : bool) pc :
  A_stmt c -> pp c = Some pc ->
  forall ty el nxt g0 b0 c0 g P rest,
  hd_error rest = nxt ->
  (if b return Prop then ok ty false c (Some KRP) = true else ok ty el c nxt = true /\ head_ok P c) ->
  exists c', forall n, ((if b then full ty c else need ty c) <= n)%nat ->
    poperand ((if b then 1 else cost ty c) + n) (FL ty g0 el b0) c0 g false P (toks (wrapp b pc) ++ rest) =
    ppost n (FL ty g0 el b0) c' (if b then g else g && negb (is_operator c)) false
          ((if b then [] else spine c) ++ P) (Some (if b then add_paren (norm c) else lastop c)) rest.
Proof.
  intros hA hpp ty el nxt g0 b0 c0 g P rest hnxt hc. destruct b.
  - exists c0. intros n hn. rewrite toks_wrapp. cbn iota. cbn [app Nat.add]. rewrite <- app_assoc.
    rewrite po_lp. cbn [fl_type FL].
    pose proof (A_B c hA ty false (Some KRP) hc (fun _ => eq_refl) pc hpp false false ([KRP] ++ rest) eq_refl n hn) as h.
    unfold FL in h. rewrite andb_false_r in h. rewrite h. reflexivity.
  - destruct hc as [hok hh]. destruct (hA ty el nxt hok pc hpp g0 b0 c0 g P rest hnxt hh) as [c' h].
    exists c'. intros n hn. cbn [wrapp]. apply h. exact hn.
Qed.

(* ---- leaves ---- *)
Lemma A_ident p a : A_stmt (XIdent p a).
Proof.
  intros ty el nxt hok ps hpp g0 b0 c g P rest hnxt hh.
  cbn [ExprFullOk.ok] in hok. apply andb_prop in hok. destruct hok as [h1 h2].
  cbn [ExprFullM.pp] in hpp. injection hpp as <-.
  unfold ident_text. apply negb_true_iff in h1. unfold itea in h1. rewrite h1.
  exists c. intros n hn.
  cbn [toks app ExprFullM.T ExprFull_base.cost Nat.add ExprFull_base.spine ExprFull_base.lastop ExprFull_base.norm is_operator negb].
  rewrite andb_true_r.
  destruct ty.
  - rewrite FL_true, po_ident_t; [reflexivity|]. destruct rest as [|t r]; [reflexivity|]. cbn [hd_error] in hnxt. subst nxt.
    destruct t; try reflexivity. discriminate.
  - rewrite FL_false, po_ident. reflexivity.
Qed.

Lemma A_lit p k s : A_stmt (XLit p k s).
Proof.
  intros ty el nxt hok ps hpp g0 b0 c g P rest hnxt hh.
  cbn [ExprFullOk.ok] in hok. destruct ty; [discriminate|].
  cbn [ExprFullM.pp] in hpp. injection hpp as <-.
  exists c. intros n hn.
  cbn [toks app ExprFullM.T ExprFull_base.cost Nat.add ExprFull_base.spine ExprFull_base.lastop ExprFull_base.norm is_operator negb].
  rewrite andb_true_r, FL_false, po_lit. reflexivity.
Qed.

Lemma A_interface p : A_stmt (XInterface p).
Proof.
  intros ty el nxt hok ps hpp g0 b0 c g P rest hnxt hh.
  cbn [ExprFullM.pp] in hpp. injection hpp as <-.
  exists c. intros n hn.
  cbn [toks app ExprFullM.T ExprFull_base.cost Nat.add ExprFull_base.spine ExprFull_base.lastop ExprFull_base.norm is_operator negb].
  rewrite andb_true_r, po_interface. reflexivity.
Qed.

Lemma A_funclit p : A_stmt (XFuncLit p).
Proof. intros ty el nxt hok. cbn [ExprFullOk.ok] in hok. discriminate. Qed.

Lemma unquote_quoted q s : q <> 92 -> q <> 96 -> no_byte 92 s = true ->
  unquote (q :: s ++ [q]) = ROk s.
Proof.
  intros hq1 hq2 hs. destruct s as [|c [|d s]]; [reflexivity|reflexivity|].
  unfold unquote. cbn [app].
  replace (q =? 96) with false by (symmetry; apply N.eqb_neq; exact hq2).
  assert (hb : existsb (N.eqb 92) (q :: c :: d :: s ++ [q]) = false).
  { unfold no_byte in hs. apply negb_true_iff in hs. cbn [existsb] in *.
    replace (92 =? q) with false by (symmetry; apply N.eqb_neq; congruence).
    apply orb_false_iff in hs. destruct hs as [h1 hs]. apply orb_false_iff in hs. destruct hs as [h2 hs].
    rewrite h1, h2. cbn [orb]. rewrite existsb_app, hs. cbn [existsb orb].
    replace (92 =? q) with false by (symmetry; apply N.eqb_neq; congruence). reflexivity. }
  rewrite hb. cbn [orb negb].
  change (c :: d :: s ++ [q]) with ((c :: d :: s) ++ [q]). rewrite removelast_snoc. destruct s; reflexivity.
Qed.

Lemma plain_no_backslash s : plain_path s = true -> no_byte 92 s = true.
Proof.
  unfold plain_path, no_byte. induction s as [|c r IH]; [reflexivity|]. cbn [forallb existsb]. intros h.
  apply andb_prop in h. destruct h as [h1 h2]. apply andb_prop in h1. destruct h1 as [h1 h3].
  apply negb_true_iff in h3. rewrite N.eqb_sym in h3. rewrite h3. cbn [orb]. apply IH. exact h2.
Qed.

Lemma A_render p s : A_stmt (XRender p s).
Proof.
  intros ty el nxt hok ps hpp g0 b0 c g P rest hnxt hh.
  cbn [ExprFullOk.ok] in hok. destruct ty; [discriminate|]. cbn [negb andb] in hok.
  apply andb_prop in hok. destruct hok as [h1 h2].
  cbn [ExprFullM.pp] in hpp. injection hpp as <-.
  exists c. intros n hn. rewrite ?toks_app.
  cbn [toks app ExprFullM.T ExprFull_base.cost Nat.add ExprFull_base.spine ExprFull_base.lastop ExprFull_base.norm is_operator negb].
  rewrite andb_true_r, FL_false, po_render, (quote_plain s h1).
  rewrite unquote_quoted; [|discriminate|discriminate|apply plain_no_backslash; exact h1].
  cbn [rbind]. rewrite h2. reflexivity.
Qed.

(* ---- the printed form is not empty ---- *)
Ltac inv_pp h :=
  repeat match type of h with
  | match ?x with _ => _ end = Some _ => let e := fresh "e" in destruct x eqn:e; try discriminate h
  | (if ?x then _ else _) = Some _ => let e := fresh "e" in destruct x eqn:e; try discriminate h
  | Some _ = Some _ => injection h as h
  end.

Lemma len_wrapp b ps : (0 < length (toks ps) -> 0 < length (toks (wrapp b ps)))%nat.
Proof. rewrite toks_wrapp. destruct b; cbn [length]; lia. Qed.

Lemma pp_nonempty e : forall ps, pp e = Some ps -> (0 < length (toks ps))%nat.
Proof.
  induction e as [p a|p k s|p op x IHx|p op l r IHl IHr|p f args v IHf Hargs|p x i IHx IHi|p x lo hi mx fl IHx Hlo Hhi Hmx|p x n IHx
    |p x t IHx Ht|p t kvs Ht Hkvs|p k v Hk IHv|p e' IHe|p l e' Hl IHe|p d e' IHe|p m ps0 rs v Hps Hrs|p fs Hfs|p|p l r IHl IHr|p s|p] using ex_ind2;
    intros ps hpp; cbn [ExprFullM.pp] in hpp.
  - injection hpp as <-. cbn. lia.
  - injection hpp as <-. cbn. lia.
  - inv_pp hpp. try subst ps. rewrite !toks_app, !app_length.
    match goal with |- context [wrapp ?b ?l] => pose proof (len_wrapp b l (IHx l eq_refl)) end. lia.
  - inv_pp hpp. try subst ps. rewrite !toks_app, !app_length.
    match goal with |- context [wrapp ?b ?l] =>
      first [pose proof (len_wrapp b l (IHl l eq_refl)) | pose proof (len_wrapp b l (IHr l eq_refl))] end. lia.
  - inv_pp hpp. try subst ps. rewrite !toks_app, !app_length. cbn [toks ExprFullM.T length]. lia.
  - inv_pp hpp. try subst ps. rewrite !toks_app, !app_length. cbn [toks ExprFullM.T length]. lia.
  - inv_pp hpp. try subst ps. rewrite !toks_app, !app_length. cbn [toks ExprFullM.T length]. lia.
  - inv_pp hpp. try subst ps. rewrite !toks_app, !app_length. cbn [toks ExprFullM.T length]. lia.
  - inv_pp hpp. try subst ps. rewrite !toks_app, !app_length. cbn [toks ExprFullM.T length]. lia.
  - destruct (opt_pieces (omap pp t)) as [pt|]; [|discriminate]. destruct expanded.
    + inv_pp hpp. try subst ps. rewrite !toks_app, !app_length. cbn [toks ExprFullM.T length]. lia.
    + destruct kvs; injection hpp as <-; rewrite !toks_app, !app_length; cbn [toks ExprFullM.T length]; lia.
  - inv_pp hpp. try subst ps. cbn [app toks ExprFullM.T length]. lia.
  - inv_pp hpp. try subst ps. cbn [app toks ExprFullM.T length]. lia.
  - inv_pp hpp. try subst ps. cbn [app toks ExprFullM.T length]. lia.
  - inv_pp hpp. try subst ps. rewrite !toks_app, !app_length. destruct (d =? dir_recv); cbn [toks ExprFullM.T length]; lia.
  - destruct (join_opt _ _) as [pa|]; [|discriminate].
    destruct rs as [|[[a|] [t|]] [|q rs]]; inv_pp hpp; try discriminate hpp; try subst ps; rewrite ?toks_app, ?app_length; cbn [app toks ExprFullM.T length]; lia.
  - inv_pp hpp. try subst ps. cbn [app toks ExprFullM.T length]. lia.
  - injection hpp as <-. cbn. lia.
  - inv_pp hpp. try subst ps. rewrite !toks_app, !app_length. cbn [toks ExprFullM.T length]. lia.
  - injection hpp as <-. cbn. lia.
  - injection hpp as <-. cbn. lia.
Qed.

Lemma first_tok_cons e ps : pp e = Some ps -> exists t r, toks ps = t :: r /\ first_tok e = Some t.
Proof.
  intros h. pose proof (pp_nonempty e ps h) as hl. unfold ExprFullOk.first_tok. rewrite h.
  destruct (toks ps) as [|t r]; [cbn in hl; lia|]. exists t, r. split; reflexivity.
Qed.

(* ---- operators ---- *)
Hypothesis sym_arrow_mul : sym_arrow <> sym_mul.

Lemma op_pieces_one s : is_nil s = false -> no_byte 32 s = true -> toks (op_pieces s) = [KSym s].
Proof.
  intros h1 h2. unfold op_pieces. destruct s as [|c r]; [discriminate|].
  rewrite (split_sp_nosp _ h2). reflexivity.
Qed.

Lemma np_un_nonop op x : is_operator x = false -> np_un op x = Some false.
Proof. unfold ExprFullM.np_un. intros ->. reflexivity. Qed.
Lemma np_bin_nonop op x : is_operator x = false -> np_bin op x = Some false.
Proof. unfold ExprFullM.np_bin. intros ->. reflexivity. Qed.

(* not wrapped under a unary operator: not an operator, or of higher precedence *)
Lemma unwrapped_un_above op c : np_un op c = Some false -> above un_prec c.
Proof.
  unfold ExprFullM.np_un, above. intros h hop. rewrite hop in h.
  destruct (op =? op_receive); [discriminate|].
  destruct (oprec c) as [pc|]; [|discriminate]. injection h as h. exists pc. split; [reflexivity|].
  apply N.leb_gt. exact h.
Qed.

Lemma unwrapped_bin_above op c pp0 : np_bin op c = Some false -> bprec op = Some pp0 -> above pp0 c.
Proof.
  unfold ExprFullM.np_bin, above. intros h hp hop. rewrite hop, hp in h.
  destruct (oprec c) as [pc|]; [|discriminate]. injection h as h. exists pc. split; [reflexivity|].
  apply N.leb_gt. exact h.
Qed.

Lemma wrapped_un_eq op x b : np_un op x = Some b -> wrapped_un op x = b.
Proof. unfold ExprFull_base.wrapped_un. intros ->. reflexivity. Qed.
Lemma wrapped_bin_eq op x b : np_bin op x = Some b -> wrapped_bin op x = b.
Proof. unfold ExprFull_base.wrapped_bin. intros ->. reflexivity. Qed.

(* every frame of the spine of e has a precedence not below pb, when e is above pb *)
Lemma spine_ge : forall e ps pb, pp e = Some ps -> above pb e ->
  Forall (fun f => exists pf, fprec f = Some pf /\ pb <= pf) (spine e).
Proof.
  induction e as [p a|p k s|p op x IHx|p op l r IHl IHr|p f args v IHf Hargs|p x i IHx IHi|p x lo hi mx fl IHx Hlo Hhi Hmx|p x n IHx
    |p x t IHx Ht|p t kvs Ht Hkvs|p k v Hk IHv|p e' IHe|p l e' Hl IHe|p d e' IHe|p m ps0 rs v Hps Hrs|p fs Hfs|p|p l r IHl IHr|p s|p] using ex_ind2;
    intros ps pb hpp hab; try (constructor; fail).
  - cbn [ExprFullM.pp] in hpp.
    destruct (spell op) as [s|]; [|discriminate].
    destruct (np_un op x) as [b|] eqn:enp; [|discriminate].
    destruct (pp x) as [px|] eqn:epx; [|discriminate].
    cbn [ExprFull_base.spine]. rewrite (wrapped_un_eq _ _ _ enp).
    destruct (hab eq_refl) as [pe [h1 h2]]. cbn [ExprFullM.oprec] in h1. injection h1 as <-.
    apply Forall_app. split.
    + destruct b; [constructor|]. apply (IHx px pb eq_refl).
      eapply above_trans; [|apply (unwrapped_un_above op x enp)]. lia.
    + constructor; [|constructor]. exists un_prec. split; [reflexivity|lia].
  - cbn [ExprFullM.pp] in hpp.
    destruct (np_bin op l) as [bl|] eqn:enl; [|discriminate].
    destruct (pp l) as [pl|] eqn:epl; [|discriminate].
    destruct (spell op) as [s|]; [|discriminate].
    destruct (np_bin op r) as [br|] eqn:enr; [|discriminate].
    destruct (pp r) as [pr|] eqn:epr; [|discriminate].
    cbn [ExprFull_base.spine]. rewrite (wrapped_bin_eq _ _ _ enr).
    destruct (hab eq_refl) as [pe [h1 h2]]. cbn [ExprFullM.oprec] in h1.
    apply Forall_app. split.
    + destruct br; [constructor|]. apply (IHr pr pb eq_refl).
      eapply above_trans; [|apply (unwrapped_bin_above op r pe enr h1)]. lia.
    + constructor; [|constructor]. exists pe. split; [exact h1|lia].
Qed.

Lemma reduce_spine : forall A P pb o,
  Forall (fun f => exists pf, fprec f = Some pf /\ pb <= pf) A ->
  match P with [] => True | f :: _ => exists pf, fprec f = Some pf /\ pf < pb end ->
  reduce (A ++ P) pb o = Some (P, close A o).
Proof.
  induction A as [|f r IH]; intros P pb o hA hP.
  - cbn [app close]. destruct P as [|f r]; [reflexivity|]. destruct hP as [pf [h1 h2]].
    cbn [ExprFullM.reduce]. rewrite h1. apply N.leb_gt in h2. rewrite h2. reflexivity.
  - inversion hA as [|x y [pf [h1 h2]] hr]. subst. cbn [app ExprFullM.reduce close]. rewrite h1.
    apply N.leb_le in h2. rewrite h2. apply IH; assumption.
Qed.

Lemma A_un p op x : A_stmt x -> A_stmt (XUn p op x).
Proof.
  intros IHx ty el nxt hok ps hpp g0 b0 c g P rest hnxt hh.
  cbn [ExprFullOk.ok] in hok.
  apply andb_prop in hok. destruct hok as [hok hch].
  apply andb_prop in hok. destruct hok as [hok hmul].
  apply andb_prop in hok. destruct hok as [hun hnd].
  cbn [ExprFullM.pp] in hpp.
  destruct (spell op) as [s|] eqn:es; [|discriminate].
  destruct (np_un op x) as [b|] eqn:enp; [|discriminate].
  destruct (pp x) as [px|] eqn:epx; [|discriminate].
  injection hpp as <-.
  unfold ExprFullOk.xun_ok in hun. rewrite es in hun.
  apply andb_prop in hun. destruct hun as [hun hlk].
  apply andb_prop in hun. destruct hun as [hne hsp]. apply negb_true_iff in hne.
  assert (htk : toks (op_pieces s ++ (if op =? op_extended_not then [PcS] else []) ++ wrapp b px) = KSym s :: toks (wrapp b px)).
  { rewrite !toks_app, (op_pieces_one s hne hsp). destruct (op =? op_extended_not); reflexivity. }
  rewrite htk. clear htk.
  (* the child *)
  assert (hchild : if b return Prop then ok ty false x (Some KRP) = true
                   else ok ty el x nxt = true /\ head_ok (GUn op :: P) x).
  { destruct b; [exact hch|]. apply andb_prop in hch. destruct hch as [_ hch]. split; [exact hch|].
    apply (head_ok_cons (GUn op) P x un_prec); [reflexivity|]. apply (unwrapped_un_above op x enp). }
  destruct (child_A x b px IHx epx ty el nxt g0 b0 c false (GUn op :: P) rest hnxt hchild) as [c' hc].
  exists c'. intros n hn.
  cbn [ExprFull_base.cost ExprFull_base.need ExprFull_base.spine ExprFull_base.lastop is_operator negb] in *.
  rewrite (wrapped_un_eq _ _ _ enp) in *.
  replace ((if b then 2 else S (cost ty x)) + n)%nat with (S ((if b then 1 else cost ty x) + n))%nat by (destruct b; lia).
  cbn [app].
  assert (hstep : poperand (S ((if b then 1 else cost ty x) + n)) (FL ty g0 el b0) c g false P (KSym s :: toks (wrapp b px) ++ rest) =
                  poperand ((if b then 1 else cost ty x) + n) (FL ty g0 el b0) c false false (GUn op :: P) (toks (wrapp b px) ++ rest)).
  { destruct (bytes_eqb s sym_arrow) eqn:ea.
    - apply bytes_eqb_eq in ea. subst s. apply N.eqb_eq in hlk. subst op.
      destruct ty.
      + unfold ExprFullOk.spelled_mul in hmul. rewrite es in hmul. apply bytes_eqb_eq in hmul. contradiction.
      + rewrite FL_false. apply po_receive.
        destruct b; [rewrite toks_wrapp; reflexivity|]. cbn [wrapp].
        apply andb_prop in hch. destruct hch as [hch _]. apply negb_true_iff in hch. rewrite N.eqb_refl in hch. cbn [andb] in hch.
        destruct (first_tok_cons x px epx) as [t [r [h1 h2]]]. rewrite h1. rewrite h2 in hch.
        destruct t; try reflexivity. destruct w; try reflexivity. discriminate.
    - destruct (klookup unary_tokens s) as [u|] eqn:eu; [|discriminate]. apply N.eqb_eq in hlk. subst u.
      apply po_unary; [exact ea|exact eu|]. destruct ty; [|reflexivity]. cbn [fl_type FL andb].
      unfold ExprFullOk.spelled_mul in hmul. rewrite es in hmul. rewrite hmul. reflexivity. }
  rewrite hstep, hc by (destruct b; exact hn).
  rewrite andb_false_r. rewrite <- app_assoc. cbn [app]. destruct b; reflexivity.
Qed.

Lemma split_sp_nonnil s : split_sp s <> [].
Proof. destruct s as [|c r]; cbn [split_sp]; [discriminate|]. destruct (c =? 32); [discriminate|]. destruct (split_sp r); discriminate. Qed.

Lemma split_sp_one s : forall w, split_sp s = [w] -> w = s.
Proof.
  induction s as [|c r IH]; intros w h; cbn [split_sp] in h; [injection h as <-; reflexivity|].
  destruct (c =? 32).
  - injection h as _ h. exfalso. apply (split_sp_nonnil r). exact h.
  - destruct (split_sp r) as [|w' ws] eqn:er; [exfalso; apply (split_sp_nonnil r); exact er|].
    injection h as <- ->. rewrite (IH w' eq_refl). reflexivity.
Qed.

Lemma toks_sep_by ls : toks (sep_by [PcS] ls) = flat_map toks ls.
Proof.
  induction ls as [|x r IH]; [reflexivity|]. destruct r as [|y r'].
  - cbn [sep_by flat_map]. rewrite app_nil_r. reflexivity.
  - change (sep_by [PcS] (x :: y :: r')) with (x ++ [PcS] ++ sep_by [PcS] (y :: r')).
    rewrite !toks_app, IH. reflexivity.
Qed.

Lemma toks_sep_syms l : toks (sep_by [PcS] (map (fun w => ExprFullM.T (KSym w)) l)) = map KSym l.
Proof. rewrite toks_sep_by. induction l as [|w r IH]; [reflexivity|]. cbn [map flat_map toks ExprFullM.T app]. rewrite IH. reflexivity. Qed.

Lemma toks_op_pieces s : is_nil s = false -> toks (op_pieces s) = map KSym (split_sp s).
Proof. intros h. unfold op_pieces. destruct s; [discriminate|]. apply toks_sep_syms. Qed.

Lemma A_bin p op l r : A_stmt l -> A_stmt r -> A_stmt (XBin p op l r).
Proof.
  intros IHl IHr ty el nxt hok ps hpp g0 b0 c g P rest hnxt hh.
  cbn [ExprFullOk.ok] in hok. destruct ty; [discriminate|]. cbn [negb andb] in hok.
  apply andb_prop in hok. destruct hok as [hok hch].
  apply andb_prop in hok. destruct hok as [hok hndr].
  apply andb_prop in hok. destruct hok as [hbin hndl].
  cbn [ExprFullM.pp] in hpp.
  destruct (np_bin op l) as [bl|] eqn:enl; [|discriminate].
  destruct (pp l) as [pl|] eqn:epl; [|discriminate].
  destruct (spell op) as [s|] eqn:es; [|discriminate].
  destruct (np_bin op r) as [br|] eqn:enr; [|discriminate].
  destruct (pp r) as [pr|] eqn:epr; [|discriminate].
  injection hpp as <-.
  apply andb_prop in hch. destruct hch as [hcl hcr].
  unfold ExprFullOk.xbin_ok in hbin. rewrite es in hbin.
  destruct (bprec op) as [pb|] eqn:epb; [|discriminate].
  (* the precedence facts of the path *)
  assert (hPhead : match P with [] => True | f :: _ => exists pf, fprec f = Some pf /\ pf < pb end).
  { destruct P as [|f P']; [exact I|]. destruct (hh eq_refl) as [pf [pe [h1 [h2 h3]]]].
    cbn [ExprFullM.oprec] in h2. rewrite epb in h2. injection h2 as <-. exists pf. auto. }
  assert (hl_child : if bl return Prop then ok false false l (Some KRP) = true
                     else ok false el l (op_first op) = true /\ head_ok P l).
  { destruct bl; [exact hcl|]. split; [exact hcl|]. intros hop. destruct P as [|f P']; [exact I|].
    destruct hPhead as [pf [h1 h2]]. destruct (unwrapped_bin_above op l pb enl epb hop) as [pe [h3 h4]].
    exists pf, pe. repeat split; try assumption. lia. }
  set (l' := pw bl (norm l)).
  assert (hr_child : if br return Prop then ok false false r (Some KRP) = true
                     else ok false el r nxt = true /\ head_ok (GBin op l' :: P) r).
  { destruct br; [exact hcr|]. split; [exact hcr|].
    apply (head_ok_cons (GBin op l') P r pb); [exact epb|]. apply (unwrapped_bin_above op r pb enr epb). }
  (* the tokens of the operator *)
  assert (hs : is_nil s = false).
  { destruct s; [|reflexivity]. cbn [split_sp] in hbin. cbn in hbin. discriminate. }
  assert (htk : exists w ws, map KSym (split_sp s) = KSym w :: ws /\ op_first op = Some (KSym w) /\
                forall k c1 g1 o1 (A : list fr) rest',
                  reduce (A ++ P) pb o1 = Some (P, close A o1) ->
                  ppost (S k) (FE g0 el) c1 g1 false (A ++ P) (Some o1) ((KSym w :: ws) ++ rest') =
                  poperand k (FE g0 el) c1 false false (GBin op (close A o1) :: P) rest').
  { unfold ExprFullOk.op_first. rewrite es.
    destruct (split_sp s) as [|w1 [|w2 [|w3 ws]]] eqn:esp; try discriminate.
    - apply andb_prop in hbin. destruct hbin as [hbin hlk]. apply andb_prop in hbin. destruct hbin as [_ hnot].
      apply negb_true_iff in hnot.
      destruct (klookup binary_tokens w1) as [b|] eqn:elk; [|discriminate]. apply N.eqb_eq in hlk. subst b.
      exists w1, []. split; [reflexivity|]. split; [reflexivity|].
      intros k c1 g1 o1 A rest' hred. cbn [app]. eapply pt_binary; [exact hnot|exact elk|exact epb|exact hred].
    - apply andb_prop in hbin. destruct hbin as [hbin hop]. apply andb_prop in hbin. destruct hbin as [h1 h2].
      apply bytes_eqb_eq in h1. apply bytes_eqb_eq in h2. apply N.eqb_eq in hop. subst w1 w2 op.
      exists sym_not, [KSym sym_contains]. split; [reflexivity|]. split; [reflexivity|].
      intros k c1 g1 o1 A rest' hred. cbn [app]. eapply pt_not_contains; [exact epb|exact hred]. }
  destruct htk as [w [ws [hmap [hfirst hstep]]]].
  match goal with |- context [toks ?X ++ rest] =>
    assert (htoks : toks X ++ rest = toks (wrapp bl pl) ++ ((KSym w :: ws) ++ toks (wrapp br pr) ++ rest)) end.
  { change (PcS :: op_pieces s ++ PcS :: wrapp br pr) with ([PcS] ++ op_pieces s ++ [PcS] ++ wrapp br pr).
    rewrite !toks_app, (toks_op_pieces s hs), hmap. cbn [toks app]. rewrite <- !app_assoc. cbn [app]. rewrite <- ?app_assoc. reflexivity. }
  rewrite htoks. clear htoks.
  destruct (child_A l bl pl IHl epl false el (op_first op) g0 b0 c g P ((KSym w :: ws) ++ toks (wrapp br pr) ++ rest)
                    (eq_trans eq_refl (eq_sym hfirst)) hl_child) as [c1 h1].
  destruct (child_A r br pr IHr epr false el nxt g0 b0 c1 false (GBin op l' :: P) rest hnxt hr_child) as [c2 h2].
  exists c2. intros n hn.
  cbn [ExprFull_base.cost ExprFull_base.need ExprFull_base.spine ExprFull_base.lastop is_operator negb] in *.
  rewrite (wrapped_bin_eq _ _ _ enl), (wrapped_bin_eq _ _ _ enr) in *. unfold ExprFull_base.full in *.
  replace ((if bl then 1 else cost false l) + 1 + (if br then 1 else cost false r) + n)%nat
    with ((if bl then 1 else cost false l) + S ((if br then 1 else cost false r) + n))%nat by lia.
  rewrite h1 by (destruct bl, br; lia).
  rewrite FL_false in *.
  (* the operator token: reduction of the path *)
  assert (hred : reduce ((if bl then [] else spine l) ++ P) pb (if bl then add_paren (norm l) else lastop l) =
                 Some (P, close (if bl then [] else spine l) (if bl then add_paren (norm l) else lastop l))).
  { apply reduce_spine; [|exact hPhead]. destruct bl; [constructor|].
    apply (spine_ge l pl pb epl). apply (unwrapped_bin_above op l pb enl epb). }
  rewrite (hstep _ _ _ _ _ _ hred).
  replace (close (if bl then [] else spine l) (if bl then add_paren (norm l) else lastop l)) with l'
    by (unfold l', pw; destruct bl; [reflexivity|symmetry; apply close_spine]).
  rewrite h2 by (destruct bl, br; lia).
  rewrite andb_false_r. rewrite <- app_assoc. cbn [app]. destruct br; reflexivity.
Qed.

(* ---- nested calls, by their flags ---- *)
Lemma B_expr e : A_stmt e -> forall nxt ps rest m,
  ok false false e nxt = true -> stop_tok nxt = true -> pp e = Some ps -> hd_error rest = nxt ->
  (full false e <= m)%nat -> pexpr m fl_expr (toks ps ++ rest) = ROk (Some (norm e), rest).
Proof.
  intros hA nxt ps rest m hok hstop hpp hnxt hm.
  exact (A_B e hA false false nxt hok (fun _ => hstop) ps hpp false false rest hnxt m hm).
Qed.

Lemma B_elem e : A_stmt e -> forall nxt ps rest m,
  ok false true e nxt = true -> stop_tok nxt = true -> pp e = Some ps -> hd_error rest = nxt ->
  (full false e <= m)%nat -> pexpr m fl_elem (toks ps ++ rest) = ROk (Some (norm e), rest).
Proof.
  intros hA nxt ps rest m hok hstop hpp hnxt hm.
  exact (A_B e hA false true nxt hok (fun _ => hstop) ps hpp false false rest hnxt m hm).
Qed.

Lemma B_type e : A_stmt e -> forall g0 b0 nxt ps rest m,
  ok true false e nxt = true -> pp e = Some ps -> hd_error rest = nxt ->
  (full true e <= m)%nat -> pexpr m (mkfl g0 false true b0) (toks ps ++ rest) = ROk (Some (norm e), rest).
Proof.
  intros hA g0 b0 nxt ps rest m hok hpp hnxt hm.
  refine (A_B e hA true false nxt hok _ ps hpp g0 b0 rest hnxt m hm). discriminate.
Qed.

Lemma B_typ e : A_stmt e -> forall nxt ps rest m,
  ok true false e nxt = true -> pp e = Some ps -> hd_error rest = nxt ->
  (full true e <= m)%nat -> pexpr m fl_typ (toks ps ++ rest) = ROk (Some (norm e), rest).
Proof. intros hA. apply (B_type e hA false false). Qed.

(* no expression before a token that ends one *)
Lemma pexpr_none m fl t r : (2 <= m)%nat -> ender t = true -> pexpr m fl (t :: r) = ROk (None, t :: r).
Proof.
  intros hm ht. destruct m as [|[|k]]; try lia. rewrite pexpr_S. apply po_none. exact ht.
Qed.

(* ---- the operand of a postfix form ---- *)
Lemma post_A x px : A_stmt x -> pp x = Some px -> is_operator x = false ->
  forall el t, ok false el x (Some t) = true ->
  forall g0 c g P rest',
  exists c', forall n, (need false x <= n)%nat ->
    poperand (cost false x + n) (FE g0 el) c g false P (toks px ++ t :: rest') =
    ppost n (FE g0 el) c' g false P (Some (norm x)) (t :: rest').
Proof.
  intros hA hpp hnop el t hok g0 c g P rest'.
  destruct (hA false el (Some t) hok px hpp g0 false c g P (t :: rest') eq_refl (head_ok_nonop P x hnop)) as [c' h].
  exists c'. intros n hn. specialize (h n hn).
  rewrite (spine_nonop _ _ _ _ x hnop), (lastop_nonop _ _ _ _ x hnop), hnop in h. cbn [negb app] in h.
  rewrite andb_true_r in h. exact h.
Qed.

Ltac norm_toks := repeat (progress (rewrite ?toks_app, <- ?app_assoc; cbn [toks ExprFullM.T app])).

Ltac norm_toks_c :=
  repeat (progress (rewrite ?toks_app, <- ?app_assoc; change (toks comma_sp) with [KComma]; cbn [toks ExprFullM.T app])).

Ltac fuel := unfold ExprFull_base.full in *; lia.

Ltac split_ok h :=
  repeat match type of h with
  | _ && _ = true => let h1 := fresh "hk" in apply andb_prop in h; destruct h as [h h1]
  end.

Lemma A_index p x i : A_stmt x -> A_stmt i -> A_stmt (XIndex p x i).
Proof.
  intros IHx IHi ty el nxt hok ps hpp g0 b0 c g P rest hnxt hh.
  cbn [ExprFullOk.ok] in hok. destruct ty; [discriminate|]. cbn [negb andb] in hok.
  apply andb_prop in hok. destruct hok as [hok hi].
  apply andb_prop in hok. destruct hok as [hok hx].
  apply andb_prop in hok. destruct hok as [hnop hnd]. apply negb_true_iff in hnop.
  cbn [ExprFullM.pp] in hpp.
  destruct (pp x) as [px|] eqn:epx; [|discriminate].
  destruct (pp i) as [pi|] eqn:epi; [|discriminate].
  injection hpp as <-.
  destruct (post_A x px IHx epx hnop el KLBrack hx g0 c g P (toks pi ++ KRBrack :: rest)) as [c' h].
  exists c'. intros n hn.
  cbn [ExprFull_base.cost ExprFull_base.need ExprFull_base.spine ExprFull_base.lastop ExprFull_base.norm is_operator negb app] in *.
  rewrite andb_true_r, FL_false.
  norm_toks.
  replace (S (cost false x) + n)%nat with (cost false x + S n)%nat by lia.
  rewrite h by lia. rewrite pt_index.
  rewrite (B_expr i IHi (Some KRBrack) pi (KRBrack :: rest) n hi eq_refl epi eq_refl) by fuel.
  reflexivity.
Qed.

Lemma stopper_stop t : stopper t = true -> stop_tok (Some t) = true.
Proof. destruct t; try discriminate; reflexivity. Qed.
Lemma stopper_ender t : stopper t = true -> ender t = true.
Proof. destruct t; try discriminate; reflexivity. Qed.

Lemma A_sel p x name : A_stmt x -> A_stmt (XSel p x name).
Proof.
  intros IHx ty el nxt hok ps hpp g0 b0 c g P rest hnxt hh.
  cbn [ExprFullOk.ok] in hok. cbn [ExprFullM.pp] in hpp.
  destruct (pp x) as [px|] eqn:epx; [|discriminate]. injection hpp as <-.
  destruct ty.
  - destruct x as [p' a| | | | | | | | | | | | | | | | | | |]; try discriminate.
    apply negb_true_iff in hok. cbn [ExprFullM.pp] in epx. injection epx as <-.
    unfold ident_text. unfold itea in hok. rewrite hok.
    exists c. intros n hn. norm_toks.
    cbn [ExprFull_base.cost ExprFull_base.spine ExprFull_base.lastop ExprFull_base.norm is_operator negb app Nat.add].
    rewrite andb_true_r, FL_true, po_ident_sel. reflexivity.
  - apply andb_prop in hok. destruct hok as [hok hx].
    apply andb_prop in hok. destruct hok as [hnop hnd]. apply negb_true_iff in hnop.
    destruct (post_A x px IHx epx hnop el KPeriod hx g0 c g P (KIdent name :: rest)) as [c' h].
    exists c'. intros n hn.
    cbn [ExprFull_base.cost ExprFull_base.need ExprFull_base.spine ExprFull_base.lastop ExprFull_base.norm is_operator negb app] in *.
    rewrite andb_true_r, FL_false. norm_toks.
    replace (S (cost false x) + n)%nat with (cost false x + S n)%nat by lia.
    rewrite h by lia. rewrite pt_sel. reflexivity.
Qed.

Lemma A_typeassert p x t : A_stmt x -> Qo A_stmt t -> A_stmt (XTypeAssert p x t).
Proof.
  intros IHx IHt ty el nxt hok ps hpp g0 b0 c g P rest hnxt hh.
  cbn [ExprFullOk.ok] in hok. destruct ty; [discriminate|]. cbn [negb andb] in hok.
  apply andb_prop in hok. destruct hok as [hok ht].
  apply andb_prop in hok. destruct hok as [hok hx].
  apply andb_prop in hok. destruct hok as [hnop hnd]. apply negb_true_iff in hnop.
  destruct t as [t'|]; [|discriminate]. cbn [Qo] in IHt.
  apply andb_prop in ht. destruct ht as [ht hfirst].
  cbn [ExprFullM.pp omap opt_pieces] in hpp.
  destruct (pp x) as [px|] eqn:epx; [|discriminate].
  destruct (pp t') as [pt|] eqn:ept; [|discriminate].
  injection hpp as <-.
  destruct (post_A x px IHx epx hnop el KPeriod hx g0 c g P (KLP :: toks pt ++ KRP :: rest)) as [c' h].
  exists c'. intros n hn.
  cbn [ExprFull_base.cost ExprFull_base.need ExprFull_base.spine ExprFull_base.lastop ExprFull_base.norm is_operator negb app omap
       ExprFull_base.fullo] in *.
  rewrite andb_true_r, FL_false. norm_toks.
  replace (S (cost false x) + n)%nat with (cost false x + S n)%nat by lia.
  rewrite h by lia. rewrite pt_assert.
  - rewrite (B_type t' IHt true false (Some KRP) pt (KRP :: rest) n ht ept eq_refl) by fuel. reflexivity.
  - destruct (first_tok_cons t' pt ept) as [t0 [r0 [h1 h2]]]. rewrite h1. rewrite h2 in hfirst. cbn [app assert_start_ok].
    destruct t0; try reflexivity; [exact hfirst|]. destruct w; try reflexivity. discriminate.
Qed.

Lemma default_left_nonop l : default_left_ok l = true -> is_operator l = false.
Proof. destruct l; try discriminate; reflexivity. Qed.
Lemma default_left_norm l : default_left_ok (norm l) = default_left_ok l.
Proof. destruct l; reflexivity. Qed.

Lemma A_default p l r : A_stmt l -> A_stmt r -> A_stmt (XDefault p l r).
Proof.
  intros IHl IHr ty el nxt hok ps hpp g0 b0 c g P rest hnxt hh.
  cbn [ExprFullOk.ok] in hok. destruct ty; [discriminate|]. cbn [negb andb] in hok.
  apply andb_prop in hok. destruct hok as [hok hstop].
  apply andb_prop in hok. destruct hok as [hok hr].
  apply andb_prop in hok. destruct hok as [hok hl].
  apply andb_prop in hok. destruct hok as [htm hdl].
  cbn [ExprFullM.pp] in hpp.
  destruct (pp l) as [pl|] eqn:epl; [|discriminate].
  destruct (pp r) as [pr|] eqn:epr; [|discriminate].
  injection hpp as <-.
  destruct (post_A l pl IHl epl (default_left_nonop l hdl) el (KKw WDefault) hl g0 c g P (toks pr ++ rest)) as [c' h].
  exists c'. intros n hn.
  cbn [ExprFull_base.cost ExprFull_base.need ExprFull_base.spine ExprFull_base.lastop ExprFull_base.norm is_operator negb app] in *.
  rewrite andb_true_r, FL_false. norm_toks.
  replace (S (cost false l) + n)%nat with (cost false l + S n)%nat by lia.
  rewrite h by lia. rewrite pt_default; [|exact htm|rewrite default_left_norm; exact hdl].
  rewrite (B_expr r IHr nxt pr rest n hr hstop epr hnxt) by fuel. reflexivity.
Qed.

(* an optional bound of a slicing, an optional length *)
Lemma B_opt o : Qo A_stmt o -> forall t po rest m,
  match o with Some a => ok false false a (Some t) = true | None => True end -> stopper t = true ->
  opt_pieces (omap pp o) = Some po -> (fullo (full false) o <= m)%nat ->
  pexpr m fl_expr (toks po ++ t :: rest) = ROk (omap norm o, t :: rest).
Proof.
  intros hA t po rest m hok hst hpp hm. destruct o as [a|]; cbn [omap opt_pieces Qo ExprFull_base.fullo] in *.
  - apply (B_expr a hA (Some t) po (t :: rest) m hok (stopper_stop t hst) hpp eq_refl hm).
  - injection hpp as <-. cbn [toks app]. apply pexpr_none; [lia|apply stopper_ender; exact hst].
Qed.

Lemma A_slicing p x lo hi mx fl : A_stmt x -> Qo A_stmt lo -> Qo A_stmt hi -> Qo A_stmt mx -> A_stmt (XSlicing p x lo hi mx fl).
Proof.
  intros IHx IHlo IHhi IHmx ty el nxt hok ps hpp g0 b0 c g P rest hnxt hh.
  cbn [ExprFullOk.ok] in hok. destruct ty; [discriminate|]. cbn [negb andb] in hok.
  apply andb_prop in hok. destruct hok as [hok hmx].
  apply andb_prop in hok. destruct hok as [hok hhi].
  apply andb_prop in hok. destruct hok as [hok hlo].
  apply andb_prop in hok. destruct hok as [hok hfull].
  apply andb_prop in hok. destruct hok as [hok hx].
  apply andb_prop in hok. destruct hok as [hnop hnd]. apply negb_true_iff in hnop.
  apply eqb_prop in hfull.
  cbn [ExprFullM.pp] in hpp.
  destruct (pp x) as [px|] eqn:epx; [|discriminate].
  destruct (opt_pieces (omap pp lo)) as [pl|] eqn:epl; [|discriminate].
  destruct (opt_pieces (omap pp hi)) as [ph|] eqn:eph; [|discriminate].
  destruct (opt_pieces (omap pp mx)) as [pm|] eqn:epm; [|discriminate].
  injection hpp as <-.
  destruct (post_A x px IHx epx hnop el KLBrack hx g0 c g P
              (toks pl ++ KColon :: toks ph ++ toks (match mx with Some _ => ExprFullM.T KColon ++ pm | None => [] end) ++ KRBrack :: rest)) as [c' h].
  exists c'. intros n hn.
  cbn [ExprFull_base.cost ExprFull_base.need ExprFull_base.spine ExprFull_base.lastop ExprFull_base.norm is_operator negb app] in *.
  rewrite andb_true_r, FL_false. norm_toks.
  replace (S (cost false x) + n)%nat with (cost false x + S n)%nat by lia.
  rewrite h by lia. rewrite pt_index.
  rewrite (B_opt lo IHlo KColon pl _ n) by first [reflexivity | assumption | fuel | (destruct lo; [exact hlo|exact I])].
  cbn [rbind fst snd].
  destruct mx as [cm|]; cbn [is_some] in *.
  - norm_toks.
    rewrite (B_opt hi IHhi KColon ph _ n) by first [reflexivity | assumption | fuel | (destruct hi; [exact hhi|exact I])].
    cbn [rbind fst snd].
    rewrite (B_opt (Some cm) IHmx KRBrack pm _ n) by first [reflexivity | assumption | fuel].
    cbn [rbind fst snd omap]. subst fl. reflexivity.
  - cbn [toks app].
    rewrite (B_opt hi IHhi KRBrack ph _ n) by first [reflexivity | assumption | fuel | (destruct hi; [exact hhi|exact I])].
    cbn [rbind fst snd omap]. subst fl. reflexivity.
Qed.

(* ---- lists printed with separators ---- *)
Lemma seq_opt_F2 {A} (f : A -> option (list pc)) l : forall ls, seq_opt (map f l) = Some ls ->
  Forall2 (fun a q => f a = Some q) l ls.
Proof.
  induction l as [|a r IH]; intros ls h; cbn [map seq_opt] in h.
  - injection h as <-. constructor.
  - destruct (f a) as [q|] eqn:ea; [|discriminate]. destruct (seq_opt (map f r)) as [r'|]; [|discriminate].
    injection h as <-. constructor; [exact ea|]. apply IH. reflexivity.
Qed.

Lemma join_opt_F2 {A} sep (f : A -> option (list pc)) l pa : join_opt sep (map f l) = Some pa ->
  exists ls, Forall2 (fun a q => f a = Some q) l ls /\ pa = sep_by sep ls.
Proof.
  unfold join_opt. destruct (seq_opt (map f l)) as [ls|] eqn:e; [|discriminate]. intros h. injection h as <-.
  exists ls. split; [apply seq_opt_F2; exact e|reflexivity].
Qed.

Lemma sep_by_cons {A} (sep x : list A) r :
  sep_by sep (x :: r) = match r with [] => x | _ :: _ => x ++ sep ++ sep_by sep r end.
Proof. destruct r; reflexivity. Qed.

(* ---- calls ---- *)
Definition okargs (fin : tk) : list ex -> bool :=
  fix go (l : list ex) : bool :=
    match l with
    | [] => true
    | a :: r => ok false false a (sep_next (is_nil r) KComma fin) && go r
    end.

Definition needargs (l : list ex) : nat := fold_right (fun a acc => S (full false a + acc)) 3%nat l.

Lemma args_run : forall args ls, Forall2 (fun a q => pp a = Some q) args ls -> Forall A_stmt args ->
  forall fin rest, stopper fin = true -> fin <> KComma -> okargs fin args = true ->
  forall acc m, (args = [] -> acc = []) -> (needargs args <= m)%nat ->
  pargs m (toks (sep_by comma_sp ls) ++ fin :: rest) acc = ROk (acc ++ map norm args, fin :: rest).
Proof.
  induction 1 as [|a q args ls hq hrest IH]; intros hA fin rest hst hnc hok acc m hacc hm.
  - rewrite (hacc eq_refl). cbn [sep_by toks app map needargs fold_right] in *.
    destruct m as [|k]; [lia|]. rewrite pargs_S, pexpr_none by (try lia; apply stopper_ender; exact hst).
    reflexivity.
  - inversion hA as [|x y hAa hAr]. subst x y.
    cbn [okargs] in hok. apply andb_prop in hok. destruct hok as [hoka hokr].
    cbn [needargs fold_right] in hm. destruct m as [|k]; [lia|].
    rewrite pargs_S, sep_by_cons. cbn [map].
    destruct hrest as [|a2 q2 args' ls' hq2 hrest'].
    + cbn [is_nil sep_next] in hoka.
      rewrite (B_expr a hAa (Some fin) q (fin :: rest) k hoka (stopper_stop fin hst) hq eq_refl) by (unfold needargs in *; fuel).
      cbn [rbind]. destruct fin; try reflexivity; try discriminate. contradiction.
    + cbn [is_nil sep_next] in hoka. rewrite !toks_app. change (toks comma_sp) with [KComma]. rewrite <- !app_assoc. cbn [app].
      rewrite (B_expr a hAa (Some KComma) q (KComma :: toks (sep_by comma_sp (q2 :: ls')) ++ fin :: rest) k hoka eq_refl hq eq_refl)
        by (unfold needargs in *; fuel).
      cbn [rbind].
      rewrite (IH hAr fin rest hst hnc hokr (acc ++ [norm a]) k) by (try discriminate; unfold needargs in *; cbn [fold_right] in *; fuel).
      rewrite <- app_assoc. reflexivity.
Qed.

Lemma A_call p f args v : A_stmt f -> Forall A_stmt args -> A_stmt (XCall p f args v).
Proof.
  intros IHf IHargs ty el nxt hok ps hpp g0 b0 c g P rest hnxt hh.
  cbn [ExprFullOk.ok] in hok. destruct ty; [discriminate|]. cbn [negb andb] in hok.
  apply andb_prop in hok. destruct hok as [hok hargs].
  apply andb_prop in hok. destruct hok as [hf hv].
  cbn [ExprFullM.pp] in hpp.
  destruct (pp f) as [pf|] eqn:epf; [|discriminate].
  destruct (join_opt comma_sp (map pp args)) as [pa|] eqn:epa; [|discriminate].
  injection hpp as <-.
  destruct (join_opt_F2 _ _ _ _ epa) as [ls [hF2 ->]].
  set (fin := if v then KEllipsis else KRP) in *.
  assert (hfc : if np_call f return Prop then ok false false f (Some KRP) = true
                else ok false el f (Some KLP) = true /\ head_ok P f).
  { destruct (np_call f); [exact hf|]. apply andb_prop in hf. destruct hf as [hf hx].
    apply andb_prop in hf. destruct hf as [hnop _]. apply negb_true_iff in hnop.
    split; [exact hx|apply head_ok_nonop; exact hnop]. }
  destruct (child_A f (np_call f) pf IHf epf false el (Some KLP) g0 b0 c g P
              (KLP :: toks (sep_by comma_sp ls) ++ toks (if v then ExprFullM.T KEllipsis else []) ++ KRP :: rest) eq_refl hfc) as [c' h].
  exists false. intros n hn.
  cbn [ExprFull_base.cost ExprFull_base.need ExprFull_base.spine ExprFull_base.lastop ExprFull_base.norm is_operator negb app] in *.
  rewrite andb_true_r. norm_toks.
  replace (S (if np_call f then 1 else cost false f) + n)%nat with ((if np_call f then 1 else cost false f) + S n)%nat by lia.
  rewrite h by (unfold ExprFull_base.full in *; destruct (np_call f); lia).
  assert (hop : (if np_call f then add_paren (norm f) else lastop f) = pw (np_call f) (norm f) /\
                (if np_call f then [] else spine f) = [] /\
                (if np_call f then g else g && negb (is_operator f)) = g).
  { destruct (np_call f) eqn:enc; [auto|]. apply andb_prop in hf. destruct hf as [hf _].
    apply andb_prop in hf. destruct hf as [hnop _]. apply negb_true_iff in hnop.
    rewrite (lastop_nonop _ _ _ _ f hnop), (spine_nonop _ _ _ _ f hnop), hnop. cbn [negb pw]. rewrite andb_true_r. auto. }
  destruct hop as [ho1 [ho2 ho3]]. rewrite ho1, ho2, ho3. cbn [app]. rewrite FL_false.
  rewrite pt_call.
  assert (hrun : pargs n (toks (sep_by comma_sp ls) ++ fin :: (if v then KRP :: rest else rest)) [] =
                 ROk ([] ++ map norm args, fin :: (if v then KRP :: rest else rest))).
  { apply args_run; try assumption.
    - unfold fin. destruct v; reflexivity.
    - unfold fin. destruct v; discriminate.
    - reflexivity.
    - unfold needargs. unfold ExprFull_base.full in *. destruct (np_call f); lia. }
  replace (toks (sep_by comma_sp ls) ++ toks (if v then ExprFullM.T KEllipsis else []) ++ KRP :: rest)
    with (toks (sep_by comma_sp ls) ++ fin :: (if v then KRP :: rest else rest)) by (unfold fin; destruct v; reflexivity).
  rewrite hrun. cbn [rbind fst snd app].
  unfold fin, call_tail. destruct v; cbn [fst snd andb].
  - destruct args as [|a0 args0]; [discriminate|]. cbn [map]. reflexivity.
  - reflexivity.
Qed.

(* ---- composite literals ---- *)
Definition kv_pieces (kv : option ex * ex) : option (list pc) :=
  match fst kv with
  | None => pp (snd kv)
  | Some k => match pp k, pp (snd kv) with
              | Some pk, Some pv => Some (pk ++ [PcT KColon; PcS] ++ pv)
              | _, _ => None
              end
  end.

Definition okelems : list (option ex * ex) -> bool :=
  fix go (l : list (option ex * ex)) : bool :=
    match l with
    | [] => true
    | (k, v) :: r =>
      (match k with Some k' => ok false true k' (Some KColon) | None => true end) &&
      ok false true v (sep_next (is_nil r) KComma KRBrace) && go r
    end.

Definition needelems (l : list (option ex * ex)) : nat :=
  fold_right (fun (kv : option ex * ex) acc =>
                S (match fst kv with Some k => full false k | None => 0 end + full false (snd kv) + acc)) 3%nat l.

Definition normkv (kv : option ex * ex) : option ex * ex := (omap norm (fst kv), norm (snd kv)).

Lemma elems_run : forall kvs ls, Forall2 (fun kv q => kv_pieces kv = Some q) kvs ls ->
  Forall (fun kv => Qo A_stmt (fst kv) /\ A_stmt (snd kv)) kvs ->
  forall rest, okelems kvs = true ->
  forall m, (needelems kvs <= m)%nat ->
  pelems m (toks (sep_by comma_sp ls) ++ KRBrace :: rest) = ROk (map normkv kvs, KRBrace :: rest).
Proof.
  induction 1 as [|kv q kvs ls hq hrest IH]; intros hA rest hok m hm.
  - cbn [sep_by toks app map needelems fold_right] in *.
    destruct m as [|k]; [lia|]. rewrite pelems_S, pexpr_none by (try lia; reflexivity). reflexivity.
  - inversion hA as [|x y [hAk hAv] hAr]. subst x y.
    destruct kv as [kk v]. cbn [okelems] in hok.
    apply andb_prop in hok. destruct hok as [hok hokr]. apply andb_prop in hok. destruct hok as [hokk hokv].
    cbn [needelems fold_right fst snd] in hm. destruct m as [|k]; [lia|].
    rewrite pelems_S, sep_by_cons. cbn [map]. unfold normkv at 1. cbn [fst snd] in *.
    unfold kv_pieces in hq. cbn [fst snd] in hq.
    destruct kk as [k'|].
    + destruct (pp k') as [pk|] eqn:epk; [|discriminate]. destruct (pp v) as [pv|] eqn:epv; [|discriminate].
      injection hq as <-. cbn [Qo] in hAk.
      destruct hrest as [|kv2 q2 kvs' ls' hq2 hrest'].
      * cbn [is_nil sep_next] in hokv. norm_toks.
        rewrite (B_elem k' hAk (Some KColon) pk (KColon :: toks pv ++ KRBrace :: rest) k hokk eq_refl epk eq_refl)
          by (unfold needelems in *; fuel).
        cbn [rbind].
        rewrite (B_elem v hAv (Some KRBrace) pv (KRBrace :: rest) k hokv eq_refl epv eq_refl) by (unfold needelems in *; fuel).
        reflexivity.
      * cbn [is_nil sep_next] in hokv. norm_toks_c.
        rewrite (B_elem k' hAk (Some KColon) pk (KColon :: toks pv ++ KComma :: toks (sep_by comma_sp (q2 :: ls')) ++ KRBrace :: rest) k
                   hokk eq_refl epk eq_refl) by (unfold needelems in *; fuel).
        cbn [rbind].
        rewrite (B_elem v hAv (Some KComma) pv (KComma :: toks (sep_by comma_sp (q2 :: ls')) ++ KRBrace :: rest) k hokv eq_refl epv eq_refl)
          by (unfold needelems in *; fuel).
        cbn [rbind].
        rewrite (IH hAr rest hokr k) by (unfold needelems in *; cbn [fold_right] in *; fuel).
        reflexivity.
    + destruct (pp v) as [pv|] eqn:epv; [|discriminate]. injection hq as <-.
      destruct hrest as [|kv2 q2 kvs' ls' hq2 hrest'].
      * cbn [is_nil sep_next] in hokv.
        rewrite (B_elem v hAv (Some KRBrace) pv (KRBrace :: rest) k hokv eq_refl epv eq_refl) by (unfold needelems in *; fuel).
        reflexivity.
      * cbn [is_nil sep_next] in hokv. norm_toks_c.
        rewrite (B_elem v hAv (Some KComma) pv (KComma :: toks (sep_by comma_sp (q2 :: ls')) ++ KRBrace :: rest) k hokv eq_refl epv eq_refl)
          by (unfold needelems in *; fuel).
        cbn [rbind].
        rewrite (IH hAr rest hokr k) by (unfold needelems in *; cbn [fold_right] in *; fuel).
        reflexivity.
Qed.

Lemma if_split (b : bool) {A} (x y r : A) : (if b then x else y) = r -> (b = true /\ x = r) \/ (b = false /\ y = r).
Proof. destruct b; auto. Qed.

Lemma A_complit p t kvs : Qo A_stmt t -> Forall (fun kv => Qo A_stmt (fst kv) /\ A_stmt (snd kv)) kvs -> A_stmt (XCompLit p t kvs).
Proof.
  intros IHt IHkvs ty el nxt hok ps hpp g0 b0 c g P rest hnxt hh.
  cbn [ExprFullOk.ok] in hok. destruct ty; [discriminate|]. cbn [negb andb] in hok.
  apply andb_prop in hok. destruct hok as [hok hkvs].
  apply andb_prop in hok. destruct hok as [hexp ht].
  cbn [ExprFullM.pp] in hpp.
  destruct (opt_pieces (omap pp t)) as [pt|] eqn:ept; [|discriminate].
  (* the elements *)
  assert (hel : exists ls, Forall2 (fun kv q => kv_pieces kv = Some q) kvs ls /\
                  ps = pt ++ ExprFullM.T KLBrace ++ sep_by comma_sp ls ++ ExprFullM.T KRBrace).
  { apply if_split in hpp. destruct hpp as [[hx hpp]|[hx hpp]].
    - destruct (join_opt comma_sp _) as [pk|] eqn:epk; [|discriminate]. injection hpp as <-.
      destruct (join_opt_F2 comma_sp kv_pieces kvs pk epk) as [ls [h1 h2]]. exists ls. subst pk. auto.
    - rewrite hx in hexp. cbn [orb] in hexp. destruct kvs; [|discriminate]. injection hpp as <-. exists []. split; [constructor|reflexivity]. }
  destruct hel as [ls [hF2 ->]].
  assert (hrun : forall k, (needelems kvs <= k)%nat ->
            pelems k (toks (sep_by comma_sp ls) ++ KRBrace :: rest) = ROk (map normkv kvs, KRBrace :: rest)).
  { intros k hk. apply elems_run; assumption. }
  assert (hneed : forall k, ((if expanded then needelems kvs else 3) <= k)%nat -> (needelems kvs <= k)%nat).
  { intros k hk. destruct expanded; [exact hk|]. cbn [orb] in hexp. destruct kvs; [exact hk|discriminate]. }
  destruct t as [t'|]; cbn [omap opt_pieces Qo] in *.
  - apply andb_prop in ht. destruct ht as [ht hx].
    apply andb_prop in ht. destruct ht as [hnop hnd]. apply negb_true_iff in hnop.
    destruct (post_A t' pt IHt ept hnop el KLBrace hx g0 c g P (toks (sep_by comma_sp ls) ++ KRBrace :: rest)) as [c' h].
    exists false. intros n hn.
    cbn [ExprFull_base.cost ExprFull_base.need ExprFull_base.spine ExprFull_base.lastop ExprFull_base.norm is_operator negb app omap] in *.
    rewrite andb_true_r, FL_false. norm_toks.
    replace (S (cost false t') + n)%nat with (cost false t' + S n)%nat by lia.
    rewrite h by lia. rewrite pt_lbrace by (rewrite parens_norm; reflexivity).
    rewrite hrun by (apply hneed; unfold needelems, ExprFull_base.full; lia). reflexivity.
  - injection ept as <-. subst el.
    exists false. intros n hn.
    cbn [ExprFull_base.cost ExprFull_base.need ExprFull_base.spine ExprFull_base.lastop ExprFull_base.norm is_operator negb app omap] in *.
    rewrite andb_true_r, FL_false. norm_toks.
    change (2 + n)%nat with (S (S n)). rewrite po_elided, pt_lbrace by reflexivity.
    rewrite hrun by (apply hneed; unfold needelems, ExprFull_base.full; lia). reflexivity.
Qed.

(* ---- an expression does not start with a token that ends one ---- *)
Lemma hd_wrapp b ps t r : toks (wrapp b ps) = t :: r -> (b = true /\ t = KLP) \/ (b = false /\ toks ps = t :: r).
Proof. rewrite toks_wrapp. destruct b; [intros h; injection h as <- _; auto|auto]. Qed.

Lemma hd_app {A} (a b : list A) t r : a ++ b = t :: r -> (exists r', a = t :: r') \/ (a = [] /\ b = t :: r).
Proof. destruct a as [|x a']; [auto|]. cbn [app]. intros h. injection h as -> _. left. eexists. reflexivity. Qed.

Lemma pp_first e : forall ps t r, pp e = Some ps -> toks ps = t :: r -> ender t = false.
Proof.
  induction e as [p a|p k s|p op x IHx|p op l r0 IHl IHr|p f args v IHf Hargs|p x i IHx IHi|p x lo hi mx fl IHx Hlo Hhi Hmx|p x n IHx
    |p x t0 IHx Ht|p t0 kvs Ht Hkvs|p k v Hk IHv|p e' IHe|p l e' Hl IHe|p d e' IHe|p m ps0 rs v Hps Hrs|p fs Hfs|p|p l r0 IHl IHr|p s|p] using ex_ind2;
    intros ps t r hpp ht; cbn [ExprFullM.pp] in hpp.
  - injection hpp as <-. cbn in ht. injection ht as <- _. reflexivity.
  - injection hpp as <-. cbn in ht. injection ht as <- _. reflexivity.
  - inv_pp hpp. try subst ps. rewrite !toks_app in ht.
    apply hd_app in ht. destruct ht as [[r' ht]|[_ ht]].
    + unfold op_pieces in ht. destruct b as [|c0 b']; [discriminate|]. rewrite toks_sep_syms in ht.
      destruct (split_sp (c0 :: b')); [discriminate|]. cbn [map] in ht. injection ht as <- _. reflexivity.
    + apply hd_app in ht. destruct ht as [[r' ht]|[_ ht]]; [destruct (op =? op_extended_not); discriminate|].
      apply hd_wrapp in ht. destruct ht as [[_ ->]|[_ ht]]; [reflexivity|]. eapply IHx; [reflexivity|exact ht].
  - inv_pp hpp. try subst ps. rewrite !toks_app in ht.
    apply hd_app in ht. destruct ht as [[r' ht]|[hnil _]].
    + apply hd_wrapp in ht. destruct ht as [[_ ->]|[_ ht]]; [reflexivity|]. eapply IHl; [reflexivity|exact ht].
    + exfalso. match type of hnil with toks (wrapp ?b ?l0) = [] => pose proof (len_wrapp b l0 (pp_nonempty l l0 ltac:(assumption))) as hl end.
      rewrite hnil in hl. cbn in hl. lia.
  - inv_pp hpp. try subst ps. rewrite !toks_app in ht.
    apply hd_app in ht. destruct ht as [[r' ht]|[hnil _]].
    + apply hd_wrapp in ht. destruct ht as [[_ ->]|[_ ht]]; [reflexivity|]. eapply IHf; [reflexivity|exact ht].
    + exfalso. match type of hnil with toks (wrapp ?b ?l0) = [] => pose proof (len_wrapp b l0 (pp_nonempty f l0 ltac:(assumption))) as hl end.
      rewrite hnil in hl. cbn in hl. lia.
  - inv_pp hpp. try subst ps. rewrite !toks_app in ht. apply hd_app in ht. destruct ht as [[r' ht]|[hnil _]].
    + eapply IHx; [reflexivity|exact ht].
    + exfalso. match type of hnil with toks ?l0 = [] => pose proof (pp_nonempty x l0 ltac:(assumption)) as hl end. rewrite hnil in hl. cbn in hl. lia.
  - inv_pp hpp. try subst ps. rewrite !toks_app in ht. apply hd_app in ht. destruct ht as [[r' ht]|[hnil _]].
    + eapply IHx; [reflexivity|exact ht].
    + exfalso. match type of hnil with toks ?l0 = [] => pose proof (pp_nonempty x l0 ltac:(assumption)) as hl end. rewrite hnil in hl. cbn in hl. lia.
  - inv_pp hpp. try subst ps. rewrite !toks_app in ht. apply hd_app in ht. destruct ht as [[r' ht]|[hnil _]].
    + eapply IHx; [reflexivity|exact ht].
    + exfalso. match type of hnil with toks ?l0 = [] => pose proof (pp_nonempty x l0 ltac:(assumption)) as hl end. rewrite hnil in hl. cbn in hl. lia.
  - inv_pp hpp. try subst ps. rewrite !toks_app in ht. apply hd_app in ht. destruct ht as [[r' ht]|[hnil _]].
    + eapply IHx; [reflexivity|exact ht].
    + exfalso. match type of hnil with toks ?l0 = [] => pose proof (pp_nonempty x l0 ltac:(assumption)) as hl end. rewrite hnil in hl. cbn in hl. lia.
  - destruct (opt_pieces (omap pp t0)) as [pt|] eqn:ept; [|discriminate].
    assert (hps : exists q, ps = pt ++ ExprFullM.T KLBrace ++ q).
    { destruct expanded; [inv_pp hpp; try subst ps; eexists; reflexivity|].
      destruct kvs; injection hpp as <-; eexists; reflexivity. }
    destruct hps as [q ->]. rewrite !toks_app in ht. apply hd_app in ht. destruct ht as [[r' ht]|[_ ht]].
    + destruct t0 as [t'|]; cbn [omap opt_pieces Qo] in *; [eapply Ht; [exact ept|exact ht]|]. injection ept as <-. discriminate.
    + cbn in ht. injection ht as <- _. reflexivity.
  - inv_pp hpp. try subst ps. cbn in ht. injection ht as <- _. reflexivity.
  - inv_pp hpp. try subst ps. cbn in ht. injection ht as <- _. reflexivity.
  - inv_pp hpp. try subst ps. cbn in ht. injection ht as <- _. reflexivity.
  - inv_pp hpp. try subst ps. rewrite !toks_app in ht. destruct (d =? dir_recv); cbn in ht; injection ht as <- _; reflexivity.
  - destruct (join_opt _ _) as [pa|]; [|discriminate].
    destruct rs as [|[[a|] [t1|]] [|q rs]]; inv_pp hpp; try discriminate hpp; try subst ps; cbn in ht; injection ht as <- _; reflexivity.
  - inv_pp hpp. try subst ps. cbn in ht. injection ht as <- _. reflexivity.
  - injection hpp as <-. cbn in ht. injection ht as <- _. reflexivity.
  - inv_pp hpp. try subst ps. rewrite !toks_app in ht. apply hd_app in ht. destruct ht as [[r' ht]|[hnil _]].
    + eapply IHl; [reflexivity|exact ht].
    + exfalso. match type of hnil with toks ?l0 = [] => pose proof (pp_nonempty l l0 ltac:(assumption)) as hl end. rewrite hnil in hl. cbn in hl. lia.
  - injection hpp as <-. cbn in ht. injection ht as <- _. reflexivity.
  - injection hpp as <-. cbn in ht. injection ht as <- _. reflexivity.
Qed.

(* ---- types ---- *)
Ltac simp_leaf :=
  cbn [ExprFull_base.cost ExprFull_base.need ExprFull_base.spine ExprFull_base.lastop ExprFull_base.norm is_operator negb app omap
       ExprFull_base.fullo Nat.add] in *.

Lemma A_slice p e' : A_stmt e' -> A_stmt (XSlice p e').
Proof.
  intros IHe ty el nxt hok ps hpp g0 b0 c g P rest hnxt hh.
  cbn [ExprFullOk.ok] in hok. cbn [ExprFullM.pp] in hpp.
  destruct (pp e') as [pe|] eqn:epe; [|discriminate]. injection hpp as <-.
  exists true. intros n hn. simp_leaf. rewrite andb_true_r. norm_toks.
  rewrite po_slice, (B_typ e' IHe nxt pe rest n hok epe hnxt) by fuel. reflexivity.
Qed.

Lemma A_map p k v : Qo A_stmt k -> A_stmt v -> A_stmt (XMap p k v).
Proof.
  intros IHk IHv ty el nxt hok ps hpp g0 b0 c g P rest hnxt hh.
  cbn [ExprFullOk.ok] in hok. cbn [ExprFullM.pp] in hpp.
  destruct k as [k'|]; [|discriminate]. cbn [Qo] in IHk.
  apply andb_prop in hok. destruct hok as [hk hv].
  destruct (pp k') as [pk|] eqn:epk; [|discriminate].
  destruct (pp v) as [pv|] eqn:epv; [|discriminate]. injection hpp as <-.
  exists true. intros n hn. simp_leaf. rewrite andb_true_r. norm_toks.
  rewrite po_map, (B_typ k' IHk (Some KRBrack) pk (KRBrack :: toks pv ++ rest) n hk epk eq_refl) by fuel.
  cbn [rbind]. rewrite (B_typ v IHv nxt pv rest n hv epv hnxt) by fuel. reflexivity.
Qed.

Lemma A_array p l e' : Qo A_stmt l -> A_stmt e' -> A_stmt (XArray p l e').
Proof.
  intros IHl IHe ty el nxt hok ps hpp g0 b0 c g P rest hnxt hh.
  cbn [ExprFullOk.ok] in hok. cbn [ExprFullM.pp] in hpp.
  apply andb_prop in hok. destruct hok as [hl he].
  destruct (opt_pieces (omap pp l)) as [pl|] eqn:epl; [|discriminate].
  destruct (pp e') as [pe|] eqn:epe; [|discriminate]. injection hpp as <-.
  exists true. intros n hn. simp_leaf. rewrite andb_true_r.
  destruct l as [l'|]; cbn [omap opt_pieces Qo ExprFull_base.fullo] in *.
  - norm_toks. rewrite po_array_len.
    + rewrite (B_expr l' IHl (Some KRBrack) pl (KRBrack :: toks pe ++ rest) n hl eq_refl epl eq_refl) by fuel.
      cbn [rbind]. rewrite (B_typ e' IHe nxt pe rest n he epe hnxt) by fuel. reflexivity.
    + destruct (first_tok_cons l' pl epl) as [t [r [h1 _]]]. rewrite h1. cbn [app].
      pose proof (pp_first l' pl t r epl h1) as hen. destruct t; try reflexivity; discriminate.
  - norm_toks. rewrite po_array_dots, (B_typ e' IHe nxt pe rest n he epe hnxt) by fuel. reflexivity.
Qed.

Lemma A_chan p d e' : A_stmt e' -> A_stmt (XChan p d e').
Proof.
  intros IHe ty el nxt hok ps hpp g0 b0 c g P rest hnxt hh.
  cbn [ExprFullOk.ok] in hok. cbn [ExprFullM.pp] in hpp.
  apply andb_prop in hok. destruct hok as [hok he].
  apply andb_prop in hok. destruct hok as [hdir hf3].
  destruct (pp e') as [pe|] eqn:epe; [|discriminate]. injection hpp as <-.
  exists c. intros n hn. simp_leaf. rewrite andb_true_r.
  destruct (d =? dir_recv) eqn:e1.
  - apply N.eqb_eq in e1. subst d.
    replace (dir_recv =? dir_send) with false by (symmetry; apply N.eqb_neq; exact dir_recv_send).
    norm_toks. rewrite po_recvchan, (B_typ e' IHe nxt pe rest n he epe hnxt) by fuel. reflexivity.
  - destruct (d =? dir_send) eqn:e2.
    + apply N.eqb_eq in e2. subst d. norm_toks. rewrite po_chan. unfold chan_dir.
      replace (bytes_eqb sym_arrow sym_arrow) with true by (symmetry; apply bytes_eqb_eq; reflexivity).
      cbn [fst snd]. rewrite (B_typ e' IHe nxt pe rest n he epe hnxt) by fuel. reflexivity.
    + rewrite !orb_false_r in hdir. apply N.eqb_eq in hdir. subst d.
      rewrite N.eqb_refl in hf3. cbn [andb] in hf3. apply negb_true_iff in hf3.
      norm_toks. rewrite po_chan.
      destruct (first_tok_cons e' pe epe) as [t [r [h1 h2]]]. rewrite h2 in hf3.
      assert (hcd : chan_dir dir_none dir_send sym_arrow (toks pe ++ rest) = (dir_none, toks pe ++ rest)).
      { unfold chan_dir. rewrite h1. cbn [app]. destruct t; try reflexivity. rewrite hf3. reflexivity. }
      rewrite hcd. cbn [fst snd]. rewrite (B_typ e' IHe nxt pe rest n he epe hnxt) by fuel. reflexivity.
Qed.

(* ---- struct types ---- *)
Hypothesis sym_mul_ok : is_nil sym_mul = false /\ no_byte 32 sym_mul = true.

Definition tfirst (t : tk) : bool :=
  match t with KIdent _ | KSym _ | KLP | KKw _ | KLBrack => true | _ => false end.

Lemma ident_text_ok a : has_prefix itea a = false -> ident_text a = a.
Proof. unfold ident_text, itea. intros ->. reflexivity. Qed.

(* a type starts with an identifier, an operator, a keyword, ( or [ *)
Lemma type_first e : forall el nxt ps t r, ok true el e nxt = true -> pp e = Some ps -> toks ps = t :: r -> tfirst t = true.
Proof.
  intros el nxt ps t r hok hpp ht. destruct e; cbn [ExprFullOk.ok] in hok; try discriminate; cbn [ExprFullM.pp] in hpp.
  - injection hpp as <-. cbn in ht. injection ht as <- _. reflexivity.
  - apply andb_prop in hok. destruct hok as [hok _]. apply andb_prop in hok. destruct hok as [hok _].
    apply andb_prop in hok. destruct hok as [hun _].
    inv_pp hpp. try subst ps. unfold ExprFullOk.xun_ok in hun.
    match goal with h : spell op = Some ?s |- _ => rewrite h in hun end.
    apply andb_prop in hun. destruct hun as [hun _]. apply andb_prop in hun. destruct hun as [h1 h2]. apply negb_true_iff in h1.
    rewrite !toks_app, (op_pieces_one _ h1 h2) in ht. cbn in ht. injection ht as <- _. reflexivity.
  - destruct e; try discriminate. cbn [ExprFullM.pp] in hpp. inv_pp hpp. try subst ps. cbn in ht. injection ht as <- _. reflexivity.
  - inv_pp hpp. try subst ps. cbn in ht. injection ht as <- _. reflexivity.
  - inv_pp hpp. try subst ps. cbn in ht. injection ht as <- _. reflexivity.
  - inv_pp hpp. try subst ps. cbn in ht. injection ht as <- _. reflexivity.
  - inv_pp hpp. try subst ps. rewrite !toks_app in ht. destruct (dir =? dir_recv); cbn in ht; injection ht as <- _; reflexivity.
  - destruct (join_opt _ _) as [pa|]; [|discriminate].
    destruct results as [|[[a|] [t1|]] [|q rs]]; inv_pp hpp; try discriminate hpp; try subst ps; cbn in ht; injection ht as <- _; reflexivity.
  - inv_pp hpp. try subst ps. cbn in ht. injection ht as <- _. reflexivity.
  - injection hpp as <-. cbn in ht. injection ht as <- _. reflexivity.
Qed.

Lemma unquote_raw tag : tag <> [] -> unquote (backquote tag) = ROk tag.
Proof.
  intros h. unfold backquote. destruct tag as [|c [|d s]]; [contradiction|reflexivity|].
  unfold unquote. cbn [app N.eqb Pos.eqb orb].
  change (c :: d :: s ++ [96]) with ((c :: d :: s) ++ [96]). rewrite removelast_snoc. destruct s; reflexivity.
Qed.

Definition names_toks (f : bytes -> bytes) (bs : list bytes) : list tk := flat_map (fun b => [KComma; KIdent (f b)]) bs.

Lemma toks_names' f bs : forall a,
  toks (sep_by [PcT KComma; PcS] (ExprFullM.T (KIdent (f a)) :: map (fun x => ExprFullM.T (KIdent (f x))) bs)) =
  KIdent (f a) :: names_toks f bs.
Proof.
  induction bs as [|b bs IH]; intros a; [reflexivity|]. cbn [map].
  change (sep_by [PcT KComma; PcS] (ExprFullM.T (KIdent (f a)) :: ExprFullM.T (KIdent (f b)) :: map (fun x => ExprFullM.T (KIdent (f x))) bs))
    with (ExprFullM.T (KIdent (f a)) ++ [PcT KComma; PcS] ++
          sep_by [PcT KComma; PcS] (ExprFullM.T (KIdent (f b)) :: map (fun x => ExprFullM.T (KIdent (f x))) bs)).
  rewrite !toks_app, IH. reflexivity.
Qed.

Lemma toks_names f a bs :
  toks (sep_by [PcT KComma; PcS] (map (fun x => ExprFullM.T (KIdent (f x))) (a :: bs))) = KIdent (f a) :: names_toks f bs.
Proof. apply toks_names'. Qed.

Definition not_comma (r : list tk) : bool := match r with KComma :: _ => false | _ => true end.

Lemma pnames_run f : forall bs acc r, not_comma r = true ->
  pnames (names_toks f bs ++ r) acc = ROk (acc ++ map f bs, r).
Proof.
  induction bs as [|b bs IH]; intros acc r hr.
  - cbn [names_toks flat_map app map]. rewrite app_nil_r. destruct r as [|[] r]; try reflexivity. discriminate.
  - cbn [names_toks flat_map app map pnames]. fold (names_toks f bs). rewrite IH by exact hr. rewrite <- app_assoc. reflexivity.
Qed.

Definition field_pieces (fd : field) : option (list pc) :=
  match pp (snd (fst fd)) with
  | Some pt =>
    Some (sep_by [PcT KComma; PcS] (map (fun a => ExprFullM.T (KIdent (ident_text a))) (fst (fst fd))) ++
          (match fst (fst fd) with [] => [] | _ :: _ => [PcS] end) ++ pt ++
          (match snd fd with [] => [] | _ :: _ => [PcS; PcT (KLit lit_string (backquote (snd fd)))] end))
  | None => None
  end.

Definition okfield (fd : field) (sep : tk) : bool :=
  let '(names, t, tag) := fd in
  let after := if is_nil tag then sep else KLit lit_string (backquote tag) in
  forallb (fun a => negb (has_prefix itea a)) names &&
  (match names with [] => embedded_ok t | _ :: _ => ok true false t (Some after) end).

Lemma forallb_ident_text names : forallb (fun a => negb (has_prefix itea a)) names = true -> map ident_text names = names.
Proof.
  induction names as [|a r IH]; [reflexivity|]. cbn [forallb map]. intros h. apply andb_prop in h. destruct h as [h1 h2].
  apply negb_true_iff in h1. rewrite (ident_text_ok a h1), (IH h2). reflexivity.
Qed.

(* the end of a field: the tag and the separator *)
Lemma field_tail_run names t tag sep rest' : (sep = KSemi \/ sep = KRBrace) ->
  field_tail lit_string names t
    (toks (match tag with [] => [] | _ :: _ => [PcS; PcT (KLit lit_string (backquote tag))] end) ++ sep :: rest') =
  ROk ((names, t, tag), match sep with KSemi => rest' | _ => sep :: rest' end).
Proof.
  intros hsep. destruct tag as [|c tag'].
  - cbn [toks app]. unfold field_tail. destruct hsep as [-> | ->]; reflexivity.
  - cbn [toks app]. unfold field_tail. rewrite N.eqb_refl, unquote_raw by discriminate. cbn [rbind].
    destruct hsep as [-> | ->]; reflexivity.
Qed.

Lemma field_run fd q sep rest' k :
  A_stmt (snd (fst fd)) -> field_pieces fd = Some q -> okfield fd sep = true -> (sep = KSemi \/ sep = KRBrace) ->
  (4 + full true (snd (fst fd)) <= S k)%nat ->
  pfield (S k) (toks q ++ sep :: rest') =
  ROk ((fst (fst fd), norm (snd (fst fd)), snd fd), match sep with KSemi => rest' | _ => sep :: rest' end).
Proof.
  destruct fd as [[names t] tag]. cbn [fst snd]. intros hA hq hok hsep hk.
  unfold field_pieces in hq. cbn [fst snd] in hq. destruct (pp t) as [pt|] eqn:ept; [|discriminate]. injection hq as <-.
  unfold okfield in hok. apply andb_prop in hok. destruct hok as [hnames hok].
  assert (hsepne : forall (A : Type) (x y : A), match sep with KLit _ _ => x | _ => y end = y) by (intros; destruct hsep as [-> | ->]; reflexivity).
  destruct names as [|a bs].
  - (* embedded *)
    cbn [map sep_by app]. rewrite !toks_app. rewrite <- !app_assoc.
    pose proof (field_tail_run [] (norm t) tag sep rest' hsep) as htail.
    unfold ExprFullOk.embedded_ok in hok.
    assert (hbase : forall b pb, base_ok b = true -> pp b = Some pb ->
              (exists a, toks pb = [KIdent a] /\ norm b = XIdent 0 a) \/
              (exists a c, toks pb = [KIdent a; KPeriod; KIdent c] /\ norm b = XSel 0 (XIdent 0 a) c)).
    { intros b pb hb hpb. destruct b; try discriminate.
      - cbn [base_ok] in hb. apply negb_true_iff in hb. cbn [ExprFullM.pp] in hpb. injection hpb as <-. rewrite (ident_text_ok _ hb).
        left. eexists. split; reflexivity.
      - destruct b; try discriminate. cbn [base_ok] in hb. apply negb_true_iff in hb. cbn [ExprFullM.pp] in hpb. injection hpb as <-.
        rewrite (ident_text_ok _ hb). right. eexists. eexists. split; reflexivity. }
    assert (hnext : forall r1, r1 = toks (match tag with [] => [] | _ :: _ => [PcS; PcT (KLit lit_string (backquote tag))] end) ++ sep :: rest' ->
               not_period r1 = true /\ (match r1 with KLit k0 _ :: _ => k0 = lit_string | _ => field_plain r1 = true /\ exists t0 r0, r1 = t0 :: r0 /\ ender t0 = true end)).
    { intros r1 ->. destruct tag; cbn [toks app]; [|split; reflexivity].
      destruct hsep as [-> | ->]; (split; [reflexivity|]); (split; [reflexivity|]); eexists; eexists; split; reflexivity. }
    destruct (match t with XUn _ _ _ => true | _ => false end) eqn:eun.
    + (* *T, *p.T *)
      destruct t as [| |pu op t| | | | | | | | | | | | | | | | |]; try discriminate.
      apply andb_prop in hok. destruct hok as [hok hb]. apply andb_prop in hok. destruct hok as [hop hmul].
      apply N.eqb_eq in hop. subst op.
      cbn [ExprFullM.pp] in ept. unfold ExprFullOk.spelled_mul in hmul.
      destruct (spell op_pointer) as [s|] eqn:es; [|discriminate]. apply bytes_eqb_eq in hmul. subst s.
      assert (hnop : is_operator t = false) by (destruct t as [| | | | | | |? t1| | | | | | | | | | | |]; try discriminate; reflexivity).
      rewrite (np_un_nonop op_pointer t hnop) in ept.
      destruct (pp t) as [pb|] eqn:epb; [|discriminate]. injection ept as <-.
      destruct sym_mul_ok as [hm1 hm2].
      rewrite !toks_app, (op_pieces_one sym_mul hm1 hm2). cbn [wrapp].
      replace (toks (if op_pointer =? op_extended_not then [PcS] else [])) with (@nil tk) by (destruct (op_pointer =? op_extended_not); reflexivity).
      cbn [app ExprFull_base.norm]. rewrite (wrapped_un_eq _ _ _ (np_un_nonop op_pointer t hnop)).
      cbn [pw]. rewrite <- ?app_assoc.
      pose proof (field_tail_run [] (XUn 0 op_pointer (norm t)) tag sep rest' hsep) as htail2.
      destruct (hbase _ pb hb epb) as [[a [h1 h2]]|[a [c0 [h1 h2]]]]; rewrite h1, h2 in *; cbn [app].
      * rewrite pfield_star; [exact htail2|]. destruct (hnext _ eq_refl) as [hnp _]. exact hnp.
      * rewrite pfield_star_sel. exact htail2.
    + assert (hok' : base_ok t = true) by (destruct t; try discriminate eun; exact hok).
      destruct (hbase t pt hok' ept) as [[a [h1 h2]]|[a [c0 [h1 h2]]]]; rewrite h1, h2 in *; cbn [app].
      * (* T *)
        destruct (hnext _ eq_refl) as [hnp hcase].
        destruct (toks _ ++ sep :: rest') as [|t0 r0] eqn:er; [destruct tag; discriminate|].
        destruct t0; try (destruct hcase as [hpl [t1 [r1 [heq hen]]]]; injection heq as <- <-;
                          rewrite pfield_one by exact hpl; rewrite pexpr_none by (try lia; exact hen); cbn [rbind]; exact htail).
        subst k0. rewrite pfield_embedded_tag. exact htail.
      * rewrite pfield_sel. exact htail.
  - (* named *)
    change (map (fun a0 => ExprFullM.T (KIdent (ident_text a0))) (a :: bs))
      with (map (fun x => ExprFullM.T (KIdent (ident_text x))) (a :: bs)).
    rewrite !toks_app, toks_names. cbn [toks app]. rewrite <- !app_assoc. cbn [app].
    cbn [forallb] in hnames. apply andb_prop in hnames. destruct hnames as [ha hbs]. apply negb_true_iff in ha.
    rewrite (ident_text_ok a ha).
    set (after := if is_nil tag then sep else KLit lit_string (backquote tag)) in *.
    set (tailtoks := toks (match tag with [] => [] | _ :: _ => [PcS; PcT (KLit lit_string (backquote tag))] end) ++ sep :: rest').
    assert (hafter : hd_error tailtoks = Some after).
    { unfold tailtoks, after. destruct tag; reflexivity. }
    destruct (first_tok_cons t pt ept) as [t0 [r0 [h1 _]]].
    pose proof (type_first t false (Some after) pt t0 r0 hok ept h1) as htf.
    pose proof (field_tail_run (a :: bs) (norm t) tag sep rest' hsep) as htail. fold tailtoks in htail.
    assert (hB : pexpr k fl_typ (toks pt ++ tailtoks) = ROk (Some (norm t), tailtoks)).
    { apply (B_typ t hA (Some after) pt tailtoks k hok ept hafter). fuel. }
    destruct bs as [|b bs'].
    + cbn [names_toks flat_map app]. rewrite pfield_one.
      * rewrite hB. cbn [rbind]. exact htail.
      * rewrite h1. cbn [app]. destruct t0; try discriminate; reflexivity.
    + assert (hnt : names_toks ident_text (b :: bs') ++ toks pt ++ tailtoks =
                    KComma :: (KIdent (ident_text b) :: names_toks ident_text bs') ++ toks pt ++ tailtoks) by reflexivity.
      rewrite hnt. rewrite pfield_names.
      change (KComma :: (KIdent (ident_text b) :: names_toks ident_text bs') ++ toks pt ++ tailtoks)
        with (names_toks ident_text (b :: bs') ++ toks pt ++ tailtoks).
      rewrite pnames_run by (rewrite h1; cbn [app]; destruct t0; try discriminate; reflexivity).
      cbn [rbind fst snd]. rewrite hB. cbn [rbind].
      rewrite (forallb_ident_text _ hbs). exact htail.
Qed.

Definition semi_sp : list pc := [PcT KSemi; PcS].

Definition okfields : list field -> bool :=
  fix go (l : list field) : bool :=
    match l with
    | [] => true
    | (names, t, tag) :: r =>
      let after := if is_nil tag then (if is_nil r then KRBrace else KSemi)
                   else KLit lit_string (backquote tag) in
      forallb (fun a => negb (has_prefix itea a)) names &&
      (match names with
       | [] => embedded_ok t
       | _ :: _ => ok true false t (Some after)
       end) && go r
    end.

Definition needfields (l : list field) : nat :=
  fold_right (fun (fd : field) acc => (4 + full true (snd (fst fd)) + acc)%nat) 0%nat l.

Definition normfd (fd : field) : field := (fst (fst fd), norm (snd (fst fd)), snd fd).

Lemma field_first fd q sep : field_pieces fd = Some q -> okfield fd sep = true ->
  exists t r, toks q = t :: r /\ not_rbrace (t :: r) = true.
Proof.
  destruct fd as [[names t] tag]. unfold field_pieces, okfield. cbn [fst snd]. intros hq hok.
  destruct (pp t) as [pt|] eqn:ept; [|discriminate]. injection hq as <-.
  apply andb_prop in hok. destruct hok as [_ hok].
  destruct names as [|a bs].
  - cbn [map sep_by app]. rewrite !toks_app.
    destruct (first_tok_cons t pt ept) as [t0 [r0 [h1 _]]]. rewrite h1. cbn [app]. eexists. eexists. split; [reflexivity|].
    unfold ExprFullOk.embedded_ok in hok.
    destruct t; try discriminate; cbn [ExprFullM.pp] in ept.
    + injection ept as <-. cbn in h1. injection h1 as <- _. reflexivity.
    + inv_pp ept. try subst pt. destruct sym_mul_ok as [hm1 hm2].
      apply andb_prop in hok. destruct hok as [hok _]. apply andb_prop in hok. destruct hok as [_ hmul].
      unfold ExprFullOk.spelled_mul in hmul.
      match goal with h : spell op = Some ?s |- _ => rewrite h in hmul end. apply bytes_eqb_eq in hmul. subst.
      rewrite !toks_app, (op_pieces_one sym_mul hm1 hm2) in h1. cbn in h1. injection h1 as <- _. reflexivity.
    + destruct t; try discriminate. cbn [ExprFullM.pp] in ept. inv_pp ept. try subst pt. cbn in h1. injection h1 as <- _. reflexivity.
  - rewrite !toks_app, toks_names. cbn [app]. eexists. eexists. split; reflexivity.
Qed.

Lemma fields_run : forall fields ls, Forall2 (fun fd q => field_pieces fd = Some q) fields ls ->
  Forall (fun fd : field => A_stmt (snd (fst fd))) fields ->
  forall rest, okfields fields = true ->
  forall m, (1 + needfields fields <= m)%nat ->
  pfields m (toks (sep_by semi_sp ls) ++ KRBrace :: rest) = ROk (map normfd fields, rest).
Proof.
  induction 1 as [|fd q fields ls hq hrest IH]; intros hA rest hok m hm.
  - cbn [sep_by toks app map]. destruct m as [|k]; [lia|]. apply pfields_end.
  - inversion hA as [|x y hAf hAr]. subst x y.
    cbn [needfields fold_right] in hm. destruct m as [|k]; [lia|]. destruct k as [|k]; [lia|].
    assert (hokf : okfield fd (if is_nil fields then KRBrace else KSemi) = true /\ okfields fields = true).
    { destruct fd as [[names t] tag]. cbn [okfields] in hok. apply andb_prop in hok. destruct hok as [hok hr].
      split; [|exact hr]. unfold okfield. exact hok. }
    destruct hokf as [hokf hokr].
    rewrite sep_by_cons. cbn [map].
    destruct (field_first fd q _ hq hokf) as [t0 [r0 [ht0 hnr]]].
    destruct hrest as [|fd2 q2 fields' ls' hq2 hrest'].
    + cbn [is_nil] in hokf. rewrite pfields_S by (rewrite ht0; exact hnr).
      rewrite (field_run fd q KRBrace rest k hAf hq hokf (or_intror eq_refl)) by lia.
      cbn [rbind fst snd]. rewrite pfields_end. reflexivity.
    + cbn [is_nil] in hokf. rewrite !toks_app. change (toks semi_sp) with [KSemi]. rewrite <- !app_assoc. cbn [app].
      rewrite pfields_S by (rewrite ht0; exact hnr).
      rewrite (field_run fd q KSemi (toks (sep_by semi_sp (q2 :: ls')) ++ KRBrace :: rest) k hAf hq hokf (or_introl eq_refl)) by lia.
      cbn [rbind fst snd].
      rewrite (IH hAr rest hokr (S k)) by (unfold needfields in *; cbn [fold_right] in *; lia).
      reflexivity.
Qed.

Lemma A_struct p fs : Forall (fun fd : field => A_stmt (snd (fst fd))) fs -> A_stmt (XStruct p fs).
Proof.
  intros IHfs ty el nxt hok ps hpp g0 b0 c g P rest hnxt hh.
  cbn [ExprFullOk.ok] in hok. cbn [ExprFullM.pp] in hpp.
  destruct (join_opt [PcT KSemi; PcS] _) as [pf|] eqn:epf; [|discriminate]. injection hpp as <-.
  destruct (join_opt_F2 [PcT KSemi; PcS] field_pieces fs pf epf) as [ls [hF2 ->]].
  exists true. intros n hn.
  cbn [ExprFull_base.cost ExprFull_base.need ExprFull_base.spine ExprFull_base.lastop ExprFull_base.norm is_operator negb app] in *.
  change (1 + n)%nat with (S n). rewrite andb_true_r. norm_toks.
  rewrite po_struct. change [PcT KSemi; PcS] with semi_sp.
  rewrite (fields_run fs ls hF2 IHfs rest hok n) by (unfold needfields; unfold ExprFull_base.full in *; lia).
  reflexivity.
Qed.

(* ---- function types: the second pass over the parameters ---- *)
Definition rawq (q : param) : param :=
  match q with
  | (Some a, None) => (None, Some (XIdent 0 a))
  | (name, t) => (name, omap norm t)
  end.
Definition normq (q : param) : param := (fst q, omap norm (snd q)).

(* the shape of a parameter in a list whose last one is named (nm) or not *)
Definition shape_ok (nm : bool) (q : param) : bool :=
  if nm then is_some (fst q) else negb (is_some (fst q)) && is_some (snd q).

Definition named_of (l : list param) : bool :=
  match last l (None, None) with (Some _, _) => true | _ => false end.

Lemma pass_run nm ei : forall l i,
  forallb (shape_ok nm) l = true ->
  (forall j, ei = Some j -> forall k a, nth_error l k = Some (Some a, None) -> (i + k)%nat <> j) ->
  params_pass nm ei i (map rawq l) = Some (map normq l).
Proof.
  induction l as [|[name t] r IH]; intros i hsh hei; [reflexivity|].
  cbn [forallb] in hsh. apply andb_prop in hsh. destruct hsh as [hq hr].
  cbn [map params_pass].
  assert (hrec : params_pass nm ei (S i) (map rawq r) = Some (map normq r)).
  { apply IH; [exact hr|]. intros j hj k a hk. specialize (hei j hj (S k) a hk). lia. }
  unfold shape_ok in hq. cbn [fst snd] in hq.
  destruct name as [a|], t as [t|]; cbn [rawq omap]; rewrite hrec; unfold normq; cbn [fst snd omap]; destruct nm; try reflexivity; try discriminate.
  - (* a grouped name: its raw form is the identifier as a type *)
    assert (hne : match ei with Some j => Nat.eqb i j | None => false end = false).
    { destruct ei as [j|]; [|reflexivity]. apply Nat.eqb_neq. intros ->. apply (hei j eq_refl 0%nat a eq_refl). lia. }
    rewrite hne. reflexivity.
Qed.

Lemma last_map_rawq l : l <> [] -> forallb (shape_ok (named_of l)) l = true ->
  (match snd (last l (None, None)) with Some _ => True | None => False end) ->
  match last (map rawq l) (None, None) with (Some _, _) => true | _ => false end = named_of l.
Proof.
  intros hne hsh hty. destruct (exists_last hne) as [front [q ->]]. unfold named_of in *.
  rewrite map_app. cbn [map]. rewrite !last_last in *. destruct q as [[a|] [t|]]; cbn in *; try reflexivity; contradiction.
Qed.

Lemma nth_error_snoc {A} (l : list A) x : nth_error (l ++ [x]) (length l) = Some x.
Proof. rewrite nth_error_app2 by lia. rewrite Nat.sub_diag. reflexivity. Qed.

Lemma finish_run l v isr rest :
  l <> [] -> forallb (shape_ok (named_of l)) l = true ->
  (match snd (last l (None, None)) with Some _ => True | None => False end) ->
  (forall front q, l = front ++ [q] -> forall k a, nth_error front k = Some (Some a, None) -> True) ->
  (v = true -> isr = false /\
     forall front q2 q, l = front ++ [q2; q] -> match snd q2 with Some _ => True | None => False end) ->
  params_finish isr (map rawq l) (if v then Some (length l - 1)%nat else None) rest = ROk (Some (map normq l), v, rest).
Proof.
  intros hne hsh hty _ hv. unfold params_finish.
  rewrite (last_map_rawq l hne hsh hty).
  destruct (exists_last hne) as [front [q hl]].
  assert (hpass : params_pass (named_of l) (if v then Some (length l - 1)%nat else None) 0 (map rawq l) = Some (map normq l)).
  { apply pass_run; [exact hsh|]. intros j hj k a hk. destruct v; [|discriminate]. injection hj as <-.
    subst l.
    assert (hlt : (k < length (front ++ [q]))%nat) by (apply nth_error_Some; rewrite hk; discriminate).
    rewrite app_length in *. cbn [length] in *.
    intros heq. assert (k = length front) by lia. subst k. rewrite nth_error_snoc in hk. injection hk as ->.
    rewrite last_last in hty. exact hty. }
  replace (match map rawq l with [] => false | _ :: _ => named_of l end) with (named_of l)
    by (destruct l; [contradiction|reflexivity]).
  rewrite hpass. destruct v; [|reflexivity].
  destruct (hv eq_refl) as [-> h2].
  subst l. rewrite app_length. cbn [length]. replace (length front + 1 - 1)%nat with (length front) by lia.
  rewrite map_app. cbn [map].
  replace (length front) with (length (map normq front)) at 1 by apply map_length.
  rewrite nth_error_snoc. rewrite last_last in hty. destruct q as [nq [tq|]]; [|contradiction]. unfold normq at 1. cbn [fst snd omap].
  assert (hfin : final_index (map normq front ++ [normq (nq, Some tq)]) (length front) = length front).
  { destruct front as [|f0 front0] using rev_ind; [reflexivity|]. clear IHfront0.
    rewrite app_length. cbn [length]. replace (length front0 + 1)%nat with (S (length front0)) by lia.
    cbn [final_index]. rewrite map_app. cbn [map]. rewrite <- app_assoc. cbn [app].
    replace (length front0) with (length (map normq front0)) at 1 by apply map_length.
    rewrite nth_error_app2 by lia. rewrite Nat.sub_diag. cbn [nth_error].
    specialize (h2 front0 f0 (nq, Some tq)). rewrite <- app_assoc in h2. specialize (h2 eq_refl).
    destruct f0 as [n0 [t0|]]; [reflexivity|contradiction]. }
  rewrite hfin. rewrite app_length, map_length. cbn [length].
  replace (S (length front) =? length front + 1)%nat with true by (symmetry; apply Nat.eqb_eq; lia).
  reflexivity.
Qed.

(* ---- function types: the loop over the parameters ---- *)
Lemma pexpr_ident_t m a r : (3 <= m)%nat -> not_period r = true ->
  pexpr m fl_typ (KIdent a :: r) = ROk (Some (XIdent 0 a), r).
Proof.
  intros hm hr. destruct m as [|[|[|k]]]; try lia. rewrite pexpr_S.
  change fl_typ with (FT false false false). cbn [fl_guard ExprFull_eqs.FT].
  change (mkfl false false true false) with (FT false false false).
  rewrite po_ident_t by exact hr. rewrite pt_type. reflexivity.
Qed.

Definition pp_next (isr : bool) (m : nat) (acc : list param) (q' : param) (ei : option nat) (sep : tk) (r : list tk) :=
  match sep with
  | KComma => pplist m isr r (acc ++ [q']) ei
  | _ => params_finish isr (acc ++ [q']) ei r
  end.

Definition is_sep (sep : tk) : Prop := sep = KComma \/ sep = KRP.

Lemma sep_ender sep : is_sep sep -> ender sep = true.
Proof. intros [-> | ->]; reflexivity. Qed.

Lemma step_unnamed t pt sep r isr acc ei m : A_stmt t -> pp t = Some pt -> is_sep sep ->
  ok true false t (Some sep) = true -> (3 <= m)%nat -> (full true t <= m)%nat ->
  pplist (S m) isr (toks pt ++ sep :: r) acc ei = pp_next isr m acc (None, Some (norm t)) ei sep r.
Proof.
  intros hA hpp hsep hok hm hf. rewrite pplist_S.
  rewrite (B_typ t hA (Some sep) pt (sep :: r) m hok hpp eq_refl hf). cbn [rbind fst snd].
  assert (hst : pp_step acc ei (sep :: r) = (ei, sep :: r)) by (destruct hsep as [-> | ->]; reflexivity).
  rewrite hst. cbn [fst snd]. rewrite pexpr_none by (try lia; apply sep_ender; exact hsep).
  cbn [rbind fst snd pp_param]. unfold pp_next. destruct hsep as [-> | ->]; reflexivity.
Qed.

Lemma type_not_period t pt el nxt rest : ok true el t nxt = true -> pp t = Some pt -> not_period (toks pt ++ rest) = true.
Proof.
  intros hok hpp. destruct (first_tok_cons t pt hpp) as [t0 [r0 [h1 _]]]. rewrite h1. cbn [app].
  pose proof (type_first t el nxt pt t0 r0 hok hpp h1) as h. destruct t0; try discriminate; reflexivity.
Qed.

Lemma type_not_dots t pt el nxt rest acc ei : ok true el t nxt = true -> pp t = Some pt ->
  pp_step acc ei (toks pt ++ rest) = (ei, toks pt ++ rest).
Proof.
  intros hok hpp. destruct (first_tok_cons t pt hpp) as [t0 [r0 [h1 _]]]. rewrite h1. cbn [app].
  pose proof (type_first t el nxt pt t0 r0 hok hpp h1) as h. destruct t0; try discriminate; reflexivity.
Qed.

Lemma step_named_typed a t pt sep r isr acc ei m : A_stmt t -> pp t = Some pt -> is_sep sep ->
  ok true false t (Some sep) = true -> (3 <= m)%nat -> (full true t <= m)%nat ->
  pplist (S m) isr (KIdent a :: toks pt ++ sep :: r) acc ei = pp_next isr m acc (Some a, Some (norm t)) ei sep r.
Proof.
  intros hA hpp hsep hok hm hf. rewrite pplist_S.
  rewrite pexpr_ident_t by (try lia; apply (type_not_period t pt false (Some sep)); assumption).
  cbn [rbind fst snd]. rewrite (type_not_dots t pt false (Some sep)) by assumption. cbn [fst snd].
  rewrite (B_typ t hA (Some sep) pt (sep :: r) m hok hpp eq_refl hf). cbn [rbind fst snd pp_param ident_name].
  unfold pp_next. destruct hsep as [-> | ->]; reflexivity.
Qed.

Lemma step_named_untyped a sep r isr acc ei m : is_sep sep -> (3 <= m)%nat ->
  pplist (S m) isr (KIdent a :: sep :: r) acc ei = pp_next isr m acc (None, Some (XIdent 0 a)) ei sep r.
Proof.
  intros hsep hm. rewrite pplist_S.
  rewrite pexpr_ident_t by (try lia; destruct hsep as [-> | ->]; reflexivity). cbn [rbind fst snd].
  assert (hst : pp_step acc ei (sep :: r) = (ei, sep :: r)) by (destruct hsep as [-> | ->]; reflexivity).
  rewrite hst. cbn [fst snd]. rewrite pexpr_none by (try lia; apply sep_ender; exact hsep).
  cbn [rbind fst snd pp_param]. unfold pp_next. destruct hsep as [-> | ->]; reflexivity.
Qed.

Lemma step_var_unnamed t pt r isr acc m : A_stmt t -> pp t = Some pt ->
  ok true false t (Some KRP) = true -> (3 <= m)%nat -> (full true t <= m)%nat ->
  pplist (S m) isr (KEllipsis :: toks pt ++ KRP :: r) acc None =
  params_finish isr (acc ++ [(None, Some (norm t))]) (Some (length acc)) r.
Proof.
  intros hA hpp hok hm hf. rewrite pplist_S.
  rewrite pexpr_none by (try lia; reflexivity). cbn [rbind fst snd pp_step].
  rewrite (B_typ t hA (Some KRP) pt (KRP :: r) m hok hpp eq_refl hf). cbn [rbind fst snd pp_param]. reflexivity.
Qed.

Lemma step_var_named a t pt r isr acc m : A_stmt t -> pp t = Some pt ->
  ok true false t (Some KRP) = true -> (3 <= m)%nat -> (full true t <= m)%nat ->
  pplist (S m) isr (KIdent a :: KEllipsis :: toks pt ++ KRP :: r) acc None =
  params_finish isr (acc ++ [(Some a, Some (norm t))]) (Some (length acc)) r.
Proof.
  intros hA hpp hok hm hf. rewrite pplist_S.
  rewrite pexpr_ident_t by (try lia; reflexivity). cbn [rbind fst snd pp_step].
  rewrite (B_typ t hA (Some KRP) pt (KRP :: r) m hok hpp eq_refl hf). cbn [rbind fst snd pp_param ident_name]. reflexivity.
Qed.

Definition ppq (q : param) : option bytes * option (option (list pc)) := (fst q, omap pp (snd q)).

Definition okplist (nm v : bool) : list param -> bool :=
  fix go (l : list param) : bool :=
    match l with
    | [] => true
    | (name, t) :: r =>
      (if nm then is_some name else negb (is_some name) && is_some t) &&
      (match t with
       | Some t' => ok true false t' (sep_next (is_nil r) KComma KRP)
       | None => negb (is_nil r)
       end) &&
      (match r with
       | [_] => if v then is_some t else true
       | _ => true
       end) &&
      go r
    end.

Definition needpl (l : list param) : nat :=
  fold_right (fun (q : param) (a : nat) => (4 + fullo (full true) (snd q) + a)%nat) 0%nat l.

Lemma seq_opt_nil {A} (l : list (option A)) : seq_opt l = Some [] -> l = [].
Proof. destruct l as [|[a|] r]; cbn [seq_opt]; [reflexivity| |discriminate]. destruct (seq_opt r); discriminate. Qed.

Lemma params_pieces_nonnil v x r : params_pieces v (x :: r) <> [].
Proof. destruct r as [|y r]; cbn [params_pieces]; [destruct v, x as [a [t|]]; discriminate|discriminate]. Qed.

Lemma params_run (nm v : bool) : forall l, Forall (fun q : param => Qo A_stmt (snd q)) l ->
  forall ls, seq_opt (params_pieces v (map ppq l)) = Some ls -> l <> [] -> okplist nm v l = true ->
  forall isr acc rest m, (needpl l <= m)%nat ->
  pplist m isr (toks (sep_by comma_sp ls) ++ KRP :: rest) acc None =
  params_finish isr (acc ++ map rawq l) (if v then Some (length acc + length l - 1)%nat else None) rest.
Proof.
  induction l as [|[name t] l IH]; intros hA ls hls hne hok isr acc rest m hm; [contradiction|].
  inversion hA as [|x y hAq hAr]. subst x y. cbn [snd] in hAq.
  cbn [okplist] in hok. apply andb_prop in hok. destruct hok as [hok hokr].
  apply andb_prop in hok. destruct hok as [hok hsnd]. apply andb_prop in hok. destruct hok as [hshape hty].
  cbn [needpl fold_right snd] in hm. destruct m as [|k]; [lia|].
  destruct l as [|q2 l'].
  - (* the last parameter *)
    destruct t as [t|]; [|discriminate]. cbn [Qo is_nil sep_next ExprFull_base.fullo] in *.
    destruct v; cbn [map] in hls; cbn [params_pieces] in hls; unfold ppq in hls; cbn [fst snd omap] in hls.
    + destruct (pp t) as [pt|] eqn:ept; [|discriminate]. cbn [seq_opt] in hls. injection hls as <-.
      cbn [sep_by map length]. replace (length acc + 1 - 1)%nat with (length acc) by lia.
      destruct name as [a|]; norm_toks; cbn [rawq omap].
      * apply step_var_named; try assumption; fuel.
      * apply step_var_unnamed; try assumption; fuel.
    + destruct name as [a|]; destruct (pp t) as [pt|] eqn:ept; cbn [param_pieces seq_opt] in hls; try discriminate;
        injection hls as <-; cbn [sep_by map]; norm_toks; cbn [rawq omap].
      * rewrite (step_named_typed a t pt KRP rest isr acc None k) by (try assumption; try (right; reflexivity); fuel). reflexivity.
      * rewrite (step_unnamed t pt KRP rest isr acc None k) by (try assumption; try (right; reflexivity); fuel). reflexivity.
  - (* not the last one *)
    cbn [is_nil sep_next] in hty.
    change (map ppq ((name, t) :: q2 :: l')) with (ppq (name, t) :: map ppq (q2 :: l')) in hls.
    change (params_pieces v (ppq (name, t) :: map ppq (q2 :: l')))
      with (param_pieces (ppq (name, t)) :: params_pieces v (map ppq (q2 :: l'))) in hls.
    cbn [seq_opt] in hls.
    destruct (param_pieces (ppq (name, t))) as [pq|] eqn:epq; [|discriminate].
    destruct (seq_opt (params_pieces v (map ppq (q2 :: l')))) as [ls'|] eqn:els; [|discriminate].
    injection hls as <-.
    assert (hls' : ls' <> []).
    { intros ->. apply seq_opt_nil in els. cbn [map] in els. revert els. apply params_pieces_nonnil. }
    rewrite sep_by_cons. destruct ls' as [|q2p ls'']; [contradiction|].
    rewrite !toks_app. change (toks comma_sp) with [KComma]. rewrite <- !app_assoc. cbn [app].
    assert (hIH : forall acc', pplist k isr (toks (sep_by comma_sp (q2p :: ls'')) ++ KRP :: rest) acc' None =
                    params_finish isr (acc' ++ map rawq (q2 :: l')) (if v then Some (length acc' + length (q2 :: l') - 1)%nat else None) rest).
    { intros acc'. apply (IH hAr (q2p :: ls'') eq_refl); [discriminate|exact hokr|]. unfold needpl in *. cbn [fold_right] in *. lia. }
    unfold ppq in epq. cbn [fst snd] in epq.
    assert (hfin : forall q', rawq (name, t) = q' ->
              params_finish isr ((acc ++ [q']) ++ map rawq (q2 :: l'))
                (if v then Some (length (acc ++ [q']) + length (q2 :: l') - 1)%nat else None) rest =
              params_finish isr (acc ++ map rawq ((name, t) :: q2 :: l'))
                (if v then Some (length acc + length ((name, t) :: q2 :: l') - 1)%nat else None) rest).
    { intros q' <-. rewrite <- app_assoc. cbn [app map]. rewrite app_length. cbn [length].
      replace (length acc + 1 + S (length l') - 1)%nat with (length acc + S (S (length l')) - 1)%nat by lia. reflexivity. }
    destruct name as [a|], t as [t|]; cbn [omap param_pieces Qo ExprFull_base.fullo] in *.
    + destruct (pp t) as [pt|] eqn:ept; [|discriminate]. injection epq as <-. norm_toks.
      rewrite (step_named_typed a t pt KComma _ isr acc None k) by (try assumption; try (left; reflexivity); fuel).
      unfold pp_next. rewrite hIH. apply hfin. reflexivity.
    + injection epq as <-. norm_toks.
      rewrite step_named_untyped by (try (left; reflexivity); lia).
      unfold pp_next. rewrite hIH. apply hfin. reflexivity.
    + destruct (pp t) as [pt|] eqn:ept; [|discriminate]. injection epq as <-.
      rewrite (step_unnamed t pt KComma _ isr acc None k) by (try assumption; try (left; reflexivity); fuel).
      unfold pp_next. rewrite hIH. apply hfin. reflexivity.
    + discriminate.
Qed.

Lemma okplist_shape nm v : forall l, okplist nm v l = true -> forallb (shape_ok nm) l = true.
Proof.
  induction l as [|[name t] r IH]; intros h; [reflexivity|]. cbn [okplist] in h.
  apply andb_prop in h. destruct h as [h hr]. apply andb_prop in h. destruct h as [h _]. apply andb_prop in h. destruct h as [hs _].
  cbn [forallb]. rewrite (IH hr), andb_true_r. exact hs.
Qed.

Lemma okplist_last_typed nm v : forall l, l <> [] -> okplist nm v l = true ->
  match snd (last l (None, None)) with Some _ => True | None => False end.
Proof.
  induction l as [|[name t] r IH]; intros hne h; [contradiction|]. cbn [okplist] in h.
  apply andb_prop in h. destruct h as [h hr]. apply andb_prop in h. destruct h as [h _]. apply andb_prop in h. destruct h as [_ ht].
  destruct r as [|q r'].
  - cbn [last snd]. destruct t; [exact I|discriminate].
  - replace (last ((name, t) :: q :: r') (@None bytes, @None ex)) with (last (q :: r') (@None bytes, @None ex)) by reflexivity.
    apply IH; [discriminate|exact hr].
Qed.

Lemma okplist_second nm : forall l, okplist nm true l = true ->
  forall front q2 q, l = front ++ [q2; q] -> match snd q2 with Some _ => True | None => False end.
Proof.
  induction l as [|[name t] r IH]; intros h front q2 q hl; [destruct front; discriminate|].
  cbn [okplist] in h. apply andb_prop in h. destruct h as [h hr]. apply andb_prop in h. destruct h as [_ hsnd].
  destruct front as [|f0 front'].
  - cbn [app] in hl. injection hl as h1 h2. subst q2 r. cbn [snd]. destruct t; [exact I|discriminate].
  - cbn [app] in hl. injection hl as _ ->. apply (IH hr front' q2 q eq_refl).
Qed.

Lemma params_full v l ls isr rest m :
  Forall (fun q : param => Qo A_stmt (snd q)) l -> seq_opt (params_pieces v (map ppq l)) = Some ls ->
  l <> [] -> okplist (named_of l) v l = true -> (v = true -> isr = false) ->
  (needpl l <= m)%nat ->
  pplist m isr (toks (sep_by comma_sp ls) ++ KRP :: rest) [] None = ROk (Some (map normq l), v, rest).
Proof.
  intros hA hls hne hok hv hm.
  rewrite (params_run (named_of l) v l hA ls hls hne hok isr [] rest m hm). cbn [app length Nat.add].
  apply finish_run; try assumption.
  - apply (okplist_shape _ v). exact hok.
  - apply (okplist_last_typed (named_of l) v l hne hok).
  - intros; exact I.
  - intros ->. split; [apply hv; reflexivity|]. apply (okplist_second (named_of l) l hok).
Qed.

(* the parameter list does not start with a right parenthesis *)
Lemma params_first nm v l ls : l <> [] -> okplist nm v l = true ->
  seq_opt (params_pieces v (map ppq l)) = Some ls ->
  forall rest, match toks (sep_by comma_sp ls) ++ rest with KRP :: _ => False | _ => True end.
Proof.
  intros hne hok hls rest. destruct l as [|[name t] r]; [contradiction|].
  cbn [okplist] in hok. apply andb_prop in hok. destruct hok as [hok _]. apply andb_prop in hok. destruct hok as [hok _].
  apply andb_prop in hok. destruct hok as [_ hty].
  assert (hfirst : forall pt t', pp t' = Some pt -> forall nxt, ok true false t' nxt = true -> forall rest',
            match toks pt ++ rest' with KRP :: _ => False | _ => True end).
  { intros pt t' hpt nxt hokt rest'. destruct (first_tok_cons t' pt hpt) as [t0 [r0 [h1 _]]]. rewrite h1. cbn [app].
    pose proof (type_first t' false nxt pt t0 r0 hokt hpt h1) as h. destruct t0; try discriminate; exact I. }
  destruct r as [|q2 r'].
  - cbn [map] in hls. cbn [params_pieces] in hls. unfold ppq in hls. cbn [fst snd] in hls.
    destruct t as [t|]; [|discriminate]. cbn [omap] in hls.
    destruct v, name as [a|]; destruct (pp t) as [pt|] eqn:ept; cbn [param_pieces seq_opt] in hls; try discriminate;
      injection hls as <-; cbn [sep_by]; norm_toks; try exact I.
    apply (hfirst pt t ept _ hty).
  - change (map ppq ((name, t) :: q2 :: r')) with (ppq (name, t) :: map ppq (q2 :: r')) in hls.
    change (params_pieces v (ppq (name, t) :: map ppq (q2 :: r')))
      with (param_pieces (ppq (name, t)) :: params_pieces v (map ppq (q2 :: r'))) in hls.
    cbn [seq_opt] in hls. unfold ppq at 1 in hls. cbn [fst snd] in hls.
    destruct (param_pieces (name, omap pp t)) as [pq|] eqn:epq; [|discriminate].
    destruct (seq_opt _) as [ls'|]; [|discriminate]. injection hls as <-.
    rewrite sep_by_cons.
    assert (hq : forall rest', match toks pq ++ rest' with KRP :: _ => False | _ => True end).
    { intros rest'. destruct name as [a|], t as [t|]; cbn [omap param_pieces] in epq.
      - destruct (pp t); [|discriminate]. injection epq as <-. exact I.
      - injection epq as <-. exact I.
      - destruct (pp t) as [pt|] eqn:ept; [|discriminate]. injection epq as <-. apply (hfirst pt t ept _ hty).
      - discriminate. }
    destruct ls'; [apply hq|]. rewrite !toks_app, <- !app_assoc. apply hq.
Qed.

(* a parenthesised parameter list, as parameters or as results *)
Lemma plist_tokens v l pa : join_opt comma_sp (params_pieces v (map ppq l)) = Some pa ->
  exists ls, seq_opt (params_pieces v (map ppq l)) = Some ls /\ pa = sep_by comma_sp ls.
Proof.
  unfold join_opt. destruct (seq_opt _) as [ls|]; [|discriminate]. intros h. injection h as <-. exists ls. auto.
Qed.

Lemma params_parse macro v l pa rest m :
  Forall (fun q : param => Qo A_stmt (snd q)) l ->
  join_opt comma_sp (params_pieces v (map ppq l)) = Some pa ->
  okplist (named_of l) v l = true -> (v = true -> l <> []) ->
  (2 + needpl l <= m)%nat ->
  pparams m macro false (KLP :: toks pa ++ KRP :: rest) = ROk (Some (map normq l), v, rest).
Proof.
  intros hA hpa hok hv hm. destruct (plist_tokens v l pa hpa) as [ls [hls ->]].
  destruct m as [|k]; [lia|].
  destruct l as [|q l'].
  - cbn [map params_pieces seq_opt] in hls. injection hls as <-. cbn [sep_by toks app map].
    rewrite pparams_empty. destruct v; [exfalso; apply (hv eq_refl); reflexivity|reflexivity].
  - rewrite pparams_list by (apply (params_first (named_of (q :: l')) v (q :: l') ls); [discriminate|exact hok|exact hls]).
    apply (params_full v (q :: l') ls false rest k hA hls); [discriminate|exact hok|reflexivity|lia].
Qed.

Lemma results_parse l pa rest m :
  Forall (fun q : param => Qo A_stmt (snd q)) l ->
  join_opt comma_sp (params_pieces false (map ppq l)) = Some pa ->
  okplist (named_of l) false l = true -> l <> [] ->
  (2 + needpl l <= m)%nat ->
  pparams m false true (KLP :: toks pa ++ KRP :: rest) = ROk (Some (map normq l), false, rest).
Proof.
  intros hA hpa hok hne hm. destruct (plist_tokens false l pa hpa) as [ls [hls ->]].
  destruct m as [|k]; [lia|].
  rewrite pparams_result_list; [|exact result_start_lp|apply (params_first (named_of l) false l ls hne hok hls)].
  apply (params_full false l ls true rest k hA hls hne hok); [discriminate|lia].
Qed.

Lemma params_pieces_false l : params_pieces false l = map param_pieces l.
Proof.
  induction l as [|q r IH]; [reflexivity|]. destruct r as [|q2 r'].
  - cbn [params_pieces map]. destruct q as [a [t|]]; reflexivity.
  - change (params_pieces false (q :: q2 :: r')) with (param_pieces q :: params_pieces false (q2 :: r')). rewrite IH. reflexivity.
Qed.

Definition resneed (rs : list param) : nat := match rs with [(None, Some t)] => full true t | _ => needpl rs end.

Lemma need_func ty p macro ps rs v :
  need ty (XFunc p macro ps rs v) = (8 + needpl ps + resneed rs)%nat.
Proof. reflexivity. Qed.

Lemma A_func p macro ps rs v :
  Forall (fun q : param => Qo A_stmt (snd q)) ps -> Forall (fun q : param => Qo A_stmt (snd q)) rs ->
  A_stmt (XFunc p macro ps rs v).
Proof.
  intros IHps IHrs ty el nxt hok pcs hpp g0 b0 c g P rest hnxt hh.
  cbn [ExprFullOk.ok] in hok.
  apply andb_prop in hok. destruct hok as [hok hres].
  apply andb_prop in hok. destruct hok as [hok hps].
  apply andb_prop in hok. destruct hok as [hlit hv].
  change (okplist (named_of ps) v ps = true) in hps.
  cbn [ExprFullM.pp] in hpp.
  change (map (fun q : option bytes * option ex => (fst q, omap pp (snd q))) ps) with (map ppq ps) in hpp.
  destruct (join_opt comma_sp (params_pieces v (map ppq ps))) as [pa|] eqn:epa; [|discriminate].
  assert (hvne : v = true -> ps <> []).
  { intros -> ->. cbn in hv. discriminate hv. }
  (* the results *)
  assert (hR : exists pr, pcs = ExprFullM.T (KKw (if macro then WMacro else WFunc)) ++ ExprFullM.T KLP ++ pa ++ ExprFullM.T KRP ++ pr /\
            forall m, (2 + resneed rs <= m)%nat ->
              exists ropt, pparams m macro true (toks pr ++ rest) = ROk (ropt, false, rest) /\
                match ropt with Some r => r | None => [] end = map normq rs /\ (macro = true -> ropt <> None)).
  { assert (hlist : forall pr, rs <> [] ->
              join_opt comma_sp (map (fun q : param => param_pieces (fst q, omap pp (snd q))) rs) = Some pr ->
              okplist (named_of rs) false rs = true -> macro = false ->
              forall m, (2 + needpl rs <= m)%nat ->
              exists ropt, pparams m macro true (toks ([PcS] ++ ExprFullM.T KLP ++ pr ++ ExprFullM.T KRP) ++ rest) = ROk (ropt, false, rest) /\
                match ropt with Some r => r | None => [] end = map normq rs /\ (macro = true -> ropt <> None)).
    { intros pr hne hj hokr -> m hm. exists (Some (map normq rs)). split; [|split; [reflexivity|discriminate]].
      norm_toks. apply results_parse; try assumption.
      rewrite params_pieces_false, map_map. exact hj. }
    destruct macro.
    - (* macro: one of the result names *)
      destruct rs as [|[[a|] [t|]] rs']; try (cbn beta iota in hres; discriminate hres).
      destruct t; try (cbn beta iota in hres; discriminate hres). destruct rs' as [|q rs']; try (cbn beta iota in hres; discriminate hres).
      apply andb_prop in hres. destruct hres as [hmem hit]. apply negb_true_iff in hit.
      cbn [ExprFullM.pp omap] in hpp. injection hpp as <-. rewrite (ident_text_ok _ hit).
      eexists. split; [rewrite <- !app_assoc; reflexivity|]. intros m hm. exists (Some [(None, Some (XIdent 0 name))]).
      split; [|split; [reflexivity|discriminate]]. norm_toks. destruct m as [|k]; [lia|]. apply pparams_macro_result. exact hmem.
    - destruct rs as [|[[a|] [t|]] [|q rs']].
      + (* no result *)
        injection hpp as <-. exists []. split; [rewrite !app_nil_r; reflexivity|]. intros m hm. exists None.
        split; [|split; [reflexivity|discriminate]]. cbn [toks app].
        apply andb_prop in hres. destruct hres as [h1 h2]. apply negb_true_iff in h1. apply negb_true_iff in h2.
        destruct m as [|k]; [lia|]. destruct rest as [|t0 r0]; [apply pparams_result_none_nil|].
        cbn [hd_error] in hnxt. subst nxt. cbn [ExprFullOk.starts_result_o ExprFullOk.is_tok] in h1, h2.
        apply pparams_result_none; [exact h1|]. intros ->. discriminate.
      + destruct (join_opt comma_sp _) as [pr|] eqn:epr in hpp; [|discriminate]. injection hpp as <-.
        eexists. split; [rewrite <- !app_assoc; reflexivity|]. intros m hm. apply hlist; first [assumption | discriminate | reflexivity | lia].
      + destruct (join_opt comma_sp _) as [pr|] eqn:epr in hpp; [|discriminate]. injection hpp as <-.
        eexists. split; [rewrite <- !app_assoc; reflexivity|]. intros m hm. apply hlist; first [assumption | discriminate | reflexivity | lia].
      + destruct (join_opt comma_sp _) as [pr|] eqn:epr in hpp; [|discriminate]. injection hpp as <-.
        eexists. split; [rewrite <- !app_assoc; reflexivity|]. intros m hm. apply hlist; first [assumption | discriminate | reflexivity | lia].
      + destruct (join_opt comma_sp _) as [pr|] eqn:epr in hpp; [|discriminate]. injection hpp as <-.
        eexists. split; [rewrite <- !app_assoc; reflexivity|]. intros m hm. apply hlist; first [assumption | discriminate | reflexivity | lia].
      + (* one unnamed result, without parentheses *)
        apply andb_prop in hres. destruct hres as [hst hokt].
        destruct (pp t) as [pt|] eqn:ept; [|discriminate]. injection hpp as <-.
        inversion IHrs as [|x y hAt _]. subst x y. cbn [snd Qo] in hAt.
        eexists. split; [rewrite <- !app_assoc; reflexivity|]. intros m hm. exists (Some [(None, Some (norm t))]).
        split; [|split; [reflexivity|discriminate]]. norm_toks.
        destruct (first_tok_cons t pt ept) as [t0 [r0 [h1 h2]]]. rewrite h2 in hst. cbn [ExprFullOk.starts_result_o] in hst.
        destruct m as [|k]; [lia|]. rewrite h1. cbn [app]. rewrite pparams_result_bare by exact hst.
        rewrite (app_comm_cons r0 rest t0), <- h1.
        rewrite (B_type t hAt false true nxt pt rest k hokt ept hnxt) by (unfold resneed in hm; lia).
        reflexivity.
      + destruct (join_opt comma_sp _) as [pr|] eqn:epr in hpp; [|discriminate]. injection hpp as <-.
        eexists. split; [rewrite <- !app_assoc; reflexivity|]. intros m hm. apply hlist; first [assumption | discriminate | reflexivity | lia].
      + discriminate.
      + destruct (join_opt comma_sp _) as [pr|] eqn:epr in hpp; [|discriminate]. injection hpp as <-.
        eexists. split; [rewrite <- !app_assoc; reflexivity|]. intros m hm. apply hlist; first [assumption | discriminate | reflexivity | lia]. }
  destruct hR as [pr [-> hR]].
  exists c. intros n hn. rewrite need_func in hn.
  cbn [ExprFull_base.cost ExprFull_base.spine ExprFull_base.lastop ExprFull_base.norm is_operator negb app] in *.
  change (1 + n)%nat with (S n). rewrite andb_true_r. norm_toks.
  assert (hfuel : (6 + needpl ps + resneed rs <= n)%nat) by lia.
  destruct n as [|n1]; [lia|]. destruct n1 as [|n2]; [lia|].
  assert (hparse : forall lit, (lit = true -> match rest with KLBrace :: _ => False | _ => True end) ->
             pfunc (S (S n2)) macro lit (KLP :: toks pa ++ KRP :: toks pr ++ rest) =
             ROk (XFunc 0 macro (map normq ps) (map normq rs) v, rest)).
  { intros lit hlitr. rewrite pfunc_S by reflexivity.
    rewrite (params_parse macro v ps pa (toks pr ++ rest) (S n2) IHps epa hps hvne) by lia.
    cbn [rbind fst snd].
    destruct (hR (S n2)) as [ropt [hr1 [hr2 hr3]]]; [lia|]. rewrite hr1. cbn [rbind fst snd].
    assert (hm : match ropt, macro with None, true => false | _, _ => true end = true).
    { destruct ropt; [reflexivity|]. destruct macro; [|reflexivity]. exfalso. apply (hr3 eq_refl). reflexivity. }
    destruct ropt as [r|], macro; try discriminate hm; cbn beta iota zeta; cbn beta iota in hr2; rewrite <- hr2;
      (destruct lit; [|reflexivity]; specialize (hlitr eq_refl); destruct rest as [|[] ?]; try reflexivity; contradiction). }
  destruct macro.
  - rewrite po_macro, hparse by discriminate. reflexivity.
  - rewrite po_func. cbn [fl_type FL]. rewrite hparse; [reflexivity|].
    intros hl. apply negb_true_iff in hl. subst ty. cbn [orb] in hlit. apply negb_true_iff in hlit.
    destruct rest as [|t0 r0]; [exact I|]. cbn [hd_error] in hnxt. subst nxt. cbn [ExprFullOk.is_tok] in hlit.
    destruct t0; try exact I. discriminate.
Qed.

(* ---- every expression ---- *)
Theorem A_all : forall e, A_stmt e.
Proof.
  apply ex_ind2.
  - apply A_ident.
  - apply A_lit.
  - apply A_un.
  - apply A_bin.
  - apply A_call.
  - apply A_index.
  - apply A_slicing.
  - apply A_sel.
  - apply A_typeassert.
  - apply A_complit.
  - apply A_map.
  - apply A_slice.
  - apply A_array.
  - apply A_chan.
  - apply A_func.
  - apply A_struct.
  - apply A_interface.
  - apply A_default.
  - apply A_render.
  - apply A_funclit.
Qed.

(* the whole expression, read as the statement parser reads it *)
Theorem parse_full : forall e el nxt ps rest g0 m,
  ok false el e nxt = true -> stop_tok nxt = true -> pp e = Some ps -> hd_error rest = nxt ->
  (full false e <= m)%nat ->
  pexpr m (mkfl g0 el false false) (toks ps ++ rest) = ROk (Some (norm e), rest).
Proof.
  intros e el nxt ps rest g0 m hok hstop hpp hnxt hm.
  exact (A_B e (A_all e) false el nxt hok (fun _ => hstop) ps hpp g0 false rest hnxt m hm).
Qed.

(* a type, read with mustBeType *)
Theorem parse_type : forall e nxt ps rest g0 b0 m,
  ok true false e nxt = true -> pp e = Some ps -> hd_error rest = nxt ->
  (full true e <= m)%nat ->
  pexpr m (mkfl g0 false true b0) (toks ps ++ rest) = ROk (Some (norm e), rest).
Proof. intros e nxt ps rest g0 b0 m hok hpp hnxt hm. exact (B_type e (A_all e) g0 b0 nxt ps rest m hok hpp hnxt hm). Qed.

(* x.(type) as the whole guard of a type switch *)
Theorem parse_guard : forall x px rest m,
  is_operator x = false -> ok false false x (Some KPeriod) = true -> pp x = Some px ->
  stop_tok (hd_error rest) = true ->
  (cost false x + need false x + 3 <= m)%nat ->
  pexpr m (mkfl true false false false) (toks px ++ KPeriod :: KLP :: KKw WType :: KRP :: rest) =
  ROk (Some (XTypeAssert 0 (norm x) None), rest).
Proof.
  intros x px rest m hnop hok hpp hstop hm.
  destruct (post_A x px (A_all x) hpp hnop false KPeriod hok true false true [] (KLP :: KKw WType :: KRP :: rest)) as [c' h].
  destruct m as [|k]; [lia|]. rewrite pexpr_S. cbn [fl_guard].
  change (mkfl true false false false) with (FE true false).
  replace k with (cost false x + S (S (k - cost false x - 2)))%nat by lia.
  rewrite h by lia. rewrite pt_guard.
  destruct rest as [|t r].
  - rewrite pt_ret_guard_nil by reflexivity. reflexivity.
  - cbn [hd_error ExprFullOk.stop_tok] in hstop.
    destruct t; try discriminate; try (rewrite pt_ret_guard by reflexivity; reflexivity).
    apply andb_prop in hstop. destruct hstop as [h1 h2]. apply negb_true_iff in h1.
    destruct (klookup binary_tokens s) eqn:ek; [discriminate|].
    rewrite pt_sym_inert_guard by (try assumption; reflexivity). reflexivity.
Qed.

End Main.
