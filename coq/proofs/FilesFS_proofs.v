(* Proofs about the model of files.go (property C23). *)
From Verif Require Import Bytes FilesFSM Paths_proofs FsContract.
From Coq Require Import Permutation Sorted.
Open Scope N_scope.

(* ------------------------------------------------------------------ validity as facts *)

Record vfacts (fs : files) : Prop := {
  vf_nodup : NoDup (map fst fs);
  vf_valid : forall key, In key (map fst fs) -> valid_path key = true /\ key <> [dot];
  vf_noconf : forall k1 k2 t, In k1 (map fst fs) -> In k2 (map fst fs) -> k2 <> k1 ++ slash :: t
}.

Lemma valid_files_facts fs : valid_files fs = true -> vfacts fs.
Proof.
  unfold valid_files. intros H. apply andb_prop in H. destruct H as [H H3]. apply andb_prop in H. destruct H as [H1 H2].
  rewrite forallb_forall in H2, H3. constructor.
  - apply nodup_names_NoDup. assumption.
  - intros key Hk. apply in_map_iff in Hk. destruct Hk as (kv & <- & Hkv).
    specialize (H2 kv Hkv). apply andb_prop in H2. destruct H2 as [Hv Hd]. split; [assumption|].
    apply negb_true_iff in Hd. apply beq_false. assumption.
  - intros k1 k2 t Hk1 Hk2 E. apply in_map_iff in Hk1. destruct Hk1 as (kv1 & <- & Hkv1).
    apply in_map_iff in Hk2. destruct Hk2 as (kv2 & <- & Hkv2).
    specialize (H3 kv1 Hkv1). cbv beta in H3. apply negb_true_iff in H3.
    assert (Hex : existsb (fun kv => has_prefix (fst kv1 ++ [slash]) (fst kv)) fs = true).
    { apply existsb_exists. exists kv2. split; [assumption|]. apply has_prefix_spec. exists t.
      rewrite E, <- app_assoc. reflexivity. }
    exact (eq_true_false_abs _ Hex H3).
Qed.

Lemma vfacts_valid_files fs : vfacts fs -> valid_files fs = true.
Proof.
  intros [H1 H2 H3]. unfold valid_files. rewrite !andb_true_iff. split; [split|].
  - apply nodup_names_NoDup. assumption.
  - apply forallb_forall. intros kv Hkv. destruct (H2 (fst kv)) as [Hv Hd]; [apply in_map; assumption|].
    rewrite Hv. simpl. apply negb_true_iff, beq_false. assumption.
  - apply forallb_forall. intros kv Hkv. apply negb_true_iff.
    destruct (existsb _ fs) eqn:E; [|reflexivity]. exfalso.
    apply existsb_exists in E. destruct E as (kv2 & Hkv2 & Hp). apply has_prefix_spec in Hp. destruct Hp as (t & Ht).
    apply (H3 (fst kv) (fst kv2) t); [apply in_map; assumption|apply in_map; assumption|].
    rewrite Ht, <- app_assoc. reflexivity.
Qed.

Lemma key_velems fs key : vfacts fs -> In key (map fst fs) -> velems key = true.
Proof. intros V H. destruct (vf_valid fs V key H) as [Hv Hd]. apply valid_path_velems; assumption. Qed.

Lemma is_file_key fs name data : is_file fs name data -> In name (map fst fs).
Proof. intros H. apply in_map_iff. exists (name, data). tauto. Qed.

(* ------------------------------------------------------------------ directory prefixes *)

Lemma dir_prefix_dot : dir_prefix [dot] = [].
Proof. reflexivity. Qed.

Lemma dir_prefix_other dn : dn <> [dot] -> dir_prefix dn = dn ++ [slash].
Proof. intros H. unfold dir_prefix. apply beq_false in H. rewrite H. reflexivity. Qed.

Lemma dir_prefix_dirlike dn : dirlike (dir_prefix dn).
Proof.
  unfold dir_prefix. destruct (bytes_eqb dn [dot]); [left; reflexivity|right; exists dn; reflexivity].
Qed.

Lemma skipn_len_app {A} (a b : list A) : skipn (length a) (a ++ b) = b.
Proof. induction a; simpl; [reflexivity|assumption]. Qed.

Lemma firstn_len_app {A} (a b : list A) k : firstn (length a + k) (a ++ b) = a ++ firstn k b.
Proof. induction a; simpl; [reflexivity|f_equal; assumption]. Qed.

Lemma firstn_len_app0 {A} (a b : list A) : firstn (length a) (a ++ b) = a.
Proof. induction a; simpl; [destruct b; reflexivity|f_equal; assumption]. Qed.

(* ------------------------------------------------------------------ one key seen by the ReadDir loop *)

Definition file_child (dirp key c : bytes) : Prop := key = dirp ++ c /\ noslash c /\ c <> [].
Definition dir_child (dirp key c : bytes) : Prop := exists t, key = dirp ++ c ++ slash :: t /\ noslash c /\ c <> [].

Lemma noslash_split_unique a a' b b' :
  a ++ slash :: b = a' ++ slash :: b' -> noslash a -> noslash a' -> a = a'.
Proof.
  revert a'. induction a as [|x a IH]; intros [|y a'] E Ha Ha'; simpl in E.
  - reflexivity.
  - injection E as E _. exfalso. apply Ha'. simpl. left. congruence.
  - injection E as E _. exfalso. apply Ha. simpl. left. congruence.
  - injection E as -> E. f_equal. apply IH with (a' := a'); [assumption| |].
    + intros H. apply Ha. simpl. tauto.
    + intros H. apply Ha'. simpl. tauto.
Qed.

Lemma file_dir_excl dirp key c c' : file_child dirp key c -> dir_child dirp key c' -> False.
Proof.
  intros (E & Hc & _) (t & E' & _). rewrite E in E'. apply app_inv_head in E'.
  apply Hc. rewrite E'. apply in_app_iff. simpl. tauto.
Qed.

Lemma child_unique dirp key c c' :
  file_child dirp key c \/ dir_child dirp key c -> file_child dirp key c' \/ dir_child dirp key c' -> c = c'.
Proof.
  intros [H|H] [H'|H'].
  - destruct H as (E & _). destruct H' as (E' & _). rewrite E in E'. apply app_inv_head in E'. assumption.
  - exfalso. eapply file_dir_excl; eassumption.
  - exfalso. eapply file_dir_excl; eassumption.
  - destruct H as (t & E & Hc & _). destruct H' as (t' & E' & Hc' & _). rewrite E in E'. apply app_inv_head in E'.
    eapply noslash_split_unique; eassumption.
Qed.

Lemma scan_key_cases dirp key :
  dirlike dirp -> velems key = true ->
  (has_prefix dirp key = false /\ forall c, ~ file_child dirp key c /\ ~ dir_child dirp key c)
  \/ (exists c, has_prefix dirp key = true /\ index_byte (skipn (length dirp) key) slash = None /\
                key = dirp ++ c /\ file_child dirp key c)
  \/ (exists c i, has_prefix dirp key = true /\ index_byte (skipn (length dirp) key) slash = Some (S i) /\
                  firstn (length dirp + S i) key = dirp ++ c /\ dir_child dirp key c).
Proof.
  intros Hd V. destruct (has_prefix dirp key) eqn:Hp.
  - right. apply has_prefix_spec in Hp. destruct Hp as (rest & ->).
    assert (Vr : velems rest = true).
    { destruct Hd as [->|(d & ->)]; [assumption|]. rewrite <- app_assoc in V. simpl in V.
      rewrite velems_app in V. apply andb_prop in V. tauto. }
    rewrite skipn_len_app. destruct (index_byte rest slash) as [i|] eqn:Ei.
    + right. apply index_byte_some in Ei. destruct Ei as (a & b & -> & Ha & Hl).
      rewrite velems_app in Vr. apply andb_prop in Vr. destruct Vr as [Va Vb].
      assert (Hne : a <> []) by (apply velems_nonempty; assumption).
      destruct i as [|i]; [destruct a; [contradiction|discriminate]|].
      exists a, i. split; [reflexivity|]. split; [reflexivity|]. split.
      * rewrite <- Hl. rewrite firstn_len_app. f_equal. apply firstn_len_app0.
      * exists b. tauto.
    + left. apply index_byte_none in Ei. exists rest. split; [reflexivity|]. split; [reflexivity|].
      split; [reflexivity|]. split; [reflexivity|]. split; [assumption|]. apply velems_nonempty. assumption.
  - left. split; [reflexivity|]. intros c. split.
    + intros (E & _). rewrite E, has_prefix_app in Hp. discriminate.
    + intros (t & E & _). rewrite E, has_prefix_app in Hp. discriminate.
Qed.

(* ------------------------------------------------------------------ the loop invariant *)

Definition scan_inv (dirp : bytes) (done names hasdir : list bytes) : Prop :=
  NoDup names /\
  (forall x, In x names <-> exists key c, In key done /\ x = dirp ++ c /\ (file_child dirp key c \/ dir_child dirp key c)) /\
  (forall x, In x hasdir <-> exists key c, In key done /\ x = dirp ++ c /\ dir_child dirp key c).

Lemma NoDup_snoc {A} (l : list A) x : NoDup l -> ~ In x l -> NoDup (l ++ [x]).
Proof.
  induction l as [|y l IH]; simpl; intros ND Hn; [repeat constructor; tauto|].
  inversion ND; subst. constructor.
  - rewrite in_app_iff. simpl. intros [H|[H|[]]]; [contradiction|]. subst. tauto.
  - apply IH; tauto.
Qed.

Lemma NoDup_app_mid {A} (a b : list A) x : NoDup (a ++ x :: b) -> ~ In x a.
Proof.
  intros H Hin. apply NoDup_remove_2 in H. apply H. apply in_app_iff. tauto.
Qed.

Lemma scan_preserves fs dirp :
  vfacts fs -> dirlike dirp ->
  forall (todo : files) (done names hasdir : list bytes),
    map fst fs = done ++ map fst todo ->
    scan_inv dirp done names hasdir ->
    let '(names1, hasdir1) := readdir_scan todo dirp names hasdir in
    scan_inv dirp (map fst fs) names1 hasdir1.
Proof.
  intros V Hd. induction todo as [|[key data] todo IH]; intros done names hasdir E Inv.
  - simpl in *. rewrite app_nil_r in E. rewrite E. assumption.
  - cbn [readdir_scan]. simpl map in E.
    assert (Hkeys : forall k, In k done \/ k = key -> In k (map fst fs)).
    { intros k [H | ->]; rewrite E; apply in_app_iff; simpl; tauto. }
    assert (Hfresh : ~ In key done).
    { pose proof (vf_nodup fs V) as ND. rewrite E in ND. apply NoDup_app_mid in ND. assumption. }
    assert (E' : map fst fs = (done ++ [key]) ++ map fst todo) by (rewrite <- app_assoc; assumption).
    destruct Inv as (ND & Hn & Hh).
    destruct (scan_key_cases dirp key Hd (key_velems fs key V (Hkeys key (or_intror eq_refl))))
      as [(Hp & Hno)|[(c & Hp & Hi & Ek & Hf)|(c & i & Hp & Hi & Ef & Hdc)]].
    + (* the key is not below the directory *)
      rewrite Hp. simpl. apply (IH (done ++ [key]) names hasdir E').
      split; [assumption|]. split.
      * intros x. rewrite Hn. split.
        -- intros (k & c & Hk & Hx & Hc). exists k, c. rewrite in_app_iff. tauto.
        -- intros (k & c & Hk & Hx & Hc). apply in_app_iff in Hk. destruct Hk as [Hk|[ <- |[]]].
           ++ exists k, c. tauto.
           ++ exfalso. destruct (Hno c). tauto.
      * intros x. rewrite Hh. split.
        -- intros (k & c & Hk & Hx & Hc). exists k, c. rewrite in_app_iff. tauto.
        -- intros (k & c & Hk & Hx & Hc). apply in_app_iff in Hk. destruct Hk as [Hk|[ <- |[]]].
           ++ exists k, c. tauto.
           ++ exfalso. destruct (Hno c). tauto.
    + (* a file of the directory *)
      rewrite Hp, Hi. simpl. apply (IH (done ++ [key]) (names ++ [key]) hasdir E').
      split; [|split].
      * apply NoDup_snoc; [assumption|]. intros Hin. apply Hn in Hin.
        destruct Hin as (k & c' & Hk & Hx & Hc). rewrite Ek in Hx. apply app_inv_head in Hx. subst c'.
        destruct Hc as [(Ek' & _)|(t & Ek' & _)].
        -- apply Hfresh. rewrite Ek, <- Ek'. assumption.
        -- apply (vf_noconf fs V key k t); [apply Hkeys; tauto|apply Hkeys; tauto|].
           rewrite Ek' , Ek, <- app_assoc. reflexivity.
      * intros x. rewrite in_app_iff, Hn. simpl. split.
        -- intros [(k & c' & Hk & Hx & Hc)|[ <- |[]]].
           ++ exists k, c'. rewrite in_app_iff. tauto.
           ++ exists key, c. rewrite in_app_iff. simpl. tauto.
        -- intros (k & c' & Hk & Hx & Hc). apply in_app_iff in Hk. destruct Hk as [Hk|[ <- |[]]].
           ++ left. exists k, c'. tauto.
           ++ right. left. assert (c = c') by (eapply child_unique; [left; eassumption|eassumption]). subst c'.
              rewrite Hx. assumption.
      * intros x. rewrite Hh. split.
        -- intros (k & c' & Hk & Hx & Hc). exists k, c'. rewrite in_app_iff. tauto.
        -- intros (k & c' & Hk & Hx & Hc). apply in_app_iff in Hk. destruct Hk as [Hk|[ <- |[]]].
           ++ exists k, c'. tauto.
           ++ exfalso. eapply file_dir_excl; eassumption.
    + (* a key in a sub-directory *)
      rewrite Hp, Hi. simpl. rewrite Ef.
      destruct (name_in (dirp ++ c) hasdir) eqn:Hin.
      * (* the sub-directory was seen before *)
        apply name_in_In in Hin.
        apply (IH (done ++ [key]) names hasdir E').
        split; [assumption|]. split.
        -- intros x. rewrite Hn. split.
           ++ intros (k & c' & Hk & Hx & Hc). exists k, c'. rewrite in_app_iff. tauto.
           ++ intros (k & c' & Hk & Hx & Hc). apply in_app_iff in Hk. destruct Hk as [Hk|[ <- |[]]].
              ** exists k, c'. tauto.
              ** assert (c = c') by (eapply child_unique; [right; eassumption|eassumption]). subst c'.
                 apply Hh in Hin. destruct Hin as (k2 & c2 & Hk2 & Hx2 & Hc2).
                 exists k2, c2. rewrite Hx. tauto.
        -- intros x. rewrite Hh. split.
           ++ intros (k & c' & Hk & Hx & Hc). exists k, c'. rewrite in_app_iff. tauto.
           ++ intros (k & c' & Hk & Hx & Hc). apply in_app_iff in Hk. destruct Hk as [Hk|[ <- |[]]].
              ** exists k, c'. tauto.
              ** assert (c = c') by (eapply child_unique; [right; eassumption|right; eassumption]). subst c'.
                 apply Hh in Hin. destruct Hin as (k2 & c2 & Hk2 & Hx2 & Hc2).
                 exists k2, c2. rewrite Hx. tauto.
      * (* a new sub-directory *)
        apply name_in_nIn in Hin.
        apply (IH (done ++ [key]) (names ++ [dirp ++ c]) ((dirp ++ c) :: hasdir) E').
        split; [|split].
        -- apply NoDup_snoc; [assumption|]. intros Hx. apply Hn in Hx.
           destruct Hx as (k & c' & Hk & Hx & Hc). apply app_inv_head in Hx. subst c'.
           destruct Hc as [(Ek' & _)|Hc].
           ++ destruct Hdc as (t & Ek & _).
              apply (vf_noconf fs V k key t); [apply Hkeys; tauto|apply Hkeys; tauto|].
              rewrite Ek, Ek', <- app_assoc. reflexivity.
           ++ apply Hin. apply Hh. exists k, c. tauto.
        -- intros x. rewrite in_app_iff, Hn. simpl. split.
           ++ intros [(k & c' & Hk & Hx & Hc)|[ <- |[]]].
              ** exists k, c'. rewrite in_app_iff. tauto.
              ** exists key, c. rewrite in_app_iff. simpl. tauto.
           ++ intros (k & c' & Hk & Hx & Hc). apply in_app_iff in Hk. destruct Hk as [Hk|[ <- |[]]].
              ** left. exists k, c'. tauto.
              ** right. left. assert (c = c') by (eapply child_unique; [right; eassumption|eassumption]). subst c'.
                 symmetry. assumption.
        -- intros x. simpl. rewrite Hh. split.
           ++ intros [ <- |(k & c' & Hk & Hx & Hc)].
              ** exists key, c. rewrite in_app_iff. simpl. tauto.
              ** exists k, c'. rewrite in_app_iff. tauto.
           ++ intros (k & c' & Hk & Hx & Hc). apply in_app_iff in Hk. destruct Hk as [Hk|[ <- |[]]].
              ** right. exists k, c'. tauto.
              ** left. assert (c = c') by (eapply child_unique; [right; eassumption|right; eassumption]). subst c'.
                 symmetry. assumption.
Qed.

Lemma scan_spec fs dirp :
  vfacts fs -> dirlike dirp ->
  let '(names, hasdir) := readdir_scan fs dirp [] [] in
  scan_inv dirp (map fst fs) names hasdir.
Proof.
  intros V Hd. apply (scan_preserves fs dirp V Hd fs [] [] []); [reflexivity|].
  split; [constructor|]. split; intros x; (split; [intros []|intros (k & c & [] & _)]).
Qed.

(* ------------------------------------------------------------------ the listing *)

(* what ReadDir(-1) returns on a new handle of directory dn *)
Definition listing (fs : files) (dn : bytes) : list dirent :=
  let '(names, hasdir) := dir_names fs (new_dir dn) in
  map (entry_of fs hasdir) names.

Lemma mode_isdir_dir : mode_isdir mode_dir = true.
Proof. reflexivity. Qed.
Lemma mode_isdir_zero : mode_isdir 0 = false.
Proof. reflexivity. Qed.

Lemma child_of_iff fs dn c :
  child_of fs dn c <->
  exists key, In key (map fst fs) /\ (file_child (dir_prefix dn) key c \/ dir_child (dir_prefix dn) key c).
Proof.
  unfold child_of, join, file_child, dir_child. split.
  - intros (Hne & Hc & key & Hk & [E|(t & E)]); exists key; (split; [assumption|]).
    + left. tauto.
    + right. exists t. rewrite <- app_assoc in E. tauto.
  - intros (key & Hk & [(E & Hc & Hne)|(t & E & Hc & Hne)]); (split; [assumption|]); (split; [assumption|]);
      exists key; (split; [assumption|]).
    + left. assumption.
    + right. exists t. rewrite <- app_assoc. assumption.
Qed.

Lemma child_elem_ok fs dirp key c :
  vfacts fs -> dirlike dirp -> In key (map fst fs) ->
  file_child dirp key c \/ dir_child dirp key c -> elem_ok c = true.
Proof.
  intros V Hd Hk H. pose proof (key_velems fs key V Hk) as Vk.
  destruct H as [(E & Hc & _)|(t & E & Hc & _)]; rewrite E in Vk.
  - destruct Hd as [->|(d & ->)].
    + simpl in Vk. rewrite velems_noslash in Vk; assumption.
    + rewrite <- app_assoc in Vk. simpl in Vk. rewrite velems_app in Vk. apply andb_prop in Vk.
      destruct Vk as [_ Vc]. rewrite velems_noslash in Vc; assumption.
  - destruct Hd as [->|(d & ->)].
    + simpl in Vk. rewrite velems_app in Vk. apply andb_prop in Vk. destruct Vk as [Vc _].
      rewrite velems_noslash in Vc; assumption.
    + rewrite <- app_assoc in Vk. simpl in Vk. rewrite !velems_app in Vk. apply andb_prop in Vk.
      destruct Vk as [_ Vk]. apply andb_prop in Vk. destruct Vk as [Vc _].
      rewrite velems_noslash in Vc; assumption.
Qed.

Lemma elem_ok_not_dot c : elem_ok c = true -> c <> [dot].
Proof. intros H ->. discriminate. Qed.

(* the path of a child is never "." *)
Lemma join_not_dot dn c : elem_ok c = true -> noslash c -> join dn c <> [dot].
Proof.
  intros Hc Hn E. unfold join in E. destruct (dir_prefix_dirlike dn) as [Ep|(d & Ep)]; rewrite Ep in E.
  - simpl in E. subst c. discriminate.
  - destruct d as [|x [|y d]]; simpl in E; discriminate.
Qed.

Lemma is_dir_join_iff fs dn c :
  elem_ok c = true -> noslash c ->
  (is_dir fs (join dn c) <-> exists key, In key (map fst fs) /\ dir_child (dir_prefix dn) key c).
Proof.
  intros Hok Hc. unfold is_dir. split.
  - intros [E|(key & t & Hk & E)].
    + exfalso. eapply join_not_dot; eassumption.
    + exists key. split; [assumption|]. exists t. unfold join in E. rewrite <- app_assoc in E.
      split; [assumption|]. split; [assumption|]. intros ->. discriminate.
  - intros (key & Hk & t & E & _). right. exists key, t. unfold join. rewrite <- app_assoc. tauto.
Qed.

Lemma sorted_perm_In {A} (l l' : list A) x : Permutation l l' -> (In x l <-> In x l').
Proof. intros P. split; apply Permutation_in; [assumption|apply Permutation_sym; assumption]. Qed.

Theorem listing_spec fs dn : vfacts fs -> listing_ok fs dn (listing fs dn).
Proof.
  intros V. unfold listing, dir_names. cbn [h_name new_dir].
  pose proof (dir_prefix_dirlike dn) as Hd.
  pose proof (scan_spec fs (dir_prefix dn) V Hd) as Inv.
  destruct (readdir_scan fs (dir_prefix dn) [] []) as [names0 hasdir].
  destruct Inv as (ND & Hn & Hh).
  set (dirp := dir_prefix dn) in *.
  set (names := sort_strings names0).
  assert (P : Permutation names names0) by apply sort_strings_perm.
  (* every name is dirp ++ c for a child c *)
  assert (Hname : forall x, In x names ->
            exists key c, In key (map fst fs) /\ x = dirp ++ c /\ (file_child dirp key c \/ dir_child dirp key c)).
  { intros x Hx. apply (sorted_perm_In _ _ x P) in Hx. apply Hn. assumption. }
  assert (Hcn : forall x key c, x = dirp ++ c -> In key (map fst fs) ->
            file_child dirp key c \/ dir_child dirp key c -> c <> [] /\ noslash c /\ elem_ok c = true).
  { intros x key c _ Hk Hc. split; [|split].
    - destruct Hc as [(_ & _ & H)|(t & _ & _ & H)]; assumption.
    - destruct Hc as [(_ & H & _)|(t & _ & H & _)]; assumption.
    - eapply child_elem_ok; eassumption. }
  assert (Hde : forall x, In x names -> forall c, x = dirp ++ c -> c <> [] -> noslash c ->
            de_name (entry_of fs hasdir x) = c).
  { intros x Hx c -> Hne Hc. unfold entry_of, info_of. cbn [de_name i_name]. apply path_base_join; assumption. }
  assert (Hmapname : map de_name (map (entry_of fs hasdir) names) = map (fun x => skipn (length dirp) x) names).
  { rewrite map_map. apply map_ext_in. intros x Hx.
    destruct (Hname x Hx) as (key & c & Hk & Ex & Hc). destruct (Hcn x key c Ex Hk Hc) as (Hne & Hns & _).
    rewrite (Hde x Hx c Ex Hne Hns). rewrite Ex, skipn_len_app. reflexivity. }
  constructor.
  - (* sorted by name *)
    rewrite Hmapname. apply Sorted_map with (R := le_name); [|apply sort_strings_sorted].
    intros a b Ha Hb Hle.
    destruct (Hname a Ha) as (_ & ca & _ & -> & _). destruct (Hname b Hb) as (_ & cb & _ & -> & _).
    rewrite !skipn_len_app. unfold le_name in *. rewrite bytes_ltb_prefix in Hle. assumption.
  - (* each name once *)
    rewrite Hmapname.
    assert (NDn : NoDup names) by (eapply Permutation_NoDup; [apply Permutation_sym; exact P|assumption]).
    clear - NDn Hname. induction names as [|x l IH]; simpl; [constructor|].
    inversion NDn as [|? ? Hx NDl]; subst. constructor.
    + intros Hin. apply in_map_iff in Hin. destruct Hin as (y & Ey & Hy).
      destruct (Hname x (or_introl eq_refl)) as (_ & cx & _ & Ex & _).
      destruct (Hname y (or_intror Hy)) as (_ & cy & _ & Ey' & _).
      rewrite Ex, Ey', !skipn_len_app in Ey. subst cy. apply Hx. rewrite Ex, <- Ey'. assumption.
    + apply IH; try assumption. intros y Hy. apply Hname. simpl. tauto.
  - (* exactly the children *)
    intros c. rewrite Hmapname, child_of_iff. split.
    + intros Hin. apply in_map_iff in Hin. destruct Hin as (x & Ex & Hx).
      destruct (Hname x Hx) as (key & c' & Hk & Ex' & Hc). rewrite Ex', skipn_len_app in Ex. subst c'.
      exists key. tauto.
    + intros (key & Hk & Hc). apply in_map_iff. exists (dirp ++ c). split; [apply skipn_len_app|].
      apply (sorted_perm_In _ _ _ P). apply Hn. exists key, c. tauto.
  - (* every entry *)
    intros e He. apply in_map_iff in He. destruct He as (x & <- & Hx).
    destruct (Hname x Hx) as (key & c & Hk & Ex & Hc). destruct (Hcn x key c Ex Hk Hc) as (Hne & Hns & Hok).
    pose proof (Hde x Hx c Ex Hne Hns) as En.
    assert (Ej : join dn c = x) by (unfold join; fold dirp; symmetry; assumption).
    rewrite En, Ej.
    destruct (name_in x hasdir) eqn:Hin.
    + (* a sub-directory *)
      apply name_in_In in Hin. apply Hh in Hin. destruct Hin as (k2 & c2 & Hk2 & Ex2 & Hc2).
      rewrite Ex in Ex2. apply app_inv_head in Ex2. subst c2.
      destruct Hc2 as (t & Ek2 & _).
      assert (Ek2' : k2 = x ++ slash :: t) by (rewrite Ek2, Ex, <- app_assoc; reflexivity).
      assert (Hnokey : ~ In x (map fst fs)).
      { intros Hkx. apply (vf_noconf fs V x k2 t Hkx Hk2). assumption. }
      assert (Edir : is_dir fs x) by (right; exists k2, t; tauto).
      unfold entry_of. rewrite (proj2 (name_in_In x hasdir)) by (apply Hh; exists k2, c; split; [assumption|]; split; [assumption|]; exists t; tauto).
      unfold info_of. cbn [de_isdir de_type de_info de_name i_isdir i_mode i_name length].
      rewrite mode_isdir_dir.
      split; [reflexivity|]. split; [reflexivity|]. split; [rewrite Ex; apply path_base_join; assumption|].
      split; [reflexivity|]. split; [tauto|]. split.
      * intros data Hf. exfalso. apply Hnokey. eapply is_file_key. exact Hf.
      * exists (new_dir x). split; [|split; reflexivity].
        unfold files_open.
        assert (Hv : valid_path x = true).
        { apply (valid_path_prefix x t). rewrite <- Ek2'. apply (vf_valid fs V k2 Hk2). }
        rewrite Hv. destruct (bytes_eqb x [dot]); [reflexivity|].
        rewrite (proj2 (fs_get_None fs x) Hnokey).
        assert (Hex : existsb (fun kv => has_prefix (x ++ [slash]) (fst kv)) fs = true).
        { apply in_map_iff in Hk2. destruct Hk2 as (kv & Ekv & Hkv). apply existsb_exists. exists kv.
          split; [assumption|]. rewrite Ekv, Ek2'. apply has_prefix_spec. exists t. rewrite <- app_assoc. reflexivity. }
        rewrite Hex. reflexivity.
    + (* a file *)
      apply name_in_nIn in Hin.
      assert (Hf : file_child dirp key c).
      { destruct Hc as [Hf|Hdc]; [assumption|]. exfalso. apply Hin. apply Hh. exists key, c. tauto. }
      assert (Ekey : key = x) by (destruct Hf as (E & _); rewrite E; symmetry; assumption). subst key.
      apply in_map_iff in Hk. destruct Hk as ([k data] & Ek & Hkv). simpl in Ek. subst k.
      pose proof (fs_get_In fs x data (vf_nodup fs V) Hkv) as Eg.
      assert (Hndir : ~ is_dir fs x).
      { intros [E|(k2 & t & Hk2 & E2)].
        - destruct (vf_valid fs V x) as [_ Hnd]; [apply in_map_iff; exists (x, data); tauto|]. contradiction.
        - apply (vf_noconf fs V x k2 t); [apply in_map_iff; exists (x, data); tauto|assumption|assumption]. }
      unfold entry_of. rewrite (proj2 (name_in_nIn x hasdir) Hin), Eg.
      unfold info_of. cbn [de_isdir de_type de_info de_name i_isdir i_mode i_name].
      rewrite mode_isdir_zero.
      split; [reflexivity|]. split; [reflexivity|]. split; [rewrite Ex; apply path_base_join; assumption|].
      split; [reflexivity|]. split; [split; [discriminate|intros Hd'; contradiction]|]. split.
      * intros data' Hf'. unfold is_file in Hf'.
        pose proof (fs_get_In fs x data' (vf_nodup fs V) Hf') as Eg'. rewrite Eg in Eg'. injection Eg' as <-.
        unfold file_info. f_equal. rewrite Ex. rewrite path_base_join, base_name_join by assumption. reflexivity.
      * exists (new_file x data). split; [|split; reflexivity].
        unfold files_open.
        destruct (vf_valid fs V x) as [Hv Hnd]; [apply in_map_iff; exists (x, data); tauto|].
        rewrite Hv. apply beq_false in Hnd. rewrite Hnd, Eg. reflexivity.
Qed.

(* a listing satisfying the contract is unique: the contract determines ReadDir completely *)

(* ------------------------------------------------------------------ ReadDir(n): paging *)

Lemma set_n_same h k : k = h_n h -> set_n h k = h.
Proof. intros ->. destruct h; reflexivity. Qed.

Lemma dir_names_name fs h : dir_names fs h = dir_names fs (new_dir (h_name h)).
Proof. reflexivity. Qed.

Theorem readdir_spec fs h n :
  readdir fs h n =
  (page (listing fs (h_name h)) (h_n h) n, page_err (listing fs (h_name h)) (h_n h) n,
   set_n h (h_n h + length (page (listing fs (h_name h)) (h_n h) n))).
Proof.
  unfold readdir, listing, page, page_err. rewrite <- dir_names_name.
  destruct (dir_names fs h) as [names hasdir]. rewrite map_length.
  set (f := entry_of fs hasdir). rewrite !skipn_map.
  destruct (Z.ltb_spec 0 n) as [Hn|Hn]; simpl.
  - destruct (Nat.leb_spec (length names) (h_n h)) as [Hl|Hl].
    + rewrite skipn_all2 by assumption. simpl. rewrite firstn_nil. simpl.
      rewrite set_n_same by lia. reflexivity.
    + rewrite firstn_map, map_length.
      destruct (Z.ltb_spec n (Z.of_nat (length (skipn (h_n h) names)))) as [Hk|Hk].
      * reflexivity.
      * rewrite firstn_all2 by lia. reflexivity.
  - rewrite map_length. destruct (Nat.ltb_spec (h_n h) (length names)) as [Hl|Hl].
    + reflexivity.
    + rewrite skipn_all2 by assumption. reflexivity.
Qed.

(* ------------------------------------------------------------------ Open *)

Lemma valid_path_dot : valid_path [dot] = true.
Proof. reflexivity. Qed.

Lemma is_dir_valid fs name : vfacts fs -> is_dir fs name -> valid_path name = true.
Proof.
  intros V [->|(key & t & Hk & E)]; [reflexivity|].
  apply (valid_path_prefix name t). rewrite <- E. apply (vf_valid fs V key Hk).
Qed.

Lemma is_file_valid fs name data : vfacts fs -> is_file fs name data -> valid_path name = true /\ name <> [dot].
Proof. intros V H. apply (vf_valid fs V). eapply is_file_key. exact H. Qed.

Lemma file_not_dir fs name data : vfacts fs -> is_file fs name data -> ~ is_dir fs name.
Proof.
  intros V Hf [E|(key & t & Hk & E)].
  - destruct (is_file_valid fs name data V Hf). contradiction.
  - apply (vf_noconf fs V name key t); [eapply is_file_key; exact Hf|assumption|assumption].
Qed.

Theorem open_spec fs name :
  vfacts fs ->
  match files_open fs name with
  | Some h =>
    (exists data, is_file fs name data /\ h = new_file name data) \/ (is_dir fs name /\ h = new_dir name)
  | None => (forall data, ~ is_file fs name data) /\ ~ is_dir fs name
  end.
Proof.
  intros V. unfold files_open. destruct (valid_path name) eqn:Hv.
  - destruct (bytes_eqb name [dot]) eqn:Ed.
    + apply bytes_eqb_eq in Ed. right. split; [left; assumption|reflexivity].
    + apply beq_false in Ed. destruct (fs_get fs name) as [data|] eqn:Eg.
      * left. exists data. split; [apply fs_get_Some; assumption|reflexivity].
      * apply fs_get_None in Eg. destruct (existsb _ fs) eqn:Ex.
        -- right. split; [|reflexivity]. right. apply existsb_exists in Ex. destruct Ex as (kv & Hkv & Hp).
           apply has_prefix_spec in Hp. destruct Hp as (t & Et). exists (fst kv), t.
           split; [apply in_map; assumption|]. rewrite Et, <- app_assoc. reflexivity.
        -- split.
           ++ intros data Hf. apply Eg. eapply is_file_key. exact Hf.
           ++ intros [E|(key & t & Hk & E)]; [contradiction|].
              apply in_map_iff in Hk. destruct Hk as (kv & Ekv & Hkv).
              assert (Hex : existsb (fun kv0 => has_prefix (name ++ [slash]) (fst kv0)) fs = true).
              { apply existsb_exists. exists kv. split; [assumption|]. rewrite Ekv, E.
                apply has_prefix_spec. exists t. rewrite <- app_assoc. reflexivity. }
              exact (eq_true_false_abs _ Hex Ex).
  - split.
    + intros data Hf. destruct (is_file_valid fs name data V Hf). congruence.
    + intros Hd. pose proof (is_dir_valid fs name V Hd). congruence.
Qed.

(* ------------------------------------------------------------------ the simulation *)

(* the handle h of the model is in the state the observations a describe *)
Definition rel (fs : files) (h : handle) (a : hspec) : Prop :=
  h_name h = hs_name a /\ h_dir h = hs_isdir a /\ h_n h = hs_cur a /\
  h_offset h = (if hs_closed a then (-1)%Z else Z.of_nat (hs_pos a)) /\
  (if hs_isdir a
   then h_data h = [] /\ h_mode h = mode_dir /\ hs_pos a = 0%nat /\ (hs_name a = [dot] \/ velems (hs_name a) = true)
   else is_file fs (hs_name a) (h_data h) /\ h_mode h = 0 /\ (hs_pos a <= length (h_data h))%nat /\ velems (hs_name a) = true).

Lemma open_rel fs name h :
  vfacts fs -> files_open fs name = Some h -> rel fs h (mkHspec name (h_dir h) 0 false 0).
Proof.
  intros V E. pose proof (open_spec fs name V) as S. rewrite E in S.
  destruct S as [(data & Hf & ->)|(Hd & ->)]; unfold rel; cbn.
  - repeat split; try reflexivity; try assumption; try lia.
    destruct (is_file_valid fs name data V Hf). apply valid_path_velems; assumption.
  - repeat split; try reflexivity.
    destruct (list_eq_dec N.eq_dec name [dot]) as [Ed|Ed]; [left; assumption|right].
    apply valid_path_velems; [|assumption]. apply (is_dir_valid fs name V Hd).
Qed.

Lemma open_ok_holds fs name :
  vfacts fs ->
  open_ok fs name (match files_open fs name with Some h => OutOpened (h_dir h) | None => OutNotExist end).
Proof.
  intros V. pose proof (open_spec fs name V) as S. unfold open_ok.
  destruct (files_open fs name) as [h|] eqn:E.
  - destruct S as [(data & Hf & ->)|(Hd & ->)]; cbn.
    + split; [reflexivity|]. split; [intros Hd; exfalso; eapply file_not_dir; eassumption|].
      split; [intros Hn; exfalso; eapply Hn; eassumption|].
      intros Hv. destruct (is_file_valid fs name data V Hf). congruence.
    + split; [intros data Hf; exfalso; eapply file_not_dir; eassumption|]. split; [reflexivity|].
      split; [intros _ Hn; contradiction|].
      intros Hv. pose proof (is_dir_valid fs name V Hd). congruence.
  - destruct S as [Hnf Hnd]. split; [intros data Hf; exfalso; eapply Hnf; eassumption|].
    split; [intros Hd; contradiction|]. split; reflexivity.
Qed.

Lemma name_base fs h a : rel fs h a -> path_base (h_name h) = base_name (hs_name a).
Proof.
  intros (En & _ & _ & _ & R). rewrite En. destruct (hs_isdir a).
  - destruct R as (_ & _ & _ & [->|Hv]); [reflexivity|apply path_base_valid; assumption].
  - destruct R as (_ & _ & _ & Hv). apply path_base_valid; assumption.
Qed.

(* one operation on one handle *)
Definition hstep (fs : files) (h : handle) (o : hop) : handle * out :=
  match o with
  | HStat => (h, OutStat (stat h))
  | HRead k => let '(d, e, h1) := file_read h k in (h1, OutRead d e)
  | HReadDir n => if h_dir h then let '(l, e, h1) := readdir fs h n in (h1, OutReadDir l e) else (h, OutNoReadDir)
  | HClose => (file_close h, OutClosed)
  end.

Ltac relsimp := unfold rel; cbn [advance hs_name hs_isdir hs_pos hs_closed hs_cur length
                                  h_name h_dir h_n h_offset h_data h_mode file_close set_n].

Lemma hstep_ok fs h a o :
  vfacts fs -> rel fs h a ->
  let '(h1, r) := hstep fs h o in step_ok fs a o r /\ rel fs h1 (advance a r).
Proof.
  intros V R. pose proof (name_base fs h a R) as Hb.
  destruct a as [aname adir apos aclosed acur]. unfold rel in R.
  cbn [hs_name hs_isdir hs_pos hs_closed hs_cur] in *.
  destruct R as (En & Ed & Ecur & Eoff & R). destruct o as [|k|n|]; cbn [hstep].
  - (* Stat *)
    split; [|relsimp; tauto]. unfold step_ok, stat, info_of. cbn [hs_isdir hs_name]. rewrite Hb.
    destruct adir.
    + destruct R as (-> & -> & _). reflexivity.
    + destruct R as (Hf & -> & _). exists (h_data h). split; [assumption|reflexivity].
  - (* Read *)
    unfold file_read, step_ok. cbn [hs_isdir hs_name hs_closed hs_pos]. rewrite Eoff. destruct aclosed.
    + cbn [Z.ltb Z.compare]. split; [reflexivity|]. relsimp. rewrite Nat.add_0_r. tauto.
    + destruct (Z.ltb_spec (Z.of_nat apos) 0) as [Hneg|_]; [lia|]. destruct adir.
      * destruct R as (Edata & Em & Ep & Hv). subst apos. rewrite Edata. cbn [length Z.of_nat Z.eqb].
        split; [reflexivity|]. relsimp. rewrite Edata. tauto.
      * destruct R as (Hf & Em & Hle & Hv).
        destruct (Z.eqb_spec (Z.of_nat apos) (Z.of_nat (length (h_data h)))) as [Heq|Hneq].
        -- assert (Hp : apos = length (h_data h)) by lia.
           split.
           ++ exists (h_data h). split; [assumption|]. rewrite Hp, skipn_all, firstn_nil, Nat.eqb_refl. reflexivity.
           ++ relsimp. rewrite Nat.add_0_r. tauto.
        -- destruct (Z.ltb_spec (Z.of_nat (length (h_data h))) (Z.of_nat apos)) as [Hgt|_]; [lia|].
           rewrite Nat2Z.id. split.
           ++ exists (h_data h). split; [assumption|].
              destruct (Nat.eqb_spec apos (length (h_data h))) as [Heq|_]; [lia|]. reflexivity.
           ++ relsimp. rewrite firstn_length, skipn_length.
              repeat split; try assumption; try lia.
  - (* ReadDir *)
    rewrite Ed. unfold step_ok. cbn [hs_isdir hs_name hs_cur]. destruct adir.
    + rewrite readdir_spec, En, Ecur. split.
      * exists (listing fs aname). split; [apply listing_spec; assumption|reflexivity].
      * relsimp. tauto.
    + split; [reflexivity|]. relsimp. tauto.
  - (* Close *)
    split; [reflexivity|]. relsimp. tauto.
Qed.

(* ------------------------------------------------------------------ histories *)

Lemma Forall2_nth_error {A B} (R : A -> B -> Prop) l1 l2 i :
  Forall2 R l1 l2 ->
  match nth_error l1 i, nth_error l2 i with
  | Some x, Some y => R x y
  | None, None => True
  | _, _ => False
  end.
Proof.
  intros F. revert i. induction F as [|x y l1 l2 Hxy F IH]; intros [|i]; simpl; try exact I; try assumption.
  apply IH.
Qed.

Lemma Forall2_set_nth {A B} (R : A -> B -> Prop) l1 l2 i x y :
  Forall2 R l1 l2 -> R x y -> Forall2 R (set_nth l1 i x) (set_nth l2 i y).
Proof.
  intros F Hxy. revert i. induction F as [|a b l1 l2 Hab F IH]; intros [|i]; simpl; constructor; try assumption.
  apply IH.
Qed.

Lemma set_nth_same {A} (l : list A) i x : nth_error l i = Some x -> set_nth l i x = l.
Proof.
  revert i. induction l as [|y l IH]; intros [|i]; simpl; try discriminate.
  - intros H. injection H as ->. reflexivity.
  - intros H. f_equal. apply IH. assumption.
Qed.

Theorem history_contract fs :
  vfacts fs ->
  forall ops hs abs, Forall2 (rel fs) hs abs -> hist_ok fs abs ops (run_history fs hs ops).
Proof.
  intros V. induction ops as [|o ops IH]; intros hs abs F; [exact I|].
  cbn [run_history]. destruct o as [name|i|i k|i n|i].
  - (* Open *)
    cbn [step]. pose proof (open_ok_holds fs name V) as Ho.
    destruct (files_open fs name) as [h|] eqn:E.
    + cbn [hist_ok]. split; [assumption|]. apply IH.
      apply Forall2_app; [assumption|]. constructor; [|constructor]. apply open_rel; assumption.
    + cbn [hist_ok]. split; [assumption|]. apply IH. assumption.
  - cbn [step hist_ok on_handle]. pose proof (Forall2_nth_error _ _ _ i F) as N.
    destruct (nth_error hs i) as [h|] eqn:Eh; destruct (nth_error abs i) as [a|] eqn:Ea; try contradiction.
    + pose proof (hstep_ok fs h a HStat V N) as S. cbn [hstep] in S. destruct S as [S1 S2].
      split; [assumption|]. apply IH. cbn [advance] in *.
      rewrite <- (set_nth_same hs i h Eh) at 1.
      apply Forall2_set_nth; assumption.
    + split; [reflexivity|]. apply IH. assumption.
  - cbn [step hist_ok on_handle]. pose proof (Forall2_nth_error _ _ _ i F) as N.
    destruct (nth_error hs i) as [h|] eqn:Eh; destruct (nth_error abs i) as [a|] eqn:Ea; try contradiction.
    + pose proof (hstep_ok fs h a (HRead k) V N) as S. cbn [hstep] in S.
      destruct (file_read h k) as [[d e] h1]. destruct S as [S1 S2].
      split; [assumption|]. apply IH. apply Forall2_set_nth; assumption.
    + split; [reflexivity|]. apply IH. assumption.
  - cbn [step hist_ok on_handle]. pose proof (Forall2_nth_error _ _ _ i F) as N.
    destruct (nth_error hs i) as [h|] eqn:Eh; destruct (nth_error abs i) as [a|] eqn:Ea; try contradiction.
    + pose proof (hstep_ok fs h a (HReadDir n) V N) as S. cbn [hstep] in S.
      destruct (h_dir h).
      * destruct (readdir fs h n) as [[l e] h1]. destruct S as [S1 S2].
        split; [assumption|]. apply IH. apply Forall2_set_nth; assumption.
      * destruct S as [S1 S2]. split; [assumption|]. apply IH.
        rewrite <- (set_nth_same hs i h Eh) at 1.
        apply Forall2_set_nth; assumption.
    + split; [reflexivity|]. apply IH. assumption.
  - cbn [step hist_ok on_handle]. pose proof (Forall2_nth_error _ _ _ i F) as N.
    destruct (nth_error hs i) as [h|] eqn:Eh; destruct (nth_error abs i) as [a|] eqn:Ea; try contradiction.
    + pose proof (hstep_ok fs h a HClose V N) as S. cbn [hstep] in S. destruct S as [S1 S2].
      split; [assumption|]. apply IH. apply Forall2_set_nth; assumption.
    + split; [reflexivity|]. apply IH. assumption.
Qed.

Theorem files_fs_contract fs :
  valid_files fs = true -> forall ops, hist_ok fs [] ops (run_history fs [] ops).
Proof.
  intros H ops. apply history_contract; [apply valid_files_facts; assumption|constructor].
Qed.
