(* Lemmas about the checker glue of constant expressions (ConstEvalM). *)
From Coq Require Import ZArith List Bool Lia.
From Verif Require Import Facts_consts ConstsM ConstEvalM.
Open Scope Z_scope.

(* the kinds of the operands after the implicit conversion of tc.binaryOp
   (when exactly one operand is untyped it is converted to the type of the
   other one) *)
Definition eff_kind1 (t1 t2 : tinfo) : kind :=
  if ti_untyped t1 && negb (ti_untyped t2) then ti_kind t2 else ti_kind t1.
Definition eff_kind2 (t1 t2 : tinfo) : kind :=
  if negb (ti_untyped t1) && ti_untyped t2 then ti_kind t1 else ti_kind t2.

(* fix 01e9b06: < <= > >= are not defined on complex types, whatever the
   representation class of the constants is (a complex constant with a zero
   imaginary part is held as a real constant) *)
Theorem ordered_cmp_complex_rejected o t1 t2 : is_ordered_op o = true ->
  is_complex_kind (eff_kind1 t1 t2) || is_complex_kind (eff_kind2 t1 t2) = true ->
  exists e, check_binary o t1 t2 = EErr e.
Proof.
  intros Ho Hc.
  assert (Hs : is_shift o = false) by (destruct o; try discriminate; reflexivity).
  assert (Ha : (match o with OAnd | OOr => true | _ => false end) = false) by (destruct o; try discriminate; reflexivity).
  destruct t1 as [k1 u1 c1], t2 as [k2 u2 c2].
  unfold eff_kind1, eff_kind2 in Hc. cbn [ti_kind ti_untyped] in Hc.
  unfold check_binary. cbn [ti_kind ti_untyped ti_c]. rewrite Hs, Ha, Ho. cbn [andb negb orb].
  destruct u1, u2; cbn [ti_kind ti_untyped ti_c Bool.eqb andb negb orb] in *.
  - rewrite Hc. destruct (negb (kind_eqb k1 k2) && _); eexists; reflexivity.
  - destruct (repr k2 c1); try (eexists; reflexivity).
    cbn [ti_kind ti_untyped ti_c]. rewrite Hc.
    destruct (negb (kind_eqb k2 k2) && _); eexists; reflexivity.
  - destruct (repr k1 c2); try (eexists; reflexivity).
    cbn [ti_kind ti_untyped ti_c]. rewrite Hc.
    destruct (negb (kind_eqb k1 k1) && _); eexists; reflexivity.
  - rewrite Hc. destruct (negb (kind_eqb k1 k2) && _); eexists; reflexivity.
Qed.

Example ordered_cmp_complex_example :
  check_binary OLt {| ti_kind := KComplex128; ti_untyped := false; ti_c := Num (F64 (FFin false 1 0)) |}
                   {| ti_kind := KInt; ti_untyped := true; ti_c := Num (I64 2) |} = EErr CInvalidOp.
Proof. vm_compute. reflexivity. Qed.
