(* Typed progress, PARTIAL: the expression core without calls and composite
   types.  An expression of the core accepted by the type checker never
   evaluates to RStuck (it yields a value of the class of its static type, a
   run-time panic, or runs out of fuel).

   The proved core (see core below):
     ELitB ELitI ELitR ELitS EVar EUn EBin (ALL binary operators, shifts
     included) EConv to a basic type or a defined type over a basic type.
   LEFT OUT of the core:
     - ELitF (untyped FLOAT constants): an untyped float constant used with an
       operand of integer type is implicitly converted to the integer type;
       the evaluator is untyped and cannot see this.  Float VARIABLES, float
       arithmetic and conversions to and from float64 ARE in the core; named
       constants of untyped float kind are excluded by store_ok;
     - function calls, composite forms, nil, function values.
   Environments: store_ok demands a value of the right class for every
   variable AND every named constant (constants are read from the store), no
   named constant of untyped float kind, and NO function entity visible (a
   function identifier used as a value is outside the core). *)
From Verif Require Import MiniGoM MiniGoSpec MiniGo_proofs MiniGoEvalM.

Definition vclass (v : value) : bclass :=
  match v with VBool _ => KBool | VInt _ => KInt | VFloat _ => KFloat | VStr _ => KStr end.

Definition val_has_class (v : value) (k : bclass) : Prop := vclass v = k.

Definition store_ok (st : store) (E : env) : Prop :=
  forall x ent, lookup E x = Some ent ->
    match ent with
    | EntVar t => exists v, store_get st x = Some v /\ val_has_class v (tclass t)
    | EntConst (EVal vt c) =>
      vt <> VU UFloat /\ exists v, store_get st x = Some v /\ val_has_class v (vty_class vt)
    | EntConst (ETuple _) => False
    | EntFunc _ _ => False
    end.

Definition basic_ty (t : ty) : bool :=
  match t with TBasic _ | TNamed _ _ => true | _ => false end.

(* the proved core: no ELitF, no calls, no composite forms, no nil;
   conversions only to basic types and defined types over them *)
Fixpoint core (e : expr) : bool :=
  match e with
  | ELitB _ | ELitI _ | ELitR _ | ELitS _ | EVar _ => true
  | EUn _ a => core a
  | EBin _ a b => core a && core b
  | EConv t a => basic_ty t && core a
  | _ => false
  end.

(* the invariant of the induction *)
Definition good (r : result) (te : etype) : Prop :=
  match r with
  | RVal v => exists vt c, te = EVal vt c /\ vt <> VU UFloat /\ val_has_class v (vty_class vt)
  | RStuck => False
  | _ => True
  end.

(* ---------------------------------------------------------------- classes *)

Definition is_vk (k : bclass) : bool :=
  match k with KBool | KStr | KInt | KFloat => true | _ => false end.

Lemma vclass_vk v : is_vk (vclass v) = true.
Proof. destruct v; reflexivity. Qed.

Lemma vk_basic t : is_vk (tclass t) = true -> basic_ty t = true.
Proof. destruct t; simpl; auto. Qed.

Lemma basic_vk t : basic_ty t = true -> is_vk (tclass t) = true.
Proof. destruct t; simpl; try discriminate; destruct b; reflexivity. Qed.

Lemma iface_comp t : is_iface t = true -> tclass t = KComp.
Proof. destruct t; simpl; try discriminate; auto. Qed.

Lemma nillable_comp t : nillable t = true -> tclass t = KComp.
Proof. destruct t; simpl; try discriminate; auto. Qed.

Lemma iface_basic t : basic_ty t = true -> is_iface t = false.
Proof. destruct t; simpl; try discriminate; auto. Qed.

Lemma underlying_class a b :
  ty_eqb (underlying a) (underlying b) = true ->
  basic_ty a = true -> basic_ty b = true -> tclass a = tclass b.
Proof.
  intros H Ha Hb. apply ty_eqb_spec in H.
  destruct a; simpl in *; try discriminate; destruct b; simpl in *; try discriminate;
    inversion H; reflexivity.
Qed.

Lemma assignable_class a b :
  assignable_ty a b = true -> basic_ty a = true -> basic_ty b = true -> tclass a = tclass b.
Proof.
  unfold assignable_ty. intros H Ha Hb.
  rewrite (iface_basic b Hb) in H. rewrite orb_false_r in H.
  apply orb_true_iff in H as [H|H].
  - apply ty_eqb_spec in H. subst. reflexivity.
  - apply andb_true_iff in H as [H _]. apply underlying_class; auto.
Qed.

(* the classes of two operands brought to a common type: equal, or an integer
   and a float *)
Definition rel (k1 k2 : bclass) : Prop :=
  k1 = k2 \/ (k1 = KInt /\ k2 = KFloat) \/ (k1 = KFloat /\ k2 = KInt).

(* k1 and k2 are the classes of the operands, k that of the common type *)
Definition join (k1 k2 k : bclass) : Prop :=
  (k1 = k /\ k2 = k) \/ (k = KFloat /\ ((k1 = KInt /\ k2 = KFloat) \/ (k1 = KFloat /\ k2 = KInt))).

Lemma conv_untyped_class k c t te :
  conv_untyped k c t = Some te -> is_vk (tclass t) = true -> k <> UFloat ->
  is_vk (kind_class k) = true ->
  kind_class k = tclass t \/ (kind_class k = KInt /\ tclass t = KFloat).
Proof.
  intros H Ht Hk Hv.
  assert (I : is_iface t = false).
  { destruct (is_iface t) eqn:I; auto. apply iface_comp in I. rewrite I in Ht. simpl in Ht. discriminate Ht. }
  unfold conv_untyped, conv_basic in H. rewrite I in H.
  destruct k; simpl in *; try congruence;
    destruct (tclass t); simpl in *; try discriminate; auto.
Qed.

Lemma match_types_class va ca vb cb v c1 c2 :
  match_types (EVal va ca) (EVal vb cb) = Some (v, c1, c2) ->
  va <> VU UFloat -> vb <> VU UFloat ->
  is_vk (vty_class va) = true -> is_vk (vty_class vb) = true ->
  v <> VU UFloat /\ join (vty_class va) (vty_class vb) (vty_class v).
Proof.
  unfold join. intros H Na Nb Ka Kb. destruct va as [t1|k1], vb as [t2|k2]; simpl in H.
  - destruct (ty_eqb t1 t2) eqn:Q; try discriminate. apply ty_eqb_spec in Q. subst.
    inversion H; subst. split; [congruence|]. left; auto.
  - destruct (conv_untyped k2 cb t1) eqn:Q; try discriminate. inversion H; subst.
    split; [congruence|]. simpl in *.
    apply conv_untyped_class in Q; auto; [|congruence].
    destruct Q as [Q|[Q1 Q2]]; [left; auto|right; auto].
  - destruct (conv_untyped k1 ca t2) eqn:Q; try discriminate. inversion H; subst.
    split; [congruence|]. simpl in *.
    apply conv_untyped_class in Q; auto; [|congruence].
    destruct Q as [Q|[Q1 Q2]]; [left; auto|right; auto].
  - destruct k1, k2; simpl in *; try congruence; inversion H; subst; simpl;
      (split; [congruence|left; auto]).
Qed.

(* -------------------------------------------------------- operators, values *)

Ltac ifs := repeat match goal with |- context[if ?c then _ else _] => destruct c end.

Lemma eval_un_ok o v k :
  un_defined o k = true -> vclass v = k ->
  match eval_un o v with RVal w => vclass w = k | RStuck => False | _ => True end.
Proof. destruct v, o; simpl; intros; subst; simpl in *; try discriminate; auto. Qed.

Lemma eval_bin_arith_ok o v1 v2 k :
  is_comparison o = false -> is_shift o = false ->
  op_defined o k = true -> join (vclass v1) (vclass v2) k ->
  match eval_bin o v1 v2 with RVal w => vclass w = k | RStuck => False | _ => True end.
Proof.
  unfold join. intros C S D J.
  destruct v1, v2; simpl in J;
    destruct J as [[J1 J2]|[J0 [[J1 J2]|[J1 J2]]]]; try discriminate; subst; try discriminate;
    destruct o; simpl in *; try discriminate; ifs; simpl; auto.
Qed.

Lemma eval_bin_cmp_ok o v1 v2 :
  is_comparison o = true -> rel (vclass v1) (vclass v2) ->
  (is_order o = true -> is_ordered (vclass v1) = true) ->
  match eval_bin o v1 v2 with RVal w => vclass w = KBool | RStuck => False | _ => True end.
Proof.
  unfold rel. intros C J O.
  destruct v1, v2; simpl in J;
    destruct J as [J|[[J1 J2]|[J1 J2]]]; try discriminate;
    destruct o; simpl in *; try discriminate; auto;
    specialize (O eq_refl); discriminate.
Qed.

Lemma eval_bin_shift_ok o v1 v2 :
  is_shift o = true -> vclass v1 = KInt -> vclass v2 = KInt ->
  match eval_bin o v1 v2 with RVal w => vclass w = KInt | RStuck => False | _ => True end.
Proof.
  intros S A B. destruct v1, v2; simpl in *; try discriminate;
    destruct o; simpl in *; try discriminate; ifs; simpl; auto.
Qed.

Lemma short_circuit_spec o v w :
  short_circuit o v = Some w -> is_logical o = true /\ vclass w = KBool.
Proof.
  destruct o, v as [[|]| | |]; simpl; try discriminate; intros H; inversion H; auto.
Qed.

Definition conv_okb (k1 k2 : bclass) : bool :=
  match k1, k2 with
  | KBool, KBool | KStr, KStr | KInt, KStr => true
  | (KInt | KFloat), (KInt | KFloat) => true
  | _, _ => false
  end.

Lemma conv_okb_refl k : is_vk k = true -> conv_okb k k = true.
Proof. destruct k; simpl; auto. Qed.

Lemma eval_conv_ok k v :
  conv_okb (vclass v) k = true ->
  match eval_conv k v with RVal w => vclass w = k | RStuck => False | _ => True end.
Proof. destruct v, k; simpl; try discriminate; auto. Qed.

(* ------------------------------------------------- operators, type checker *)

Ltac dm H :=
  repeat match type of H with
         | context[match ?x with _ => _ end] => destruct x eqn:?; try discriminate H
         end.

Lemma tc_unary_class o v c te :
  tc_unary o (EVal v c) = Some te ->
  exists cx, te = EVal v cx /\ un_defined o (vty_class v) = true.
Proof.
  unfold tc_unary, mk_const. intros H.
  destruct (un_defined o (vty_class v)); simpl in H; try discriminate.
  dm H; inversion H; eauto.
Qed.

Lemma tc_binary_arith o ta tb te :
  tc_binary o ta tb = Some te -> is_shift o = false -> is_comparison o = false ->
  exists v c1 c2 c, match_types ta tb = Some (v, c1, c2) /\
                    op_defined o (vty_class v) = true /\ te = EVal v c.
Proof.
  unfold tc_binary, mk_const. intros H S C. rewrite S, C in H.
  destruct (match_types ta tb) as [[[v c1] c2]|]; try discriminate.
  destruct (op_defined o (vty_class v)) eqn:D; simpl in H; try discriminate.
  exists v, c1, c2.
  dm H; inversion H; eexists; repeat split; eauto.
Qed.

Lemma logical_kbool o k : is_logical o = true -> op_defined o k = true -> k = KBool.
Proof. destruct o; simpl; try discriminate; intros _ H; apply bclass_eqb_spec in H; auto. Qed.

Lemma logical_flags o : is_logical o = true -> is_shift o = false /\ is_comparison o = false.
Proof. destruct o; simpl; try discriminate; auto. Qed.

Lemma cmp_compat_class va ca vb cb p :
  cmp_compat (EVal va ca) (EVal vb cb) = Some p ->
  va <> VU UFloat -> vb <> VU UFloat ->
  is_vk (vty_class va) = true -> is_vk (vty_class vb) = true ->
  rel (vty_class va) (vty_class vb).
Proof.
  intros H Na Nb Ka Kb.
  assert (M : forall r, match_types (EVal va ca) (EVal vb cb) = Some r ->
                        rel (vty_class va) (vty_class vb)).
  { intros [[v c1] c2] M. apply match_types_class in M as [_ J]; auto.
    unfold join in J. unfold rel.
    destruct J as [[J1 J2]|[J0 [[J1 J2]|[J1 J2]]]]; [left; congruence|auto|auto]. }
  destruct va as [t1|k1], vb as [t2|k2]; unfold cmp_compat in H; cbv beta iota in H.
  - destruct (assignable_ty t1 t2 || assignable_ty t2 t1) eqn:A; try discriminate.
    simpl in *. apply vk_basic in Ka. apply vk_basic in Kb.
    apply orb_true_iff in A as [A|A]; apply assignable_class in A; auto; left; congruence.
  - destruct (match_types (EVal (VT t1) ca) (EVal (VU k2) cb)) eqn:Q; try discriminate. eapply M; eauto.
  - destruct (match_types (EVal (VU k1) ca) (EVal (VT t2) cb)) eqn:Q; try discriminate. eapply M; eauto.
  - destruct (match_types (EVal (VU k1) ca) (EVal (VU k2) cb)) eqn:Q; try discriminate. eapply M; eauto.
Qed.

Lemma tc_binary_cmp o va ca vb cb te :
  tc_binary o (EVal va ca) (EVal vb cb) = Some te -> is_comparison o = true ->
  va <> VU UFloat -> vb <> VU UFloat ->
  is_vk (vty_class va) = true -> is_vk (vty_class vb) = true ->
  (exists c, te = EVal (VU UBool) c) /\ rel (vty_class va) (vty_class vb) /\
  (is_order o = true -> is_ordered (vty_class va) = true).
Proof.
  intros H C Na Nb Ka Kb.
  assert (S : is_shift o = false) by (clear H; destruct o; try reflexivity; vm_compute in C; discriminate C).
  unfold tc_binary in H. rewrite S, C in H. unfold tc_compare in H.
  destruct (cmp_compat (EVal va ca) (EVal vb cb)) as [[c1 c2]|] eqn:Q; try discriminate.
  apply cmp_compat_class in Q; auto.
  destruct (is_order o) eqn:O.
  - unfold ordered_operand in H.
    destruct (is_ordered (vty_class va)) eqn:OA; simpl in H; try discriminate.
    destruct (is_ordered (vty_class vb)); simpl in H; try discriminate.
    inversion H. split; [eauto|split; auto].
  - destruct (eq_operand_ok (EVal vb cb) (EVal va ca) && eq_operand_ok (EVal va ca) (EVal vb cb));
      try discriminate.
    inversion H. split; [eauto|split; auto; discriminate].
Qed.

Lemma tc_binary_shift o va ca vb cb te :
  tc_binary o (EVal va ca) (EVal vb cb) = Some te -> is_shift o = true ->
  va <> VU UFloat -> vb <> VU UFloat ->
  is_vk (vty_class va) = true -> is_vk (vty_class vb) = true ->
  exists v c, te = EVal v c /\ vty_class v = KInt /\ vty_class va = KInt /\ vty_class vb = KInt.
Proof.
  intros H S Na Nb Ka Kb. unfold tc_binary in H. rewrite S in H.
  unfold tc_shift in H.
  destruct (shift_count_ok vb cb) eqn:SC; simpl in H; try discriminate.
  assert (B : vty_class vb = KInt).
  { unfold shift_count_ok in SC. destruct vb as [t|k].
    - destruct cb as [[q|]|]; try discriminate.
      + apply andb_true_iff in SC as [SC _]. apply bclass_eqb_spec in SC. auto.
      + apply bclass_eqb_spec in SC. auto.
    - destruct k; simpl in *; try congruence; destruct cb as [[q|]|]; simpl in SC; discriminate. }
  destruct va as [t|k].
  - destruct ca as [[q|]|]; try discriminate.
    + destruct (bclass_eqb (tclass t) KInt) eqn:A; try discriminate.
      apply bclass_eqb_spec in A. unfold mk_const, shift_result_vty in H.
      dm H; inversion H; subst; simpl; eauto 10.
    + destruct (bclass_eqb (tclass t) KInt) eqn:A; try discriminate.
      apply bclass_eqb_spec in A. inversion H; subst; simpl; eauto 10.
  - destruct ca as [[q|]|]; try discriminate.
    assert (A : kind_class k = KInt) by (destruct k; simpl in *; try congruence; discriminate).
    destruct (is_numeric (kind_class k)); try discriminate.
    unfold mk_const, shift_result_vty in H. simpl vty_class.
    rewrite A in H. simpl in H.
    dm H; inversion H; subst; simpl; eauto 10.
Qed.

Lemma bytes_comp t : is_bytes_or_runes t = true -> tclass t = KComp.
Proof. destruct t; simpl; try discriminate; auto. Qed.

Lemma bytes_basic t : basic_ty t = true -> is_bytes_or_runes t = false.
Proof. destruct t; simpl; try discriminate; auto. Qed.

Lemma convertible_class t2 t :
  convertible t2 t = true -> basic_ty t2 = true -> basic_ty t = true ->
  conv_okb (tclass t2) (tclass t) = true.
Proof.
  unfold convertible. intros H B2 B.
  rewrite (bytes_basic t B), (bytes_basic t2 B2) in H.
  rewrite andb_false_r, !orb_false_r in H.
  pose proof (basic_vk _ B2) as K2. pose proof (basic_vk _ B) as K.
  remember (assignable_ty t2 t) as A eqn:EA. symmetry in EA.
  repeat (apply orb_true_iff in H as [H|H]).
  - rewrite H in EA. clear H. rename EA into H. apply assignable_class in H; auto. rewrite H. apply conv_okb_refl; auto.
  - apply underlying_class in H; auto. rewrite H. apply conv_okb_refl; auto.
  - destruct t2; try discriminate.
  - apply andb_true_iff in H as [H1 H2].
    destruct (tclass t2), (tclass t); simpl in *; try discriminate; auto.
  - apply andb_true_iff in H as [H1 H2].
    apply bclass_eqb_spec in H1. apply bclass_eqb_spec in H2. rewrite H1, H2. reflexivity.
Qed.

Lemma tc_convert_class t vt c te :
  tc_convert t (EVal vt c) = Some te -> basic_ty t = true ->
  vt <> VU UFloat -> is_vk (vty_class vt) = true ->
  exists cx, te = EVal (VT t) cx /\ conv_okb (vty_class vt) (tclass t) = true.
Proof.
  intros H B N K. unfold tc_convert in H.
  rewrite (iface_basic t B), (bytes_basic t B), andb_false_r in H.
  destruct c as [c|].
  - destruct (vty_class vt), (tclass t), c; simpl in *; try discriminate;
      dm H; inversion H; eauto.
  - destruct vt as [t2|k2].
    + destruct (convertible t2 t) eqn:Q; try discriminate. inversion H.
      eexists; split; eauto. simpl in *. apply convertible_class; auto. apply vk_basic; auto.
    + assert (NL : nillable t = false).
      { destruct (nillable t) eqn:Q; auto. apply nillable_comp in Q.
        apply basic_vk in B. rewrite Q in B. simpl in B. discriminate B. }
      rewrite NL in H. rewrite orb_false_r in H.
      destruct k2; simpl in *; try congruence; try discriminate.
      destruct (bclass_eqb (tclass t) KBool) eqn:Q; try discriminate.
      apply bclass_eqb_spec in Q. inversion H. rewrite Q. eauto.
Qed.

(* ------------------------------------------------------------- the theorem *)

Lemma typed_progress_invariant G E st :
  store_ok st E ->
  forall fuel e te, core e = true -> tc_expr G E e = Some te -> good (eval fuel st E e) te.
Proof.
  intros Hst. induction fuel as [|fuel IH]; intros e te Hc Ht; [exact I|].
  destruct e; simpl in Hc; try discriminate; simpl eval.
  - simpl in Ht. inversion Ht. exists (VU UBool), (Some COther). repeat split. discriminate.
  - simpl in Ht. inversion Ht. do 2 eexists. repeat split. discriminate.
  - simpl in Ht. inversion Ht. do 2 eexists. repeat split. discriminate.
  - simpl in Ht. inversion Ht. do 2 eexists. repeat split. discriminate.
  - (* EVar *)
    simpl in Ht. destruct (N.eqb x blank); try discriminate.
    destruct (lookup E x) as [[t|[vt c|ts]|ps rs]|] eqn:L; try discriminate;
      pose proof (Hst _ _ L) as Hx; simpl in Hx; try contradiction.
    + destruct Hx as (v & -> & Hv). inversion Ht. simpl.
      exists (VT t), None. repeat split; auto. discriminate.
    + destruct Hx as (Nf & v & -> & Hv). inversion Ht. simpl. eauto.
  - (* EUn *)
    simpl in Ht. destruct (tc_expr G E e) as [ta|] eqn:Ta; try discriminate.
    pose proof (IH _ _ Hc Ta) as Ha. destruct (eval fuel st E e); simpl in *; auto.
    destruct Ha as (vt & c & -> & NF & HC).
    apply tc_unary_class in Ht as (cx & -> & UD).
    pose proof (eval_un_ok o v _ UD HC) as R.
    destruct (eval_un o v); simpl; auto. eauto.
  - (* EBin *)
    apply andb_true_iff in Hc as [Hc1 Hc2]. simpl in Ht.
    destruct (tc_expr G E e1) as [ta|] eqn:Ta; try discriminate.
    destruct (tc_expr G E e2) as [tb|] eqn:Tb; try discriminate.
    pose proof (IH _ _ Hc1 Ta) as Ha. destruct (eval fuel st E e1) as [v1| | |]; simpl in *; auto.
    destruct Ha as (va & ca & -> & NFa & HCa).
    destruct (short_circuit o v1) as [w|] eqn:SC.
    + apply short_circuit_spec in SC as [L W].
      destruct (logical_flags o L) as [S C].
      apply tc_binary_arith in Ht as (v & c1 & c2 & c & M & D & ->); auto.
      apply logical_kbool in D; auto. simpl.
      exists v, c. repeat split; auto; [|unfold val_has_class; congruence].
      intros ->. discriminate.
    + pose proof (IH _ _ Hc2 Tb) as Hb. destruct (eval fuel st E e2) as [v2| | |]; simpl in *; auto.
      destruct Hb as (vb & cb & -> & NFb & HCb).
      unfold val_has_class in *.
      pose proof (vclass_vk v1) as K1. pose proof (vclass_vk v2) as K2.
      rewrite HCa in K1. rewrite HCb in K2.
      destruct (is_shift o) eqn:S; [|destruct (is_comparison o) eqn:C].
      * apply tc_binary_shift in Ht as (v & c & -> & KV & KA & KB); auto.
        assert (R : match eval_bin o v1 v2 with RVal w => vclass w = KInt | RStuck => False | _ => True end)
          by (apply eval_bin_shift_ok; congruence).
        destruct (eval_bin o v1 v2); simpl; auto.
        exists v, c. repeat split; auto; [|congruence]. intros ->. discriminate.
      * apply tc_binary_cmp in Ht as ((c & ->) & R & O); auto.
        assert (Q : match eval_bin o v1 v2 with RVal w => vclass w = KBool | RStuck => False | _ => True end).
        { apply eval_bin_cmp_ok; auto; rewrite HCa; [rewrite HCb; auto|auto]. }
        destruct (eval_bin o v1 v2); simpl; auto.
        exists (VU UBool), c. repeat split; auto. discriminate.
      * apply tc_binary_arith in Ht as (v & c1 & c2 & c & M & D & ->); auto.
        apply match_types_class in M as [NV J]; auto.
        assert (Q : match eval_bin o v1 v2 with RVal w => vclass w = vty_class v | RStuck => False | _ => True end).
        { apply eval_bin_arith_ok; auto. rewrite HCa, HCb. auto. }
        destruct (eval_bin o v1 v2); simpl; auto.
        exists v, c. repeat split; auto.
  - (* EConv *)
    apply andb_true_iff in Hc as [Hb Hc]. simpl in Ht.
    destruct (wf_ty t); simpl in Ht; try discriminate.
    destruct (tc_expr G E e) as [ta|] eqn:Ta; try discriminate.
    pose proof (IH _ _ Hc Ta) as Ha. destruct (eval fuel st E e) as [v| | |]; simpl in *; auto.
    destruct Ha as (vt & c & -> & NF & HC). unfold val_has_class in *.
    pose proof (vclass_vk v) as K. rewrite HC in K.
    apply tc_convert_class in Ht as (cx & -> & OK); auto.
    assert (Q : match eval_conv (tclass t) v with RVal w => vclass w = tclass t | RStuck => False | _ => True end)
      by (apply eval_conv_ok; rewrite HC; auto).
    destruct (eval_conv (tclass t) v); simpl; auto.
    exists (VT t), cx. repeat split; auto. discriminate.
Qed.

(* the stronger invariant, as a statement about values *)
Theorem typed_preservation_expr_partial : forall fuel G E st e vt c v,
  core e = true -> store_ok st E -> tc_expr G E e = Some (EVal vt c) ->
  eval fuel st E e = RVal v -> val_has_class v (vty_class vt).
Proof.
  intros fuel G E st e vt c v Hc Hst Ht Hv.
  pose proof (typed_progress_invariant G E st Hst fuel e _ Hc Ht) as H.
  rewrite Hv in H. destruct H as (vtx & cx & Q & _ & H). inversion Q; subst. auto.
Qed.

Theorem typed_progress_expr_partial : forall fuel G E st e te,
  core e = true -> store_ok st E -> tc_expr G E e = Some te ->
  eval fuel st E e <> RStuck.
Proof.
  intros fuel G E st e te Hc Hst Ht Hs.
  pose proof (typed_progress_invariant G E st Hst fuel e te Hc Ht) as H.
  rewrite Hs in H. exact H.
Qed.
