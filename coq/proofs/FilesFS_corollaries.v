(* Readable consequences of the contract proved in FilesFS_proofs.v (property C23). *)
From Verif Require Import Bytes FilesFSM Paths_proofs FsContract FilesFS_proofs.
From Coq Require Import Permutation Sorted.
Open Scope N_scope.

Lemma firstn_add {A} (l : list A) a b : firstn (a + b) l = firstn a l ++ firstn b (skipn a l).
Proof.
  revert l. induction a as [|a IH]; intros l; simpl; [reflexivity|].
  destruct l as [|x l]; simpl; [rewrite firstn_nil; reflexivity|]. f_equal. apply IH.
Qed.

Lemma skipn_add {A} (l : list A) a b : skipn (a + b) l = skipn b (skipn a l).
Proof.
  revert l. induction a as [|a IH]; intros l; simpl; [reflexivity|].
  destruct l as [|x l]; simpl; [rewrite skipn_nil; reflexivity|]. apply IH.
Qed.

Lemma firstn_length_id {A} (l : list A) k : firstn (length (firstn k l)) l = firstn k l.
Proof.
  revert l. induction k as [|k IH]; intros l; simpl; [reflexivity|].
  destruct l as [|x l]; simpl; [reflexivity|]. f_equal. apply IH.
Qed.

(* ------------------------------------------------------------------ Reads *)

(* successive Reads with buffers of ks bytes on a handle *)
Fixpoint run_reads (h : handle) (ks : list nat) : list (bytes * rerr) :=
  match ks with
  | [] => []
  | k :: rest => let '(d, e, h1) := file_read h k in (d, e) :: run_reads h1 rest
  end.

Fixpoint sum (ks : list nat) : nat := match ks with [] => 0 | k :: r => k + sum r end.

(* the bytes returned by successive Reads are consecutive pieces of the content:
   together they are its first min(sum ks, length) bytes; every Read returns
   min(k, remaining) bytes; the error is EOF exactly when nothing remained *)
Lemma reads_from data name ks : forall pos, (pos <= length data)%nat ->
  let h := mkHandle false name data (Z.of_nat pos) 0 0 in
  let rs := run_reads h ks in
  concat (map fst rs) = firstn (sum ks) (skipn pos data) /\
  length rs = length ks /\
  (forall i k d e, nth_error ks i = Some k -> nth_error rs i = Some (d, e) ->
     let before := length (concat (map fst (firstn i rs))) in
     d = firstn k (skipn (pos + before) data) /\
     (e = EEOF <-> (pos + before = length data)%nat) /\ (e = ENil \/ e = EEOF)).
Proof.
  induction ks as [|k ks IH]; intros pos Hle h rs.
  - subst rs. simpl. split; [reflexivity|]. split; [reflexivity|]. intros [|i]; discriminate.
  - subst rs h. cbn [run_reads]. unfold file_read. cbn [h_offset h_data h_dir h_name h_mode h_n].
    destruct (Z.ltb_spec (Z.of_nat pos) 0) as [Hn|_]; [lia|].
    destruct (Z.eqb_spec (Z.of_nat pos) (Z.of_nat (length data))) as [Heq|Hne].
    + (* at the end: EOF, nothing moves *)
      assert (Hp : pos = length data) by lia.
      specialize (IH pos Hle). cbv zeta in IH. destruct IH as (I1 & I2 & I3).
      cbn [map fst concat app length]. split; [|split].
      * rewrite I1. rewrite Hp, skipn_all, !firstn_nil. reflexivity.
      * simpl. rewrite I2. reflexivity.
      * intros [|i] k0 d e Hk Hr; cbn in Hk, Hr.
        -- injection Hk as <-. injection Hr as <- <-. cbn. rewrite Nat.add_0_r.
           rewrite Hp, skipn_all, firstn_nil. split; [reflexivity|]. split; [tauto|tauto].
        -- cbn [firstn map fst concat app]. apply (I3 i k0 d e Hk Hr).
    + destruct (Z.ltb_spec (Z.of_nat (length data)) (Z.of_nat pos)) as [Hgt|_]; [lia|].
      rewrite Nat2Z.id.
      set (chunk := firstn k (skipn pos data)).
      assert (Hlen : length chunk = Nat.min k (length data - pos)) by (unfold chunk; rewrite firstn_length, skipn_length; reflexivity).
      assert (Hle2 : (pos + length chunk <= length data)%nat) by lia.
      replace (Z.of_nat pos + Z.of_nat (length chunk))%Z with (Z.of_nat (pos + length chunk)) by lia.
      specialize (IH (pos + length chunk)%nat Hle2). cbv zeta in IH. destruct IH as (I1 & I2 & I3).
      cbn [map fst concat]. split; [|split].
      * rewrite I1. cbn [sum]. rewrite firstn_add. fold chunk. f_equal.
        rewrite skipn_add.
        (* skipping the chunk or skipping k bytes of the rest is the same *)
        destruct (Nat.le_ge_cases k (length data - pos)) as [Hk|Hk].
        -- replace (length chunk) with k by lia. reflexivity.
        -- rewrite (skipn_all2 (skipn pos data)) by (rewrite skipn_length; lia).
           rewrite (skipn_all2 (skipn pos data)) by (rewrite skipn_length; lia). reflexivity.
      * simpl. rewrite I2. reflexivity.
      * intros [|i] k0 d e Hk Hr; cbn in Hk, Hr.
        -- injection Hk as <-. injection Hr as <- <-. cbn. rewrite Nat.add_0_r.
           split; [reflexivity|]. split; [|tauto]. split; [discriminate|lia].
        -- cbn [firstn map fst concat]. rewrite app_length.
           destruct (I3 i k0 d e Hk Hr) as (J1 & J2 & J3). cbv zeta in J1, J2.
           replace (pos + (length chunk + length (concat (map fst (firstn i (run_reads
               {| h_dir := false; h_name := name; h_data := data; h_offset := Z.of_nat (pos + length chunk); h_mode := 0; h_n := 0 |} ks))))))%nat
             with (pos + length chunk + length (concat (map fst (firstn i (run_reads
               {| h_dir := false; h_name := name; h_data := data; h_offset := Z.of_nat (pos + length chunk); h_mode := 0; h_n := 0 |} ks)))))%nat by lia.
           tauto.
Qed.

Theorem reads_concat fs name data ks :
  vfacts fs -> is_file fs name data ->
  exists h, files_open fs name = Some h /\
    let rs := run_reads h ks in
    concat (map fst rs) = firstn (sum ks) data /\
    (forall i k d e, nth_error ks i = Some k -> nth_error rs i = Some (d, e) ->
       let before := length (concat (map fst (firstn i rs))) in
       d = firstn k (skipn before data) /\ (e = EEOF <-> before = length data) /\ (e = ENil \/ e = EEOF)).
Proof.
  intros V Hf. pose proof (open_spec fs name V) as S.
  destruct (files_open fs name) as [h|] eqn:E.
  - destruct S as [(data' & Hf' & ->)|(Hd & _)].
    + assert (data' = data).
      { pose proof (fs_get_In fs name data (vf_nodup fs V) Hf) as G1.
        pose proof (fs_get_In fs name data' (vf_nodup fs V) Hf') as G2. congruence. }
      subst data'. exists (new_file name data). split; [reflexivity|].
      pose proof (reads_from data name ks 0 (Nat.le_0_l _)) as R. cbv zeta in R. simpl Z.of_nat in R.
      destruct R as (R1 & _ & R3). split; [exact R1|]. exact R3.
    + exfalso. eapply file_not_dir; eassumption.
  - exfalso. destruct S as [Hn _]. eapply Hn. eassumption.
Qed.

(* ------------------------------------------------------------------ ReadDir *)

(* successive ReadDir calls on a handle *)
Fixpoint run_readdirs (fs : files) (h : handle) (ns : list Z) : list (list dirent * rderr) :=
  match ns with
  | [] => []
  | n :: rest => let '(l, e, h1) := readdir fs h n in (l, e) :: run_readdirs fs h1 rest
  end.

(* the first ReadDir(n <= 0) on a new handle returns the complete listing *)
Theorem readdir_all fs dn n :
  (n <= 0)%Z -> readdir fs (new_dir dn) n = (listing fs dn, RNil, set_n (new_dir dn) (length (listing fs dn))).
Proof.
  intros Hn. rewrite readdir_spec. cbn [h_name h_n new_dir]. unfold page, page_err.
  destruct (Z.ltb_spec 0 n); [lia|]. reflexivity.
Qed.

(* paging: the pages are consecutive chunks of the listing, without gaps or repetitions;
   a page for n > 0 has min(n, remaining) entries and is (nothing, EOF) exactly when nothing
   remains; a page for n <= 0 has all remaining entries and never an error *)
Theorem readdir_paging fs ns : forall h,
  let L := listing fs (h_name h) in
  let rs := run_readdirs fs h ns in
  concat (map fst rs) = firstn (length (concat (map fst rs))) (skipn (h_n h) L) /\
  length rs = length ns /\
  (forall i n l e, nth_error ns i = Some n -> nth_error rs i = Some (l, e) ->
     let cur := (h_n h + length (concat (map fst (firstn i rs))))%nat in
     let remaining := (length L - cur)%nat in
     l = firstn (length l) (skipn cur L) /\
     length l = (if (0 <? n)%Z then Nat.min (Z.to_nat n) remaining else remaining) /\
     (e = REOF <-> (0 < n)%Z /\ remaining = 0%nat)).
Proof.
  induction ns as [|n ns IH]; intros h L rs.
  - subst rs. simpl. split; [reflexivity|]. split; [reflexivity|]. intros [|i]; discriminate.
  - subst rs L. cbn [run_readdirs]. rewrite readdir_spec.
    set (L := listing fs (h_name h)). set (p := page L (h_n h) n).
    specialize (IH (set_n h (h_n h + length p))). cbv zeta in IH. cbn [h_name h_n set_n] in IH. fold L in IH.
    destruct IH as (I1 & I2 & I3).
    assert (Hp : p = firstn (length p) (skipn (h_n h) L)).
    { unfold p, page. destruct (0 <? n)%Z.
      - symmetry. apply firstn_length_id.
      - rewrite firstn_all. reflexivity. }
    assert (Hplen : length p = if (0 <? n)%Z then Nat.min (Z.to_nat n) (length L - h_n h) else (length L - h_n h)%nat).
    { unfold p, page. destruct (0 <? n)%Z; [rewrite firstn_length|]; rewrite skipn_length; reflexivity. }
    cbn [map fst concat]. split; [|split].
    + rewrite app_length, firstn_add, <- Hp. f_equal.
      rewrite I1 at 1. rewrite skipn_add. 
      (* skipping length p entries of the rest equals skipping the page *)
      replace (skipn (length p) (skipn (h_n h) L)) with (skipn (h_n h + length p) L) by apply skipn_add.
      reflexivity.
    + simpl. rewrite I2. reflexivity.
    + intros [|i] n0 l e Hn Hr; cbn in Hn, Hr.
      * injection Hn as <-. injection Hr as <- <-. cbn [firstn map concat length]. rewrite Nat.add_0_r.
        split; [exact Hp|]. split; [exact Hplen|].
        unfold page_err. destruct (Z.ltb_spec 0 n) as [Hpos|Hneg]; simpl.
        -- destruct (Nat.leb_spec (length L) (h_n h)) as [Hl|Hl].
           ++ split; [intros _; split; [assumption|lia]|reflexivity].
           ++ split; [discriminate|intros [_ H0]; lia].
        -- split; [discriminate|intros [H0 _]; lia].
      * cbn [firstn map fst concat]. rewrite app_length.
        destruct (I3 i n0 l e Hn Hr) as (J1 & J2 & J3). cbv zeta in J1, J2, J3.
        rewrite Nat.add_assoc. tauto.
Qed.

(* ------------------------------------------------------------------ the contract determines the listing *)

Lemma ltb_irrefl a : bytes_ltb a a = false.
Proof. induction a as [|x a IH]; simpl; [reflexivity|]. rewrite N.ltb_irrefl. assumption. Qed.

Lemma ltb_trans a b c : bytes_ltb a b = true -> bytes_ltb b c = true -> bytes_ltb a c = true.
Proof.
  revert b c. induction a as [|x a IH]; intros [|y b] [|z c]; simpl; try discriminate; try reflexivity.
  destruct (N.ltb_spec x y); destruct (N.ltb_spec y x); destruct (N.ltb_spec y z); destruct (N.ltb_spec z y);
    destruct (N.ltb_spec x z); destruct (N.ltb_spec z x); try lia; try discriminate; try reflexivity.
  apply IH.
Qed.

Lemma ltb_tricho a b : bytes_ltb a b = false -> bytes_ltb b a = false -> a = b.
Proof.
  revert b. induction a as [|x a IH]; intros [|y b]; simpl; try discriminate; try reflexivity.
  destruct (N.ltb_spec x y); destruct (N.ltb_spec y x); try lia; try discriminate.
  intros H1 H2. assert (x = y) by lia. subst y. f_equal. apply IH; assumption.
Qed.

Definition lt_name (a b : bytes) : Prop := bytes_ltb a b = true.

Lemma sorted_strict l : Sorted le_name l -> NoDup l -> StronglySorted lt_name l.
Proof.
  induction l as [|x l IH]; intros S ND; [constructor|].
  inversion S as [|? ? Sl Hh]; subst. inversion ND as [|? ? Hx NDl]; subst.
  specialize (IH Sl NDl). constructor; [assumption|].
  destruct l as [|y l]; [constructor|].
  inversion Hh as [|? ? Hle]; subst.
  assert (Hxy : lt_name x y).
  { unfold lt_name. destruct (bytes_ltb x y) eqn:E; [reflexivity|]. exfalso. apply Hx. left.
    symmetry. apply ltb_tricho; assumption. }
  constructor; [assumption|]. inversion IH as [|? ? _ Hall]; subst.
  rewrite Forall_forall in *. intros z Hz. eapply ltb_trans; [exact Hxy|apply Hall; assumption].
Qed.

Lemma strict_sorted_unique l1 : forall l2,
  StronglySorted lt_name l1 -> StronglySorted lt_name l2 -> (forall x, In x l1 <-> In x l2) -> l1 = l2.
Proof.
  induction l1 as [|x l1 IH]; intros [|y l2] S1 S2 H.
  - reflexivity.
  - exfalso. apply (H y). simpl. tauto.
  - exfalso. apply (H x). simpl. tauto.
  - inversion S1 as [|? ? S1' A1]; subst. inversion S2 as [|? ? S2' A2]; subst.
    rewrite Forall_forall in A1, A2.
    assert (Exy : x = y).
    { destruct (proj1 (H x) (or_introl eq_refl)) as [E|Hx]; [symmetry; assumption|].
      destruct (proj2 (H y) (or_introl eq_refl)) as [E|Hy]; [assumption|].
      exfalso. pose proof (ltb_trans _ _ _ (A1 y Hy) (A2 x Hx)) as C. rewrite ltb_irrefl in C. discriminate. }
    subst y. f_equal. apply IH; try assumption. intros z. split; intros Hz.
    + destruct (proj1 (H z) (or_intror Hz)) as [E|Hz2]; [|assumption].
      subst z. pose proof (A1 x Hz) as C. unfold lt_name in C. rewrite ltb_irrefl in C. discriminate.
    + destruct (proj2 (H z) (or_intror Hz)) as [E|Hz1]; [|assumption].
      subst z. pose proof (A2 x Hz) as C. unfold lt_name in C. rewrite ltb_irrefl in C. discriminate.
Qed.

(* an entry satisfying the contract is determined by its name *)
Lemma entry_determined fs dn L L' e e' :
  listing_ok fs dn L -> listing_ok fs dn L' -> In e L -> In e' L' -> de_name e = de_name e' -> e = e'.
Proof.
  intros O O' He He' En.
  destruct (lo_entry fs dn L O e He) as (_ & T1 & _ & _ & _ & _ & h & Eo & Es & Ed).
  destruct (lo_entry fs dn L' O' e' He') as (_ & T1' & _ & _ & _ & _ & h' & Eo' & Es' & Ed').
  rewrite <- En in Eo'. rewrite Eo in Eo'. injection Eo' as <-.
  destruct e as [n1 d1 t1 i1], e' as [n2 d2 t2 i2]. cbn in *. congruence.
Qed.

Theorem listing_unique fs dn L L' : listing_ok fs dn L -> listing_ok fs dn L' -> L = L'.
Proof.
  intros O O'.
  assert (En : map de_name L = map de_name L').
  { apply strict_sorted_unique.
    - apply sorted_strict; [apply (lo_sorted fs dn L O)|apply (lo_nodup fs dn L O)].
    - apply sorted_strict; [apply (lo_sorted fs dn L' O')|apply (lo_nodup fs dn L' O')].
    - intros c. rewrite (lo_names fs dn L O), (lo_names fs dn L' O'). reflexivity. }
  assert (G : forall l l', map de_name l = map de_name l' ->
                (forall e, In e l -> In e L) -> (forall e, In e l' -> In e L') -> l = l').
  { induction l as [|e l IH]; intros [|e' l'] E Hl Hl'; try discriminate; [reflexivity|].
    simpl in E. injection E as E1 E2. f_equal.
    - eapply entry_determined; [exact O|exact O'|apply Hl; simpl; tauto|apply Hl'; simpl; tauto|assumption].
    - apply IH; [assumption| |]; intros x Hx; [apply Hl|apply Hl']; simpl; tauto. }
  apply G; [assumption| |]; tauto.
Qed.
