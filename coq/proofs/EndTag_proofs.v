(* The end tag test of the template lexer for script and style elements
   (generated facts gen_isEndScript_len/_sets, gen_isEndStyle_len/_sets from
   lexer.go isEndScript/isEndStyle) accepts exactly "</", the tag name in any
   letter case, and one terminating byte.  Stated over the generated facts: a
   changed predicate breaks the finite obligations below. *)
From Verif Require Import Bytes Utf8 Facts_lexer LexBase LexerM.
Open Scope N_scope.

Definition ascii_lower (c : N) : N := if (65 <=? c) && (c <=? 90) then c + 32 else c.

(* s starts with "</", then name (ASCII case-insensitive), then a byte of term *)
Definition end_tag_spec (name : bytes) (term : list N) (s : bytes) : bool :=
  match s with
  | c0 :: c1 :: r =>
    (c0 =? 60) && (c1 =? 47) &&
    bytes_eqb (map ascii_lower (firstn (length name) r)) name &&
    match nth_error r (length name) with Some c => mem term c | None => false end
  | _ => false
  end.

(* what the code accepts after the name, and what ends a tag name for a browser
   (tab, LF, FF, CR (as LF after preprocessing), space, '/', '>') *)
Definition code_term : list N := [9; 10; 13; 32; 62].
Definition browser_term : list N := [9; 10; 12; 13; 32; 47; 62].

(* per position obligations on the generated sets *)
Definition pos_spec (name : bytes) (term : list N) (k : nat) (c : N) : bool :=
  match k with
  | O => c =? 60
  | S O => c =? 47
  | S (S j) => match nth_error name j with
               | Some x => ascii_lower c =? x
               | None => if Nat.eqb j (length name) then mem term c else true
               end
  end.

Definition sets_agree (sets : list (list N)) (name : bytes) (term : list N) : bool :=
  forallb (fun k => forallb (fun c => Bool.eqb (mem (nth k sets []) c) (pos_spec name term k c)) all_bytes
                    && forallb (fun x => x <? 256) (nth k sets []))
          (seq 0 (length name + 3)).

Lemma script_sets_agree : sets_agree gen_isEndScript_sets s_script code_term = true.
Proof. vm_compute. reflexivity. Qed.
Lemma style_sets_agree : sets_agree gen_isEndStyle_sets s_style code_term = true.
Proof. vm_compute. reflexivity. Qed.
Lemma script_len_ok : gen_isEndScript_len = 9 /\ length gen_isEndScript_sets = 9%nat.
Proof. split; reflexivity. Qed.
Lemma style_len_ok : gen_isEndStyle_len = 8 /\ length gen_isEndStyle_sets = 8%nat.
Proof. split; reflexivity. Qed.

Lemma lower_big c x : 256 <= c -> x < 128 -> (ascii_lower c =? x) = false.
Proof.
  intros Hc Hx. unfold ascii_lower. destruct ((65 <=? c) && (c <=? 90)) eqn:E.
  - apply andb_prop in E. destruct E as [_ E]. apply N.leb_le in E. lia.
  - apply N.eqb_neq. lia.
Qed.

(* membership in the k-th generated set is the spec of position k, for every number *)
Lemma set_pos sets name term k c :
  sets_agree sets name term = true -> forallb (fun x => x <? 128) name = true -> forallb (fun x => x <? 256) term = true ->
  (k < length name + 3)%nat -> mem (nth k sets []) c = pos_spec name term k c.
Proof.
  intros Ha Hname Hterm Hk. unfold sets_agree in Ha. rewrite forallb_forall in Ha.
  specialize (Ha k ltac:(apply in_seq; lia)). apply andb_prop in Ha. destruct Ha as [Ha Hb].
  destruct (N.lt_ge_cases c 256) as [Hc|Hc].
  - pose proof (forall_bytes _ Ha c Hc) as H. apply Bool.eqb_prop in H. exact H.
  - rewrite (mem_oob _ c Hb Hc). symmetry. unfold pos_spec.
    destruct k as [|[|j]]; [apply N.eqb_neq; lia|apply N.eqb_neq; lia|].
    destruct (nth_error name j) as [x|] eqn:En.
    + apply lower_big; [exact Hc|]. rewrite forallb_forall in Hname. apply nth_error_In in En. apply Hname in En. apply N.ltb_lt in En. exact En.
    + destruct (Nat.eqb j (length name)) eqn:Ej; [apply (mem_oob _ c Hterm Hc)|].
      apply nth_error_None in En. apply Nat.eqb_neq in Ej. lia.
Qed.

Lemma in_sets_nth sets s :
  in_sets sets s = true <->
  (length sets <= length s)%nat /\ forall k, (k < length sets)%nat -> mem (nth k sets []) (nth k s 0) = true.
Proof.
  revert s; induction sets as [|st sets IH]; intros s; simpl.
  - split; [intros _; split; [lia|intros k Hk; lia]|reflexivity].
  - destruct s as [|c s]; simpl; [split; [discriminate|intros [H _]; lia]|].
    rewrite andb_true_iff, IH. split.
    + intros [H1 [H2 H3]]. split; [lia|]. intros [|k] Hk; [exact H1|apply H3; lia].
    + intros [H1 H2]. split; [apply (H2 0%nat); lia|]. split; [lia|]. intros k Hk. apply (H2 (S k)). lia.
Qed.

Lemma bytes_eqb_nth a b :
  bytes_eqb a b = true <-> length a = length b /\ forall k, (k < length b)%nat -> nth k a 0 = nth k b 0.
Proof.
  rewrite bytes_eqb_eq. split; [intros ->; split; auto|].
  revert b; induction a as [|x a IH]; intros [|y b] [Hl H]; simpl in *; try discriminate; [reflexivity|].
  f_equal; [apply (H 0%nat); lia|]. apply IH. split; [lia|]. intros k Hk. apply (H (S k)). lia.
Qed.

Lemma nth_error_Some_lt {A} (l : list A) n x : nth_error l n = Some x -> (n < length l)%nat.
Proof. intros H. apply nth_error_Some. congruence. Qed.

(* the generic statement *)
Lemma end_tag_exact sets name term glen s :
  sets_agree sets name term = true -> forallb (fun x => x <? 128) name = true -> forallb (fun x => x <? 256) term = true ->
  glen = N.of_nat (length name + 3) -> length sets = (length name + 3)%nat ->
  ((glen <=? nlen s) && in_sets sets s) = end_tag_spec name term s.
Proof.
  intros Ha Hn Ht -> Hls.
  apply Bool.eq_iff_eq_true. rewrite andb_true_iff, in_sets_nth, N.leb_le, nlen_eq, Hls.
  assert (Hpos : forall k c, (k < length name + 3)%nat -> mem (nth k sets []) c = pos_spec name term k c)
    by (intros; apply (set_pos sets name term); assumption).
  unfold end_tag_spec. split.
  - intros (Hl & Hl' & H).
    destruct s as [|c0 [|c1 r]]; simpl in Hl'; try lia.
    pose proof (H 0%nat ltac:(lia)) as H0. rewrite Hpos in H0 by lia. simpl in H0. apply N.eqb_eq in H0. subst c0.
    pose proof (H 1%nat ltac:(lia)) as H1. rewrite Hpos in H1 by lia. simpl in H1. apply N.eqb_eq in H1. subst c1.
    rewrite !N.eqb_refl. simpl. apply andb_true_iff. split.
    + apply bytes_eqb_nth. rewrite map_length, firstn_length. split; [lia|]. intros k Hk.
      pose proof (H (S (S k)) ltac:(lia)) as Hk2. rewrite Hpos in Hk2 by lia. simpl in Hk2.
      destruct (nth_error name k) as [x|] eqn:En; [|apply nth_error_None in En; lia].
      apply N.eqb_eq in Hk2. rewrite (nth_error_nth _ _ _ En).
      change 0 with (ascii_lower 0) at 1. rewrite map_nth.
      rewrite <- Hk2. f_equal. rewrite <- (firstn_skipn (length name) r) at 2. rewrite app_nth1; [reflexivity|rewrite firstn_length; lia].
    + pose proof (H (S (S (length name))) ltac:(lia)) as Hk2. rewrite Hpos in Hk2 by lia. simpl in Hk2.
      destruct (nth_error name (length name)) eqn:En; [apply nth_error_Some_lt in En; lia|].
      rewrite Nat.eqb_refl in Hk2.
      destruct (nth_error r (length name)) as [c|] eqn:Er; [|apply nth_error_None in Er; lia].
      rewrite (nth_error_nth _ _ _ Er) in Hk2. exact Hk2.
  - destruct s as [|c0 [|c1 r]]; try discriminate.
    destruct (N.eqb_spec c0 60) as [->|Hc0]; [|discriminate].
    destruct (N.eqb_spec c1 47) as [->|Hc1]; [|discriminate]. simpl.
    intros Hs. apply andb_true_iff in Hs. destruct Hs as [Hs1 Hs2].
    apply bytes_eqb_nth in Hs1. rewrite map_length, firstn_length in Hs1. destruct Hs1 as [Hl1 Hs1].
    destruct (nth_error r (length name)) as [c|] eqn:Er; [|discriminate].
    pose proof (nth_error_Some_lt _ _ _ Er) as Hlr.
    split; [simpl; lia|]. split; [simpl; lia|].
    intros [|[|k]] Hk; rewrite Hpos by lia; simpl; [reflexivity|reflexivity|].
    destruct (nth_error name k) as [x|] eqn:En.
    + apply N.eqb_eq. pose proof (nth_error_Some_lt _ _ _ En) as Hkn. specialize (Hs1 k Hkn).
      rewrite (nth_error_nth _ _ _ En) in Hs1. rewrite <- Hs1.
      change 0 with (ascii_lower 0) at 2. rewrite map_nth. f_equal.
      rewrite <- (firstn_skipn (length name) r) at 1. rewrite app_nth1; [reflexivity|rewrite firstn_length; lia].
    + apply nth_error_None in En. assert (k = length name) by lia. subst k. rewrite Nat.eqb_refl.
      rewrite (nth_error_nth _ _ _ Er). exact Hs2.
Qed.

(* a larger set of terminators accepts more *)
Lemma end_tag_spec_mono name term term' s :
  (forall t, mem term t = true -> mem term' t = true) ->
  end_tag_spec name term s = true -> end_tag_spec name term' s = true.
Proof.
  intros Hm. unfold end_tag_spec. destruct s as [|c0 [|c1 r]]; auto.
  intros H. apply andb_prop in H. destruct H as [H1 H2]. rewrite H1. simpl.
  destruct (nth_error r (length name)); [apply Hm, H2|discriminate].
Qed.
