(* The parser of Json.v reads back what the printer writes: for every well
   formed value j, parse_text (json_print j) = Some j. *)
From Coq Require Import List NArith Bool Lia Arith.
From Verif Require Import Bytes Json.
Import ListNotations.
Open Scope N_scope.

Lemma strip_prefix_app p r : strip_prefix p (p ++ r) = Some r.
Proof. induction p as [| a p IH]; simpl; [reflexivity |]. rewrite N.eqb_refl. exact IH. Qed.

(* ---- strings ---- *)

Lemma scan_str_body : forall n b, (length b < n)%nat -> body_ok b = true ->
  forall acc rest, scan_str (b ++ 34 :: rest) acc = Some (rev acc ++ b, rest).
Proof.
  induction n as [| n IH]; intros b Hn Hb acc rest; [lia |].
  destruct b as [| c r].
  - simpl. rewrite app_nil_r. reflexivity.
  - cbn [body_ok] in Hb. cbn [app scan_str].
    destruct (c =? 34) eqn:E1; [discriminate Hb |].
    destruct (c =? 92) eqn:E2.
    + destruct r as [| e r']; [discriminate Hb |]. cbn [app].
      destruct (is_simple_escape e) eqn:E3.
      * rewrite (IH r' ltac:(simpl in Hn; lia) Hb). simpl. rewrite <- !app_assoc. simpl.
        apply N.eqb_eq in E2. subst c. reflexivity.
      * destruct (e =? 117) eqn:E4; [| discriminate Hb].
        destruct r' as [| h1 [| h2 [| h3 [| h4 r'']]]]; try discriminate Hb. cbn [app].
        apply andb_true_iff in Hb. destruct Hb as [Hh Hb]. rewrite Hh.
        rewrite (IH r'' ltac:(simpl in Hn; lia) Hb). simpl. rewrite <- !app_assoc. simpl.
        apply N.eqb_eq in E2. apply N.eqb_eq in E4. subst c e. reflexivity.
    + destruct (c <? 32) eqn:E3; [discriminate Hb |].
      rewrite (IH r ltac:(simpl in Hn; lia) Hb). simpl. rewrite <- app_assoc. reflexivity.
Qed.

Lemma scan_str_ok b rest : body_ok b = true -> scan_str (b ++ 34 :: rest) [] = Some (b, rest).
Proof. intro H. apply (scan_str_body (S (length b)) b (Nat.lt_succ_diag_r _) H [] rest). Qed.

(* ---- numbers ---- *)

Lemma num_dfa_chars : forall t st, num_dfa st t = true -> forallb num_char t = true.
Proof.
  induction t as [| c r IH]; intros st H; [reflexivity |].
  cbn [num_dfa] in H. cbn [forallb].
  repeat match type of H with
  | (if ?b then _ else _) = true => destruct b eqn:?; try discriminate H
  end;
  (apply andb_true_iff; split; [| apply (IH _ H)]); unfold num_char;
  repeat match goal with
  | E : (c =? _) = true |- _ => apply N.eqb_eq in E; subst c
  | E : ((c =? _) || (c =? _)) = true |- _ => apply orb_true_iff in E; destruct E as [E | E]; apply N.eqb_eq in E; subst c
  | E : is_digit c = true |- _ => rewrite E
  end; reflexivity.
Qed.

Definition num_start (c : N) : bool := is_digit c || (c =? 45).

Lemma is_number_head t : is_number t = true -> exists c r, t = c :: r /\ num_start c = true.
Proof.
  unfold is_number. destruct t as [| c r]; [discriminate |]. intro H. exists c, r. split; [reflexivity |].
  cbn [num_dfa] in H. change (0 =? 0) with true in H. cbn iota in H. unfold num_start.
  destruct (c =? 45) eqn:E1; [apply orb_true_r |].
  destruct (c =? 48) eqn:E2; [apply N.eqb_eq in E2; subst; reflexivity |].
  destruct (is_digit c); [reflexivity | discriminate H].
Qed.

(* what follows a value in our texts: nothing, a comma, a closing bracket or brace *)
Definition delim (rest : bytes) : bool :=
  match rest with
  | [] => true
  | c :: _ => (c =? 44) || (c =? 93) || (c =? 125)
  end.

Lemma span_num_app t rest : forallb num_char t = true -> delim rest = true -> span_num (t ++ rest) = (t, rest).
Proof.
  intros Ht Hr. induction t as [| c r IH]; cbn [app].
  - destruct rest as [| c r]; [reflexivity |]. cbn [span_num]. cbn [delim] in Hr.
    assert (Hn : num_char c = false).
    { unfold num_char, is_digit. repeat (apply orb_true_iff in Hr; destruct Hr as [Hr | Hr]); apply N.eqb_eq in Hr; subst; reflexivity. }
    rewrite Hn. reflexivity.
  - cbn [forallb] in Ht. apply andb_true_iff in Ht. destruct Ht as [Hc Ht]. cbn [span_num]. rewrite Hc, (IH Ht). reflexivity.
Qed.

Lemma num_start_facts c : num_start c = true ->
  is_ws c = false /\ (110 =? c) = false /\ (116 =? c) = false /\ (102 =? c) = false /\
  (c =? 34) = false /\ (c =? 91) = false /\ (c =? 123) = false.
Proof.
  unfold num_start, is_digit, is_ws. intro H.
  apply orb_true_iff in H. destruct H as [H | H].
  - apply andb_true_iff in H. destruct H as [H1 H2]. apply N.leb_le in H1. apply N.leb_le in H2.
    repeat split; try (apply N.eqb_neq; lia);
      repeat (apply orb_false_iff; split); apply N.eqb_neq; lia.
  - apply N.eqb_eq in H. subst. repeat split; reflexivity.
Qed.

(* ---- fuel ---- *)

Definition need_elems (need : json -> nat) : list json -> nat :=
  fix go (xs : list json) : nat := match xs with [] => O | x :: r => (1 + need x + go r)%nat end.
Definition need_members (need : json -> nat) : list (bytes * json) -> nat :=
  fix go (ms : list (bytes * json)) : nat := match ms with [] => O | (_, x) :: r => (1 + need x + go r)%nat end.

Fixpoint need (j : json) : nat :=
  match j with
  | JArr xs => (1 + need_elems need xs)%nat
  | JObj ms => (1 + need_members need ms)%nat
  | _ => 1%nat
  end.

(* a strong induction principle for json *)
Fixpoint jsize (j : json) : nat :=
  match j with
  | JArr xs => S (list_sum (map jsize xs))
  | JObj ms => S (list_sum (map (fun m : bytes * json => jsize (snd m)) ms))
  | _ => 1%nat
  end.

Lemma in_list_sum_le {A} (g : A -> nat) x xs : In x xs -> (g x <= list_sum (map g xs))%nat.
Proof.
  induction xs as [| y ys IH]; simpl; intro H; [contradiction |].
  destruct H as [H | H]; [subst; lia | specialize (IH H); lia].
Qed.

(* ---- the round trip ---- *)

Section RoundTrip.
  Variable js : bool.

  Lemma first_not_ws j : wf_json js j = true ->
    exists c r, json_print j = c :: r /\ is_ws c = false /\ (c =? 93) = false /\ (c =? 125) = false.
  Proof.
    destruct j; cbn [wf_json json_print]; intro H; try (eexists; eexists; split; [reflexivity | repeat split; reflexivity]).
    - destruct b; eexists; eexists; split; try reflexivity; repeat split; reflexivity.
    - destruct (is_number_head txt H) as [c [r [Ht Hc]]]. exists c, r. split; [exact Ht |].
      destruct (num_start_facts c Hc) as [F0 _]. split; [exact F0 |].
      unfold num_start, is_digit in Hc. apply orb_true_iff in Hc. destruct Hc as [Hc | Hc].
      + apply andb_true_iff in Hc. destruct Hc as [H1 H2]. apply N.leb_le in H1. apply N.leb_le in H2.
        split; apply N.eqb_neq; lia.
      + apply N.eqb_eq in Hc. subst. split; reflexivity.
  Qed.

  Lemma skip_ws_print j rest : wf_json js j = true -> skip_ws (json_print j ++ rest) = json_print j ++ rest.
  Proof.
    intro H. destruct (first_not_ws j H) as [c [r [Hp [Hc _]]]]. rewrite Hp. cbn [app skip_ws]. rewrite Hc. reflexivity.
  Qed.

  Lemma skip_ws_delim rest : delim rest = true -> skip_ws rest = rest.
  Proof.
    destruct rest as [| c r]; [reflexivity |]. cbn [delim skip_ws]. intro H.
    assert (Hw : is_ws c = false).
    { unfold is_ws. repeat (apply orb_true_iff in H; destruct H as [H | H]); apply N.eqb_eq in H; subst; reflexivity. }
    rewrite Hw. reflexivity.
  Qed.

  Definition PV (n : nat) : Prop :=
    forall j rest, wf_json js j = true -> (need j <= n)%nat -> delim rest = true ->
      parse_value js n (json_print j ++ rest) = Some (j, rest).
  Definition PE (n : nat) : Prop :=
    forall x xs rest, forallb (wf_json js) (x :: xs) = true -> (need_elems need (x :: xs) <= n)%nat ->
      parse_elems js n (print_elems json_print (x :: xs) true ++ 93 :: rest) = Some (x :: xs, rest).
  Definition PM (n : nat) : Prop :=
    forall m ms rest, forallb (fun m : bytes * json => body_ok (fst m) && wf_json js (snd m)) (m :: ms) = true ->
      (need_members need (m :: ms) <= n)%nat ->
      parse_members js n (print_members json_print (m :: ms) true ++ 125 :: rest) = Some (m :: ms, rest).

  Lemma print_elems_first x xs : print_elems json_print (x :: xs) true = json_print x ++ print_elems json_print xs false.
  Proof. reflexivity. Qed.

  Lemma print_elems_next x xs : print_elems json_print (x :: xs) false = 44 :: print_elems json_print (x :: xs) true.
  Proof. reflexivity. Qed.

  Lemma print_members_first k x ms :
    print_members json_print ((k, x) :: ms) true = 34 :: k ++ [34; 58] ++ json_print x ++ print_members json_print ms false.
  Proof. reflexivity. Qed.

  Lemma print_members_next m ms : print_members json_print (m :: ms) false = 44 :: print_members json_print (m :: ms) true.
  Proof. destruct m. reflexivity. Qed.

  Lemma parse_value_S n s :
    parse_value js (S n) s =
      let s := skip_ws s in
      match strip_prefix t_null s with
      | Some r => Some (JNull, r)
      | None =>
      match strip_prefix t_true s with
      | Some r => Some (JBool true, r)
      | None =>
      match strip_prefix t_false s with
      | Some r => Some (JBool false, r)
      | None =>
      match (if js then strip_prefix t_date_open s else None) with
      | Some r =>
        match scan_str r [] with
        | Some (b, r1) => match head_is 41 r1 with Some r' => Some (JDate b, r') | None => None end
        | None => None
        end
      | None =>
      match s with
      | [] => None
      | c :: r =>
        if c =? 34 then
          match scan_str r [] with
          | Some (b, r') => Some (JStr b, r')
          | None => None
          end
        else if c =? 91 then
          match head_is 93 (skip_ws r) with
          | Some r' => Some (JArr [], r')
          | None => match parse_elems js n (skip_ws r) with Some (xs, r') => Some (JArr xs, r') | None => None end
          end
        else if c =? 123 then
          match head_is 125 (skip_ws r) with
          | Some r' => Some (JObj [], r')
          | None => match parse_members js n (skip_ws r) with Some (ms, r') => Some (JObj ms, r') | None => None end
          end
        else
          let (t, r') := span_num s in
          if is_number t then Some (JNum t, r') else None
      end end end end end.
  Proof. reflexivity. Qed.

  Lemma parse_elems_S n s :
    parse_elems js (S n) s =
      match parse_value js n s with
      | Some (x, r) =>
        match skip_ws r with
        | c :: r' =>
          if c =? 44 then match parse_elems js n r' with Some (xs, r'') => Some (x :: xs, r'') | None => None end
          else if c =? 93 then Some ([x], r')
          else None
        | [] => None
        end
      | None => None
      end.
  Proof. reflexivity. Qed.

  Lemma parse_members_S n s :
    parse_members js (S n) s =
      match skip_ws s with
      | c :: r =>
        if c =? 34 then
          match scan_str r [] with
          | Some (k, r1) =>
            match skip_ws r1 with
            | c1 :: r2 =>
              if c1 =? 58 then
                match parse_value js n r2 with
                | Some (x, r3) =>
                  match skip_ws r3 with
                  | c3 :: r4 =>
                    if c3 =? 44 then match parse_members js n r4 with Some (ms, r5) => Some ((k, x) :: ms, r5) | None => None end
                    else if c3 =? 125 then Some ([(k, x)], r4)
                    else None
                  | [] => None
                  end
                | None => None
                end
              else None
            | [] => None
            end
          | None => None
          end
        else None
      | [] => None
      end.
  Proof. reflexivity. Qed.

  Lemma round_trip_all : forall n, PV n /\ PE n /\ PM n.
  Proof.
    induction n as [| n [IHV [IHE IHM]]].
    { split; [| split].
      - intros j rest _ Hn. destruct j; simpl in Hn; lia.
      - intros x xs rest _ Hn. simpl in Hn. lia.
      - intros [k x] ms rest _ Hn. simpl in Hn. lia. }
    split; [| split].
    - (* values *)
      intros j rest Hw Hn Hd. rewrite parse_value_S. cbv zeta. rewrite (skip_ws_print j rest Hw).
      destruct j; cbn [json_print wf_json need] in *.
      + unfold t_null. cbn. reflexivity.
      + destruct b; cbn; reflexivity.
      + (* number *)
        destruct (is_number_head txt Hw) as [c [r [Ht Hc]]].
        destruct (num_start_facts c Hc) as [_ [F1 [F2 [F3 [F4 [F5 F6]]]]]].
        rewrite Ht. cbn [app strip_prefix t_null t_true t_false t_date_open]. rewrite F1, F2, F3.
        destruct js; cbn [strip_prefix]; rewrite ?F1, F4, F5, F6;
          change (c :: r ++ rest) with ((c :: r) ++ rest); rewrite <- Ht;
          rewrite (span_num_app txt rest (num_dfa_chars txt 0 Hw) Hd); rewrite Hw; reflexivity.
      + (* string *)
        cbn. destruct js; cbn; rewrite <- app_assoc; cbn [app]; rewrite (scan_str_ok body rest Hw); reflexivity.
      + (* array *)
        destruct xs as [| x xs].
        * cbn. destruct js; reflexivity.
        * assert (Hp : (91 :: print_elems json_print (x :: xs) true ++ [93]) ++ rest
                       = 91 :: print_elems json_print (x :: xs) true ++ 93 :: rest)
            by (cbn [app]; rewrite <- app_assoc; reflexivity).
          rewrite Hp. clear Hp.
          assert (Hx : wf_json js x = true) by (cbn [forallb] in Hw; apply andb_true_iff in Hw; tauto).
          destruct (first_not_ws x Hx) as [c [r [Hpx [Hc [Hc93 _]]]]].
          assert (Hsk : skip_ws (print_elems json_print (x :: xs) true ++ 93 :: rest) = print_elems json_print (x :: xs) true ++ 93 :: rest).
          { rewrite print_elems_first, Hpx. cbn [app skip_ws]. rewrite Hc. reflexivity. }
          assert (Hhd : head_is 93 (print_elems json_print (x :: xs) true ++ 93 :: rest) = None).
          { rewrite print_elems_first, Hpx. cbn [app head_is]. rewrite Hc93. reflexivity. }
          cbn [strip_prefix t_null t_true t_false t_date_open].
          change (110 =? 91) with false. change (116 =? 91) with false. change (102 =? 91) with false. cbn iota.
          assert (Hdate : (if js then @None bytes else None) = None) by (destruct js; reflexivity).
          rewrite Hdate. change (91 =? 34) with false. change (91 =? 91) with true. cbn iota.
          rewrite Hsk, Hhd.
          rewrite (IHE x xs rest Hw ltac:(lia)). reflexivity.
      + (* object *)
        destruct ms as [| [k x] ms].
        * cbn. destruct js; reflexivity.
        * assert (Hp : (123 :: print_members json_print ((k, x) :: ms) true ++ [125]) ++ rest
                       = 123 :: print_members json_print ((k, x) :: ms) true ++ 125 :: rest)
            by (cbn [app]; rewrite <- app_assoc; reflexivity).
          rewrite Hp. clear Hp.
          cbn [strip_prefix t_null t_true t_false t_date_open].
          change (110 =? 123) with false. change (116 =? 123) with false. change (102 =? 123) with false. cbn iota.
          assert (Hdate : (if js then @None bytes else None) = None) by (destruct js; reflexivity).
          rewrite Hdate. change (123 =? 34) with false. change (123 =? 91) with false. change (123 =? 123) with true. cbn iota.
          assert (Hsk : skip_ws (print_members json_print ((k, x) :: ms) true ++ 125 :: rest) = print_members json_print ((k, x) :: ms) true ++ 125 :: rest).
          { rewrite print_members_first. reflexivity. }
          assert (Hhd : head_is 125 (print_members json_print ((k, x) :: ms) true ++ 125 :: rest) = None).
          { rewrite print_members_first. reflexivity. }
          rewrite Hsk, Hhd.
          rewrite (IHM (k, x) ms rest Hw ltac:(lia)). reflexivity.
      + (* date *)
        apply andb_true_iff in Hw. destruct Hw as [Hjs Hb]. rewrite Hjs.
        unfold t_date_open, t_date_close. cbn. rewrite <- !app_assoc. cbn [app].
        rewrite (scan_str_ok body (41 :: rest) Hb). cbn. reflexivity.
    - (* elements *)
      intros x xs rest Hw Hn. rewrite parse_elems_S.
      cbn [forallb] in Hw. apply andb_true_iff in Hw. destruct Hw as [Hx Hxs].
      cbn [need_elems] in Hn.
      rewrite print_elems_first, <- app_assoc.
      destruct xs as [| y ys].
      + cbn [print_elems app]. rewrite (IHV x (93 :: rest) Hx ltac:(lia) eq_refl). cbn. reflexivity.
      + rewrite print_elems_next. cbn [app].
        rewrite (IHV x (44 :: print_elems json_print (y :: ys) true ++ 93 :: rest) Hx ltac:(lia) eq_refl).
        cbn [skip_ws]. change (is_ws 44) with false. cbn iota. change (44 =? 44) with true. cbn iota.
        rewrite (IHE y ys rest Hxs ltac:(cbn [need_elems] in *; lia)). reflexivity.
    - (* members *)
      intros [k x] ms rest Hw Hn. rewrite parse_members_S.
      cbn [forallb fst snd] in Hw. apply andb_true_iff in Hw. destruct Hw as [Hkx Hms].
      apply andb_true_iff in Hkx. destruct Hkx as [Hk Hx].
      cbn [need_members] in Hn.
      rewrite print_members_first. cbn [app skip_ws]. change (is_ws 34) with false. cbn iota. change (34 =? 34) with true. cbn iota.
      rewrite <- !app_assoc. cbn [app].
      rewrite (scan_str_ok k _ Hk). cbn [skip_ws]. change (is_ws 58) with false. cbn iota. change (58 =? 58) with true. cbn iota.
      rewrite <- ?app_assoc.
      destruct ms as [| m' ms'].
      + cbn [print_members app]. rewrite (IHV x (125 :: rest) Hx ltac:(lia) eq_refl). cbn. reflexivity.
      + rewrite print_members_next. cbn [app].
        rewrite (IHV x (44 :: print_members json_print (m' :: ms') true ++ 125 :: rest) Hx ltac:(lia) eq_refl).
        cbn [skip_ws]. change (is_ws 44) with false. cbn iota. change (44 =? 44) with true. cbn iota.
        rewrite (IHM m' ms' rest Hms ltac:(destruct m'; cbn [need_members] in *; lia)). reflexivity.
  Qed.
End RoundTrip.

(* ---- the fuel of parse_text is enough ---- *)

Lemma need_elems_bound (xs : list json) first :
  (forall x, In x xs -> (need x + 1 <= 2 * length (json_print x))%nat) ->
  (need_elems need xs <= 2 * length (print_elems json_print xs first))%nat.
Proof.
  revert first. induction xs as [| x r IH]; intros first H; [simpl; lia |].
  cbn [need_elems print_elems]. rewrite !app_length.
  specialize (IH false (fun y Hy => H y (or_intror Hy))). pose proof (H x (or_introl eq_refl)). lia.
Qed.

Lemma need_members_bound (ms : list (bytes * json)) first :
  (forall m, In m ms -> (need (snd m) + 1 <= 2 * length (json_print (snd m)))%nat) ->
  (need_members need ms <= 2 * length (print_members json_print ms first))%nat.
Proof.
  revert first. induction ms as [| [k x] r IH]; intros first H; [simpl; lia |].
  cbn [need_members print_members]. rewrite !app_length.
  specialize (IH false (fun y Hy => H y (or_intror Hy))). pose proof (H (k, x) (or_introl eq_refl)) as Hx. cbn [snd] in Hx. lia.
Qed.

Lemma need_bound js : forall n j, (jsize j < n)%nat -> wf_json js j = true -> (need j + 1 <= 2 * length (json_print j))%nat.
Proof.
  induction n as [| n IH]; intros j Hn Hw; [lia |].
  destruct j; cbn [need json_print wf_json jsize] in *.
  - simpl. lia.
  - destruct b; simpl; lia.
  - destruct (is_number_head txt Hw) as [c [r [Ht _]]]. subst txt. simpl. lia.
  - simpl. rewrite app_length. simpl. lia.
  - cbn [length]. rewrite app_length. cbn [length].
    assert (H : (need_elems need xs <= 2 * length (print_elems json_print xs true))%nat).
    { apply need_elems_bound. intros x Hx. apply IH.
      - pose proof (in_list_sum_le jsize x xs Hx). lia.
      - rewrite forallb_forall in Hw. apply Hw. exact Hx. }
    lia.
  - cbn [length]. rewrite app_length. cbn [length].
    assert (H : (need_members need ms <= 2 * length (print_members json_print ms true))%nat).
    { apply need_members_bound. intros m Hm. apply IH.
      - pose proof (in_list_sum_le (fun m : bytes * json => jsize (snd m)) m ms Hm). cbv beta in H. lia.
      - rewrite forallb_forall in Hw. specialize (Hw m Hm). apply andb_true_iff in Hw. tauto. }
    lia.
  - unfold t_date_open. simpl. lia.
Qed.

(* every well formed value is read back from its text *)
Theorem parse_print js j : wf_json js j = true -> parse_text js (json_print j) = Some j.
Proof.
  intro Hw. unfold parse_text.
  destruct (round_trip_all js (S (2 * length (json_print j)))) as [HV _].
  pose proof (need_bound js (S (jsize j)) j (Nat.lt_succ_diag_r _) Hw) as Hb.
  specialize (HV j [] Hw ltac:(lia) eq_refl). rewrite app_nil_r in HV. rewrite HV. reflexivity.
Qed.
