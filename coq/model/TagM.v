(* C06, work package esc2: the Tag context.  Model of the loop of
   renderer.go showInTag over the string of the value (the string of a
   Stringer, an error, or toString of the value), and a reference scanner of
   the attribute part of a start tag (WHATWG tokenizer: before attribute name,
   attribute name, after attribute name states).

   The loop of showInTag, as it is written:
     i := 0
     for j, c := range s {
       if (c == utf8.RuneError && j == i+1) || c <= 0x1F || c is one of the
          quotes, greater-than, slash, equals || 0x7F <= c <= 0x9F ||
          unicode.Is(unicode.Noncharacter_Code_Point, c) {
         if s2 == nil { s2 = new builder; s2.WriteString(s[0:j]) }
         c = unicode.ReplacementChar }
       if s2 != nil { s2.WriteRune(c) } }
   i is never assigned: the first disjunct is true only for a rune error met
   at byte offset 1 (the model follows the code).  No proofs here. *)
From Coq Require Import List NArith Bool.
From Verif Require Import Bytes Utf8 Facts_unicode.
Import ListNotations.
Open Scope N_scope.

Fixpoint in_ranges_t (l : list (N * N)) (r : N) : bool :=
  match l with
  | [] => false
  | (lo, hi) :: t => if r <? lo then false else if r <=? hi then true else in_ranges_t t r
  end.

(* the runes replaced by U+FFFD, first disjunct apart *)
Definition tag_bad_rune (c : N) : bool :=
  (c <=? 31) || (c =? 34) || (c =? 39) || (c =? 62) || (c =? 47) || (c =? 61) ||
  ((127 <=? c) && (c <=? 159)) || in_ranges_t gen_unicode_nonchar c.

(* s: what is left of the string; j: byte offset of its head; pre = s[0:j];
   s2: the builder, None while it is nil.  None = out of fuel. *)
Fixpoint tag_loop (fuel : nat) (s : bytes) (j : N) (pre : bytes) (s2 : option bytes) : option (option bytes) :=
  match s with
  | [] => Some s2
  | _ :: _ =>
    match fuel with
    | O => None
    | S f =>
      let '(c, size) := decode_rune s in
      let bad := ((c =? rune_error) && (j =? 1)) || tag_bad_rune c in
      let s2a := if bad then match s2 with None => Some pre | Some _ => s2 end else s2 in
      let c' := if bad then rune_error else c in
      let s2b := match s2a with Some x => Some (x ++ utf8_encode c') | None => None end in
      tag_loop f (skipn size s) (j + N.of_nat size) (pre ++ firstn size s) s2b
    end
  end.

(* the string written by showInTag for the string s of the value; None = the model ran out of fuel *)
Definition showInTag_text (s : bytes) : option bytes :=
  match tag_loop (length s) s 0 [] None with
  | Some (Some x) => Some x
  | Some None => Some s
  | None => None
  end.

(* ---------------------------------------------------------------- reference scanner *)

(* tokenizer states inside a start tag, after the tag name *)
Inductive tstate :=
| TBefore     (* before attribute name *)
| TName       (* attribute name *)
| TAfter      (* after attribute name *)
| TValue      (* an equals sign was met: before attribute value and beyond *)
| TOut.       (* greater-than or slash: the tag is closed or self closing *)

Definition t_ws (c : N) : bool := (c =? 9) || (c =? 10) || (c =? 12) || (c =? 13) || (c =? 32).

(* the new state and whether a new attribute starts at this character *)
Definition tstep (st : tstate) (c : N) : tstate * bool :=
  match st with
  | TBefore =>
    if t_ws c then (TBefore, false)
    else if (c =? 47) || (c =? 62) then (TOut, false)
    else (TName, true)                       (* an equals sign here starts a name (parse error) *)
  | TName =>
    if t_ws c then (TAfter, false)
    else if (c =? 47) || (c =? 62) then (TOut, false)
    else if c =? 61 then (TValue, false)
    else (TName, false)
  | TAfter =>
    if t_ws c then (TAfter, false)
    else if (c =? 47) || (c =? 62) then (TOut, false)
    else if c =? 61 then (TValue, false)
    else (TName, true)
  | TValue => (TValue, false)
  | TOut => (TOut, false)
  end.

(* final state and number of attributes started *)
Fixpoint trun (st : tstate) (s : bytes) (n : nat) : tstate * nat :=
  match s with
  | [] => (st, n)
  | c :: r => let '(st', b) := tstep st c in trun st' r (if b then S n else n)
  end.

Definition t_inside (st : tstate) : bool :=
  match st with TBefore | TName | TAfter => true | _ => false end.

(* ---------------------------------------------------------------- wire format *)

(* the ranges [lo, hi] of the runes r of [from, from + count) with tag_bad_rune r, as a list lo1, hi1, lo2, hi2, ... *)
Fixpoint bad_ranges (count : nat) (r : N) (cur : option N) : list N :=
  match count with
  | O => match cur with Some lo => [lo; r - 1] | None => [] end
  | S k =>
    if tag_bad_rune r then bad_ranges k (r + 1) (match cur with Some lo => Some lo | None => Some r end)
    else match cur with
         | Some lo => lo :: (r - 1) :: bad_ranges k (r + 1) None
         | None => bad_ranges k (r + 1) None
         end
  end.
