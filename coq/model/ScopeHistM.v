(* C19 over several builds in one process.  The embedder owns two mutable
   objects: the Globals map (native.Declarations) and the importer (the members
   of a native.CombinedImporter, each a map of packages or a loader).  Between
   two builds it may edit them in place.  A history is a list of edits and
   builds; every build sees the objects as they are at its call.  The compiler
   itself keeps no state from one build to the next: this is the generated
   fact Facts_buildstate (no package level variable of the compiler, the root
   package and package native is classified as carrying information across
   builds), so the cross-build state threaded through the builds is unit.
   No proofs here. *)
From Coq Require Import List NArith Bool.
From Verif Require Import ScopeM.
Import ListNotations.
Open Scope N_scope.

Record hstate := {
  h_globals : list (name * nid);            (* contents of the Globals map *)
  h_members : list (path -> ianswer)        (* what each member of the importer answers *)
}.

(* Go map operations on the Globals map *)
Fixpoint gdel (l : list (name * nid)) (x : name) : list (name * nid) :=
  match l with
  | [] => []
  | (k, v) :: r => if N.eqb k x then gdel r x else (k, v) :: gdel r x
  end.

Definition gset (l : list (name * nid)) (x : name) (id : nid) : list (name * nid) := gdel l x ++ [(x, id)].

Fixpoint glookup (l : list (name * nid)) (x : name) : option nid :=
  match l with
  | [] => None
  | (k, v) :: r => if N.eqb k x then Some v else glookup r x
  end.

(* a member answers one path differently from now on *)
Definition mset (m : path -> ianswer) (p : path) (a : ianswer) : path -> ianswer :=
  fun q => if N.eqb q p then a else m q.

Fixpoint set_member (ms : list (path -> ianswer)) (i : nat) (p : path) (a : ianswer) : list (path -> ianswer) :=
  match ms, i with
  | [], _ => []
  | m :: r, O => mset m p a :: r
  | m :: r, S j => m :: set_member r j p a
  end.

Inductive edit :=
| EdGlobalSet (x : name) (id : nid)               (* globals[x] = f: a new global, or the value of x replaced *)
| EdGlobalDel (x : name)                          (* delete(globals, x) *)
| EdMemberSet (i : nat) (p : path) (a : ianswer). (* packages[p] = pkg, delete(packages, p), a declaration of the
                                                     package at p added / removed / replaced, the loader fails for p *)

Definition apply_edit (st : hstate) (e : edit) : hstate :=
  match e with
  | EdGlobalSet x id => {| h_globals := gset (h_globals st) x id; h_members := h_members st |}
  | EdGlobalDel x => {| h_globals := gdel (h_globals st) x; h_members := h_members st |}
  | EdMemberSet i p a => {| h_globals := h_globals st; h_members := set_member (h_members st) i p a |}
  end.

Inductive event :=
| EvEdit (e : edit)
| EvBuild (allow template : bool) (g : prog).

(* what the compiler carries from one build to the next *)
Definition cross := unit.

Definition cfg_of (st : hstate) (allow template : bool) : config :=
  {| c_importer := combined (h_members st); c_globals := h_globals st;
     c_allow_go := allow; c_template := template |}.

Definition build (c : cross) (st : hstate) (allow template : bool) (g : prog) : (outcome + error) * cross :=
  (check (cfg_of st allow template) g, c).

(* the results of the builds of a history, in order *)
Fixpoint run (c : cross) (st : hstate) (h : list event) : list (outcome + error) :=
  match h with
  | [] => []
  | EvEdit e :: r => run c (apply_edit st e) r
  | EvBuild allow template g :: r =>
    let (res, c') := build c st allow template g in res :: run c' st r
  end.

(* the state, options and program of every build of a history *)
Fixpoint builds (st : hstate) (h : list event) : list (hstate * bool * bool * prog) :=
  match h with
  | [] => []
  | EvEdit e :: r => builds (apply_edit st e) r
  | EvBuild allow template g :: r => (st, allow, template, g) :: builds st r
  end.
