(* Type descriptors and the model of the static show check
   (checker_statements.go: checkShow, checkShowJS, checkShowJSON) and of the
   run time show functions that depend on the type of the value only
   (renderer.go: renderer.Show, showInURL, toString and every showIn function
   except showInJS / showInJSON, which are in ShowJsonM.v).

   All the decisions are taken by the decision trees that gofacts generates
   from the code (gen/Facts_show.v); this file gives the atoms of the trees
   their meaning over descriptors and models by hand what the translator never
   executes: the recursion of checkShowJS/JSON over composite types, the
   `types` list of the types being checked (as de Bruijn back references TRec)
   and the loop over the struct fields. No proofs here. *)
From Coq Require Import List NArith Bool.
From Verif Require Import Bytes ShowTree Facts_show.
Import ListNotations.
Open Scope N_scope.

(* Field of a struct type: field.PkgPath == "", field.Name, field.Tag.Get("json") *)
Record finfo := { f_exported : bool; f_name : bytes; f_tag : bytes }.

(* A descriptor of a reflect.Type. fl is a bit set: bit i (i_Stringer ...) =
   the type implements that interface, bit w (w_ByteSlice ...) = the type is
   that well known type. TRec n stands for the n-th enclosing composite type
   (0 = the innermost): the occurrence of a type inside its own definition. *)
Inductive ty :=
| TLeaf (k fl : N)                              (* a type without modelled components: basic kinds, chan, func, interface, unsafe pointer *)
| TArr (fl : N) (e : ty)
| TSlice (fl : N) (e : ty)
| TPtr (fl : N) (e : ty)
| TMap (fl : N) (k e : ty)
| TStruct (fl : N) (fs : list (finfo * ty))
| TRec (n : nat).

Definition kind_of (t : ty) : N :=
  match t with
  | TLeaf k _ => k
  | TArr _ _ => k_Array
  | TSlice _ _ => k_Slice
  | TPtr _ _ => k_Pointer
  | TMap _ _ _ => k_Map
  | TStruct _ _ => k_Struct
  | TRec _ => k_Invalid
  end.

Definition flags_of (t : ty) : N :=
  match t with
  | TLeaf _ fl | TArr fl _ | TSlice fl _ | TPtr fl _ | TMap fl _ _ | TStruct fl _ => fl
  | TRec _ => 0
  end.

Definition flag (t : ty) (i : N) : bool := N.testbit (flags_of t) i.

Definition is_rec (t : ty) : bool := match t with TRec _ => true | _ => false end.
Definition is_iface (t : ty) : bool := kind_of t =? k_Interface.

(* env: the enclosing composite types, innermost first (the `types` argument of
   checkShowJS in reverse). resolve follows a back reference. *)
Definition resolve (env : list ty) (t : ty) : option (list ty * ty) :=
  match t with
  | TRec n => match nth_error env n with
              | Some t' => if is_rec t' then None else Some (skipn (S n) env, t')
              | None => None
              end
  | _ => Some (env, t)
  end.

(* t.Key() and t.Elem(); None: reflect panics *)
Definition comp (t : ty) (p : tpath) : option ty :=
  match p, t with
  | PSelf, _ => Some t
  | PKey, TMap _ k _ => Some k
  | PElem, TArr _ e | PElem, TSlice _ e | PElem, TPtr _ e | PElem, TMap _ _ e => Some e
  | _, _ => None
  end.

(* the flag i of the type at path p of t, the components being looked up through env' = t :: env *)
Definition comp_flag (env : list ty) (t : ty) (p : tpath) (i : N) : aval :=
  match comp t p with
  | Some c => match resolve (t :: env) c with
              | Some (_, c') => of_bool (flag c' i)
              | None => VStuck
              end
  | None => VPanic
  end.

Definition keykind (env : list ty) (t : ty) : N :=
  match t with
  | TMap _ k _ => match resolve (t :: env) k with Some (_, k') => kind_of k' | None => 0 end
  | _ => 0
  end.

Definition aval_of_outcome (o : outcome) : aval :=
  match o with OOk => VT | OErr => VF | OPanic => VPanic | _ => VStuck end.

Definition rec_tbl (f : showfn) := match f with FJS => gen_checkShowJS_tbl | FJSON => gen_checkShowJSON_tbl end.
Definition field_tree (f : showfn) := match f with FJS => gen_checkShowJS_field | FJSON => gen_checkShowJSON_field end.

(* the loop over the struct fields: the first field whose body does not `continue` decides; None: the loop completes *)
Definition fields_exit (chk : finfo -> ty -> outcome) : list (finfo * ty) -> option outcome :=
  fix go (fs : list (finfo * ty)) : option outcome :=
    match fs with
    | [] => None
    | (fi, ft) :: r =>
      match chk fi ft with
      | OContinue => go r
      | o => Some o
      end
    end.

Section StaticRec.
  Variable f : showfn.

  (* valuation of the atoms for a type t that is not a back reference;
     relem: result of the recursive check of t.Elem(); loop: did the loop over the fields complete *)
  Definition static_val (env : list ty) (t : ty) (relem : option outcome) (loop : aval) (a : atom) : aval :=
    match a with
    | AVisited => VF
    | AImpl p i => comp_flag env t p i
    | AIs p w => comp_flag env t p w
    | ACheck g PElem => if showfn_eqb f g then
                          match relem with Some o => aval_of_outcome o | None => VPanic end
                        else VStuck
    | ALoop => loop
    | _ => VStuck
    end.

  (* a type met again inside its own definition: slices.Contains(types, t) is true *)
  Definition visited_val (t : ty) (a : atom) : aval :=
    match a with
    | AVisited => VT
    | AImpl PSelf i | AIs PSelf i => of_bool (flag t i)
    | _ => VStuck
    end.

  Definition field_val (fi : finfo) (r : outcome) (a : atom) : aval :=
    match a with
    | AExported => of_bool (f_exported fi)
    | ACheck g PField => if showfn_eqb f g then aval_of_outcome r else VStuck
    | _ => VStuck
    end.

  Definition node_tree (env : list ty) (t : ty) : dtree :=
    tree_assoc (rec_tbl f) (kind_of t * 32 + keykind env t).

  Fixpoint static_rec (env : list ty) (t : ty) : outcome :=
    match t with
    | TRec n =>
      match nth_error env n with
      | Some t' => if is_rec t' then OStuck
                   else eval_tree (visited_val t') (node_tree (skipn (S n) env) t')
      | None => OStuck
      end
    | TLeaf _ _ => eval_tree (static_val env t None VStuck) (node_tree env t)
    | TArr _ e | TSlice _ e | TPtr _ e | TMap _ _ e =>
      eval_tree (static_val env t (Some (static_rec (t :: env) e)) VStuck) (node_tree env t)
    | TStruct _ fs =>
      let exit := fields_exit (fun fi ft => eval_tree (field_val fi (static_rec (t :: env) ft)) (field_tree f)) fs in
      match eval_tree (static_val env t None (match exit with None => VT | Some _ => VF end)) (node_tree env t) with
      | OLoopExit => match exit with Some o => o | None => OStuck end
      | o => o
      end
    end.
End StaticRec.

(* checkShow(t, ctx) *)
Definition top_val (t : ty) (a : atom) : aval :=
  match a with
  | AImpl PSelf i | AIs PSelf i => of_bool (flag t i)
  | ACheck g PSelf => aval_of_outcome (static_rec g [] t)
  | _ => VStuck
  end.

Definition static_ok (ctx : N) (t : ty) : outcome :=
  eval_tree (top_val t) (tree_assoc gen_checkShow_tbl (ctx * 32 + kind_of t)).

(* ---- run time, contexts other than JS and JSON ---- *)

(* d: the dynamic type of the shown value, None for the nil interface;
   conv: env.conv != nil *)
Definition dyn_val (conv : bool) (d : option ty) (a : atom) : aval :=
  match a with
  | ANilValue => match d with None => VT | Some _ => VF end
  | AImpl PSelf i | AIs PSelf i => match d with Some t => of_bool (flag t i) | None => VF end
  | AConv => of_bool conv
  | _ => VStuck
  end.

Definition dyn_kind (d : option ty) : N := match d with Some t => kind_of t | None => k_Invalid end.

Definition url_bit (url : bool) : N := if url then 1 else 0.

(* renderer.Show(env, v, context): OOk = shown, OErr = cannot show, OCall f = what showInJS/JSON return *)
Definition dynamic_show (conv : bool) (ctx : N) (url : bool) (d : option ty) : outcome :=
  eval_tree (dyn_val conv d) (tree_assoc gen_Show_tbl ((ctx * 2 + url_bit url) * 32 + dyn_kind d)).

(* ---- well-formedness of descriptors ---- *)

(* every back reference points to an enclosing composite *)
Fixpoint closedb (depth : nat) (t : ty) : bool :=
  match t with
  | TRec n => Nat.ltb n depth
  | TLeaf _ _ => true
  | TArr _ e | TSlice _ e | TPtr _ e => closedb (S depth) e
  | TMap _ k e => closedb (S depth) k && closedb (S depth) e
  | TStruct _ fs => (fix go (fs : list (finfo * ty)) : bool :=
                       match fs with [] => true | (_, ft) :: r => closedb (S depth) ft && go r end) fs
  end.

(* every leaf carries a reflect.Kind *)
Fixpoint wf_tyb (t : ty) : bool :=
  match t with
  | TLeaf k _ => k <? n_kinds
  | TArr _ e | TSlice _ e | TPtr _ e => wf_tyb e
  | TMap _ k e => wf_tyb k && wf_tyb e
  | TStruct _ fs => forallb (fun p : finfo * ty => wf_tyb (snd p)) fs
  | TRec _ => true
  end.
