(* RegsM: register windows at a call and at the start of a goroutine
   (internal/runtime: registers.go accessors, run.go OpCallFunc, vm.go
   startGoroutine, moreIntStack...).  One register file of one kind is a list;
   register r of the running function is at index fp + r.  No proofs here.

   A call with stack shift off moves the frame pointer to fp + off: the callee
   reads its register r at index fp + off + r of the same file.
   startGoroutine creates a new file of stackSize zero registers and executes
     copy(new, old[fp+off : fp+H])      (H = 0 in the generated fact: no high bound)
   the new VM runs the callee with frame pointer 0. *)
From Coq Require Import List NArith ZArith Bool Arith.
Import ListNotations.
From Verif Require Import Facts_vm.
Close Scope N_scope.

Definition stack_size : nat := N.to_nat stackSize.

(* Go's s[lo:hi] on a slice whose capacity equals its length: a run-time panic unless lo <= hi <= len *)
Definition go_slice {A} (s : list A) (lo hi : nat) : option (list A) :=
  if Nat.leb lo hi && Nat.leb hi (length s) then Some (firstn (hi - lo) (skipn lo s)) else None.

(* Go's copy(dst, src): the first min(len dst, len src) elements *)
Definition go_copy {A} (dst src : list A) : list A :=
  let n := Nat.min (length dst) (length src) in
  firstn n src ++ skipn n dst.

(* the high bound of the window: fp + h, or the end of the file when the fact says 0 *)
Definition window_hi (h : N) (fp len : nat) : nat :=
  if N.eqb h 0 then len else fp + N.to_nat h.

(* the register file of the new VM; None: startGoroutine panics *)
Definition spawn_file (h : N) (regs : list Z) (fp off : nat) : option (list Z) :=
  match go_slice regs (fp + off) (window_hi h fp (length regs)) with
  | Some w => Some (go_copy (repeat 0%Z stack_size) w)
  | None => None
  end.

(* what the callee reads in its register r *)
Definition call_view (regs : list Z) (fp off r : nat) : option Z := nth_error regs (fp + off + r).

Definition spawn_view (h : N) (regs : list Z) (fp off r : nat) : option (option Z) :=
  match spawn_file h regs fp off with
  | Some f => Some (nth_error f r)
  | None => None
  end.

(* the high bound of the int window in the code (first entry of the generated list) *)
Definition int_window_h : N :=
  match spawn_windows with
  | (_, _, h, _) :: _ => h
  | [] => 127%N
  end.

(* ---- the growth test of the call instructions ---- *)

(* `if vm.fp[i]+Addr(fn.NumReg[i]) >= vm.st[i] { vm.moreXStack() }`: the new stack top
   (the operator is checked against the code by the generated fact growth_checks_all_ge) *)
Definition after_call_check (fp numreg st : nat) : nat :=
  if Nat.leb st (fp + numreg) then 2 * st else st.

(* the test as it was before fix 1709e08, with > *)
Definition after_call_check_gt (fp numreg st : nat) : nat :=
  if Nat.ltb st (fp + numreg) then 2 * st else st.

(* ---- line protocol: [fpHi; fpLo; off; k; regs...] -> the k values seen by the goroutine, or [255] for a panic;
   the window is the one of the code (int_window_h, generated) ---- *)
Definition spawn_case (s : list N) : option (list N) :=
  match s with
  | fph :: fpl :: off :: k :: regs =>
      let fp := N.to_nat (fph * 256 + fpl) in
      let file := map Z.of_N regs in
      match spawn_file int_window_h file fp (N.to_nat off) with
      | None => Some [255%N]
      | Some f => Some (map (fun r => match nth_error f r with Some v => Z.to_N v | None => 254%N end)
                            (seq 1 (N.to_nat k)))
      end
  | _ => None
  end.
