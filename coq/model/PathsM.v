(* Paths of template files (C18): executable models, no proofs.

   - Go's path package (Clean, Join, Dir, Split, IsAbs) modelled from its
     documented algorithm on slash separated elements (trusted; diffed against
     the real package on every run);
   - io/fs.ValidPath (with utf8.ValidString);
   - internal/compiler/path.go ValidTemplatePath;
   - internal/compiler/parser_template.go rooted. *)
From Verif Require Import Bytes.
Open Scope N_scope.

Definition slash : N := 47.
Definition dot : N := 46.
Definition dotdot : bytes := [46; 46].

(* ---- elements ---- *)

(* strings.Split(s, "/"): always at least one element *)
Fixpoint split_slash (s : bytes) : list bytes :=
  match s with
  | [] => [[]]
  | c :: r =>
    if c =? 47 then [] :: split_slash r
    else match split_slash r with
         | e :: es => (c :: e) :: es
         | [] => [[c]]
         end
  end.

(* strings.Join(es, "/") *)
Fixpoint join_slash (es : list bytes) : bytes :=
  match es with
  | [] => []
  | e :: rest =>
    match rest with
    | [] => e
    | _ :: _ => e ++ 47 :: join_slash rest
    end
  end.

(* ---- utf8.ValidString ---- *)

Definition cont (b : N) : bool := (128 <=? b) && (b <? 192).

Fixpoint valid_utf8 (s : bytes) : bool :=
  match s with
  | [] => true
  | b0 :: r =>
    if b0 <? 128 then valid_utf8 r
    else if b0 <? 194 then false
    else if b0 <? 224 then
      match r with
      | b1 :: r1 => cont b1 && valid_utf8 r1
      | _ => false
      end
    else if b0 <? 240 then
      match r with
      | b1 :: b2 :: r2 =>
        ((if b0 =? 224 then 160 else 128) <=? b1) && (b1 <=? (if b0 =? 237 then 159 else 191))
        && cont b2 && valid_utf8 r2
      | _ => false
      end
    else if b0 <? 245 then
      match r with
      | b1 :: b2 :: b3 :: r3 =>
        ((if b0 =? 240 then 144 else 128) <=? b1) && (b1 <=? (if b0 =? 244 then 143 else 191))
        && cont b2 && cont b3 && valid_utf8 r3
      | _ => false
      end
    else false
  end.

(* ---- io/fs.ValidPath ---- *)

(* an element that ValidPath accepts: not empty, not "." and not ".." *)
Definition is_nil (e : bytes) : bool := match e with [] => true | _ => false end.
Definition is_dot (p : bytes) : bool := bytes_eqb p [46].
Definition is_dotdot (p : bytes) : bool := bytes_eqb p [46; 46].

Definition elem_ok (e : bytes) : bool :=
  negb (is_nil e) && negb (is_dot e) && negb (is_dotdot e).

Definition fs_valid (name : bytes) : bool :=
  if negb (valid_utf8 name) then false
  else if is_dot name then true
  else forallb elem_ok (split_slash name).

(* path.IsAbs *)
Definition is_abs (p : bytes) : bool :=
  match p with
  | c :: _ => c =? 47
  | [] => false
  end.

(* ---- ValidTemplatePath ---- *)

(* for strings.HasPrefix(path, "../") { path = path[3:] } *)
Fixpoint strip_dotdot (p : bytes) : bytes :=
  match p with
  | c1 :: c2 :: c3 :: r =>
    if (c1 =? 46) && (c2 =? 46) && (c3 =? 47) then strip_dotdot r else p
  | _ => p
  end.

Definition valid_template_path (p : bytes) : bool :=
  let p1 := if is_abs p then tl p else strip_dotdot p in
  if is_dot p1 then false else fs_valid p1.

(* ---- package path ---- *)

(* One element against the stack of kept elements (innermost first):
   empty and "." elements are dropped, ".." removes the preceding non-".."
   element, is dropped at the root of a rooted path, is kept otherwise. *)
Definition clean_step (rooted : bool) (stk : list bytes) (e : bytes) : list bytes :=
  if is_nil e || is_dot e then stk
  else if is_dotdot e then
    match stk with
    | top :: rest => if is_dotdot top then e :: stk else rest
    | [] => if rooted then [] else [e]
    end
  else e :: stk.

(* path.Clean *)
Definition clean (p : bytes) : bytes :=
  match p with
  | [] => [46]
  | _ =>
    let rooted := is_abs p in
    let out := rev (fold_left (clean_step rooted) (split_slash p) []) in
    if rooted then 47 :: join_slash out
    else match out with
         | [] => [46]
         | _ => join_slash out
         end
  end.

(* the buffer built by path.Join before cleaning *)
Fixpoint join_buf (buf : bytes) (elems : list bytes) : bytes :=
  match elems with
  | [] => buf
  | e :: r =>
    match buf, e with
    | [], [] => join_buf buf r
    | [], _ => join_buf e r
    | _, _ => join_buf (buf ++ 47 :: e) r
    end
  end.

(* path.Join *)
Definition path_join (elems : list bytes) : bytes :=
  if forallb is_nil elems then []
  else clean (join_buf [] elems).

(* path[:i+1] for the index i of the last slash (empty without a slash) *)
Fixpoint dir_part (p : bytes) : bytes :=
  match p with
  | [] => []
  | c :: r =>
    match dir_part r with
    | [] => if c =? 47 then [c] else []
    | d => c :: d
    end
  end.

(* path.Dir *)
Definition path_dir (p : bytes) : bytes := clean (dir_part p).

(* path.Base is not used by the code under verification *)

Definition begins_dotdot (r : bytes) : bool :=
  match r with
  | c1 :: c2 :: _ => (c1 =? 46) && (c2 =? 46)
  | _ => false
  end.

(* ---- rooted (parser_template.go) ---- *)

(* None stands for the error os.ErrNotExist *)
Definition rooted (parent name : bytes) : option bytes :=
  if is_abs name then Some (tl name)
  else
    let r := path_join [path_dir parent; name] in
    if begins_dotdot r then None else Some r.

(* driver helper: the first result or the empty string *)
Definition rooted_or_empty (parent name : bytes) : bytes :=
  match rooted parent name with
  | Some r => r
  | None => []
  end.
