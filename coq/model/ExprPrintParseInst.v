(* The C27 model instantiated with the generated operator facts. *)
From Coq Require Import List NArith Bool.
From Verif Require Import Bytes Facts_AstOps ExprPrintParseM.
Import ListNotations.
Open Scope N_scope.

Definition c27_pr : expr -> option (list token) := pr gen_op_string gen_bin_prec gen_un_prec gen_OperatorReceive.
Definition c27_parse : list token -> option expr := parse gen_bin_prec gen_un_prec gen_unary_tokens gen_binary_tokens.
Definition c27_wf : expr -> bool := wf gen_op_string gen_bin_prec gen_unary_tokens gen_binary_tokens.
Definition c27_print_string (atoms : list (N * bytes)) (e : expr) : option bytes :=
  render_string gen_op_string gen_bin_prec gen_un_prec gen_OperatorReceive gen_OperatorExtendedNot atoms e.

(* parse (tokens (print e)): None when printing panics, Some None on a syntax error *)
Definition c27_roundtrip (e : expr) : option (option expr) :=
  match c27_pr e with Some ts => Some (c27_parse ts) | None => None end.

(* every operator on which BinaryOperator.Precedence returns, and every
   operator that parseExpr builds as a unary operator, is printed with a
   spelling that parseExpr maps back to it *)
Definition c27_ops_ok : bool :=
  forallb (fun p => bin_ok gen_op_string gen_bin_prec gen_binary_tokens (fst p)) gen_bin_prec &&
  forallb (fun p => un_ok gen_op_string gen_unary_tokens (snd p)) gen_unary_tokens &&
  forallb (fun p => match assoc_get gen_bin_prec (snd p) with Some _ => true | None => false end) gen_binary_tokens.

(* binary operators bind less tightly than unary ones, and the levels are those of the Go specification *)
Definition c27_levels_ok : bool :=
  forallb (fun p => (1 <=? snd p) && (snd p <? gen_un_prec)) gen_bin_prec.
