(* MiniGoSem: a definitional interpreter for MiniGo, written from the Go
   specification and independent of the VM: typed integer expressions of every
   kind (operators of lib/GoInt.v: wrap-around, truncated division, shifts),
   bool with short-circuit && and ||, strings (concatenation, len, index),
   local variables, assignment, op-assignment, ++/--, if/else, for with
   condition and post statement, break/continue, functions with parameters and
   at most one result, recursion, and the printing call t.P(args...).

   Well-formedness assumed of the AST (the generator guarantees it; anything
   else evaluates to RStuck): well typed; every identifier is declared once
   per function and used only where Go's block scoping lets it be used, so
   that one flat environment per call is enough.

   Fuel decreases at every recursive call; RFuel is a distinct result. *)
From Verif Require Import GoInt.
Open Scope Z_scope.

(* Go's integer types *)
Inductive ikind := KInt | KInt8 | KInt16 | KInt32 | KInt64 | KUint | KUint8 | KUint16 | KUint32 | KUint64 | KUintptr.

(* width and signedness (int, uint and uintptr are 64 bits: linux/amd64) *)
Definition ik_ity (k : ikind) : ity :=
  match k with
  | KInt => I64 | KInt8 => I8 | KInt16 => I16 | KInt32 => I32 | KInt64 => I64
  | KUint => U64 | KUint8 => U8 | KUint16 => U16 | KUint32 => U32 | KUint64 => U64 | KUintptr => U64
  end.

Definition ikind_eqb (a b : ikind) : bool :=
  match a, b with
  | KInt, KInt | KInt8, KInt8 | KInt16, KInt16 | KInt32, KInt32 | KInt64, KInt64
  | KUint, KUint | KUint8, KUint8 | KUint16, KUint16 | KUint32, KUint32 | KUint64, KUint64 | KUintptr, KUintptr => true
  | _, _ => false
  end.

Definition mstr := list Z.   (* the bytes of a string *)

Inductive value :=
  | VI (k : ikind) (v : Z)   (* v is in the range of k *)
  | VB (b : bool)
  | VS (s : mstr).

Inductive expr :=
  | EConst (k : ikind) (v : Z)            (* a typed integer constant *)
  | EBool (b : bool)
  | EStr (s : mstr)
  | EVar (x : Z)
  | EBin (op : binop) (e1 e2 : expr)      (* + - * / % & | ^ &^ << >> on integers *)
  | EUn (op : unop) (e : expr)            (* -x  ^x *)
  | ECmp (c : cmpop) (e1 e2 : expr)       (* == != < <= > >= *)
  | ENot (e : expr)
  | EAnd (e1 e2 : expr)
  | EOr (e1 e2 : expr)
  | EConv (k : ikind) (e : expr)          (* T(x) between integer types *)
  | ECat (e1 e2 : expr)                   (* s + t *)
  | ELen (e : expr)
  | EIndex (e1 e2 : expr)                 (* s[i] *)
  | ECall (f : Z) (args : list expr).     (* a function with one result *)

Inductive stmt :=
  | SDecl (x : Z) (e : expr)              (* x := e   /   var x T = e *)
  | SAssign (x : Z) (e : expr)
  | SOpAssign (x : Z) (op : binop) (e : expr)
  | SIncDec (x : Z) (inc : bool)
  | SIf (c : expr) (th el : list stmt)
  | SFor (c : expr) (post body : list stmt)   (* for ; c; post { body }  (the init statement precedes it in a block) *)
  | SBreak
  | SContinue
  | SReturn (e : option expr)
  | SPrint (args : list expr)             (* t.P(args...) *)
  | SExpr (e : expr)                      (* a call evaluated for its effects *)
  | SBlock (l : list stmt).

Record fdef := mkFdef { fd_params : list Z; fd_result : bool; fd_body : list stmt }.
Definition prog := list fdef.   (* function 0 is main *)

Inductive panic := PanDivide | PanIndex | PanShift.

Definition trace := list (list value).   (* most recent first *)

Inductive res (A : Type) :=
  | ROk (a : A)
  | RPanic (c : panic) (out : trace)   (* a run-time panic; nothing recovers, out is what was printed before *)
  | RStuck                             (* ill-formed program *)
  | RFuel.
Arguments ROk {A}. Arguments RPanic {A}. Arguments RStuck {A}. Arguments RFuel {A}.

Definition env := list (Z * value).
Fixpoint lookup (r : env) (x : Z) : option value :=
  match r with
  | [] => None
  | (y, v) :: r' => if y =? x then Some v else lookup r' x
  end.
Fixpoint update (r : env) (x : Z) (v : value) : option env :=
  match r with
  | [] => None
  | (y, w) :: r' => if y =? x then Some ((y, v) :: r') else match update r' x v with Some r'' => Some ((y, w) :: r'') | None => None end
  end.
(* a declaration: a fresh binding, or the re-execution of the same declaration in a loop *)
Definition declare (r : env) (x : Z) (v : value) : env :=
  match update r x v with Some r' => r' | None => (x, v) :: r end.

Fixpoint nth_opt {A} (l : list A) (n : nat) : option A :=
  match l, n with
  | [], _ => None
  | x :: _, O => Some x
  | _ :: r, S m => nth_opt r m
  end.
Definition nthz {A} (l : list A) (i : Z) : option A :=
  if (i <? 0) || (Z.of_nat (length l) <=? i) then None else nth_opt l (Z.to_nat i).

(* lexicographic comparison of byte strings *)
Fixpoint scmp (x y : mstr) : comparison :=
  match x, y with
  | [], [] => Eq
  | [], _ => Lt
  | _, [] => Gt
  | a :: x', b :: y' => match a ?= b with Eq => scmp x' y' | c => c end
  end.
Definition cmp_of (c : cmpop) (o : comparison) : bool :=
  match c, o with
  | Ceq, Eq => true | Ceq, _ => false
  | Cne, Eq => false | Cne, _ => true
  | Clt, Lt => true | Clt, _ => false
  | Cle, Gt => false | Cle, _ => true
  | Cgt, Gt => true | Cgt, _ => false
  | Cge, Lt => false | Cge, _ => true
  end.

Definition is_shift (op : binop) : bool := match op with Shl | Shr => true | _ => false end.

(* x op y on integer values (Go specification: Arithmetic operators, Integer
   overflow, shifts with a negative count panic) *)
Definition eval_bin (op : binop) (a b : value) (out : trace) : res value :=
  match a, b with
  | VI k x, VI k' y =>
    if is_shift op then
      if y <? 0 then RPanic PanShift out
      else match bin op (ik_ity k) x y with Some v => ROk (VI k v) | None => RStuck end
    else if ikind_eqb k k' then
      match bin op (ik_ity k) x y with Some v => ROk (VI k v) | None => RPanic PanDivide out end
    else RStuck
  | _, _ => RStuck
  end.

Definition eval_cmp (c : cmpop) (a b : value) : option bool :=
  match a, b with
  | VI k x, VI k' y => if ikind_eqb k k' then Some (cmp c x y) else None
  | VS x, VS y => Some (cmp_of c (scmp x y))
  | VB x, VB y => match c with Ceq => Some (Bool.eqb x y) | Cne => Some (negb (Bool.eqb x y)) | _ => None end
  | _, _ => None
  end.

(* control outcome of a statement *)
Inductive ctl := CNormal | CBreak | CContinue | CReturn (v : option value).

Definition bindr {A B} (r : res A) (k : A -> res B) : res B :=
  match r with ROk a => k a | RPanic c o => RPanic c o | RStuck => RStuck | RFuel => RFuel end.

Fixpoint bind_params (ps : list Z) (vs : list value) : option env :=
  match ps, vs with
  | [], [] => Some []
  | p :: ps', v :: vs' => match bind_params ps' vs' with Some r => Some ((p, v) :: r) | None => None end
  | _, _ => None
  end.

Section Interp.
Variable P : prog.

Fixpoint eval (n : nat) (r : env) (out : trace) (e : expr) {struct n} : res (value * trace) :=
  match n with
  | O => RFuel
  | S n =>
    match e with
    | EConst k v => if in_rangeb (ik_ity k) v then ROk (VI k v, out) else RStuck
    | EBool b => ROk (VB b, out)
    | EStr s => ROk (VS s, out)
    | EVar x => match lookup r x with Some v => ROk (v, out) | None => RStuck end
    | EBin op e1 e2 =>
      bindr (eval n r out e1) (fun '(a, o1) =>
      bindr (eval n r o1 e2) (fun '(b, o2) =>
      bindr (eval_bin op a b o2) (fun v => ROk (v, o2))))
    | EUn op e1 =>
      bindr (eval n r out e1) (fun '(a, o1) =>
        match a with VI k x => ROk (VI k (un op (ik_ity k) x), o1) | _ => RStuck end)
    | ECmp c e1 e2 =>
      bindr (eval n r out e1) (fun '(a, o1) =>
      bindr (eval n r o1 e2) (fun '(b, o2) =>
        match eval_cmp c a b with Some t => ROk (VB t, o2) | None => RStuck end))
    | ENot e1 =>
      bindr (eval n r out e1) (fun '(a, o1) => match a with VB b => ROk (VB (negb b), o1) | _ => RStuck end)
    | EAnd e1 e2 =>
      bindr (eval n r out e1) (fun '(a, o1) =>
        match a with
        | VB false => ROk (VB false, o1)
        | VB true => bindr (eval n r o1 e2) (fun '(b, o2) => match b with VB _ => ROk (b, o2) | _ => RStuck end)
        | _ => RStuck
        end)
    | EOr e1 e2 =>
      bindr (eval n r out e1) (fun '(a, o1) =>
        match a with
        | VB true => ROk (VB true, o1)
        | VB false => bindr (eval n r o1 e2) (fun '(b, o2) => match b with VB _ => ROk (b, o2) | _ => RStuck end)
        | _ => RStuck
        end)
    | EConv k e1 =>
      bindr (eval n r out e1) (fun '(a, o1) =>
        match a with VI _ x => ROk (VI k (wrap (ik_ity k) x), o1) | _ => RStuck end)
    | ECat e1 e2 =>
      bindr (eval n r out e1) (fun '(a, o1) =>
      bindr (eval n r o1 e2) (fun '(b, o2) =>
        match a, b with VS x, VS y => ROk (VS (x ++ y), o2) | _, _ => RStuck end))
    | ELen e1 =>
      bindr (eval n r out e1) (fun '(a, o1) =>
        match a with VS x => ROk (VI KInt (Z.of_nat (length x)), o1) | _ => RStuck end)
    | EIndex e1 e2 =>
      bindr (eval n r out e1) (fun '(a, o1) =>
      bindr (eval n r o1 e2) (fun '(b, o2) =>
        match a, b with
        | VS x, VI _ i => match nthz x i with Some c => ROk (VI KUint8 c, o2) | None => RPanic PanIndex o2 end
        | _, _ => RStuck
        end))
    | ECall f args =>
      bindr (eval_list n r out args) (fun '(vs, o1) =>
      bindr (call n f vs o1) (fun '(rv, o2) =>
        match rv with Some v => ROk (v, o2) | None => RStuck end))
    end
  end
with eval_list (n : nat) (r : env) (out : trace) (es : list expr) {struct n} : res (list value * trace) :=
  match n with
  | O => RFuel
  | S n =>
    match es with
    | [] => ROk ([], out)
    | e :: es' =>
      bindr (eval n r out e) (fun '(v, o1) =>
      bindr (eval_list n r o1 es') (fun '(vs, o2) => ROk (v :: vs, o2)))
    end
  end
with call (n : nat) (f : Z) (vs : list value) (out : trace) {struct n} : res (option value * trace) :=
  match n with
  | O => RFuel
  | S n =>
    match nthz P f with
    | None => RStuck
    | Some fd =>
      match bind_params (fd_params fd) vs with
      | None => RStuck
      | Some r0 =>
        bindr (exec_list n r0 out (fd_body fd)) (fun '(c, _, o1) =>
          match c with
          | CReturn (Some v) => if fd_result fd then ROk (Some v, o1) else RStuck
          | CReturn None => if fd_result fd then RStuck else ROk (None, o1)
          | CNormal => if fd_result fd then RStuck else ROk (None, o1)
          | _ => RStuck
          end)
      end
    end
  end
with exec (n : nat) (r : env) (out : trace) (s : stmt) {struct n} : res (ctl * env * trace) :=
  match n with
  | O => RFuel
  | S n =>
    match s with
    | SDecl x e => bindr (eval n r out e) (fun '(v, o1) => ROk (CNormal, declare r x v, o1))
    | SAssign x e =>
      bindr (eval n r out e) (fun '(v, o1) =>
        match update r x v with Some r' => ROk (CNormal, r', o1) | None => RStuck end)
    | SOpAssign x op e =>
      match lookup r x with
      | None => RStuck
      | Some a =>
        bindr (eval n r out e) (fun '(b, o1) =>
        bindr (eval_bin op a b o1) (fun v =>
          match update r x v with Some r' => ROk (CNormal, r', o1) | None => RStuck end))
      end
    | SIncDec x inc =>
      match lookup r x with
      | Some (VI k a) =>
        match bin (if inc then Add else Sub) (ik_ity k) a 1 with
        | Some v => match update r x (VI k v) with Some r' => ROk (CNormal, r', out) | None => RStuck end
        | None => RStuck
        end
      | _ => RStuck
      end
    | SIf c th el =>
      bindr (eval n r out c) (fun '(v, o1) =>
        match v with
        | VB true => exec_list n r o1 th
        | VB false => exec_list n r o1 el
        | _ => RStuck
        end)
    | SFor c post body => loop n r out c post body
    | SBreak => ROk (CBreak, r, out)
    | SContinue => ROk (CContinue, r, out)
    | SReturn None => ROk (CReturn None, r, out)
    | SReturn (Some e) => bindr (eval n r out e) (fun '(v, o1) => ROk (CReturn (Some v), r, o1))
    | SPrint args => bindr (eval_list n r out args) (fun '(vs, o1) => ROk (CNormal, r, vs :: o1))
    | SExpr e =>
      match e with
      | ECall f args =>
        bindr (eval_list n r out args) (fun '(vs, o1) =>
        bindr (call n f vs o1) (fun '(_, o2) => ROk (CNormal, r, o2)))
      | _ => RStuck
      end
    | SBlock l => exec_list n r out l
    end
  end
with exec_list (n : nat) (r : env) (out : trace) (l : list stmt) {struct n} : res (ctl * env * trace) :=
  match n with
  | O => RFuel
  | S n =>
    match l with
    | [] => ROk (CNormal, r, out)
    | s :: l' =>
      bindr (exec n r out s) (fun '(c, r1, o1) =>
        match c with
        | CNormal => exec_list n r1 o1 l'
        | _ => ROk (c, r1, o1)
        end)
    end
  end
with loop (n : nat) (r : env) (out : trace) (c : expr) (post body : list stmt) {struct n} : res (ctl * env * trace) :=
  match n with
  | O => RFuel
  | S n =>
    bindr (eval n r out c) (fun '(v, o1) =>
      match v with
      | VB false => ROk (CNormal, r, o1)
      | VB true =>
        bindr (exec_list n r o1 body) (fun '(k, r1, o2) =>
          match k with
          | CBreak => ROk (CNormal, r1, o2)
          | CReturn v => ROk (CReturn v, r1, o2)
          | CNormal | CContinue =>
            bindr (exec_list n r1 o2 post) (fun '(k2, r2, o3) =>
              match k2 with CNormal => loop n r2 o3 c post body | _ => RStuck end)
          end)
      | _ => RStuck
      end)
  end.

End Interp.

(* the result of a program: what main printed, and how it ended *)
Inductive pres := PDone (out : trace) | PPanicked (c : panic) (out : trace) | PStuck | PFuel.

Definition run_prog (P : prog) (fuel : nat) : pres :=
  match call P fuel 0 [] [] with
  | ROk (_, o) => PDone (rev o)
  | RPanic c o => PPanicked c (rev o)
  | RStuck => PStuck
  | RFuel => PFuel
  end.
