(* Reference decoder for HTML character references (the spec side of C24/C07):
   a transducer over bytes.  Named references: amp lt gt quot apos (with
   semicolon) and the legacy forms without semicolon for amp lt gt quot, as a
   prefix of the name run; decimal and hexadecimal numeric references with
   optional semicolon, with the HTML replacement rules (0, surrogates and out
   of range -> U+FFFD, 0x80-0x9F -> windows-1252).  Written from the HTML
   standard, independently of the escapers; validated against Go's
   html.UnescapeString by the harness. *)
From Verif Require Import Bytes Utf8.
Open Scope N_scope.

Inductive hstate :=
| HData
| HAmp                       (* seen "&" *)
| HName (buf : bytes)        (* seen "&" + letters/digits (reversed) *)
| HHash                      (* seen "&#" *)
| HHashX (x : N)             (* seen "&#x" or "&#X"; x is that byte *)
| HDec (v : N) (raw : bytes) (* "&#" digits; raw = consumed bytes reversed, for no-digit fallbacks *)
| HHex (v : N) (xc : N).

Definition is_digit (c : N) : bool := (48 <=? c) && (c <=? 57).
Definition is_lower (c : N) : bool := (97 <=? c) && (c <=? 122).
Definition is_upper (c : N) : bool := (65 <=? c) && (c <=? 90).
Definition is_alnum (c : N) : bool := is_digit c || is_lower c || is_upper c.
Definition hex_val (c : N) : option N :=
  if is_digit c then Some (c - 48)
  else if (97 <=? c) && (c <=? 102) then Some (c - 87)
  else if (65 <=? c) && (c <=? 70) then Some (c - 55)
  else None.

Definition win1252 : list (N * N) :=
  [(128, 8364); (130, 8218); (131, 402); (132, 8222); (133, 8230); (134, 8224); (135, 8225);
   (136, 710); (137, 8240); (138, 352); (139, 8249); (140, 338); (142, 381); (145, 8216);
   (146, 8217); (147, 8220); (148, 8221); (149, 8226); (150, 8211); (151, 8212); (152, 732);
   (153, 8482); (154, 353); (155, 8250); (156, 339); (158, 382); (159, 376)].

(* saturate so that huge numbers stay "out of range" *)
Definition sat (v : N) : N := if 1114112 <? v then 1114112 else v.

Definition numeric_cp (v : N) : N :=
  if v =? 0 then rune_error
  else if negb (valid_rune v) then rune_error
  else match assoc_get win1252 v with Some u => u | None => v end.

(* names: with semicolon *)
Definition named : list (bytes * N) :=
  [([97; 109; 112], 38); ([108; 116], 60); ([103; 116], 62); ([113; 117; 111; 116], 34); ([97; 112; 111; 115], 39)].
(* names recognised without semicolon (legacy), as prefixes *)
Definition legacy : list (bytes * N) :=
  [([97; 109; 112], 38); ([108; 116], 60); ([103; 116], 62); ([113; 117; 111; 116], 34)].

Fixpoint lookup_name (tbl : list (bytes * N)) (name : bytes) : option N :=
  match tbl with
  | [] => None
  | (k, v) :: r => if bytes_eqb k name then Some v else lookup_name r name
  end.

Fixpoint is_prefix (p s : bytes) : bool :=
  match p, s with
  | [], _ => true
  | x :: p', y :: s' => N.eqb x y && is_prefix p' s'
  | _, [] => false
  end.

(* longest legacy name that is a prefix of name: (char, remaining bytes) *)
Fixpoint lookup_legacy (tbl : list (bytes * N)) (name : bytes) (best : option (N * bytes)) : option (N * bytes) :=
  match tbl with
  | [] => best
  | (k, v) :: r =>
    if is_prefix k name then
      let cand := (v, skipn (length k) name) in
      match best with
      | Some (_, rest) => if Nat.ltb (length (snd cand)) (length rest) then lookup_legacy r name (Some cand) else lookup_legacy r name best
      | None => lookup_legacy r name (Some cand)
      end
    else lookup_legacy r name best
  end.

(* the name run ended without ';' *)
Definition flush_name (buf : bytes) : bytes :=
  let name := rev buf in
  match lookup_legacy legacy name None with
  | Some (c, rest) => c :: rest
  | None => 38 :: name
  end.

Definition data_step (c : N) : hstate * bytes :=
  if c =? 38 then (HAmp, []) else (HData, [c]).

Definition after (out : bytes) (c : N) : hstate * bytes :=
  let '(st, o) := data_step c in (st, out ++ o).

Definition hstep (st : hstate) (c : N) : hstate * bytes :=
  match st with
  | HData => data_step c
  | HAmp =>
    if c =? 35 then (HHash, [])
    else if is_alnum c then (HName [c], [])
    else after [38] c
  | HName buf =>
    if is_alnum c then (HName (c :: buf), [])
    else if c =? 59 then
      match lookup_name named (rev buf) with
      | Some ch => (HData, [ch])
      | None =>
        (* unknown name with semicolon: legacy prefix still applies *)
        (HData, flush_name buf ++ [59])
      end
    else after (flush_name buf) c
  | HHash =>
    if (c =? 120) || (c =? 88) then (HHashX c, [])
    else if is_digit c then (HDec (c - 48) [], [])
    else after [38; 35] c
  | HHashX x =>
    match hex_val c with
    | Some d => (HHex d x, [])
    | None => after [38; 35; x] c
    end
  | HDec v raw =>
    if is_digit c then (HDec (sat (v * 10 + (c - 48))) raw, [])
    else if c =? 59 then (HData, utf8_encode (numeric_cp v))
    else after (utf8_encode (numeric_cp v)) c
  | HHex v x =>
    match hex_val c with
    | Some d => (HHex (sat (v * 16 + d)) x, [])
    | None =>
      if c =? 59 then (HData, utf8_encode (numeric_cp v))
      else after (utf8_encode (numeric_cp v)) c
    end
  end.

Definition hfinish (st : hstate) : bytes :=
  match st with
  | HData => []
  | HAmp => [38]
  | HName buf => flush_name buf
  | HHash => [38; 35]
  | HHashX x => [38; 35; x]
  | HDec v _ => utf8_encode (numeric_cp v)
  | HHex v _ => utf8_encode (numeric_cp v)
  end.

Fixpoint hrun (st : hstate) (s : bytes) : hstate * bytes :=
  match s with
  | [] => (st, [])
  | c :: r => let '(st1, o1) := hstep st c in let '(st2, o2) := hrun st1 r in (st2, o1 ++ o2)
  end.

Definition html_decode (s : bytes) : bytes :=
  let '(st, o) := hrun HData s in o ++ hfinish st.
