(* Template global variables (C17): executable model, no proofs.

   - the emitter's table of globals: varStore.predefVarIndex, setPredefVarRef,
     nonLocalVarIndex (native case) of internal/compiler/emitter_var_store.go
     and emitter.setFunctionVarRefs (native upvars) of emitter_util.go, for a
     program given as the functions to emit, in the order of emission;
   - the package names used by the checker for a direct reference and for an
     upvar (generated facts);
   - how the VM finds the variable of a GetVar/SetVar operand (Function.VarRefs,
     OpLoadFunc in internal/runtime/run.go);
   - scriggo.initGlobalVariables and Template.UsedVars of templates.go. *)
From Verif Require Import Bytes Facts_vars.
Open Scope N_scope.

(* A declared global is identified by its name: the checker keeps one
   *reflect.Value per declaration of BuildOptions.Globals. *)
Definition var := bytes.
Definition fnid := nat.

(* an entry of ast.Func.Upvars: a template global, or a variable declared in
   Scriggo code (it only occupies an index) *)
Inductive upvar := UNative (v : var) | UOther.

(* What is emitted inside a function body, in order: a reference (read or
   write) to a global, identified by a site number chosen by the caller, and a
   function literal (a macro declared in a body, a func literal) with the
   upvars computed by the type checker. *)
Inductive item :=
| IRef (site : N) (v : var)
| ILit (ups : list upvar) (body : list item).

(* declaration of a global: type, text of the zero value, and the address of
   the Go variable when the declaration has a value (a non-nil pointer) *)
Record decl := mkdecl { d_type : N; d_zero : bytes; d_addr : option N }.

(* compiler.Global; g_zero stands for reflect.New(Type).Elem() *)
Record global := mkglobal {
  g_pkg : bytes; g_name : bytes; g_type : N; g_zero : bytes; g_value : option N
}.

Fixpoint assocb {A} (l : list (bytes * A)) (x : bytes) : option A :=
  match l with
  | [] => None
  | (k, v) :: r => if bytes_eqb k x then Some v else assocb r x
  end.

Fixpoint assocn {A} (l : list (nat * A)) (x : nat) : option A :=
  match l with
  | [] => None
  | (k, v) :: r => if Nat.eqb k x then Some v else assocn r x
  end.

(* the state of the emission that matters for globals *)
Record est := mkest {
  globals : list global;                       (* vs.globals *)
  refs : list ((fnid * var) * nat);            (* vs.predefVarRef[fn][v], newest first *)
  parents : list (fnid * option fnid);         (* Function.Parent *)
  varrefs : list (fnid * list (option nat));   (* Function.VarRefs of the literals; None for an entry that is not a global *)
  sites : list (N * (fnid * nat));             (* operand of the GetVar/SetVar emitted at a reference *)
  nextfn : nat
}.

Definition init_est : est := mkest [] [] [] [] [] 0.

Fixpoint ref_lookup (l : list ((fnid * var) * nat)) (f : fnid) (v : var) : option nat :=
  match l with
  | [] => None
  | ((f', v'), i) :: r => if Nat.eqb f' f && bytes_eqb v' v then Some i else ref_lookup r f v
  end.

(* fn.Parent == nil *)
Definition is_top (ps : list (fnid * option fnid)) (f : fnid) : bool :=
  match assocn ps f with
  | Some None => true
  | _ => false
  end.

(* for fn, refs := range vs.predefVarRef { if index, ok := refs[v]; ok && fn.Parent == nil { return index } }
   (Go ranges over a map; the proofs show that at most one entry qualifies) *)
Fixpoint find_top (ps : list (fnid * option fnid)) (l : list ((fnid * var) * nat)) (v : var) : option nat :=
  match l with
  | [] => None
  | ((f, v'), i) :: r => if bytes_eqb v' v && is_top ps f then Some i else find_top ps r v
  end.

Definition default_decl : decl := mkdecl 0 [] None.

Section Emit.
  (* reuse = false is the code before the repair of predefVarIndex *)
  Variable reuse : bool.
  Variable decls : list (var * decl).

  Definition decl_of (v : var) : decl :=
    match assocb decls v with
    | Some d => d
    | None => default_decl
    end.

  (* varStore.predefVarIndex in the function cur *)
  Definition predef_var_index (st : est) (cur : fnid) (v : var) (pkg : bytes) : est * nat :=
    match ref_lookup (refs st) cur v with
    | Some i => (st, i)
    | None =>
      match (if reuse then find_top (parents st) (refs st) v else None) with
      | Some i => (st, i)
      | None =>
        let i := length (globals st) in
        let d := decl_of v in
        (mkest (globals st ++ [mkglobal pkg v (d_type d) (d_zero d) (d_addr d)])
               (((cur, v), i) :: refs st) (parents st) (varrefs st) (sites st) (nextfn st), i)
      end
    end.

  (* varStore.setPredefVarRef *)
  Definition set_ref (st : est) (f : fnid) (v : var) (i : nat) : est :=
    mkest (globals st) (((f, v), i) :: refs st) (parents st) (varrefs st) (sites st) (nextfn st).

  (* the loop of emitter.setFunctionVarRefs: i is the index of the upvar,
     acc the refs computed so far (last first) *)
  Fixpoint sfvr_loop (st : est) (cur f : fnid) (ups : list upvar) (i : nat) (acc : list (option nat))
    : est * list (option nat) :=
    match ups with
    | [] => (st, rev acc)
    | UOther :: r => sfvr_loop st cur f r (S i) (None :: acc)
    | UNative v :: r =>
      let '(st1, idx) := predef_var_index st cur v gen_upvar_NativePkg in
      sfvr_loop (set_ref st1 f v i) cur f r (S i) (Some idx :: acc)
    end.

  Definition set_function_var_refs (st : est) (cur f : fnid) (ups : list upvar) : est :=
    let '(st1, l) := sfvr_loop st cur f ups 0 [] in
    mkest (globals st1) (refs st1) (parents st1) ((f, l) :: varrefs st1) (sites st1) (nextfn st1).

  Definition new_fn (st : est) (parent : option fnid) : est * fnid :=
    let f := nextfn st in
    (mkest (globals st) (refs st) ((f, parent) :: parents st) (varrefs st) (sites st) (S f), f).

  Definition add_site (st : est) (s : N) (f : fnid) (i : nat) : est :=
    mkest (globals st) (refs st) (parents st) (varrefs st) ((s, (f, i)) :: sites st) (nextfn st).

  (* emission of one item inside the function cur *)
  Fixpoint emit_item (cur : fnid) (st : est) (it : item) : est :=
    match it with
    | IRef s v =>
      (* nonLocalVarIndex: ti.IsNative(), package ti.NativePackageName *)
      let '(st1, i) := predef_var_index st cur v gen_globals_PackageName in
      add_site st1 s cur i
    | ILit ups body =>
      (* fn := &runtime.Function{Parent: em.fb.fn}; em.setFunctionVarRefs(fn, expr.Upvars); body *)
      let '(st1, f) := new_fn st (Some cur) in
      let st2 := set_function_var_refs st1 cur f ups in
      fold_left (emit_item f) body st2
    end.

  (* a package-level function: the main function of the template, a macro of
     an imported or extending file, a rendered file *)
  Definition emit_top (st : est) (body : list item) : est :=
    let '(st1, f) := new_fn st None in
    fold_left (emit_item f) body st1.

  Definition emit_prog (tops : list (list item)) : est := fold_left emit_top tops init_est.
End Emit.

(* ---- the VM: which global an operand designates ---- *)

(* A function without VarRefs uses env.globals; a closure created by OpLoadFunc
   in the function p has vars[i] = p.vars[VarRefs[i]]. None = fault. *)
Fixpoint resolve (fuel : nat) (st : est) (f : fnid) (i : nat) : option nat :=
  match fuel with
  | O => None
  | S n =>
    match assocn (parents st) f with
    | Some None => Some i
    | Some (Some p) =>
      match assocn (varrefs st) f with
      | Some l =>
        match nth_error l i with
        | Some (Some j) => resolve n st p j
        | _ => None
        end
      | None => None
      end
    | None => None
    end
  end.

Definition resolve_site (st : est) (s : N) : option nat :=
  match assoc_get (sites st) s with
  | Some (f, i) => resolve (S (nextfn st)) st f i
  | None => None
  end.

(* ---- Template.Run: initGlobalVariables ---- *)

(* a value of Run's vars: a value of a type, a pointer to a variable of the
   caller (its address), a nil pointer, nil *)
Inductive initv :=
| IVal (ty : N) (text : bytes)
| IPtr (ty : N) (addr : N)
| INilPtr (ty : N)
| INil.

(* where a global lives during a run: in a variable shared with the caller
   or with the declaration, or in storage private to the run *)
Inductive cell := CShared (addr : N) | COwn (text : bytes).

Inductive ipanic := PAlreadyInit | PNilInit | PWrongType | PNilPointer.

Definition bind_global (vars : list (var * initv)) (g : global) : cell + ipanic :=
  match (if bytes_eqb (g_pkg g) gen_init_pkg then assocb vars (g_name g) else None) with
  | Some iv =>
    match g_value g with
    | Some _ => inr PAlreadyInit
    | None =>
      match iv with
      | INil => inr PNilInit
      | IVal ty t => if ty =? g_type g then inl (COwn t) else inr PWrongType
      | IPtr ty a => if ty =? g_type g then inl (CShared a) else inr PWrongType
      | INilPtr ty => if ty =? g_type g then inr PNilPointer else inr PWrongType
      end
    end
  | None =>
    match g_value g with
    | Some a => inl (CShared a)
    | None => inl (COwn (g_zero g))
    end
  end.

Fixpoint init_globals (vars : list (var * initv)) (gl : list global) : list cell + (bytes * ipanic) :=
  match gl with
  | [] => inl []
  | g :: r =>
    match bind_global vars g with
    | inr p => inr (g_name g, p)
    | inl c =>
      match init_globals vars r with
      | inr p => inr p
      | inl cs => inl (c :: cs)
      end
    end
  end.

(* ---- Template.UsedVars ---- *)

Fixpoint bytes_leb (a b : bytes) : bool :=
  match a, b with
  | [], _ => true
  | _ :: _, [] => false
  | x :: a', y :: b' => if x <? y then true else if y <? x then false else bytes_leb a' b'
  end.

Fixpoint insert_sorted (x : bytes) (l : list bytes) : list bytes :=
  match l with
  | [] => [x]
  | y :: r => if bytes_leb x y then x :: l else y :: insert_sorted x r
  end.

Definition sort_bytes (l : list bytes) : list bytes := fold_right insert_sorted [] l.

Definition used_vars (st : est) : list bytes := sort_bytes (map g_name (globals st)).

(* ---- a run as a sequence of events at reference sites ---- *)

Inductive event := TShow (site : N) | TSet (site : N) (text : bytes).

(* memory of the caller and of the declarations: address -> text *)
Definition memory := list (N * bytes).

Fixpoint mem_set (m : memory) (a : N) (t : bytes) : memory :=
  match m with
  | [] => [(a, t)]
  | (k, v) :: r => if N.eqb k a then (k, t) :: r else (k, v) :: mem_set r a t
  end.

Fixpoint set_nth {A} (l : list A) (k : nat) (x : A) : list A :=
  match l, k with
  | [], _ => []
  | _ :: r, O => x :: r
  | y :: r, S k' => y :: set_nth r k' x
  end.

Record rstate := mkrs { rs_cells : list cell; rs_mem : memory; rs_out : list bytes }.

(* one event on the emitted code: the site designates a global slot *)
Definition run_event (st : est) (rs : rstate) (ev : event) : option rstate :=
  let s := match ev with TShow s => s | TSet s _ => s end in
  match resolve_site st s with
  | None => None
  | Some k =>
    match nth_error (rs_cells rs) k with
    | None => None
    | Some c =>
      match ev, c with
      | TShow _, CShared a =>
        match assoc_get (rs_mem rs) a with
        | Some t => Some (mkrs (rs_cells rs) (rs_mem rs) (t :: rs_out rs))
        | None => None
        end
      | TShow _, COwn t => Some (mkrs (rs_cells rs) (rs_mem rs) (t :: rs_out rs))
      | TSet _ t, CShared a => Some (mkrs (rs_cells rs) (mem_set (rs_mem rs) a t) (rs_out rs))
      | TSet _ t, COwn _ => Some (mkrs (set_nth (rs_cells rs) k (COwn t)) (rs_mem rs) (rs_out rs))
      end
    end
  end.

Fixpoint run_events (st : est) (rs : rstate) (evs : list event) : option rstate :=
  match evs with
  | [] => Some rs
  | ev :: r =>
    match run_event st rs ev with
    | Some rs' => run_events st rs' r
    | None => None
    end
  end.

Inductive run_result :=
| RPanic (name : bytes) (p : ipanic)
| RFault
| RDone (out : list bytes) (mem : memory).

(* build and run: emission, binding of the globals, the events *)
Definition run_model (reuse : bool) (decls : list (var * decl)) (tops : list (list item))
           (vars : list (var * initv)) (mem : memory) (evs : list event) : run_result :=
  let st := emit_prog reuse decls tops in
  match init_globals vars (globals st) with
  | inr (n, p) => RPanic n p
  | inl cells =>
    match run_events st (mkrs cells mem []) evs with
    | Some rs => RDone (rev (rs_out rs)) (rs_mem rs)
    | None => RFault
    end
  end.
