(* The Unicode predicates of the lexer instantiated with the tables generated
   from the Go standard library (Facts_unicode), and the canonical text of a
   scan result compared with the implementation (same text as canonLex in
   harness/cmd/h_lexer/lex.go).  No proofs here. *)
From Verif Require Import Bytes Utf8 Facts_lexer Facts_unicode LexBase LexCodeM LexerM.
Open Scope N_scope.

Fixpoint in_ranges (l : list (N * N)) (r : N) : bool :=
  match l with
  | [] => false
  | (lo, hi) :: t => if r <? lo then false else if r <=? hi then true else in_ranges t r
  end.

Definition go_unicode : unitab :=
  mkU (in_ranges gen_unicode_letter) (in_ranges gen_unicode_digit) (in_ranges gen_unicode_graphic)
      (in_ranges gen_unicode_space) (in_ranges gen_unicode_nonchar)
      (assoc_get gen_unicode_tolower_ascii) (assoc_get gen_unicode_fold_ascii).

(* decimal digits of n, most significant first *)
Fixpoint dec_digits (fuel : nat) (n : N) (acc : bytes) : bytes :=
  match fuel with
  | O => acc
  | S f => let acc' := (48 + n mod 10) :: acc in if n <? 10 then acc' else dec_digits f (n / 10) acc'
  end.
Definition dec (n : N) : bytes := dec_digits 40 n [].

Definition is_ascii (s : bytes) : bool := forallb (fun c => c <? 128) s.
(* the bytes in decimal separated by '.'; "N" when a byte is not ASCII *)
Fixpoint dots_go (s : bytes) : bytes :=
  match s with
  | [] => []
  | [c] => dec c
  | c :: r => dec c ++ 46 :: dots_go r
  end.
Definition dots (s : bytes) : bytes := if is_ascii s then dots_go s else [78].

Definition print_token (t : token) : bytes :=
  dec (t_typ t) ++ 44 :: dec (t_start t) ++ 44 :: dec (t_end t) ++ 44 :: dec (t_len t) ++ 44 :: dec (t_line t) ++ 44 :: dec (t_col t)
  ++ 44 :: dec (t_lin t) ++ 44 :: dec (t_ctx t) ++ 44 :: dots (t_tag t) ++ 44 :: dots (t_att t) ++ [59].

Definition print_outcome (o : outcome) : option bytes :=
  match o with
  | Done toks None => Some (flat_map print_token toks ++ [124; 69])
  | Done toks (Some l) =>
    Some (flat_map print_token toks ++ [124; 88; 44] ++ dec (l_line l) ++ 44 :: dec (l_col l) ++ 44 :: dec (l_base l))
  | Crashed => None
  | OutOfFuel => Some [70; 85; 69; 76]
  end.

(* cfg = [format; noParseShow] *)
Definition lex_case (cfg src : bytes) : option bytes :=
  match cfg with
  | [fmt; ns] => print_outcome (scan_template go_unicode (negb (ns =? 0)) fmt src)
  | _ => None
  end.

(* the program lexer (scanProgram) on src *)
Definition lexprog_case (src : bytes) : option bytes := print_outcome (scan_program go_unicode src).

(* ghost flags of the tokens and of the error, for the driver: one digit per
   token (0 none, 1 column, 2 line, 3 both), then the digit of the error *)
Definition dev_digit (c l : bool) : N := 48 + (if c then 1 else 0) + (if l then 2 else 0).
Definition lex_devs (cfg src : bytes) : option bytes :=
  match cfg with
  | [fmt; ns] =>
    match scan_template go_unicode (negb (ns =? 0)) fmt src with
    | Done toks e =>
      Some (map (fun t => dev_digit (t_cdev t) (t_ldev t)) toks ++
            match e with Some l => [124; dev_digit (l_cdev l) (l_ldev l)] | None => [] end)
    | _ => None
    end
  | _ => None
  end.
