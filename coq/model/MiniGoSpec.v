(* MiniGoTyping, declarative side: the typing rules of the fragment written as
   inductive predicates from the Go specification (sections Representability,
   Assignability, Constant expressions, Operators, Arithmetic operators,
   Comparison operators, Conversions, Calls, Declarations and scope, Short
   variable declarations, Assignment statements, If/For/Switch/Return
   statements, Terminating statements).  The executable checker of MiniGoM.v
   is proved equivalent to these rules in proofs/MiniGo_proofs.v.
   Shared with the checker (they are definitions on syntax or exact
   arithmetic, not decisions): the constant arithmetic qbin, the scopes
   (lookup, declare), the free uses of identifiers fu_block.  No proofs here. *)
From Verif Require Import MiniGoM.

(* ------------------------------------------------------- representability *)

(* "A constant x is representable by a value of type T if x is in the set of
   values determined by T": an integer in the range of an integer type, any
   rational within the float64 range for float64 (rounding is not modelled). *)
Inductive Representable : Q -> basic -> Prop :=
| Rep_int : forall q z b lo hi,
    int_range b = Some (lo, hi) -> Qeq q (inject_Z z) -> (lo <= z <= hi)%Z ->
    Representable q b
| Rep_float : forall q,
    Qle (Qopp max_float64) q -> Qle q max_float64 -> Representable q BFloat64.

Definition Numeric (k : bclass) : Prop := k = KInt \/ k = KFloat.

(* implicit conversion of an untyped operand (kind k, value c) to type t:
   an untyped boolean converts to boolean types, an untyped string constant to
   string types, a numeric constant to any numeric type that represents it *)
Inductive ConvUntyped : ukind -> option cval -> ty -> Prop :=
| CU_bool : forall c t, class_of (under t) = KBool -> ConvUntyped UBool c t
| CU_str : forall c t, class_of (under t) = KStr -> ConvUntyped UString c t
| CU_num : forall k q t,
    Numeric (kind_class k) -> Numeric (class_of (under t)) ->
    Representable q (under t) -> ConvUntyped k (Some (CNum q)) t.

(* "A value x of type V is assignable to a variable of type T if V and T are
   identical, or x is an untyped constant representable by a value of type T"
   (the other clauses concern types outside the fragment) *)
Inductive Assignable : etype -> ty -> Prop :=
| As_identical : forall t c, Assignable (EVal (VT t) c) t
| As_untyped : forall k c t, ConvUntyped k c t -> Assignable (EVal (VU k) c) t.

(* the type of x in  x := e,  var x = e,  _ = e : the type of e, or the
   default type of an untyped e, which must represent it *)
Inductive DefaultOf : etype -> ty -> Prop :=
| Def_typed : forall t c, DefaultOf (EVal (VT t) c) t
| Def_untyped : forall k c, ConvUntyped k c (default_ty k) -> DefaultOf (EVal (VU k) c) (default_ty k).

(* ----------------------------------------------------------------- operators *)

(* the larger of two numeric untyped kinds: integer, rune, floating-point *)
Definition kind_max (k1 k2 : ukind) : ukind :=
  if N.ltb (kind_rank k1) (kind_rank k2) then k2 else k1.

(* "the operand types must be identical unless the operation involves shifts
   or untyped constants"; "if one operand is an untyped constant and the other
   operand is not, the constant is implicitly converted to the type of the
   other operand"; two untyped constants of different numeric kinds take the
   later kind *)
Inductive Operands : etype -> etype -> vty -> option cval -> option cval -> Prop :=
| Op_typed : forall t c1 c2,
    Operands (EVal (VT t) c1) (EVal (VT t) c2) (VT t) c1 c2
| Op_right_untyped : forall t c1 k c2,
    ConvUntyped k c2 t -> Operands (EVal (VT t) c1) (EVal (VU k) c2) (VT t) c1 c2
| Op_left_untyped : forall t c2 k c1,
    ConvUntyped k c1 t -> Operands (EVal (VU k) c1) (EVal (VT t) c2) (VT t) c1 c2
| Op_untyped_numeric : forall k1 k2 c1 c2,
    Numeric (kind_class k1) -> Numeric (kind_class k2) ->
    Operands (EVal (VU k1) c1) (EVal (VU k2) c2) (VU (kind_max k1 k2)) c1 c2
| Op_untyped_same : forall k1 k2 c1 c2,
    ~ (Numeric (kind_class k1) /\ Numeric (kind_class k2)) ->
    kind_class k1 = kind_class k2 ->
    Operands (EVal (VU k1) c1) (EVal (VU k2) c2) (VU k1) c1 c2.

(* Arithmetic operators: + applies to integers, floats and strings; - * / to
   integers and floats; % & | ^ &^ to integers; && || to booleans *)
Inductive OpDefined : binop -> bclass -> Prop :=
| OD_add : forall k, k <> KBool -> OpDefined OAdd k
| OD_sub : forall k, Numeric k -> OpDefined OSub k
| OD_mul : forall k, Numeric k -> OpDefined OMul k
| OD_div : forall k, Numeric k -> OpDefined ODiv k
| OD_rem : OpDefined ORem KInt
| OD_and : OpDefined OAnd KInt
| OD_or : OpDefined OOr KInt
| OD_xor : OpDefined OXor KInt
| OD_andnot : OpDefined OAndNot KInt
| OD_land : OpDefined OLAnd KBool
| OD_lor : OpDefined OLOr KBool.

(* "The divisor of a constant division or remainder operation must not be
   zero"; "if the divisor [of an integer division] is a constant, it must not
   be zero" *)
Definition DivByZero (o : binop) (k : bclass) (c1 c2 : option cval) : Prop :=
  (o = ODiv \/ o = ORem) /\
  (exists q, c2 = Some (CNum q) /\ Qnum q = 0%Z) /\
  ((exists c, c1 = Some c) \/ k = KInt).

(* "typed constants must always be accurately convertible to values of the
   constant type" *)
Inductive ConstOK : vty -> cval -> Prop :=
| CO_typed_num : forall t q, Representable q (under t) -> ConstOK (VT t) (CNum q)
| CO_typed_other : forall t, ConstOK (VT t) COther
| CO_untyped : forall k c, ConstOK (VU k) c.

Definition IntClass (v : vty) : Prop := vty_class v = KInt.

(* the count of a shift: "of integer type, or an untyped constant
   representable by a value of type uint"; a constant count is not negative *)
Inductive ShiftCount : vty -> option cval -> Prop :=
| SC_var : forall t, class_of (under t) = KInt -> ShiftCount (VT t) None
| SC_typed_const : forall t q z,
    class_of (under t) = KInt -> Qeq q (inject_Z z) -> (0 <= z)%Z -> ShiftCount (VT t) (Some (CNum q))
| SC_untyped_const : forall k q,
    Numeric (kind_class k) -> Representable q BUint -> ShiftCount (VU k) (Some (CNum q)).

Inductive Shift : binop -> etype -> etype -> etype -> Prop :=
(* non constant shift of a variable of integer type *)
| Sh_var : forall o t vb cb,
    ShiftCount vb cb -> class_of (under t) = KInt ->
    Shift o (EVal (VT t) None) (EVal vb cb) (EVal (VT t) None)
(* constant shift: the left operand is a constant of integer type or an
   untyped constant with an integer value *)
| Sh_const : forall o va q x vb qs s r,
    ShiftCount vb (Some (CNum qs)) ->
    (match va with VT t => class_of (under t) = KInt | VU k => Numeric (kind_class k) end) ->
    Qeq q (inject_Z x) -> Qeq qs (inject_Z s) -> (s <= max_shift)%Z ->
    r = CNum (qz (shift_value o x s)) -> ConstOK (shift_result_vty va) r ->
    Shift o (EVal va (Some (CNum q))) (EVal vb (Some (CNum qs))) (EVal (shift_result_vty va) (Some r))
(* a typed constant shifted by a non constant count *)
| Sh_typed_const_var : forall o t q x vb,
    ShiftCount vb None -> class_of (under t) = KInt -> Qeq q (inject_Z x) ->
    Shift o (EVal (VT t) (Some (CNum q))) (EVal vb None) (EVal (VT t) None)
(* an untyped constant shifted by a non constant count: converted to the type
   it would have if the shift were replaced by its left operand; the fragment
   only has the case where that type is int *)
| Sh_untyped_const_var : forall o k q x vb,
    ShiftCount vb None -> Numeric (kind_class k) -> Qeq q (inject_Z x) ->
    Representable q BInt ->
    Shift o (EVal (VU k) (Some (CNum q))) (EVal vb None) (EVal (VT (TBasic BInt)) None).

Inductive Binary : binop -> etype -> etype -> etype -> Prop :=
| B_shift : forall o a b r, is_shift o = true -> Shift o a b r -> Binary o a b r
(* comparison: == != on all types of the fragment, < <= > >= on ordered ones;
   the result is an untyped boolean, constant when both operands are *)
| B_compare : forall o a b v c1 c2,
    is_comparison o = true -> Operands a b v c1 c2 ->
    (is_order o = true -> vty_class v <> KBool) ->
    Binary o a b (EVal (VU UBool) (if both_const c1 c2 then Some COther else None))
| B_value : forall o a b v c1 c2,
    is_shift o = false -> is_comparison o = false ->
    Operands a b v c1 c2 -> OpDefined o (vty_class v) ->
    ~ DivByZero o (vty_class v) c1 c2 -> both_const c1 c2 = false ->
    Binary o a b (EVal v None)
| B_const_num : forall o a b v q1 q2 r,
    is_shift o = false -> is_comparison o = false ->
    Operands a b v (Some (CNum q1)) (Some (CNum q2)) -> OpDefined o (vty_class v) ->
    ~ DivByZero o (vty_class v) (Some (CNum q1)) (Some (CNum q2)) ->
    qbin o (vty_class v) q1 q2 = Some r -> ConstOK v (CNum r) ->
    Binary o a b (EVal v (Some (CNum r)))
| B_const_other : forall o a b v c1 c2,
    is_shift o = false -> is_comparison o = false ->
    Operands a b v (Some c1) (Some c2) -> OpDefined o (vty_class v) ->
    ~ DivByZero o (vty_class v) (Some c1) (Some c2) ->
    (c1 = COther \/ c2 = COther) ->
    Binary o a b (EVal v (Some COther)).

(* unary operators: + - on numeric operands, ! on booleans, ^ on integers *)
Inductive UnDefined : unop -> bclass -> Prop :=
| UD_plus : forall k, Numeric k -> UnDefined UPlus k
| UD_neg : forall k, Numeric k -> UnDefined UNeg k
| UD_not : UnDefined UNot KBool
| UD_compl : UnDefined UCompl KInt.

Inductive Unary : unop -> etype -> etype -> Prop :=
| Un_value : forall o v, UnDefined o (vty_class v) -> Unary o (EVal v None) (EVal v None)
| Un_other : forall o v, UnDefined o (vty_class v) -> Unary o (EVal v (Some COther)) (EVal v (Some COther))
| Un_plus : forall v q, UnDefined UPlus (vty_class v) -> Unary UPlus (EVal v (Some (CNum q))) (EVal v (Some (CNum q)))
| Un_neg : forall v q, UnDefined UNeg (vty_class v) -> ConstOK v (CNum (Qred (Qopp q))) ->
    Unary UNeg (EVal v (Some (CNum q))) (EVal v (Some (CNum (Qred (Qopp q)))))
| Un_compl : forall v q x, UnDefined UCompl (vty_class v) -> Qeq q (inject_Z x) ->
    ConstOK v (CNum (qz (compl_value v x))) ->
    Unary UCompl (EVal v (Some (CNum q))) (EVal v (Some (CNum (qz (compl_value v x))))).

(* conversions T(x) *)
Inductive Convert : ty -> etype -> etype -> Prop :=
(* constant conversions: "x is representable by a value of type T", or "x is
   an integer constant and T is a string type" *)
| Cv_const_num : forall t v q,
    Numeric (vty_class v) -> Numeric (class_of (under t)) -> Representable q (under t) ->
    Convert t (EVal v (Some (CNum q))) (EVal (VT t) (Some (CNum q)))
| Cv_const_int_string : forall t v q,
    vty_class v = KInt -> class_of (under t) = KStr ->
    Convert t (EVal v (Some (CNum q))) (EVal (VT t) (Some COther))
| Cv_const_same : forall t v,
    (vty_class v = KStr \/ vty_class v = KBool) -> class_of (under t) = vty_class v ->
    Convert t (EVal v (Some COther)) (EVal (VT t) (Some COther))
(* non constant values: identical underlying types, both numeric, or an
   integer to a string type *)
| Cv_value : forall t t',
    (under t' = under t \/
     (Numeric (class_of (under t')) /\ Numeric (class_of (under t))) \/
     (class_of (under t') = KInt /\ class_of (under t) = KStr)) ->
    Convert t (EVal (VT t') None) (EVal (VT t) None)
(* an untyped boolean value (a comparison) converts to boolean types *)
| Cv_untyped_bool : forall t k,
    kind_class k = KBool -> class_of (under t) = KBool ->
    Convert t (EVal (VU k) None) (EVal (VT t) None).

(* ---------------------------------------------------------------- expressions *)

Inductive has_type (G : list N) (E : env) : expr -> etype -> Prop :=
| T_LitB : forall b, has_type G E (ELitB b) (EVal (VU UBool) (Some COther))
| T_LitI : forall z, has_type G E (ELitI z) (EVal (VU UInt) (Some (CNum (qz z))))
| T_LitR : forall z, has_type G E (ELitR z) (EVal (VU URune) (Some (CNum (qz z))))
| T_LitF : forall n d, has_type G E (ELitF n d) (EVal (VU UFloat) (Some (CNum (Qred (n # d)))))
| T_LitS : forall s, has_type G E (ELitS s) (EVal (VU UString) (Some COther))
| T_Var : forall x t, x <> blank -> lookup E x = Some (EntVar t) -> has_type G E (EVar x) (EVal (VT t) None)
| T_Const : forall x c, x <> blank -> lookup E x = Some (EntConst c) -> has_type G E (EVar x) c
| T_Un : forall o a ta r, has_type G E a ta -> Unary o ta r -> has_type G E (EUn o a) r
| T_Bin : forall o a b ta tb r,
    has_type G E a ta -> has_type G E b tb -> Binary o ta tb r -> has_type G E (EBin o a b) r
| T_Conv : forall t a ta r, has_type G E a ta -> Convert t ta r -> has_type G E (EConv t a) r
| T_Call : forall f args ps rs tas,
    lookup E f = Some (EntFunc ps rs) -> has_types G E args tas -> Forall2 Assignable tas ps ->
    has_type G E (ECall f args) (call_result rs)
| T_Pkg : forall p f args ps rs tas,
    In p G -> pkg_sig p f = Some (ps, rs) -> has_types G E args tas -> Forall2 Assignable tas ps ->
    has_type G E (EPkg p f args) (call_result rs)
with has_types (G : list N) (E : env) : exprs -> list etype -> Prop :=
| T_None : has_types G E ENone []
| T_Cons : forall e r t ts, has_type G E e t -> has_types G E r ts -> has_types G E (ECons e r) (t :: ts).

(* ----------------------------------------------------------------- statements *)

Definition NotBlank (x : ident) : Prop := x <> blank.

(* no non blank identifier occurs twice *)
Inductive NoDupNames : list ident -> Prop :=
| ND_nil : NoDupNames []
| ND_blank : forall r, NoDupNames r -> NoDupNames (blank :: r)
| ND_cons : forall x r, x <> blank -> ~ In x r -> NoDupNames r -> NoDupNames (x :: r).

Definition InHead (E : env) (x : ident) : Prop := exists e, scope_get (head_scope E) x = Some e.

(* "n expressions for n operands, or one call with n results" *)
Inductive Values : list etype -> nat -> list etype -> Prop :=
| V_call : forall ts, Values [ETuple ts] (length ts) (map (fun t => EVal (VT t) None) ts)
| V_each : forall tes,
    Forall (fun te => exists v c, te = EVal v c) tes -> Values tes (length tes) tes.

(* targets of an assignment *)
Inductive AssignTargets (E : env) : list ident -> list etype -> Prop :=
| AT_nil : AssignTargets E [] []
| AT_blank : forall xs v vs t, DefaultOf v t -> AssignTargets E xs vs -> AssignTargets E (blank :: xs) (v :: vs)
| AT_var : forall x xs v vs t,
    x <> blank -> lookup E x = Some (EntVar t) -> Assignable v t -> AssignTargets E xs vs ->
    AssignTargets E (x :: xs) (v :: vs).

(* short variable declaration: "it may redeclare variables provided they were
   originally declared earlier in the same block with the same type";
   redeclaration assigns a new value; the other non blank identifiers are new
   variables of the default type of their value *)
Inductive ShortTargets (E : env) : list ident -> list etype -> list (ident * ty) -> Prop :=
| ST_nil : ShortTargets E [] [] []
| ST_blank : forall xs v vs t news,
    DefaultOf v t -> ShortTargets E xs vs news -> ShortTargets E (blank :: xs) (v :: vs) news
| ST_old : forall x xs v vs t news,
    x <> blank -> scope_get (head_scope E) x = Some (EntVar t) -> Assignable v t ->
    ShortTargets E xs vs news -> ShortTargets E (x :: xs) (v :: vs) news
| ST_new : forall x xs v vs t news,
    x <> blank -> scope_get (head_scope E) x = None -> DefaultOf v t ->
    ShortTargets E xs vs news -> ShortTargets E (x :: xs) (v :: vs) ((x, t) :: news).

Definition BoolCond (e : etype) : Prop := exists v c, e = EVal v c /\ vty_class v = KBool.

(* the condition that every variable declared by s is used in the rest r of
   its block ("declared and not used") *)
Definition DeclsUsed (E : env) (s : stmt) (r : block) : Prop :=
  let cur := scope_names (head_scope E) in
  forall x, In x (var_decls cur s) -> In x (fu_block (decl_stmt cur s ++ cur) r).

Inductive stmt_ok (G : list N) (cx : ctx) (E : env) : stmt -> env -> Prop :=
(* var xs t *)
| S_VarZero : forall xs t,
    xs <> [] -> NoDupNames xs -> (forall x, In x xs -> x <> blank -> ~ InHead E x) ->
    stmt_ok G cx E (SVar xs (Some t) ENone) (declare_vars E xs (map (fun _ => t) xs))
(* var xs t = es *)
| S_VarTyped : forall xs t es tes vs,
    xs <> [] -> es <> ENone -> NoDupNames xs -> (forall x, In x xs -> x <> blank -> ~ InHead E x) ->
    has_types G E es tes -> Values tes (length xs) vs -> Forall (fun v => Assignable v t) vs ->
    stmt_ok G cx E (SVar xs (Some t) es) (declare_vars E xs (map (fun _ => t) xs))
(* var xs = es *)
| S_VarInfer : forall xs es tes vs ts,
    xs <> [] -> es <> ENone -> NoDupNames xs -> (forall x, In x xs -> x <> blank -> ~ InHead E x) ->
    has_types G E es tes -> Values tes (length xs) vs -> Forall2 DefaultOf vs ts ->
    stmt_ok G cx E (SVar xs None es) (declare_vars E xs ts)
(* const x = e, const x t = e *)
| S_ConstInfer : forall x e v c,
    (x <> blank -> ~ InHead E x) -> has_type G E e (EVal v (Some c)) ->
    stmt_ok G cx E (SConst x None e) (declare E x (EntConst (EVal v (Some c))))
| S_ConstTyped : forall x t e c,
    (x <> blank -> ~ InHead E x) -> has_type G E e (EVal (VT t) (Some c)) ->
    stmt_ok G cx E (SConst x (Some t) e) (declare E x (EntConst (EVal (VT t) (Some c))))
| S_ConstConv : forall x t e k c,
    (x <> blank -> ~ InHead E x) -> has_type G E e (EVal (VU k) (Some c)) -> ConvUntyped k (Some c) t ->
    stmt_ok G cx E (SConst x (Some t) e) (declare E x (EntConst (EVal (VT t) (Some c))))
(* xs := es : at least one new non blank variable on the left side *)
| S_Short : forall xs es tes vs news,
    NoDupNames xs -> (exists x, In x xs /\ x <> blank /\ ~ InHead E x) ->
    has_types G E es tes -> Values tes (length xs) vs -> ShortTargets E xs vs news ->
    stmt_ok G cx E (SShort xs es) (declare_list E news)
| S_Assign : forall xs es tes vs,
    xs <> [] -> has_types G E es tes -> Values tes (length xs) vs -> AssignTargets E xs vs ->
    stmt_ok G cx E (SAssign xs es) E
(* x op= e  is  x = x op e  with x evaluated once *)
| S_OpAssign : forall x o e t te c,
    is_comparison o = false -> is_logical o = false -> x <> blank ->
    lookup E x = Some (EntVar t) -> has_type G E e te ->
    Binary o (EVal (VT t) None) te (EVal (VT t) c) ->
    stmt_ok G cx E (SOpAssign x o e) E
| S_IncDec : forall x t,
    x <> blank -> lookup E x = Some (EntVar t) -> Numeric (class_of (under t)) ->
    stmt_ok G cx E (SIncDec x) E
(* "function and method calls can appear in statement context" *)
| S_Expr : forall e te, is_call e = true -> has_type G E e te -> stmt_ok G cx E (SExpr e) E
| S_If : forall c th el tc,
    has_type G E c tc -> BoolCond tc -> block_ok G cx ([] :: E) th -> block_ok G cx ([] :: E) el ->
    stmt_ok G cx E (SIf c th el) E
| S_For : forall c b tc,
    has_type G E c tc -> BoolCond tc -> block_ok G (in_loop cx) ([] :: E) b ->
    stmt_ok G cx E (SFor c b) E
| S_Loop : forall b, block_ok G (in_loop cx) ([] :: E) b -> stmt_ok G cx E (SLoop b) E
(* the tag gets its default type; every case expression must be comparable with it *)
| S_Switch : forall tag cs d ttag t,
    has_type G E tag ttag -> DefaultOf ttag t ->
    clauses_ok G (in_switch cx) E (EVal (VT t) None) cs -> block_ok G (in_switch cx) ([] :: E) d ->
    stmt_ok G cx E (SSwitch tag cs d) E
| S_Return : forall es tes vs,
    has_types G E es tes -> Values tes (length (cx_results cx)) vs -> Forall2 Assignable vs (cx_results cx) ->
    stmt_ok G cx E (SReturn es) E
| S_Break : cx_brk cx = true -> stmt_ok G cx E SBreak E
| S_Continue : cx_loop cx = true -> stmt_ok G cx E SContinue E
| S_Block : forall b, block_ok G cx ([] :: E) b -> stmt_ok G cx E (SBlock b) E
with block_ok (G : list N) (cx : ctx) (E : env) : block -> Prop :=
| Bk_nil : block_ok G cx E BNil
| Bk_cons : forall s r E',
    stmt_ok G cx E s E' -> DeclsUsed E s r -> block_ok G cx E' r -> block_ok G cx E (BCons s r)
with clauses_ok (G : list N) (cx : ctx) (E : env) : etype -> clauses -> Prop :=
| Cl_nil : forall tagv, clauses_ok G cx E tagv CNil
| Cl_cons : forall tagv es b r tes,
    has_types G E es tes -> Forall (fun te => exists res, Binary OEq tagv te res) tes ->
    block_ok G cx ([] :: E) b -> clauses_ok G cx E tagv r ->
    clauses_ok G cx E tagv (CCons es b r).

(* ------------------------------------------------------ terminating statements *)

(* a break statement "referring to" the enclosing for or switch statement: one
   that is not nested in an inner for or switch *)
Inductive BreakInStmt : stmt -> Prop :=
| Br_break : BreakInStmt SBreak
| Br_then : forall c th el, BreakIn th -> BreakInStmt (SIf c th el)
| Br_else : forall c th el, BreakIn el -> BreakInStmt (SIf c th el)
| Br_block : forall b, BreakIn b -> BreakInStmt (SBlock b)
with BreakIn : block -> Prop :=
| Bi_here : forall s r, BreakInStmt s -> BreakIn (BCons s r)
| Bi_later : forall s r, BreakIn r -> BreakIn (BCons s r).

(* "Terminating statements": a return; a block whose list ends in a terminating
   statement; an if with an else branch whose branches are both terminating; a
   for without condition and without a break referring to it; a switch without
   such a break, with a default case, where all statement lists end in a
   terminating statement.  "A statement list ends in a terminating statement
   if the list is not empty and its final statement is terminating." *)
Inductive Terminating : stmt -> Prop :=
| Tm_return : forall es, Terminating (SReturn es)
| Tm_block : forall b, TerminatingList b -> Terminating (SBlock b)
| Tm_if : forall c th el, TerminatingList th -> TerminatingList el -> Terminating (SIf c th el)
| Tm_loop : forall b, ~ BreakIn b -> Terminating (SLoop b)
| Tm_switch : forall tag cs d,
    TerminatingList d -> ~ BreakIn d -> TerminatingClauses cs -> Terminating (SSwitch tag cs d)
with TerminatingList : block -> Prop :=
| Tl_last : forall s, Terminating s -> TerminatingList (BCons s BNil)
| Tl_cons : forall s s' r, TerminatingList (BCons s' r) -> TerminatingList (BCons s (BCons s' r))
with TerminatingClauses : clauses -> Prop :=
| Tc_nil : TerminatingClauses CNil
| Tc_cons : forall es b r,
    TerminatingList b -> ~ BreakIn b -> TerminatingClauses r -> TerminatingClauses (CCons es b r).

(* ------------------------------------------------------------------- programs *)

Definition top_ctx : ctx := {| cx_results := []; cx_loop := false; cx_brk := false |}.

Inductive globals_ok (G : list N) : env -> list gdecl -> env -> Prop :=
| GO_nil : forall E, globals_ok G E [] E
| GO_const : forall E x t e E1 r E2,
    x <> blank -> stmt_ok G top_ctx E (SConst x t e) E1 -> globals_ok G E1 r E2 ->
    globals_ok G E (GConst x t e :: r) E2
| GO_var : forall E x t e E1 r E2,
    x <> blank -> stmt_ok G top_ctx E (SVar [x] t (ECons e ENone)) E1 -> globals_ok G E1 r E2 ->
    globals_ok G E (GVar x t e :: r) E2.

Inductive funcs_declared : env -> list fdecl -> env -> Prop :=
| FD_nil : forall E, funcs_declared E [] E
| FD_cons : forall E f r E2,
    fn_name f <> blank -> ~ InHead E (fn_name f) ->
    funcs_declared (declare E (fn_name f) (EntFunc (map snd (fn_params f)) (fn_results f))) r E2 ->
    funcs_declared E (f :: r) E2.

(* a function: distinct parameter names, a well typed body in the scope of
   the parameters, and "if the function's signature declares result
   parameters, the function body's statement list must end in a terminating
   statement" *)
Definition func_ok (G : list N) (E : env) (f : fdecl) : Prop :=
  NoDupNames (map fst (fn_params f)) /\
  block_ok G {| cx_results := fn_results f; cx_loop := false; cx_brk := false |}
           (declare_vars ([] :: E) (map fst (fn_params f)) (map snd (fn_params f))) (fn_body f) /\
  (fn_results f <> [] -> TerminatingList (fn_body f)).

Definition main_decl (p : program) : fdecl :=
  {| fn_name := blank; fn_params := []; fn_results := []; fn_body := p_main p |}.

(* a program: known packages imported once and used ("imported and not
   used"), package level declarations, functions *)
Definition prog_ok (p : program) : Prop :=
  let G := p_imports p in
  (forall q, In q G -> pkg_known q = true) /\ NoDup G /\
  (forall q, In q G -> In q (pk_program p)) /\
  exists E1 E2,
    globals_ok G [[]] (p_globals p) E1 /\ funcs_declared E1 (p_funcs p) E2 /\
    (forall f, In f (p_funcs p) -> func_ok G E2 f) /\ func_ok G E2 (main_decl p).
