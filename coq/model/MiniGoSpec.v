(* MiniGoTyping, declarative side: the typing rules of the fragment written as
   inductive predicates from the Go specification (sections Representability,
   Assignability, Constant expressions, Operators, Arithmetic operators,
   Comparison operators, Conversions, Calls, Declarations and scope, Short
   variable declarations, Assignment statements, If/For/Switch/Return
   statements, Terminating statements).  The executable checker of MiniGoM.v
   is proved equivalent to these rules in proofs/MiniGo_proofs.v.
   Shared with the checker (they are definitions on syntax or exact
   arithmetic, not decisions): the constant arithmetic qbin, the scopes
   (lookup, declare), the free uses of identifiers fu_block.  No proofs here. *)
From Verif Require Import MiniGoM.

(* ------------------------------------------------------- representability *)

(* "A constant x is representable by a value of type T if x is in the set of
   values determined by T": an integer in the range of an integer type, any
   rational within the float64 range for float64 (rounding is not modelled). *)
Inductive Representable : Q -> basic -> Prop :=
| Rep_int : forall q z b lo hi,
    int_range b = Some (lo, hi) -> Qeq q (inject_Z z) -> (lo <= z <= hi)%Z ->
    Representable q b
| Rep_float : forall q,
    Qle (Qopp max_float64) q -> Qle q max_float64 -> Representable q BFloat64.

Definition Numeric (k : bclass) : Prop := k = KInt \/ k = KFloat.

(* ------------------------------------------------------- properties of types *)

(* interface types of the fragment: the empty interface and the types defined over it *)
Definition IsIface (t : ty) : Prop := underlying t = TAny.

(* "Predeclared types, defined types [...] are called named types" *)
Inductive Named : ty -> Prop :=
| Nm_basic : forall b, Named (TBasic b)
| Nm_named : forall n b, Named (TNamed n b)
| Nm_def : forall n u, Named (TDef n u).

(* "The predeclared identifier nil [...] a pointer, function, slice, map,
   channel, or interface type" *)
Inductive Nillable : ty -> Prop :=
| Ni_ptr : forall t p, underlying t = TPtr p -> Nillable t
| Ni_slice : forall t e, underlying t = TSlice e -> Nillable t
| Ni_map : forall t k v, underlying t = TMap k v -> Nillable t
| Ni_func : forall t ps rs, underlying t = TFunc ps rs -> Nillable t
| Ni_iface : forall t, IsIface t -> Nillable t.

(* "Boolean, numeric, string, pointer, and channel types are strictly
   comparable. Interface types are comparable. Struct types are comparable if
   all their field types are comparable. Array types are comparable if their
   array element types are comparable. Slice, map, and function types are not
   comparable." *)
Inductive Comparable : ty -> Prop :=
| Cm_basic : forall b, Comparable (TBasic b)
| Cm_named : forall n b, Comparable (TNamed n b)
| Cm_ptr : forall t, Comparable (TPtr t)
| Cm_any : Comparable TAny
| Cm_array : forall n e, Comparable e -> Comparable (TArray n e)
| Cm_struct : forall fs, Forall Comparable fs -> Comparable (TStruct fs)
| Cm_def : forall n u, Comparable u -> Comparable (TDef n u).

(* "A value x of type V is assignable to a variable of type T if V and T are
   identical; V and T have identical underlying types [...] and at least one
   of V or T is not a named type; T is an interface type [...] and x
   implements T" (every type implements the empty interface) *)
Inductive AssignableTy : ty -> ty -> Prop :=
| ATy_identical : forall t, AssignableTy t t
| ATy_underlying : forall v t,
    underlying v = underlying t -> (~ Named v \/ ~ Named t) -> AssignableTy v t
| ATy_iface : forall v t, IsIface t -> AssignableTy v t.

(* implicit conversion of an untyped operand (kind k, value c) to a type of
   basic underlying type: an untyped boolean converts to boolean types, an
   untyped string constant to string types, a numeric constant to any numeric
   type that represents it *)
Inductive ConvBasic : ukind -> option cval -> ty -> Prop :=
| CB_bool : forall c t, tclass t = KBool -> ConvBasic UBool c t
| CB_str : forall c t, tclass t = KStr -> ConvBasic UString c t
| CB_num : forall k q t,
    Numeric (kind_class k) -> Numeric (tclass t) ->
    Representable q (under t) -> ConvBasic k (Some (CNum q)) t.

(* nil converts to the types that have a nil value; an untyped constant that
   is converted to an interface type is first converted to its default type *)
Inductive ConvUntyped : ukind -> option cval -> ty -> Prop :=
| CU_basic : forall k c t, ConvBasic k c t -> ConvUntyped k c t
| CU_nil : forall c t, Nillable t -> ConvUntyped UNil c t
| CU_iface : forall k c t, IsIface t -> ConvBasic k c (default_ty k) -> ConvUntyped k c t.

(* "x is an untyped constant representable by a value of type T"; "x is the
   predeclared identifier nil and T is a pointer, function, slice, map,
   channel, or interface type" *)
Inductive Assignable : etype -> ty -> Prop :=
| As_typed : forall t2 t c, AssignableTy t2 t -> Assignable (EVal (VT t2) c) t
| As_untyped : forall k c t, ConvUntyped k c t -> Assignable (EVal (VU k) c) t.

(* the type of x in  x := e,  var x = e,  _ = e : the type of e, or the
   default type of an untyped e, which must represent it *)
Inductive DefaultOf : etype -> ty -> Prop :=
| Def_typed : forall t c, DefaultOf (EVal (VT t) c) t
| Def_untyped : forall k c, ConvUntyped k c (default_ty k) -> DefaultOf (EVal (VU k) c) (default_ty k).

(* ----------------------------------------------------------------- operators *)

(* the larger of two numeric untyped kinds: integer, rune, floating-point *)
Definition kind_max (k1 k2 : ukind) : ukind :=
  if N.ltb (kind_rank k1) (kind_rank k2) then k2 else k1.

(* "the operand types must be identical unless the operation involves shifts
   or untyped constants"; "if one operand is an untyped constant and the other
   operand is not, the constant is implicitly converted to the type of the
   other operand"; two untyped constants of different numeric kinds take the
   later kind *)
Inductive Operands : etype -> etype -> vty -> option cval -> option cval -> Prop :=
| Op_typed : forall t c1 c2,
    Operands (EVal (VT t) c1) (EVal (VT t) c2) (VT t) c1 c2
| Op_right_untyped : forall t c1 k c2,
    ConvUntyped k c2 t -> Operands (EVal (VT t) c1) (EVal (VU k) c2) (VT t) c1 c2
| Op_left_untyped : forall t c2 k c1,
    ConvUntyped k c1 t -> Operands (EVal (VU k) c1) (EVal (VT t) c2) (VT t) c1 c2
| Op_untyped_numeric : forall k1 k2 c1 c2,
    Numeric (kind_class k1) -> Numeric (kind_class k2) ->
    Operands (EVal (VU k1) c1) (EVal (VU k2) c2) (VU (kind_max k1 k2)) c1 c2
| Op_untyped_same : forall k1 k2 c1 c2,
    ~ (Numeric (kind_class k1) /\ Numeric (kind_class k2)) ->
    kind_class k1 = kind_class k2 ->
    Operands (EVal (VU k1) c1) (EVal (VU k2) c2) (VU k1) c1 c2.

(* Arithmetic operators: + applies to integers, floats and strings; - * / to
   integers and floats; % & | ^ &^ to integers; && || to booleans *)
Inductive OpDefined : binop -> bclass -> Prop :=
| OD_add : forall k, (k = KStr \/ Numeric k) -> OpDefined OAdd k
| OD_sub : forall k, Numeric k -> OpDefined OSub k
| OD_mul : forall k, Numeric k -> OpDefined OMul k
| OD_div : forall k, Numeric k -> OpDefined ODiv k
| OD_rem : OpDefined ORem KInt
| OD_and : OpDefined OAnd KInt
| OD_or : OpDefined OOr KInt
| OD_xor : OpDefined OXor KInt
| OD_andnot : OpDefined OAndNot KInt
| OD_land : OpDefined OLAnd KBool
| OD_lor : OpDefined OLOr KBool.

(* "The divisor of a constant division or remainder operation must not be
   zero"; "if the divisor [of an integer division] is a constant, it must not
   be zero" *)
Definition DivByZero (o : binop) (k : bclass) (c1 c2 : option cval) : Prop :=
  (o = ODiv \/ o = ORem) /\
  (exists q, c2 = Some (CNum q) /\ Qnum q = 0%Z) /\
  ((exists c, c1 = Some c) \/ k = KInt).

(* "typed constants must always be accurately convertible to values of the
   constant type" *)
Inductive ConstOK : vty -> cval -> Prop :=
| CO_typed_num : forall t q, Representable q (under t) -> ConstOK (VT t) (CNum q)
| CO_typed_other : forall t, ConstOK (VT t) COther
| CO_untyped : forall k c, ConstOK (VU k) c.

Definition IntClass (v : vty) : Prop := vty_class v = KInt.

(* the count of a shift: "of integer type, or an untyped constant
   representable by a value of type uint"; a constant count is not negative *)
Inductive ShiftCount : vty -> option cval -> Prop :=
| SC_var : forall t, tclass t = KInt -> ShiftCount (VT t) None
| SC_typed_const : forall t q z,
    tclass t = KInt -> Qeq q (inject_Z z) -> (0 <= z)%Z -> ShiftCount (VT t) (Some (CNum q))
| SC_untyped_const : forall k q,
    Numeric (kind_class k) -> Representable q BUint -> ShiftCount (VU k) (Some (CNum q)).

Inductive Shift : binop -> etype -> etype -> etype -> Prop :=
(* non constant shift of a variable of integer type *)
| Sh_var : forall o t vb cb,
    ShiftCount vb cb -> tclass t = KInt ->
    Shift o (EVal (VT t) None) (EVal vb cb) (EVal (VT t) None)
(* constant shift: the left operand is a constant of integer type or an
   untyped constant with an integer value *)
| Sh_const : forall o va q x vb qs s r,
    ShiftCount vb (Some (CNum qs)) ->
    (match va with VT t => tclass t = KInt | VU k => Numeric (kind_class k) end) ->
    Qeq q (inject_Z x) -> Qeq qs (inject_Z s) -> (s <= max_shift)%Z ->
    r = CNum (qz (shift_value o x s)) -> ConstOK (shift_result_vty va) r ->
    Shift o (EVal va (Some (CNum q))) (EVal vb (Some (CNum qs))) (EVal (shift_result_vty va) (Some r))
(* a typed constant shifted by a non constant count *)
| Sh_typed_const_var : forall o t q x vb,
    ShiftCount vb None -> tclass t = KInt -> Qeq q (inject_Z x) ->
    Shift o (EVal (VT t) (Some (CNum q))) (EVal vb None) (EVal (VT t) None)
(* an untyped constant shifted by a non constant count: converted to the type
   it would have if the shift were replaced by its left operand; the fragment
   only has the case where that type is int *)
| Sh_untyped_const_var : forall o k q x vb,
    ShiftCount vb None -> Numeric (kind_class k) -> Qeq q (inject_Z x) ->
    Representable q BInt ->
    Shift o (EVal (VU k) (Some (CNum q))) (EVal vb None) (EVal (VT (TBasic BInt)) None).

(* "In any comparison, the first operand must be assignable to the type of
   the second operand, or vice versa." *)
Inductive CmpCompat : etype -> etype -> option cval -> option cval -> Prop :=
| CC_typed : forall t1 t2 c1 c2,
    (AssignableTy t1 t2 \/ AssignableTy t2 t1) -> CmpCompat (EVal (VT t1) c1) (EVal (VT t2) c2) c1 c2
| CC_untyped : forall a b v c1 c2, Operands a b v c1 c2 -> CmpCompat a b c1 c2.

(* "The equality operators == and != apply to operands of comparable types";
   "Slice, map, and function types are not comparable. However, as a special
   case, a slice, map, or function value may be compared to the predeclared
   identifier nil"; nil cannot be compared to nil *)
Inductive EqOperand (other : etype) : etype -> Prop :=
| EO_comparable : forall t c, Comparable t -> EqOperand other (EVal (VT t) c)
| EO_with_nil : forall t c c2, other = EVal (VU UNil) c2 -> Nillable t -> EqOperand other (EVal (VT t) c)
| EO_untyped : forall k c, k <> UNil -> EqOperand other (EVal (VU k) c)
| EO_nil : forall c, (forall c2, other <> EVal (VU UNil) c2) -> EqOperand other (EVal (VU UNil) c).

(* "The ordering operators <, <=, >, and >= apply to operands of ordered
   types": integer, floating-point and string types *)
Inductive OrderedOperand : etype -> Prop :=
| OO_val : forall v c, (vty_class v = KInt \/ vty_class v = KFloat \/ vty_class v = KStr) -> OrderedOperand (EVal v c).

Inductive Binary : binop -> etype -> etype -> etype -> Prop :=
| B_shift : forall o a b r, is_shift o = true -> Shift o a b r -> Binary o a b r
(* comparison: the result is an untyped boolean, constant when both operands are *)
| B_compare : forall o a b c1 c2,
    is_comparison o = true -> CmpCompat a b c1 c2 ->
    (is_order o = true -> OrderedOperand a /\ OrderedOperand b) ->
    (is_order o = false -> EqOperand b a /\ EqOperand a b) ->
    Binary o a b (EVal (VU UBool) (if both_const c1 c2 then Some COther else None))
| B_value : forall o a b v c1 c2,
    is_shift o = false -> is_comparison o = false ->
    Operands a b v c1 c2 -> OpDefined o (vty_class v) ->
    ~ DivByZero o (vty_class v) c1 c2 -> both_const c1 c2 = false ->
    Binary o a b (EVal v None)
| B_const_num : forall o a b v q1 q2 r,
    is_shift o = false -> is_comparison o = false ->
    Operands a b v (Some (CNum q1)) (Some (CNum q2)) -> OpDefined o (vty_class v) ->
    ~ DivByZero o (vty_class v) (Some (CNum q1)) (Some (CNum q2)) ->
    qbin o (vty_class v) q1 q2 = Some r -> ConstOK v (CNum r) ->
    Binary o a b (EVal v (Some (CNum r)))
| B_const_other : forall o a b v c1 c2,
    is_shift o = false -> is_comparison o = false ->
    Operands a b v (Some c1) (Some c2) -> OpDefined o (vty_class v) ->
    ~ DivByZero o (vty_class v) (Some c1) (Some c2) ->
    (c1 = COther \/ c2 = COther) ->
    Binary o a b (EVal v (Some COther)).

(* unary operators: + - on numeric operands, ! on booleans, ^ on integers *)
Inductive UnDefined : unop -> bclass -> Prop :=
| UD_plus : forall k, Numeric k -> UnDefined UPlus k
| UD_neg : forall k, Numeric k -> UnDefined UNeg k
| UD_not : UnDefined UNot KBool
| UD_compl : UnDefined UCompl KInt.

Inductive Unary : unop -> etype -> etype -> Prop :=
| Un_value : forall o v, UnDefined o (vty_class v) -> Unary o (EVal v None) (EVal v None)
| Un_other : forall o v, UnDefined o (vty_class v) -> Unary o (EVal v (Some COther)) (EVal v (Some COther))
| Un_plus : forall v q, UnDefined UPlus (vty_class v) -> Unary UPlus (EVal v (Some (CNum q))) (EVal v (Some (CNum q)))
| Un_neg : forall v q, UnDefined UNeg (vty_class v) -> ConstOK v (CNum (Qred (Qopp q))) ->
    Unary UNeg (EVal v (Some (CNum q))) (EVal v (Some (CNum (Qred (Qopp q)))))
| Un_compl : forall v q x, UnDefined UCompl (vty_class v) -> Qeq q (inject_Z x) ->
    ConstOK v (CNum (qz (compl_value v x))) ->
    Unary UCompl (EVal v (Some (CNum q))) (EVal v (Some (CNum (qz (compl_value v x))))).

(* conversions T(x) *)
Definition BytesOrRunes (t : ty) : Prop :=
  exists e, underlying t = TSlice e /\ (underlying e = TBasic BUint8 \/ underlying e = TBasic BInt32).

(* "A non-constant value x can be converted to type T in any of these cases" *)
Definition Convertible (t2 t : ty) : Prop :=
  AssignableTy t2 t \/
  underlying t2 = underlying t \/
  (exists a b, t2 = TPtr a /\ t = TPtr b /\ underlying a = underlying b) \/
  (Numeric (tclass t2) /\ Numeric (tclass t)) \/
  (tclass t2 = KInt /\ tclass t = KStr) \/
  (tclass t2 = KStr /\ BytesOrRunes t) \/
  (BytesOrRunes t2 /\ tclass t = KStr).

Inductive Convert : ty -> etype -> etype -> Prop :=
(* a constant converted to an interface type or to a slice of bytes or runes
   yields a non constant value *)
| Cv_const_iface_typed : forall t t2 c,
    IsIface t -> Convert t (EVal (VT t2) (Some c)) (EVal (VT t) None)
| Cv_const_iface_untyped : forall t k c,
    IsIface t -> ConvBasic k (Some c) (default_ty k) -> Convert t (EVal (VU k) (Some c)) (EVal (VT t) None)
| Cv_const_bytes : forall t v c,
    vty_class v = KStr -> BytesOrRunes t -> Convert t (EVal v (Some c)) (EVal (VT t) None)
(* constant conversions: "x is representable by a value of type T", or "x is
   an integer constant and T is a string type" *)
| Cv_const_num : forall t v q,
    Numeric (vty_class v) -> Numeric (tclass t) -> Representable q (under t) ->
    Convert t (EVal v (Some (CNum q))) (EVal (VT t) (Some (CNum q)))
| Cv_const_int_string : forall t v q,
    vty_class v = KInt -> tclass t = KStr ->
    Convert t (EVal v (Some (CNum q))) (EVal (VT t) (Some COther))
| Cv_const_same : forall t v,
    (vty_class v = KStr \/ vty_class v = KBool) -> tclass t = vty_class v ->
    Convert t (EVal v (Some COther)) (EVal (VT t) (Some COther))
| Cv_value : forall t t2, Convertible t2 t -> Convert t (EVal (VT t2) None) (EVal (VT t) None)
(* nil converts to the types that have a nil value *)
| Cv_nil : forall t, Nillable t -> Convert t (EVal (VU UNil) None) (EVal (VT t) None)
(* an untyped boolean value (a comparison) converts to boolean and interface types *)
| Cv_untyped_bool : forall t k,
    kind_class k = KBool -> (tclass t = KBool \/ IsIface t) ->
    Convert t (EVal (VU k) None) (EVal (VT t) None).

(* --------------------------------------- index, slice, selector, indirection *)

(* "the index x must be an untyped constant or its core type must be an
   integer"; "a constant index must be non-negative and representable by a
   value of type int" *)
Inductive IndexOK : etype -> option Z -> Prop :=
| IO_var : forall t, tclass t = KInt -> IndexOK (EVal (VT t) None) None
| IO_typed_const : forall t q z,
    tclass t = KInt -> Qeq q (inject_Z z) -> (0 <= z)%Z -> IndexOK (EVal (VT t) (Some (CNum q))) (Some z)
| IO_untyped_const : forall k q z,
    Numeric (kind_class k) -> Representable q BInt -> Qeq q (inject_Z z) -> (0 <= z)%Z ->
    IndexOK (EVal (VU k) (Some (CNum q))) (Some z).

Definition InBound (z : option Z) (n : Z) (incl : bool) : Prop :=
  match z with Some z => if incl then (z <= n)%Z else (z < n)%Z | None => True end.

Definition ArrayOf (t : ty) (n : Z) (e : ty) : Prop :=
  underlying t = TArray n e \/ exists p, underlying t = TPtr p /\ underlying p = TArray n e.

Definition byte_val : etype := EVal (VT (TBasic BUint8)) None.

(* "For a of array type: a constant index must be in range"; pointer to
   array: indexed through the pointer; slice; string: a[x] is a non constant byte
   value; map: "x's type must be assignable to the key type of M" *)
Inductive Index : etype -> etype -> etype -> Prop :=
| Ix_slice : forall t c e i z, underlying t = TSlice e -> IndexOK i z -> Index (EVal (VT t) c) i (EVal (VT e) None)
| Ix_map : forall t c k v i, underlying t = TMap k v -> Assignable i k -> Index (EVal (VT t) c) i (EVal (VT v) None)
| Ix_array : forall t c n e i z,
    ArrayOf t n e -> IndexOK i z -> InBound z n false -> Index (EVal (VT t) c) i (EVal (VT e) None)
| Ix_string : forall t c i z, tclass t = KStr -> IndexOK i z -> Index (EVal (VT t) c) i byte_val
| Ix_const_string : forall c i z, IndexOK i z -> Index (EVal (VU UString) (Some c)) i byte_val.

Definition BoundsOrdered (zl zh : option Z) : Prop :=
  match zl, zh with Some l, Some h => (l <= h)%Z | _, _ => True end.

(* a[low : high]: "If the sliced operand of a valid slice expression is a nil
   slice [...] if the sliced operand is an array, it must be addressable";
   "constant indices must be in range", "if both indices are constant, they
   must satisfy low <= high"; the result of slicing a string or a slice has
   the type of the operand, an array gives a slice of its element type *)
Inductive Slice (A : Prop) : etype -> option Z -> option Z -> etype -> Prop :=
| Sl_slice : forall t c e zl zh,
    underlying t = TSlice e -> BoundsOrdered zl zh -> Slice A (EVal (VT t) c) zl zh (EVal (VT t) None)
| Sl_array : forall t c n e zl zh,
    underlying t = TArray n e -> A -> BoundsOrdered zl zh -> InBound zl n true -> InBound zh n true ->
    Slice A (EVal (VT t) c) zl zh (EVal (VT (TSlice e)) None)
| Sl_ptr : forall t c p n e zl zh,
    underlying t = TPtr p -> underlying p = TArray n e ->
    BoundsOrdered zl zh -> InBound zl n true -> InBound zh n true ->
    Slice A (EVal (VT t) c) zl zh (EVal (VT (TSlice e)) None)
| Sl_string : forall t c zl zh,
    tclass t = KStr -> BoundsOrdered zl zh -> Slice A (EVal (VT t) c) zl zh (EVal (VT t) None)
| Sl_const_string : forall c zl zh,
    BoundsOrdered zl zh -> Slice A (EVal (VU UString) (Some c)) zl zh (EVal (VT (TBasic BString)) None).

Definition StructOf (t : ty) (fs : list ty) : Prop :=
  underlying t = TStruct fs \/ exists p, underlying t = TPtr p /\ underlying p = TStruct fs.

(* x.f: field f of a struct, or of the struct a pointer points to *)
Inductive Select : etype -> N -> etype -> Prop :=
| Se_field : forall t c fs i f,
    StructOf t fs -> nth_error fs (N.to_nat i) = Some f -> Select (EVal (VT t) c) i (EVal (VT f) None).

(* *p *)
Inductive Deref : etype -> etype -> Prop :=
| De_ptr : forall t c p, underlying t = TPtr p -> Deref (EVal (VT t) c) (EVal (VT p) None).

(* x.(T): "x is of interface type" *)
Inductive Assert : etype -> ty -> etype -> Prop :=
| Ass_iface : forall t2 c t, IsIface t2 -> wf_ty t = true -> Assert (EVal (VT t2) c) t (EVal (VT t) None).

(* ------------------------------------------------------------------- builtins *)

(* len: string, array, pointer to array, slice, map; cap: array, pointer to
   array, slice; "The expressions len(s) and cap(s) are constants if the type
   of s is an array or pointer to an array and the expression s does not
   contain [...] function calls" *)
Inductive Len (cp nocalls : bool) : etype -> etype -> Prop :=
| Ln_slice : forall t c e, underlying t = TSlice e -> Len cp nocalls (EVal (VT t) c) int_val
| Ln_map : forall t c k v, cp = false -> underlying t = TMap k v -> Len cp nocalls (EVal (VT t) c) int_val
| Ln_array_const : forall t c n e,
    ArrayOf t n e -> nocalls = true -> Len cp nocalls (EVal (VT t) c) (EVal (VT (TBasic BInt)) (Some (CNum (qz n))))
| Ln_array : forall t c n e, ArrayOf t n e -> nocalls = false -> Len cp nocalls (EVal (VT t) c) int_val
| Ln_string : forall t c, cp = false -> tclass t = KStr -> Len cp nocalls (EVal (VT t) c) int_val
| Ln_const_string : forall c, cp = false -> Len cp nocalls (EVal (VU UString) (Some c)) int_val.

(* append(s S, x ...E) S *)
Inductive Append : etype -> list etype -> etype -> Prop :=
| Ap_slice : forall t c e vs,
    underlying t = TSlice e -> Forall (fun v => Assignable v e) vs -> Append (EVal (VT t) c) vs (EVal (VT t) None).

(* make(T, n) slice; make(T, n, m) slice; make(T) map; make(T, n) map: "each
   of the size arguments n and m must be of integer type [...] or an untyped
   constant. A constant size argument must be non-negative and representable
   by a value of type int; if both n and m are provided and are constant,
   then n must be no larger than m" *)
Inductive Make : ty -> list etype -> etype -> Prop :=
| Mk_slice1 : forall t e l z, wf_ty t = true -> underlying t = TSlice e -> IndexOK l z -> Make t [l] (EVal (VT t) None)
| Mk_slice2 : forall t e l c zl zc,
    wf_ty t = true -> underlying t = TSlice e -> IndexOK l zl -> IndexOK c zc -> BoundsOrdered zl zc ->
    Make t [l; c] (EVal (VT t) None)
| Mk_map0 : forall t k v, wf_ty t = true -> underlying t = TMap k v -> Make t [] (EVal (VT t) None)
| Mk_map1 : forall t k v l z, wf_ty t = true -> underlying t = TMap k v -> IndexOK l z -> Make t [l] (EVal (VT t) None).

(* copy(dst, src []T) int, copy(dst []byte, src string) int *)
Inductive Copy : etype -> etype -> etype -> Prop :=
| Cp_slices : forall td cd e ts cs,
    underlying td = TSlice e -> underlying ts = TSlice e -> Copy (EVal (VT td) cd) (EVal (VT ts) cs) int_val
| Cp_string : forall td cd e ts cs,
    underlying td = TSlice e -> underlying e = TBasic BUint8 -> tclass ts = KStr ->
    Copy (EVal (VT td) cd) (EVal (VT ts) cs) int_val
| Cp_const_string : forall td cd e c,
    underlying td = TSlice e -> underlying e = TBasic BUint8 ->
    Copy (EVal (VT td) cd) (EVal (VU UString) (Some c)) int_val.

(* delete(m, k): "The type of k must be assignable to the key type of m" *)
Inductive Delete : etype -> etype -> etype -> Prop :=
| Dl_map : forall t c k v tk, underlying t = TMap k v -> Assignable tk k -> Delete (EVal (VT t) c) tk (ETuple []).

(* --------------------------------------------------------- composite literals *)

(* struct literal without keys: "an element list that does not contain any
   keys must list an element for each struct field in the order in which the
   fields are declared" *)
Inductive LitStructPos : list ty -> list item -> Prop :=
| LSP_nil : LitStructPos [] []
| LSP_cons : forall f fs v its, Assignable v f -> LitStructPos fs its -> LitStructPos (f :: fs) (IPos v :: its).

(* with keys: "A key must be a field name declared in the struct type";
   "It is an error to specify multiple values for the same field" *)
Inductive LitStructKey (fs : list ty) : list Z -> list item -> Prop :=
| LSK_nil : forall seen, LitStructKey fs seen []
| LSK_cons : forall seen z v f its,
    (0 <= z)%Z -> ~ In z seen -> nth_error fs (Z.to_nat z) = Some f -> Assignable v f ->
    LitStructKey fs (z :: seen) its -> LitStructKey fs seen (IIdx z v :: its).

Definition BelowBound (z : Z) (bound : option Z) : Prop :=
  match bound with Some n => (z < n)%Z | None => True end.

(* array and slice literals: "The key is interpreted as [...] the index [...]
   must be a non-negative constant"; "An element without a key uses the
   previous element's index plus one"; indices must be in range and distinct *)
Inductive LitElems (bound : option Z) (e : ty) : Z -> list Z -> list item -> Prop :=
| LE_nil : forall cur seen, LitElems bound e cur seen []
| LE_pos : forall cur seen v its,
    BelowBound cur bound -> ~ In cur seen -> Assignable v e ->
    LitElems bound e (cur + 1) (cur :: seen) its -> LitElems bound e cur seen (IPos v :: its)
| LE_idx : forall cur seen z v its,
    (0 <= z)%Z -> BelowBound z bound -> ~ In z seen -> Assignable v e ->
    LitElems bound e (z + 1) (z :: seen) its -> LitElems bound e cur seen (IIdx z v :: its).

(* map literals: every element has a key; "It is an error to specify multiple
   elements with the same constant key value" (tracked for numeric constants) *)
Inductive LitMap (k v : ty) : list Q -> list item -> Prop :=
| LM_nil : forall seen, LitMap k v seen []
| LM_const : forall seen tk tv q its,
    Assignable tk k -> Assignable tv v -> const_num tk = Some q ->
    (forall q2, In q2 seen -> ~ Qeq q q2) -> LitMap k v (q :: seen) its ->
    LitMap k v seen (IKey tk tv :: its)
| LM_other : forall seen tk tv its,
    Assignable tk k -> Assignable tv v -> const_num tk = None -> LitMap k v seen its ->
    LitMap k v seen (IKey tk tv :: its).

Inductive CompLit : ty -> list item -> etype -> Prop :=
| CL_struct_empty : forall t fs, wf_ty t = true -> underlying t = TStruct fs -> CompLit t [] (EVal (VT t) None)
| CL_struct_pos : forall t fs its,
    wf_ty t = true -> underlying t = TStruct fs -> its <> [] -> LitStructPos fs its -> CompLit t its (EVal (VT t) None)
| CL_struct_key : forall t fs its,
    wf_ty t = true -> underlying t = TStruct fs -> its <> [] -> LitStructKey fs [] its -> CompLit t its (EVal (VT t) None)
| CL_array : forall t n e its,
    wf_ty t = true -> underlying t = TArray n e -> LitElems (Some n) e 0 [] its -> CompLit t its (EVal (VT t) None)
| CL_slice : forall t e its,
    wf_ty t = true -> underlying t = TSlice e -> LitElems None e 0 [] its -> CompLit t its (EVal (VT t) None)
| CL_map : forall t k v its,
    wf_ty t = true -> underlying t = TMap k v -> LitMap k v [] its -> CompLit t its (EVal (VT t) None).

(* ---------------------------------------------------------------- expressions *)

(* an absent bound of a slice expression, or an index *)
Definition is_omit (e : expr) : bool := match e with EOmit => true | _ => false end.

Inductive has_type (G : list N) (E : env) : expr -> etype -> Prop :=
| T_LitB : forall b, has_type G E (ELitB b) (EVal (VU UBool) (Some COther))
| T_LitI : forall z, has_type G E (ELitI z) (EVal (VU UInt) (Some (CNum (qz z))))
| T_LitR : forall z, has_type G E (ELitR z) (EVal (VU URune) (Some (CNum (qz z))))
| T_LitF : forall n d, has_type G E (ELitF n d) (EVal (VU UFloat) (Some (CNum (Qred (n # d)))))
| T_LitS : forall s, has_type G E (ELitS s) (EVal (VU UString) (Some COther))
| T_Nil : has_type G E ENilE (EVal (VU UNil) None)
| T_Var : forall x t, x <> blank -> lookup E x = Some (EntVar t) -> has_type G E (EVar x) (EVal (VT t) None)
| T_Const : forall x c, x <> blank -> lookup E x = Some (EntConst c) -> has_type G E (EVar x) c
(* a function name denotes a value of its function type *)
| T_FuncVal : forall x ps rs, x <> blank -> lookup E x = Some (EntFunc ps rs) ->
    has_type G E (EVar x) (EVal (VT (TFunc ps rs)) None)
| T_Un : forall o a ta r, has_type G E a ta -> Unary o ta r -> has_type G E (EUn o a) r
| T_Bin : forall o a b ta tb r,
    has_type G E a ta -> has_type G E b tb -> Binary o ta tb r -> has_type G E (EBin o a b) r
| T_Conv : forall t a ta r, wf_ty t = true -> has_type G E a ta -> Convert t ta r -> has_type G E (EConv t a) r
| T_Call : forall f args ps rs tas,
    lookup E f = Some (EntFunc ps rs) -> has_types G E args tas -> Forall2 Assignable tas ps ->
    has_type G E (ECall f args) (call_result rs)
(* call of a variable of function type *)
| T_CallVar : forall f args t ps rs tas,
    lookup E f = Some (EntVar t) -> underlying t = TFunc ps rs ->
    has_types G E args tas -> Forall2 Assignable tas ps ->
    has_type G E (ECall f args) (call_result rs)
| T_Pkg : forall p f args ps rs tas,
    In p G -> pkg_sig p f = Some (ps, rs) -> has_types G E args tas -> Forall2 Assignable tas ps ->
    has_type G E (EPkg p f args) (call_result rs)
| T_CompLit : forall t els its r, has_items G E els its -> CompLit t its r -> has_type G E (ECompLit t els) r
| T_Index : forall a i ta ti r,
    has_type G E a ta -> has_type G E i ti -> Index ta ti r -> has_type G E (EIndex a i) r
| T_Slice : forall a lo hi ta zl zh r,
    has_type G E a ta -> has_bound G E lo zl -> has_bound G E hi zh ->
    Slice (Addressable G E a) ta zl zh r -> has_type G E (ESliceE a lo hi) r
(* &x: "the operand must be addressable [...] or a (possibly parenthesized)
   composite literal" *)
| T_Addr : forall a t c,
    has_type G E a (EVal (VT t) c) -> (Addressable G E a \/ is_complit a = true) ->
    has_type G E (EAddr a) (EVal (VT (TPtr t)) None)
| T_Deref : forall a ta r, has_type G E a ta -> Deref ta r -> has_type G E (EDeref a) r
| T_Sel : forall a i ta r, has_type G E a ta -> Select ta i r -> has_type G E (ESel a i) r
| T_Len : forall a ta r, has_type G E a ta -> Len false (no_calls a) ta r -> has_type G E (ELen a) r
| T_Cap : forall a ta r, has_type G E a ta -> Len true (no_calls a) ta r -> has_type G E (ECap a) r
| T_Append : forall a args ta tas r,
    has_type G E a ta -> has_types G E args tas -> Append ta tas r -> has_type G E (EAppend a args) r
| T_Make : forall t args tas r, has_types G E args tas -> Make t tas r -> has_type G E (EMake t args) r
| T_New : forall t, wf_ty t = true -> has_type G E (ENew t) (EVal (VT (TPtr t)) None)
| T_Copy : forall d a td ta r,
    has_type G E d td -> has_type G E a ta -> Copy td ta r -> has_type G E (ECopy d a) r
| T_Delete : forall m k tm tk r,
    has_type G E m tm -> has_type G E k tk -> Delete tm tk r -> has_type G E (EDelete m k) r
| T_Assert : forall a t ta r, has_type G E a ta -> Assert ta t r -> has_type G E (EAssert a t) r
with has_types (G : list N) (E : env) : exprs -> list etype -> Prop :=
| T_None : has_types G E ENone []
| T_Cons : forall e r t ts, has_type G E e t -> has_types G E r ts -> has_types G E (ECons e r) (t :: ts)
with has_items (G : list N) (E : env) : elts -> list item -> Prop :=
| TI_nil : has_items G E LNil []
| TI_pos : forall e r t its, has_type G E e t -> has_items G E r its -> has_items G E (LPos e r) (IPos t :: its)
| TI_idx : forall z e r t its, has_type G E e t -> has_items G E r its -> has_items G E (LIdx z e r) (IIdx z t :: its)
| TI_key : forall k e r tk t its,
    has_type G E k tk -> has_type G E e t -> has_items G E r its -> has_items G E (LKey k e r) (IKey tk t :: its)
with has_bound (G : list N) (E : env) : expr -> option Z -> Prop :=
| TB_omit : has_bound G E EOmit None
| TB_index : forall e te z, is_omit e = false -> has_type G E e te -> IndexOK te z -> has_bound G E e z
(* "either a variable, pointer indirection, or slice indexing operation; or a
   field selector of an addressable struct operand; or an array indexing
   operation of an addressable array" *)
with Addressable (G : list N) (E : env) : expr -> Prop :=
| Ad_var : forall x t, x <> blank -> lookup E x = Some (EntVar t) -> Addressable G E (EVar x)
| Ad_deref : forall a, Addressable G E (EDeref a)
| Ad_index_slice : forall a i t c e,
    has_type G E a (EVal (VT t) c) -> underlying t = TSlice e -> Addressable G E (EIndex a i)
| Ad_index_ptr : forall a i t c p,
    has_type G E a (EVal (VT t) c) -> underlying t = TPtr p -> Addressable G E (EIndex a i)
| Ad_index_array : forall a i t c n e,
    has_type G E a (EVal (VT t) c) -> underlying t = TArray n e -> Addressable G E a -> Addressable G E (EIndex a i)
| Ad_sel_ptr : forall a i t c p,
    has_type G E a (EVal (VT t) c) -> underlying t = TPtr p -> Addressable G E (ESel a i)
| Ad_sel_struct : forall a i t c,
    has_type G E a (EVal (VT t) c) -> (forall p, underlying t <> TPtr p) -> Addressable G E a ->
    Addressable G E (ESel a i).

(* ----------------------------------------------------------------- statements *)

Definition NotBlank (x : ident) : Prop := x <> blank.

(* no non blank identifier occurs twice *)
Inductive NoDupNames : list ident -> Prop :=
| ND_nil : NoDupNames []
| ND_blank : forall r, NoDupNames r -> NoDupNames (blank :: r)
| ND_cons : forall x r, x <> blank -> ~ In x r -> NoDupNames r -> NoDupNames (x :: r).

Definition InHead (E : env) (x : ident) : Prop := exists e, scope_get (head_scope E) x = Some e.

(* "n expressions for n operands, or one call with n results" *)
Inductive Values : list etype -> nat -> list etype -> Prop :=
| V_call : forall ts, Values [ETuple ts] (length ts) (map (fun t => EVal (VT t) None) ts)
| V_each : forall tes,
    Forall (fun te => exists v c, te = EVal v c) tes -> Values tes (length tes) tes.

(* targets of an assignment *)
Inductive AssignTargets (E : env) : list ident -> list etype -> Prop :=
| AT_nil : AssignTargets E [] []
| AT_blank : forall xs v vs t, DefaultOf v t -> AssignTargets E xs vs -> AssignTargets E (blank :: xs) (v :: vs)
| AT_var : forall x xs v vs t,
    x <> blank -> lookup E x = Some (EntVar t) -> Assignable v t -> AssignTargets E xs vs ->
    AssignTargets E (x :: xs) (v :: vs).

(* short variable declaration: "it may redeclare variables provided they were
   originally declared earlier in the same block with the same type";
   redeclaration assigns a new value; the other non blank identifiers are new
   variables of the default type of their value *)
Inductive ShortTargets (E : env) : list ident -> list etype -> list (ident * ty) -> Prop :=
| ST_nil : ShortTargets E [] [] []
| ST_blank : forall xs v vs t news,
    DefaultOf v t -> ShortTargets E xs vs news -> ShortTargets E (blank :: xs) (v :: vs) news
| ST_old : forall x xs v vs t news,
    x <> blank -> scope_get (head_scope E) x = Some (EntVar t) -> Assignable v t ->
    ShortTargets E xs vs news -> ShortTargets E (x :: xs) (v :: vs) news
| ST_new : forall x xs v vs t news,
    x <> blank -> scope_get (head_scope E) x = None -> DefaultOf v t ->
    ShortTargets E xs vs news -> ShortTargets E (x :: xs) (v :: vs) ((x, t) :: news).

(* a map index expression *)
Inductive MapIndex (G : list N) (E : env) : expr -> Prop :=
| MI_index : forall a i t c k v,
    has_type G E a (EVal (VT t) c) -> underlying t = TMap k v -> MapIndex G E (EIndex a i).

(* "Range expression: array or slice a [n]E, *[n]E, or []E: index i int, a[i]
   E; string: index i int, rune; map m map[K]V: key k K, m[k] V" *)
Inductive RangeTypes : etype -> ty -> ty -> Prop :=
| RT_slice : forall t c e, underlying t = TSlice e -> RangeTypes (EVal (VT t) c) (TBasic BInt) e
| RT_map : forall t c k v, underlying t = TMap k v -> RangeTypes (EVal (VT t) c) k v
| RT_array : forall t c n e, ArrayOf t n e -> RangeTypes (EVal (VT t) c) (TBasic BInt) e
| RT_string : forall t c, tclass t = KStr -> RangeTypes (EVal (VT t) c) (TBasic BInt) (TBasic BInt32)
| RT_const_string : forall c, RangeTypes (EVal (VU UString) (Some c)) (TBasic BInt) (TBasic BInt32).

Definition BoolCond (e : etype) : Prop := exists v c, e = EVal v c /\ vty_class v = KBool.

(* the condition that every variable declared by s is used in the rest r of
   its block ("declared and not used") *)
Definition DeclsUsed (E : env) (s : stmt) (r : block) : Prop :=
  let cur := scope_names (head_scope E) in
  forall x, In x (var_decls cur s) -> In x (fu_block (decl_stmt cur s ++ cur) r).

Inductive stmt_ok (G : list N) (cx : ctx) (E : env) : stmt -> env -> Prop :=
(* var xs t *)
| S_VarZero : forall xs t,
    wf_ty t = true -> xs <> [] -> NoDupNames xs -> (forall x, In x xs -> x <> blank -> ~ InHead E x) ->
    stmt_ok G cx E (SVar xs (Some t) ENone) (declare_vars E xs (map (fun _ => t) xs))
(* var xs t = es *)
| S_VarTyped : forall xs t es tes vs,
    wf_ty t = true -> xs <> [] -> es <> ENone -> NoDupNames xs -> (forall x, In x xs -> x <> blank -> ~ InHead E x) ->
    has_types G E es tes -> Values tes (length xs) vs -> Forall (fun v => Assignable v t) vs ->
    stmt_ok G cx E (SVar xs (Some t) es) (declare_vars E xs (map (fun _ => t) xs))
(* var xs = es *)
| S_VarInfer : forall xs es tes vs ts,
    xs <> [] -> es <> ENone -> NoDupNames xs -> (forall x, In x xs -> x <> blank -> ~ InHead E x) ->
    has_types G E es tes -> Values tes (length xs) vs -> Forall2 DefaultOf vs ts ->
    stmt_ok G cx E (SVar xs None es) (declare_vars E xs ts)
(* const x = e, const x t = e *)
| S_ConstInfer : forall x e v c,
    (x <> blank -> ~ InHead E x) -> has_type G E e (EVal v (Some c)) ->
    stmt_ok G cx E (SConst x None e) (declare E x (EntConst (EVal v (Some c))))
| S_ConstTyped : forall x t e c,
    tclass t <> KComp -> (x <> blank -> ~ InHead E x) -> has_type G E e (EVal (VT t) (Some c)) ->
    stmt_ok G cx E (SConst x (Some t) e) (declare E x (EntConst (EVal (VT t) (Some c))))
| S_ConstConv : forall x t e k c,
    tclass t <> KComp -> (x <> blank -> ~ InHead E x) -> has_type G E e (EVal (VU k) (Some c)) -> ConvUntyped k (Some c) t ->
    stmt_ok G cx E (SConst x (Some t) e) (declare E x (EntConst (EVal (VT t) (Some c))))
(* xs := es : at least one new non blank variable on the left side *)
| S_Short : forall xs es tes vs news,
    NoDupNames xs -> (exists x, In x xs /\ x <> blank /\ ~ InHead E x) ->
    has_types G E es tes -> Values tes (length xs) vs -> ShortTargets E xs vs news ->
    stmt_ok G cx E (SShort xs es) (declare_list E news)
| S_Assign : forall xs es tes vs,
    xs <> [] -> has_types G E es tes -> Values tes (length xs) vs -> AssignTargets E xs vs ->
    stmt_ok G cx E (SAssign xs es) E
(* x op= e  is  x = x op e  with x evaluated once *)
| S_OpAssign : forall x o e t te c,
    is_comparison o = false -> is_logical o = false -> x <> blank ->
    lookup E x = Some (EntVar t) -> has_type G E e te ->
    Binary o (EVal (VT t) None) te (EVal (VT t) c) ->
    stmt_ok G cx E (SOpAssign x o e) E
| S_IncDec : forall x t,
    x <> blank -> lookup E x = Some (EntVar t) -> Numeric (tclass t) ->
    stmt_ok G cx E (SIncDec x) E
(* "function and method calls can appear in statement context" *)
| S_Expr : forall e te, is_call e = true -> has_type G E e te -> stmt_ok G cx E (SExpr e) E
| S_If : forall c th el tc,
    has_type G E c tc -> BoolCond tc -> block_ok G cx ([] :: E) th -> block_ok G cx ([] :: E) el ->
    stmt_ok G cx E (SIf c th el) E
| S_For : forall c b tc,
    has_type G E c tc -> BoolCond tc -> block_ok G (in_loop cx) ([] :: E) b ->
    stmt_ok G cx E (SFor c b) E
| S_Loop : forall b, block_ok G (in_loop cx) ([] :: E) b -> stmt_ok G cx E (SLoop b) E
(* the tag gets its default type; every case expression must be comparable with it *)
| S_Switch : forall tag cs d ttag t,
    has_type G E tag ttag -> DefaultOf ttag t ->
    clauses_ok G (in_switch cx) E (EVal (VT t) None) cs -> block_ok G (in_switch cx) ([] :: E) d ->
    stmt_ok G cx E (SSwitch tag cs d) E
| S_Return : forall es tes vs,
    has_types G E es tes -> Values tes (length (cx_results cx)) vs -> Forall2 Assignable vs (cx_results cx) ->
    stmt_ok G cx E (SReturn es) E
| S_Break : cx_brk cx = true -> stmt_ok G cx E SBreak E
| S_Continue : cx_loop cx = true -> stmt_ok G cx E SContinue E
| S_Block : forall b, block_ok G cx ([] :: E) b -> stmt_ok G cx E (SBlock b) E
(* l = e: "Each left-hand side operand must be addressable, a map index
   expression, or [...] the blank identifier" *)
| S_Set : forall l e t c te,
    is_lvalue_form l = true -> has_type G E l (EVal (VT t) c) -> has_type G E e te ->
    (Addressable G E l \/ MapIndex G E l) -> Assignable te t ->
    stmt_ok G cx E (SSet l e) E
(* for k, v := range e: the iteration variables are declared in the scope of
   the statement and must be used in the body *)
| S_RangeDef : forall k v e b te tk tv,
    has_type G E e te -> RangeTypes te tk tv -> NoDupNames [k; v] ->
    (forall x, In x [k; v] -> x <> blank -> In x (fu_block [] b)) ->
    block_ok G (in_loop cx) ([] :: declare_vars ([] :: E) [k; v] [tk; tv]) b ->
    stmt_ok G cx E (SRange k v true e b) E
(* for k, v = range e: the iteration values are assigned *)
| S_RangeAssign : forall k v e b te tk tv,
    has_type G E e te -> RangeTypes te tk tv ->
    AssignTargets E [k; v] [EVal (VT tk) None; EVal (VT tv) None] ->
    block_ok G (in_loop cx) ([] :: E) b ->
    stmt_ok G cx E (SRange k v false e b) E
with block_ok (G : list N) (cx : ctx) (E : env) : block -> Prop :=
| Bk_nil : block_ok G cx E BNil
| Bk_cons : forall s r E',
    stmt_ok G cx E s E' -> DeclsUsed E s r -> block_ok G cx E' r -> block_ok G cx E (BCons s r)
with clauses_ok (G : list N) (cx : ctx) (E : env) : etype -> clauses -> Prop :=
| Cl_nil : forall tagv, clauses_ok G cx E tagv CNil
| Cl_cons : forall tagv es b r tes,
    has_types G E es tes -> Forall (fun te => exists res, Binary OEq tagv te res) tes ->
    block_ok G cx ([] :: E) b -> clauses_ok G cx E tagv r ->
    clauses_ok G cx E tagv (CCons es b r).

(* ------------------------------------------------------ terminating statements *)

(* a break statement "referring to" the enclosing for or switch statement: one
   that is not nested in an inner for or switch *)
Inductive BreakInStmt : stmt -> Prop :=
| Br_break : BreakInStmt SBreak
| Br_then : forall c th el, BreakIn th -> BreakInStmt (SIf c th el)
| Br_else : forall c th el, BreakIn el -> BreakInStmt (SIf c th el)
| Br_block : forall b, BreakIn b -> BreakInStmt (SBlock b)
with BreakIn : block -> Prop :=
| Bi_here : forall s r, BreakInStmt s -> BreakIn (BCons s r)
| Bi_later : forall s r, BreakIn r -> BreakIn (BCons s r).

(* "Terminating statements": a return; a block whose list ends in a terminating
   statement; an if with an else branch whose branches are both terminating; a
   for without condition and without a break referring to it; a switch without
   such a break, with a default case, where all statement lists end in a
   terminating statement.  "A statement list ends in a terminating statement
   if the list is not empty and its final statement is terminating." *)
Inductive Terminating : stmt -> Prop :=
| Tm_return : forall es, Terminating (SReturn es)
| Tm_block : forall b, TerminatingList b -> Terminating (SBlock b)
| Tm_if : forall c th el, TerminatingList th -> TerminatingList el -> Terminating (SIf c th el)
| Tm_loop : forall b, ~ BreakIn b -> Terminating (SLoop b)
| Tm_switch : forall tag cs d,
    TerminatingList d -> ~ BreakIn d -> TerminatingClauses cs -> Terminating (SSwitch tag cs d)
with TerminatingList : block -> Prop :=
| Tl_last : forall s, Terminating s -> TerminatingList (BCons s BNil)
| Tl_cons : forall s s' r, TerminatingList (BCons s' r) -> TerminatingList (BCons s (BCons s' r))
with TerminatingClauses : clauses -> Prop :=
| Tc_nil : TerminatingClauses CNil
| Tc_cons : forall es b r,
    TerminatingList b -> ~ BreakIn b -> TerminatingClauses r -> TerminatingClauses (CCons es b r).

(* ------------------------------------------------------------------- programs *)

Definition top_ctx : ctx := {| cx_results := []; cx_loop := false; cx_brk := false |}.

Inductive globals_ok (G : list N) : env -> list gdecl -> env -> Prop :=
| GO_nil : forall E, globals_ok G E [] E
| GO_const : forall E x t e E1 r E2,
    x <> blank -> stmt_ok G top_ctx E (SConst x t e) E1 -> globals_ok G E1 r E2 ->
    globals_ok G E (GConst x t e :: r) E2
| GO_var : forall E x t e E1 r E2,
    x <> blank -> stmt_ok G top_ctx E (SVar [x] t (ECons e ENone)) E1 -> globals_ok G E1 r E2 ->
    globals_ok G E (GVar x t e :: r) E2.

Inductive funcs_declared : env -> list fdecl -> env -> Prop :=
| FD_nil : forall E, funcs_declared E [] E
| FD_cons : forall E f r E2,
    fn_name f <> blank -> ~ InHead E (fn_name f) ->
    funcs_declared (declare E (fn_name f) (EntFunc (map snd (fn_params f)) (fn_results f))) r E2 ->
    funcs_declared E (f :: r) E2.

(* a function: distinct parameter names, a well typed body in the scope of
   the parameters, and "if the function's signature declares result
   parameters, the function body's statement list must end in a terminating
   statement" *)
Definition func_ok (G : list N) (E : env) (f : fdecl) : Prop :=
  NoDupNames (map fst (fn_params f)) /\
  (forall t, In t (map snd (fn_params f)) -> wf_ty t = true) /\
  (forall t, In t (fn_results f) -> wf_ty t = true) /\
  block_ok G {| cx_results := fn_results f; cx_loop := false; cx_brk := false |}
           (declare_vars ([] :: E) (map fst (fn_params f)) (map snd (fn_params f))) (fn_body f) /\
  (fn_results f <> [] -> TerminatingList (fn_body f)).

Definition main_decl (p : program) : fdecl :=
  {| fn_name := blank; fn_params := []; fn_results := []; fn_body := p_main p |}.

(* a program: known packages imported once and used ("imported and not
   used"), package level declarations, functions *)
Definition prog_ok (p : program) : Prop :=
  let G := p_imports p in
  (forall q, In q G -> pkg_known q = true) /\ NoDup G /\
  (forall q, In q G -> In q (pk_program p)) /\
  exists E1 E2,
    globals_ok G [[]] (p_globals p) E1 /\ funcs_declared E1 (p_funcs p) E2 /\
    (forall f, In f (p_funcs p) -> func_ok G E2 f) /\ func_ok G E2 (main_decl p).
