(* Template expansion (C18): executable model of ParseTemplate,
   templateExpansion.parseNodeFile / parseSource / expand and readFileAndFormat
   of internal/compiler/parser_template.go over a finite file graph.
   No proofs here. *)
From Verif Require Import Bytes PathsM Facts_paths.
Open Scope N_scope.

(* the node that references a file: extends, import, render, and a render
   that is the left operand of a default expression *)
Inductive kind := KExtends | KImport | KRender | KDefault.
Definition ref := (kind * bytes)%type.

(* What the file system and the parser give for a name.
   FOpenErr ne : Open fails; ne tells whether errors.Is(err, ErrNotExist)
   FReadErr ne : Open succeeds, then Stat/Read/Close or FormatFS.Format fails
                 (or Format returns a format out of range, with ne = false)
   FSyntax     : the file is read and its source does not parse
   FSource f d refs : the file is read with format f; its source parses (as an
                 imported file only if d, meaning that it has only declarations)
                 and its Extends, Import, Render and Default nodes are refs, in
                 source order, provided every path is a valid template path. *)
Inductive file :=
| FOpenErr (notexist : bool)
| FReadErr (notexist : bool)
| FSyntax
| FSource (format : N) (declonly : bool) (refs : list ref).

(* a file system: names not listed do not exist *)
Definition graph := list (bytes * file).

Fixpoint lookup (g : graph) (name : bytes) : file :=
  match g with
  | [] => FOpenErr true
  | (k, f) :: r => if bytes_eqb k name then f else lookup r name
  end.

Inductive err :=
| EInvalid                              (* os.ErrInvalid: root name is "." or ends with a slash *)
| ENotExist                             (* an error e of the file system with errors.Is(e, os.ErrNotExist), or rooted's os.ErrNotExist *)
| EFs                                   (* any other error of the file system *)
| ESyntax                               (* syntax error of a source (includes an invalid path) *)
| ENoFile (k : kind) (rootedpath : bytes)   (* syntax error: extends/render path %q does not exist *)
| ECycle (path : bytes) (chain : list (kind * bytes))   (* *CycleError *)
| EExtendsNotAllowed                    (* imported and rendered files can not have extends *)
| EConflict                             (* import/render of a file extended/imported/rendered at ... *)
| EFormat                               (* extended file %q is %s instead of %s *)
| EFault                                (* index out of range on pp.paths (never happens) *)
| EOutOfFuel.

Inductive res (A : Type) :=
| Ok (a : A)
| Err (e : err).
Arguments Ok {A} a.
Arguments Err {A} e.

Definition is_notexist (e : err) : bool :=
  match e with
  | ENotExist => true
  | _ => false
  end.

(* templateExpansion; opens is the log of the calls of fsys.Open, last first *)
Record state := mkst {
  paths : list bytes;                  (* pp.paths, last pushed first *)
  trees : list (bytes * (kind * N));   (* pp.trees: rooted name -> (kind of the parent node, format of the tree) *)
  can_extend : bool;                   (* pp.canExtend *)
  opens : list (bytes * bool);         (* (name, Open succeeded) *)
  unresolved : list bytes              (* paths of the Import nodes left with a nil Tree, last first *)
}.

Definition log_open (st : state) (name : bytes) (ok : bool) : state :=
  mkst (paths st) (trees st) (can_extend st) ((name, ok) :: opens st) (unresolved st).
Definition push_path (st : state) (p : bytes) : state :=
  mkst (p :: paths st) (trees st) (can_extend st) (opens st) (unresolved st).
Definition pop_path (st : state) : state :=
  mkst (tl (paths st)) (trees st) (can_extend st) (opens st) (unresolved st).
Definition add_tree (st : state) (name : bytes) (v : kind * N) : state :=
  mkst (paths st) ((name, v) :: trees st) (can_extend st) (opens st) (unresolved st).
Definition no_extend (st : state) : state :=
  mkst (paths st) (trees st) false (opens st) (unresolved st).
Definition add_unresolved (st : state) (p : bytes) : state :=
  mkst (paths st) (trees st) (can_extend st) (opens st) (p :: unresolved st).

Fixpoint mem_bytes (x : bytes) (l : list bytes) : bool :=
  match l with
  | [] => false
  | y :: r => bytes_eqb y x || mem_bytes x r
  end.

Fixpoint assoc_bytes {A} (l : list (bytes * A)) (x : bytes) : option A :=
  match l with
  | [] => None
  | (k, v) :: r => if bytes_eqb k x then Some v else assoc_bytes r x
  end.

(* readFileAndFormat: the source (None when it does not parse) *)
Definition read_file (g : graph) (st : state) (name : bytes)
  : state * res (option (N * bool * list ref)) :=
  match lookup g name with
  | FOpenErr ne => (log_open st name false, Err (if ne then ENotExist else EFs))
  | FReadErr ne => (log_open st name true, Err (if ne then ENotExist else EFs))
  | FSyntax => (log_open st name true, Ok None)
  | FSource f d refs => (log_open st name true, Ok (Some (f, d, refs)))
  end.

(* ParseTemplateSource: the parser checks every path with ValidTemplatePath *)
Definition parse_content (imported : bool) (c : option (N * bool * list ref)) : res (N * list ref) :=
  match c with
  | None => Err ESyntax
  | Some (f, d, refs) =>
    if imported && negb d then Err ESyntax
    else if forallb (fun r : ref => valid_template_path (snd r)) refs then Ok (f, refs)
    else Err ESyntax
  end.

Definition is_import (k : kind) : bool := match k with KImport => true | _ => false end.

(* the node given to parseNodeFile: for a default expression it is the render *)
Definition node_kind (k : kind) : kind := match k with KDefault => KRender | _ => k end.

(* the switch on parsed.parent.node and node in parseNodeFile *)
Definition conflict (parent_kind k : kind) : bool :=
  match parent_kind, node_kind k with
  | KExtends, KImport => true
  | KExtends, KRender => true
  | KImport, KRender => true
  | KRender, KImport => true
  | _, _ => false
  end.

(* n.Format != n.Tree.Format && !(n.Format == Markdown && n.Tree.Format == HTML) *)
Definition format_ok (fmt tfmt : N) : bool :=
  (fmt =? tfmt) || ((fmt =? gen_FormatMarkdown) && (tfmt =? gen_FormatHTML)).

(* rootedPath, _ := rooted(pp.paths[len(pp.paths)-1], n.Path) *)
Definition rooted_path (st : state) (name : bytes) : bytes :=
  match paths st with
  | parent :: _ => rooted_or_empty parent name
  | [] => []
  end.

Definition wrap_cycle (k : kind) (rp : bytes) (e : err) : err :=
  match e with
  | ECycle p chain => ECycle p ((k, rp) :: chain)
  | _ => e
  end.

Section Level.
  Variable g : graph.
  (* parseSource one level deeper *)
  Variable ps : state -> bytes -> N -> list ref -> state * res unit.

  (* parseNodeFile: returns the format of the tree *)
  Definition parse_node_file (st : state) (r : ref) : state * res N :=
    let '(k, name0) := r in
    match paths st with
    | [] => (st, Err EFault)
    | parent :: _ =>
      match rooted parent name0 with
      | None => (st, Err ENotExist)
      | Some name =>
        if mem_bytes name (paths st) then (st, Err (ECycle name []))
        else
          match assoc_bytes (trees st) name with
          | Some (pk, tfmt) =>
            if conflict pk k then (st, Err EConflict) else (st, Ok tfmt)
          | None =>
            let '(st1, rd) := read_file g st name in
            match rd with
            | Err e => (st1, Err e)
            | Ok content =>
              match parse_content (is_import k) content with
              | Err e => (st1, Err e)
              | Ok (tfmt, refs) =>
                let '(st2, r2) := ps st1 name tfmt refs in
                match r2 with
                | Err e => (st2, Err e)
                | Ok _ => (add_tree st2 name (node_kind k, tfmt), Ok tfmt)
                end
              end
            end
          end
      end
    end.

  (* expand: fmt is the format of the file whose nodes are expanded *)
  Fixpoint expand_nodes (st : state) (fmt : N) (refs : list ref) : state * res unit :=
    match refs with
    | [] => (st, Ok tt)
    | (k, name0) :: rest =>
      match k with
      | KExtends =>
        if negb (can_extend st) then (st, Err EExtendsNotAllowed)
        else
          let '(st1, r) := parse_node_file st (k, name0) in
          match r with
          | Err e =>
            let rp := rooted_path st1 name0 in
            (st1, Err (if is_notexist e then ENoFile KExtends rp else wrap_cycle KExtends rp e))
          | Ok tfmt =>
            if format_ok fmt tfmt then expand_nodes st1 fmt rest else (st1, Err EFormat)
          end
      | KImport =>
        let '(st1, r) := parse_node_file (no_extend st) (k, name0) in
        match r with
        | Err e =>
          if is_notexist e then expand_nodes (add_unresolved st1 name0) fmt rest
          else (st1, Err (wrap_cycle KImport (rooted_path st1 name0) e))
        | Ok _ => expand_nodes st1 fmt rest
        end
      | KRender | KDefault =>
        let special := match k with KDefault => true | _ => false end in
        let '(st1, r) := parse_node_file (no_extend st) (k, name0) in
        match r with
        | Err e =>
          if special && is_notexist e then expand_nodes st1 fmt rest
          else
            let rp := rooted_path st1 name0 in
            (st1, Err (if is_notexist e then ENoFile KRender rp else wrap_cycle KRender rp e))
        | Ok _ => expand_nodes st1 fmt rest
        end
      end
    end.
End Level.

(* parseSource (after the source has been parsed): push, expand, pop *)
Fixpoint parse_source (fuel : nat) (g : graph) (st : state) (path : bytes) (fmt : N) (refs : list ref)
  : state * res unit :=
  match fuel with
  | O => (st, Err EOutOfFuel)
  | S fuel' =>
    let '(st2, r) := expand_nodes g (parse_source fuel' g) (push_path st path) fmt refs in
    (pop_path st2, r)
  end.

Definition has_suffix_slash (p : bytes) : bool :=
  match rev p with
  | c :: _ => c =? 47
  | [] => false
  end.

Definition init_state : state := mkst [] [] true [] [].

Record outcome := mkout {
  out_opens : list (bytes * bool);      (* in the order of the calls *)
  out_result : res (list bytes)         (* Ok: the import paths left to the package importer, in order *)
}.

(* ParseTemplate with the given fuel *)
Definition parse_template_fuel (fuel : nat) (g : graph) (root : bytes) : outcome :=
  if is_dot root || has_suffix_slash root then mkout [] (Err EInvalid)
  else
    let '(st1, rd) := read_file g init_state root in
    match rd with
    | Err e => mkout (rev (opens st1)) (Err e)
    | Ok content =>
      match parse_content false content with
      | Err e => mkout (rev (opens st1)) (Err e)
      | Ok (fmt, refs) =>
        let '(st2, r) := parse_source fuel g st1 root fmt refs in
        match r with
        | Err e => mkout (rev (opens st2)) (Err e)
        | Ok _ => mkout (rev (opens st2)) (Ok (rev (unresolved st2)))
        end
      end
    end.

(* fuel = number of files + 1 *)
Definition parse_template (g : graph) (root : bytes) : outcome :=
  parse_template_fuel (S (length g)) g root.

(* ---- text of the cycle error ---- *)

Definition verb (k : kind) : bytes :=
  match k with
  | KExtends => [101; 120; 116; 101; 110; 100; 115]          (* extends *)
  | KImport => [105; 109; 112; 111; 114; 116; 115]           (* imports *)
  | _ => [114; 101; 110; 100; 101; 114; 115]                 (* renders *)
  end.

(* "file " + name + { "\n\t" + verb + " " + path } + ": cycle not allowed" *)
Definition cycle_message (root : bytes) (chain : list (kind * bytes)) : bytes :=
  [102; 105; 108; 101; 32] ++ root
  ++ flat_map (fun kp : kind * bytes => [10; 9] ++ verb (fst kp) ++ [32] ++ snd kp) chain
  ++ [58; 32; 99; 121; 99; 108; 101; 32; 110; 111; 116; 32; 97; 108; 108; 111; 119; 101; 100].

(* the successful opens, in order *)
Definition reads (o : outcome) : list bytes :=
  map fst (filter (fun nb : bytes * bool => snd nb) (out_opens o)).
