(* Reference scanners of C06 layer (A): for each context a small recogniser,
   written from the relevant standard and not from the escapers, of "this
   text, met by the standard tokenizer in the state of the slot, is character
   data only and leaves the tokenizer in the same state".
     - HTML (WHATWG tokenizer): data state; attribute value (double-quoted),
       (single-quoted), (unquoted) and before-attribute-value states;
     - JavaScript / JSON string literal contents (ECMA-262 12.9.4, RFC 8259 7)
       inside an HTML script element (no <, >, & so that no end tag, comment
       or CDATA delimiter can appear);
     - CSS string token contents (css-syntax-3 4.3.5) inside a style element;
     - URL query value: unreserved characters (RFC 3986 2.3) and %HH only.
   Each predicate is sufficient for confinement, not necessary.  No proofs here. *)
From Verif Require Import Bytes Utf8 HtmlDecode Decoders.
Open Scope N_scope.

(* ---------------- HTML data state ---------------- *)
(* A text node stays a text node if no tag opens (no less-than sign); an
   ampersand starts a character reference: we require it to start one of
   amp; lt; gt; #34; #39; (complete, with the semicolon), which every HTML
   parser reads the same way. *)
Definition five_refs : list bytes :=
  [[97; 109; 112; 59]; [108; 116; 59]; [103; 116; 59]; [35; 51; 52; 59]; [35; 51; 57; 59]].
Definition starts_ref (refs : list bytes) (r : bytes) : bool := existsb (fun p => is_prefix p r) refs.

Fixpoint amps_ok (refs : list bytes) (s : bytes) : bool :=
  match s with
  | [] => true
  | c :: r => (if c =? 38 then starts_ref refs r else true) && amps_ok refs r
  end.

Definition html_text_ok (s : bytes) : bool :=
  forallb (fun c => negb (c =? 60)) s && amps_ok five_refs s.

(* ---------------- HTML attribute values ---------------- *)
Inductive astate :=
| ABefore      (* before attribute value state *)
| AUnq         (* attribute value (unquoted) state *)
| ADq          (* attribute value (double-quoted) state *)
| ASq          (* attribute value (single-quoted) state *)
| AOut.        (* any state outside the value: the value has ended *)

(* tab, LF, FF, space; CR is turned into LF by the input stream preprocessing *)
Definition is_html_ws (c : N) : bool := (c =? 9) || (c =? 10) || (c =? 12) || (c =? 13) || (c =? 32).
(* unexpected-character-in-unquoted-attribute-value parse errors *)
Definition unq_error (c : N) : bool := (c =? 34) || (c =? 39) || (c =? 60) || (c =? 61) || (c =? 96).

(* None = a parse error inside the value *)
Definition astep (st : astate) (c : N) : option astate :=
  match st with
  | ABefore =>
    if is_html_ws c then Some ABefore
    else if c =? 34 then Some ADq
    else if c =? 39 then Some ASq
    else if c =? 62 then None            (* missing-attribute-value *)
    else if unq_error c then None
    else Some AUnq
  | AUnq =>
    if is_html_ws c then Some AOut
    else if c =? 62 then Some AOut
    else if unq_error c then None
    else Some AUnq
  | ADq => if c =? 34 then Some AOut else Some ADq
  | ASq => if c =? 39 then Some AOut else Some ASq
  | AOut => Some AOut
  end.

Fixpoint arun (st : astate) (s : bytes) : option astate :=
  match s with
  | [] => Some st
  | c :: r => match astep st c with Some st' => arun st' r | None => None end
  end.

Definition astate_eqb (a b : astate) : bool :=
  match a, b with
  | ABefore, ABefore | AUnq, AUnq | ADq, ADq | ASq, ASq | AOut, AOut => true
  | _, _ => false
  end.

Definition stays (st target : astate) (s : bytes) : bool :=
  match arun st s with Some st' => astate_eqb st' target | None => false end.

Definition attr_dq_ok (s : bytes) : bool := stays ADq ADq s.
Definition attr_sq_ok (s : bytes) : bool := stays ASq ASq s.
(* the slot follows other characters of the unquoted value *)
Definition attr_unq_ok (s : bytes) : bool := stays AUnq AUnq s.
(* the slot is the whole unquoted value: the tokenizer is still before the value *)
Definition attr_unq_first_ok (s : bytes) : bool := stays ABefore AUnq s.

(* ---------------- JavaScript / JSON string literal contents ---------------- *)
Inductive sstate :=
| SStr                       (* inside the string *)
| SE2                        (* inside the string, last byte 0xE2 *)
| SE280                      (* inside the string, last bytes 0xE2 0x80 *)
| SEsc                       (* after a backslash *)
| SEscCR                     (* after backslash CR *)
| SHex (need : nat).         (* inside xHH or uXXXX, need+1 hex digits to go *)

(* a byte of the string outside escapes; None = the string ends or is malformed here *)
Definition sdata (json : bool) (prev : sstate) (c : N) : option sstate :=
  if (c =? 34) || (c =? 39) then None              (* a quote of either kind *)
  else if (c =? 10) || (c =? 13) then None         (* line terminators *)
  else if (c =? 60) || (c =? 62) || (c =? 38) then None   (* script data: no tag, comment or CDATA delimiter *)
  else if json && (c <? 32) then None              (* RFC 8259: control characters must be escaped *)
  else if c =? 92 then Some SEsc
  else if c =? 226 then Some SE2
  else match prev with
       | SE2 => if c =? 128 then Some SE280 else Some SStr
       | SE280 => if (c =? 168) || (c =? 169) then None else Some SStr   (* U+2028, U+2029 *)
       | _ => Some SStr
       end.

Definition sesc (json : bool) (c : N) : option sstate :=
  if c =? 117 then Some (SHex 3)
  else if (c =? 34) || (c =? 92) || (c =? 47) || (c =? 98) || (c =? 102) || (c =? 110) || (c =? 114) || (c =? 116) then Some SStr
  else if json then None
  else if c =? 120 then Some (SHex 1)
  else if c =? 13 then Some SEscCR
  else if (c =? 60) || (c =? 62) || (c =? 38) then None
  else if (49 <=? c) && (c <=? 57) then None       (* legacy octal and \8 \9 are errors in strict code *)
  else if c =? 226 then Some SE2                   (* backslash + U+2028 is a line continuation; keep watching *)
  else Some SStr.

Definition sstep (json : bool) (st : sstate) (c : N) : option sstate :=
  match st with
  | SStr | SE2 | SE280 => sdata json st c
  | SEsc => sesc json c
  | SEscCR => if c =? 10 then Some SStr else sdata json SStr c
  | SHex need => if is_hex c then Some (match need with S k => SHex k | O => SStr end) else None
  end.

Fixpoint srun (json : bool) (st : sstate) (s : bytes) : option sstate :=
  match s with
  | [] => Some st
  | c :: r => match sstep json st c with Some st' => srun json st' r | None => None end
  end.

(* ends inside the string, outside any escape (a following quote closes it) *)
Definition send_ok (st : sstate) : bool :=
  match st with SStr | SE2 | SE280 => true | _ => false end.

Definition js_string_ok_gen (json : bool) (s : bytes) : bool :=
  match srun json SStr s with Some st => send_ok st | None => false end.
Definition js_string_ok := js_string_ok_gen false.
Definition json_string_ok := js_string_ok_gen true.

(* ---------------- CSS string token contents ---------------- *)
Inductive kstate :=
| KStr
| KEsc
| KHex (n : nat)             (* backslash + n hex digits *)
| KAfterCR.                  (* CR consumed as the whitespace of an escape or a continuation *)

Definition kdata (c : N) : option kstate :=
  if (c =? 34) || (c =? 39) then None              (* ending code point of either kind *)
  else if (c =? 10) || (c =? 12) || (c =? 13) then None   (* newline: bad-string token *)
  else if c =? 60 then None                        (* style raw text: no end tag, no comment opener *)
  else if c =? 92 then Some KEsc
  else Some KStr.

Definition kstep (st : kstate) (c : N) : option kstate :=
  match st with
  | KStr => kdata c
  | KAfterCR => if c =? 10 then Some KStr else kdata c
  | KEsc =>
    if is_hex c then Some (KHex 1)
    else if (c =? 10) || (c =? 12) then Some KStr
    else if c =? 13 then Some KAfterCR
    else if c =? 60 then None
    else Some KStr
  | KHex n =>
    if is_hex c && Nat.ltb n 6 then Some (KHex (S n))
    else if c =? 13 then Some KAfterCR
    else if is_css_ws c then Some KStr
    else kdata c
  end.

Fixpoint krun (st : kstate) (s : bytes) : option kstate :=
  match s with
  | [] => Some st
  | c :: r => match kstep st c with Some st' => krun st' r | None => None end
  end.

(* ends inside the string with no escape open: neither a dangling backslash
   nor a hex escape that the following text could extend *)
Definition css_string_ok (s : bytes) : bool :=
  match krun KStr s with Some KStr => true | Some KAfterCR => true | _ => false end.

(* ---------------- URL query value ---------------- *)
Definition is_unreserved (c : N) : bool :=
  is_alnum c || (c =? 45) || (c =? 46) || (c =? 95) || (c =? 126).

Inductive qstate := QData | QPct | QPct1.

Definition qstep (st : qstate) (c : N) : option qstate :=
  match st with
  | QData => if c =? 37 then Some QPct else if is_unreserved c then Some QData else None
  | QPct => if is_hex c then Some QPct1 else None
  | QPct1 => if is_hex c then Some QData else None
  end.

Fixpoint qrun (st : qstate) (s : bytes) : option qstate :=
  match s with
  | [] => Some st
  | c :: r => match qstep st c with Some st' => qrun st' r | None => None end
  end.

Definition query_ok (s : bytes) : bool :=
  match qrun QData s with Some QData => true | _ => false end.
