(* Byte encoding of action trees and of results, used by the correspondence
   (the harness sends the tree it turned into Scriggo source; the model answers
   with the trace and the outcome).  No proofs here.

   tree   := instr* 0
   instr  := tok lineHi lineLo args
   tok 1 n: hook body n      2 e: Stop(e)      3 v: Fatal(v)     4 v: native panic(v)
       5 tree: call          6 tree: defer of a function        7 k n: defer of native k (1..4) with argument n
       8 v: panic(v)         9: recover()      10: recover down  11: return
       12 tree: call of a native function that calls back the function
   line 0 = no debug information for the instruction.                    *)
From Coq Require Import List NArith Bool Arith.
Import ListNotations.
From Verif Require Import FramesM.
Open Scope N_scope.

Definition natk_of (k n : N) : option natk :=
  match k with
  | 1 => Some (NBody n) | 2 => Some (NStop n) | 3 => Some (NFatal n) | 4 => Some (NPanic n)
  | _ => None
  end.

Definition add_info (inf : list (nat * N)) (pc : nat) (hi lo : N) : list (nat * N) :=
  let l := hi * 256 + lo in
  if N.eqb l 0 then inf else (pc, l) :: inf.

(* parse_body fuel input pc: instructions up to the closing 0, the debug table, the rest *)
Fixpoint parse_body (fuel : nat) (s : list N) (pc : nat) : option (list instr * list (nat * N) * list N) :=
  match fuel with
  | O => None
  | S fuel' =>
      match s with
      | [] => None
      | 0 :: rest => Some ([], [], rest)
      | tok :: hi :: lo :: rest =>
          let cont (i : instr) (rest' : list N) :=
            match parse_body fuel' rest' (S pc) with
            | Some (is, inf, r) => Some (i :: is, add_info inf pc hi lo, r)
            | None => None
            end in
          match tok with
          | 1 | 2 | 3 | 4 =>
              match rest with
              | n :: rest' => match natk_of tok n with Some k => cont (INat k) rest' | None => None end
              | [] => None
              end
          | 5 =>
              match parse_body fuel' rest O with
              | Some (b, binf, rest') => cont (ICall b binf) rest'
              | None => None
              end
          | 6 =>
              match parse_body fuel' rest O with
              | Some (b, binf, rest') => cont (IDeferFn b binf) rest'
              | None => None
              end
          | 7 =>
              match rest with
              | k :: n :: rest' => match natk_of k n with Some nk => cont (IDeferNat nk) rest' | None => None end
              | _ => None
              end
          | 8 => match rest with v :: rest' => cont (IPanic v) rest' | [] => None end
          | 9 => cont (IRecover false) rest
          | 10 => cont (IRecover true) rest
          | 11 => cont IReturn rest
          | 12 =>
              match parse_body fuel' rest O with
              | Some (b, binf, rest') => cont (ICallback b binf) rest'
              | None => None
              end
          | _ => None
          end
      | _ => None
      end
  end.

Definition parse_tree (s : list N) : option func :=
  match parse_body (S (length s)) s O with
  | Some (b, inf, []) => Some (mkfunc b inf)
  | _ => None
  end.

Definition enc_event (e : event) : list N :=
  match e with
  | EBody n => [1; n]
  | ERecover None => [2; 0]
  | ERecover (Some v) => [2; 1; v]
  | EStop e => [3; e]
  | EFatal v => [4; v]
  end.

Definition enc_line (l : option N) : list N :=
  match l with
  | None => [0; 0]
  | Some x => [x / 256; x mod 256]
  end.

Definition enc_outcome (o : outcome) : list N :=
  match o with
  | ONil => [10]
  | OPanic c => 11 :: N.of_nat (length c) ::
                flat_map (fun p => match p with (m, r, l) => m :: (if r : bool then 1 else 0) :: enc_line l end) c
  | OStop e => [12; e]
  | ORunPanics v => [13; v]
  | OCrash => [14]
  end.

Definition enc_result (r : outcome * list event) : list N :=
  flat_map enc_event (snd r) ++ enc_outcome (fst r).

Definition vm_fuel (f : func) : nat := 64 + 4 * (fsize f) * (fsize f).

(* the two functions the driver calls: None = malformed tree or out of fuel *)
Definition frames_case (s : list N) : option (list N) :=
  match parse_tree s with
  | Some f => match vm_run (vm_fuel f) f with Some r => Some (enc_result r) | None => None end
  | None => None
  end.

Definition gospec_case (s : list N) : option (list N) :=
  match parse_tree s with
  | Some f => match go_run (fsize f) f with Some r => Some (enc_result r) | None => None end
  | None => None
  end.
