(* The spec side of C08: JSON values (RFC 8259 grammar) and, for the JavaScript
   context, the one extra form new Date(string). A printer without white space
   (the layout showInJSON / showInJS produce) and a parser that accepts white
   space. Strings are kept as their literal body (between the quotes, escapes
   not decoded): decoding the escapes is the matter of C07. No proofs here. *)
From Coq Require Import List NArith Bool.
From Verif Require Import Bytes.
Import ListNotations.
Open Scope N_scope.

Inductive json :=
| JNull
| JBool (b : bool)
| JNum (txt : bytes)                 (* the number token *)
| JStr (body : bytes)                (* the literal body of a string *)
| JArr (xs : list json)
| JObj (ms : list (bytes * json))    (* member name (literal body) and value, in order *)
| JDate (body : bytes).              (* JavaScript only: new Date(string) *)

Definition t_null : bytes := [110; 117; 108; 108].
Definition t_true : bytes := [116; 114; 117; 101].
Definition t_false : bytes := [102; 97; 108; 115; 101].
Definition t_date_open : bytes := [110; 101; 119; 32; 68; 97; 116; 101; 40; 34].   (* new Date( followed by a double quote *)
Definition t_date_close : bytes := [34; 41].                                       (* double quote, closing parenthesis *)

(* ---- printer ---- *)

Definition print_elems (p : json -> bytes) : list json -> bool -> bytes :=
  fix go (xs : list json) (first : bool) : bytes :=
    match xs with
    | [] => []
    | x :: r => (if first then [] else [44]) ++ p x ++ go r false
    end.

Definition print_members (p : json -> bytes) : list (bytes * json) -> bool -> bytes :=
  fix go (ms : list (bytes * json)) (first : bool) : bytes :=
    match ms with
    | [] => []
    | (k, x) :: r => (if first then [34] else [44; 34]) ++ k ++ [34; 58] ++ p x ++ go r false
    end.

Fixpoint json_print (j : json) : bytes :=
  match j with
  | JNull => t_null
  | JBool b => if b then t_true else t_false
  | JNum t => t
  | JStr b => 34 :: b ++ [34]
  | JArr xs => 91 :: print_elems json_print xs true ++ [93]
  | JObj ms => 123 :: print_members json_print ms true ++ [125]
  | JDate b => t_date_open ++ b ++ t_date_close
  end.

(* ---- lexical pieces ---- *)

Definition is_ws (c : N) : bool := (c =? 32) || (c =? 9) || (c =? 10) || (c =? 13).

Fixpoint skip_ws (s : bytes) : bytes :=
  match s with
  | c :: r => if is_ws c then skip_ws r else s
  | [] => []
  end.

Fixpoint strip_prefix (p s : bytes) : option bytes :=
  match p, s with
  | [], _ => Some s
  | a :: p', b :: s' => if a =? b then strip_prefix p' s' else None
  | _ :: _, [] => None
  end.

Definition head_is (c : N) (s : bytes) : option bytes :=
  match s with
  | x :: r => if x =? c then Some r else None
  | [] => None
  end.

Definition is_digit (c : N) : bool := (48 <=? c) && (c <=? 57).
Definition is_hex (c : N) : bool := is_digit c || ((65 <=? c) && (c <=? 70)) || ((97 <=? c) && (c <=? 102)).
(* the character after a backslash: quote, backslash, slash, b f n r t *)
Definition is_simple_escape (c : N) : bool :=
  (c =? 34) || (c =? 92) || (c =? 47) || (c =? 98) || (c =? 102) || (c =? 110) || (c =? 114) || (c =? 116).

(* the body of a string literal: no quote, no control character, well formed escapes *)
Fixpoint body_ok (s : bytes) : bool :=
  match s with
  | [] => true
  | c :: r =>
    if c =? 34 then false
    else if c =? 92 then
      match r with
      | e :: r' =>
        if is_simple_escape e then body_ok r'
        else if e =? 117 then
          match r' with
          | h1 :: h2 :: h3 :: h4 :: r'' => is_hex h1 && is_hex h2 && is_hex h3 && is_hex h4 && body_ok r''
          | _ => false
          end
        else false
      | [] => false
      end
    else if c <? 32 then false
    else body_ok r
  end.

(* scan a string after its opening quote: the body and what follows the closing quote *)
Fixpoint scan_str (s acc : bytes) : option (bytes * bytes) :=
  match s with
  | [] => None
  | c :: r =>
    if c =? 34 then Some (rev acc, r)
    else if c =? 92 then
      match r with
      | e :: r' =>
        if is_simple_escape e then scan_str r' (e :: 92 :: acc)
        else if e =? 117 then
          match r' with
          | h1 :: h2 :: h3 :: h4 :: r'' =>
            if is_hex h1 && is_hex h2 && is_hex h3 && is_hex h4 then scan_str r'' (h4 :: h3 :: h2 :: h1 :: 117 :: 92 :: acc) else None
          | _ => None
          end
        else None
      | [] => None
      end
    else if c <? 32 then None
    else scan_str r (c :: acc)
  end.

(* number = [ minus ] int [ frac ] [ exp ] *)
Definition num_char (c : N) : bool := is_digit c || (c =? 43) || (c =? 45) || (c =? 46) || (c =? 69) || (c =? 101).

Fixpoint span_num (s : bytes) : bytes * bytes :=
  match s with
  | c :: r => if num_char c then let (a, b) := span_num r in (c :: a, b) else ([], s)
  | [] => ([], [])
  end.

(* states: 0 start, 1 after minus, 2 a single zero, 3 integer digits, 4 after the point,
   5 fraction digits, 6 after e, 7 after the sign of the exponent, 8 exponent digits *)
Fixpoint num_dfa (st : N) (s : bytes) : bool :=
  match s with
  | [] => (st =? 2) || (st =? 3) || (st =? 5) || (st =? 8)
  | c :: r =>
    if st =? 0 then
      if c =? 45 then num_dfa 1 r else if c =? 48 then num_dfa 2 r else if is_digit c then num_dfa 3 r else false
    else if st =? 1 then
      if c =? 48 then num_dfa 2 r else if is_digit c then num_dfa 3 r else false
    else if st =? 2 then
      if c =? 46 then num_dfa 4 r else if (c =? 69) || (c =? 101) then num_dfa 6 r else false
    else if st =? 3 then
      if is_digit c then num_dfa 3 r else if c =? 46 then num_dfa 4 r else if (c =? 69) || (c =? 101) then num_dfa 6 r else false
    else if st =? 4 then
      if is_digit c then num_dfa 5 r else false
    else if st =? 5 then
      if is_digit c then num_dfa 5 r else if (c =? 69) || (c =? 101) then num_dfa 6 r else false
    else if st =? 6 then
      if (c =? 43) || (c =? 45) then num_dfa 7 r else if is_digit c then num_dfa 8 r else false
    else if st =? 7 then
      if is_digit c then num_dfa 8 r else false
    else if st =? 8 then
      if is_digit c then num_dfa 8 r else false
    else false
  end.

Definition is_number (t : bytes) : bool := num_dfa 0 t.

(* ---- parser (fuel = twice the length of the input) ---- *)

Section Parser.
  Variable js : bool.     (* accept new Date(string) *)

  Fixpoint parse_value (n : nat) (s : bytes) : option (json * bytes) :=
    match n with
    | O => None
    | S n =>
      let s := skip_ws s in
      match strip_prefix t_null s with
      | Some r => Some (JNull, r)
      | None =>
      match strip_prefix t_true s with
      | Some r => Some (JBool true, r)
      | None =>
      match strip_prefix t_false s with
      | Some r => Some (JBool false, r)
      | None =>
      match (if js then strip_prefix t_date_open s else None) with
      | Some r =>
        match scan_str r [] with
        | Some (b, r1) => match head_is 41 r1 with Some r' => Some (JDate b, r') | None => None end
        | None => None
        end
      | None =>
      match s with
      | [] => None
      | c :: r =>
        if c =? 34 then
          match scan_str r [] with
          | Some (b, r') => Some (JStr b, r')
          | None => None
          end
        else if c =? 91 then
          match head_is 93 (skip_ws r) with
          | Some r' => Some (JArr [], r')
          | None => match parse_elems n (skip_ws r) with Some (xs, r') => Some (JArr xs, r') | None => None end
          end
        else if c =? 123 then
          match head_is 125 (skip_ws r) with
          | Some r' => Some (JObj [], r')
          | None => match parse_members n (skip_ws r) with Some (ms, r') => Some (JObj ms, r') | None => None end
          end
        else
          let (t, r') := span_num s in
          if is_number t then Some (JNum t, r') else None
      end end end end end
    end
  with parse_elems (n : nat) (s : bytes) : option (list json * bytes) :=
    match n with
    | O => None
    | S n =>
      match parse_value n s with
      | Some (x, r) =>
        match skip_ws r with
        | c :: r' =>
          if c =? 44 then match parse_elems n r' with Some (xs, r'') => Some (x :: xs, r'') | None => None end
          else if c =? 93 then Some ([x], r')
          else None
        | [] => None
        end
      | None => None
      end
    end
  with parse_members (n : nat) (s : bytes) : option (list (bytes * json) * bytes) :=
    match n with
    | O => None
    | S n =>
      match skip_ws s with
      | c :: r =>
        if c =? 34 then
          match scan_str r [] with
          | Some (k, r1) =>
            match skip_ws r1 with
            | c1 :: r2 =>
              if c1 =? 58 then
                match parse_value n r2 with
                | Some (x, r3) =>
                  match skip_ws r3 with
                  | c3 :: r4 =>
                    if c3 =? 44 then match parse_members n r4 with Some (ms, r5) => Some ((k, x) :: ms, r5) | None => None end
                    else if c3 =? 125 then Some ([(k, x)], r4)
                    else None
                  | [] => None
                  end
                | None => None
                end
              else None
            | [] => None
            end
          | None => None
          end
        else None
      | [] => None
      end
    end.

  (* the whole text is one value *)
  Definition parse_text (s : bytes) : option json :=
    match parse_value (S (2 * length s)) s with
    | Some (j, r) => match skip_ws r with [] => Some j | _ => None end
    | None => None
    end.
End Parser.

Definition json_parse := parse_text false.
Definition js_parse := parse_text true.

(* ---- well formed values ---- *)

Fixpoint wf_json (js : bool) (j : json) : bool :=
  match j with
  | JNull | JBool _ => true
  | JNum t => is_number t
  | JStr b => body_ok b
  | JArr xs => forallb (wf_json js) xs
  | JObj ms => forallb (fun m : bytes * json => body_ok (fst m) && wf_json js (snd m)) ms
  | JDate b => js && body_ok b
  end.
