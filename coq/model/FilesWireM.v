(* Wire format of the C23 correspondence cases (see WireM.v).  Not part of any theorem. *)
From Verif Require Import Bytes WireM FilesFSM.
Open Scope N_scope.

(* files := list(name:str data:str) *)
Definition dec_files : dec files := dec_clist (dec_pair dec_str dec_str).

(* op := 1 name:str | 2 h:u8 | 3 h:u8 k:u8 | 4 h:u8 n:u8 (n + 128) | 5 h:u8 *)
Definition dec_op : dec op :=
  fun s =>
    match s with
    | 1 :: s1 => match dec_str s1 with Some (n, s2) => Some (OpOpen n, s2) | None => None end
    | 2 :: h :: s1 => Some (OpStat (N.to_nat h), s1)
    | 3 :: h :: k :: s1 => Some (OpRead (N.to_nat h) (N.to_nat k), s1)
    | 4 :: h :: n :: s1 => Some (OpReadDir (N.to_nat h) (Z.of_N n - 128)%Z, s1)
    | 5 :: h :: s1 => Some (OpClose (N.to_nat h), s1)
    | _ => None
    end.

(* a 32 bit number, big endian *)
Definition enc_u32 (x : N) : bytes :=
  [(x / 16777216) mod 256; (x / 65536) mod 256; (x / 256) mod 256; x mod 256].
Definition enc_bool (b : bool) : bytes := if b then [1] else [0].

Definition enc_info (i : info) : bytes :=
  enc_str (i_name i) ++ [i_size i] ++ enc_u32 (i_mode i) ++ enc_bool (i_isdir i).
Definition enc_dirent (e : dirent) : bytes :=
  enc_str (de_name e) ++ enc_bool (de_isdir e) ++ enc_u32 (de_type e) ++ enc_info (de_info e).
Definition enc_rerr (e : rerr) : N :=
  match e with ENil => 0 | EEOF => 1 | EInvalid => 2 | EPanic => 3 end.

Definition enc_out (o : out) : bytes :=
  match o with
  | OutOpened d => 1 :: enc_bool d
  | OutNotExist => [0]
  | OutStat i => 2 :: enc_info i
  | OutRead d e => 3 :: enc_str d ++ [enc_rerr e]
  | OutReadDir l e => 4 :: enc_clist enc_dirent l ++ [match e with RNil => 0 | REOF => 1 end]
  | OutNoReadDir => [9]
  | OutClosed => [5]
  | OutBadHandle => [255]
  end.

Definition c23_history (f ops : bytes) : option bytes :=
  match dec_all dec_files f, dec_all (dec_clist dec_op) ops with
  | Some fs, Some os => Some (flat_map enc_out (run_history fs [] os))
  | _, _ => None
  end.

(* the validity predicate, for the generators cross-check *)
Definition c23_valid (f : bytes) (_ : bytes) : option bytes :=
  match dec_all dec_files f with
  | Some fs => Some (enc_bool (valid_files fs))
  | None => None
  end.
