(* Reference decoders of C07 (the spec side), written from the standards and
   independently of the escapers, as byte transducers so that they run on
   "concrete prefix, arbitrary rest" by computation:
     - JavaScript / JSON string-literal decoding (ECMA-262 12.9.4, RFC 8259 7),
     - CSS escape decoding (css-syntax-3 4.3.7 consume an escaped code point,
       4.3.5 string tokens, 3.3 preprocessing of NUL and CR/FF/CRLF),
     - percent-decoding (URL standard percent-decode; optionally + as space
       as in application/x-www-form-urlencoded parsing).
   HTML character references are in HtmlDecode.v.  Validated against Go's
   strconv.Unquote / encoding/json / url.QueryUnescape and a CSS unescape
   written in Go by the harness.  No proofs here. *)
From Verif Require Import Bytes Utf8 HtmlDecode.
Open Scope N_scope.

Section Transducer.
  Context {St : Type}.
  Variable step : St -> N -> St * bytes.
  Fixpoint trun (st : St) (s : bytes) : St * bytes :=
    match s with
    | [] => (st, [])
    | c :: r => let '(st1, o1) := step st c in let '(st2, o2) := trun st1 r in (st2, o1 ++ o2)
    end.
End Transducer.

Definition prepend {St : Type} (o : bytes) (r : St * bytes) : St * bytes := (fst r, o ++ snd r).
Definition repl : bytes := utf8_encode rune_error.   (* U+FFFD *)
Definition is_hex (c : N) : bool := match hex_val c with Some _ => true | None => false end.

(* ------------------------------------------------------------------ *)
(* JavaScript / JSON string literal contents -> UTF-8 bytes.
   json = true accepts only the JSON escapes (quote, backslash, slash, b f n r t, uXXXX).
   Code units: \uD800-\uDBFF followed by \uDC00-\uDFFF is one code point; a
   lone surrogate has no UTF-8 form and gives U+FFFD (as encoding/json does).
   Malformed escapes give U+FFFD and the offending byte is read again as data.
   Not modelled: \u{...}, legacy octal escapes, backslash + U+2028/U+2029. *)
Inductive jstate :=
| JData
| JEsc                              (* seen backslash *)
| JEscCR                            (* seen backslash CR (line continuation): a following LF belongs to it *)
| JHex (need : nat) (v : N) (u : bool)   (* inside xHH (u = false) or uXXXX (u = true): digits still needed minus one, value so far *)
| JHi (hi : N)                      (* a complete high surrogate escape was read *)
| JHiEsc (hi : N)                   (* ... followed by a backslash *)
| JHiHex (hi : N) (need : nat) (v : N).  (* ... followed by backslash u and some digits *)

Definition is_hi (v : N) : bool := (55296 <=? v) && (v <=? 56319).
Definition is_lo (v : N) : bool := (56320 <=? v) && (v <=? 57343).

Definition jdata (c : N) : jstate * bytes := if c =? 92 then (JEsc, []) else (JData, [c]).

(* a complete code unit of a uXXXX escape *)
Definition junit (v : N) : jstate * bytes :=
  if is_hi v then (JHi v, []) else if is_lo v then (JData, repl) else (JData, utf8_encode v).

(* the byte after a backslash *)
Definition jesc (json : bool) (c : N) : jstate * bytes :=
  if c =? 117 then (JHex 3 0 true, [])
  else if c =? 34 then (JData, [34])
  else if c =? 92 then (JData, [92])
  else if c =? 47 then (JData, [47])
  else if c =? 98 then (JData, [8])
  else if c =? 102 then (JData, [12])
  else if c =? 110 then (JData, [10])
  else if c =? 114 then (JData, [13])
  else if c =? 116 then (JData, [9])
  else if json then prepend repl (jdata c)
  else if c =? 120 then (JHex 1 0 false, [])
  else if c =? 118 then (JData, [11])
  else if c =? 39 then (JData, [39])
  else if c =? 48 then (JData, [0])
  else if c =? 10 then (JData, [])
  else if c =? 13 then (JEscCR, [])
  else (JData, [c]).

Definition jstep (json : bool) (st : jstate) (c : N) : jstate * bytes :=
  match st with
  | JData => jdata c
  | JEsc => jesc json c
  | JEscCR => if c =? 10 then (JData, []) else jdata c
  | JHex need v u =>
    match hex_val c with
    | Some d =>
      let v' := v * 16 + d in
      match need with
      | S k => (JHex k v' u, [])
      | O => if u then junit v' else (JData, utf8_encode v')
      end
    | None => prepend repl (jdata c)
    end
  | JHi hi => if c =? 92 then (JHiEsc hi, []) else prepend repl (jdata c)
  | JHiEsc hi => if c =? 117 then (JHiHex hi 3 0, []) else prepend repl (jesc json c)
  | JHiHex hi need v =>
    match hex_val c with
    | Some d =>
      let v' := v * 16 + d in
      match need with
      | S k => (JHiHex hi k v', [])
      | O => if is_lo v' then (JData, utf8_encode (65536 + (hi - 55296) * 1024 + (v' - 56320)))
             else prepend repl (junit v')
      end
    | None => prepend (repl ++ repl) (jdata c)
    end
  end.

Definition jfinish (st : jstate) : bytes :=
  match st with
  | JData => []
  | JEscCR => []
  | _ => repl
  end.

Definition jrun (json : bool) := trun (jstep json).

Definition js_decode_gen (json : bool) (s : bytes) : bytes :=
  let '(st, o) := jrun json JData s in o ++ jfinish st.
Definition js_decode := js_decode_gen false.
Definition json_decode := js_decode_gen true.

(* ------------------------------------------------------------------ *)
(* CSS: the value of the contents of a string token (css-syntax-3).  A
   backslash followed by 1-6 hex digits and one optional whitespace is that
   code point (0, surrogates and values above 0x10FFFF give U+FFFD); backslash
   newline is nothing; backslash + any other code point is that code point.
   Whitespace = newline, tab, space where preprocessing has turned CR, FF and
   CR LF into a single newline; a raw NUL is U+FFFD. *)
Inductive cstate :=
| CData
| CEsc                       (* seen backslash *)
| CHex (n : nat) (v : N)     (* backslash + n hex digits (1..6), value v *)
| CAfterCR.                  (* after a CR: a following LF is the same newline *)

Definition is_css_ws (c : N) : bool := (c =? 9) || (c =? 10) || (c =? 12) || (c =? 13) || (c =? 32).

Definition css_cp (v : N) : bytes :=
  if (v =? 0) || negb (valid_rune v) then repl else utf8_encode v.

Definition cdata (c : N) : cstate * bytes :=
  if c =? 92 then (CEsc, [])
  else if c =? 0 then (CData, repl)
  else if c =? 12 then (CData, [10])            (* preprocessing: FF is a newline *)
  else if c =? 13 then (CAfterCR, [10])         (* preprocessing: CR and CR LF are one newline *)
  else (CData, [c]).

Definition cstep (st : cstate) (c : N) : cstate * bytes :=
  match st with
  | CData => cdata c
  | CAfterCR => if c =? 10 then (CData, []) else cdata c
  | CEsc =>
    match hex_val c with
    | Some d => (CHex 1 d, [])
    | None =>
      if (c =? 10) || (c =? 12) then (CData, [])
      else if c =? 13 then (CAfterCR, [])
      else if c =? 0 then (CData, repl)
      else (CData, [c])
    end
  | CHex n v =>
    match hex_val c with
    | Some d =>
      if Nat.ltb n 6 then (CHex (S n) (v * 16 + d), [])
      else prepend (css_cp v) (cdata c)
    | None =>
      if c =? 13 then (CAfterCR, css_cp v)
      else if is_css_ws c then (CData, css_cp v)
      else prepend (css_cp v) (cdata c)
    end
  end.

Definition cfinish (st : cstate) : bytes :=
  match st with
  | CHex _ v => css_cp v
  | _ => []
  end.

Definition crun := trun cstep.

Definition css_decode (s : bytes) : bytes :=
  let '(st, o) := crun CData s in o ++ cfinish st.

(* ------------------------------------------------------------------ *)
(* Percent-decoding.  A percent sign that is not followed by two hex digits
   stands for itself.  plus = true additionally reads + as a space (query
   strings parsed as application/x-www-form-urlencoded, Go url.QueryUnescape). *)
Inductive pstate :=
| PData
| PPct                       (* seen percent *)
| PPct1 (c1 : N) (h : N).    (* seen percent and the hex digit c1 of value h *)

Definition pdata (plus : bool) (c : N) : pstate * bytes :=
  if c =? 37 then (PPct, [])
  else if plus && (c =? 43) then (PData, [32])
  else (PData, [c]).

Definition pstep (plus : bool) (st : pstate) (c : N) : pstate * bytes :=
  match st with
  | PData => pdata plus c
  | PPct => match hex_val c with
            | Some h => (PPct1 c h, [])
            | None => prepend [37] (pdata plus c)
            end
  | PPct1 c1 h => match hex_val c with
                  | Some l => (PData, [h * 16 + l])
                  | None => prepend [37; c1] (pdata plus c)
                  end
  end.

Definition pfinish (st : pstate) : bytes :=
  match st with
  | PData => []
  | PPct => [37]
  | PPct1 c1 _ => [37; c1]
  end.

Definition prun (plus : bool) := trun (pstep plus).

Definition pct_decode_gen (plus : bool) (s : bytes) : bytes :=
  let '(st, o) := prun plus PData s in o ++ pfinish st.
Definition pct_decode := pct_decode_gen false.
Definition query_decode := pct_decode_gen true.
