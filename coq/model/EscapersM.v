(* Models of the context escapers of internal/runtime/escapers.go, in the
   code's own shape: the `last / i` loop that writes the pending unescaped
   run s[last:i], then the escape, and at the end the remaining run.  The
   result is the list of chunks, one per Write / WriteString call.  Per-byte
   behaviour comes from the generated tables (Facts_escapers, Facts_esc).
   No proofs here. *)
From Verif Require Import Bytes Utf8 Facts_escapers Facts_esc.
Open Scope N_scope.

Definition chunks := list bytes.
Definition flat (cs : chunks) : bytes := concat cs.
Definition tbl := list (N * bytes).

(* `if last != i { w.WriteString(s[last:i]) }`: pend holds s[last:i] reversed *)
Definition flush_pend (pend : bytes) : chunks :=
  match pend with [] => [] | _ => [rev pend] end.

(* the common loop: `esc` looked up per byte; absent = `continue` *)
Fixpoint scan_chunks (t : tbl) (s pend : bytes) : chunks :=
  match s with
  | [] => flush_pend pend
  | c :: r =>
    match assoc_get t c with
    | None => scan_chunks t r (c :: pend)
    | Some esc => flush_pend pend ++ [esc] ++ scan_chunks t r []
    end
  end.

Definition htmlEscape (s : bytes) : chunks := scan_chunks gen_htmlEscape_tbl s [].
Definition htmlNoEntitiesEscape (s : bytes) : chunks := scan_chunks gen_htmlNoEntitiesEscape_tbl s [].

(* attributeEscape: the quoted case returns the call named by the generated
   fact (1 = htmlEscape, 2 = htmlNoEntitiesEscape); the unquoted case is the
   function's own loop *)
Definition attr_callee (n : N) (s : bytes) : chunks :=
  if n =? 1 then htmlEscape s else htmlNoEntitiesEscape s.

Definition attributeEscape (escapeEntities quoted : bool) (s : bytes) : chunks :=
  if quoted then
    attr_callee (if escapeEntities then gen_attrQuoted_entities_callee else gen_attrQuoted_noentities_callee) s
  else
    scan_chunks (if escapeEntities then gen_attrUnquoted_entities_tbl else gen_attrUnquoted_noentities_tbl) s [].

(* cssStringEscape: after the escape of a byte other than backslash a space is
   written when the byte is the last one or prefixWithSpace(next byte) *)
Definition css_space (c : N) (r : bytes) : bool :=
  negb (c =? 92) && match r with [] => true | d :: _ => mem gen_prefixWithSpace d end.

Fixpoint css_chunks (s pend : bytes) : chunks :=
  match s with
  | [] => flush_pend pend
  | c :: r =>
    match assoc_get gen_cssStringEscape_tbl c with
    | None => css_chunks r (c :: pend)
    | Some esc =>
      flush_pend pend ++ [esc] ++ (if css_space c r then [[32]] else []) ++ css_chunks r []
    end
  end.

Definition cssStringEscape (s : bytes) : chunks := css_chunks s [].

(* jsStringEscape: `for i, c := range s` iterates over runes (Go's DecodeRune:
   an invalid encoding is the rune U+FFFD of width 1).  After an escape
   `last = i + 3` for U+2028 / U+2029 and `i + 1` otherwise; the bytes of the
   rune beyond `last` would stay pending, and `last` beyond the end of the rune
   makes the next slice expression panic (None).  One unit of fuel per rune;
   None also when the fuel runs out (never with fuel = length s). *)
Definition js_adv (c : N) : nat := if (c =? 8232) || (c =? 8233) then 3%nat else 1%nat.

Fixpoint js_loop (fuel : nat) (s pend : bytes) : option chunks :=
  match s with
  | [] => Some (flush_pend pend)
  | _ =>
    match fuel with
    | O => None
    | S f =>
      let '(c, sz) := decode_rune s in
      match assoc_get gen_jsStringEscape_tbl c with
      | None => js_loop f (skipn sz s) (rev (firstn sz s) ++ pend)
      | Some esc =>
        if Nat.ltb sz (js_adv c) then None
        else match js_loop f (skipn sz s) (rev (skipn (js_adv c) (firstn sz s))) with
             | Some cs => Some (flush_pend pend ++ [esc] ++ cs)
             | None => None
             end
      end
    end
  end.

Definition jsStringEscape (s : bytes) : option chunks := js_loop (length s) s [].
(* jsonStringEscape is `return jsStringEscape(w, s)` *)
Definition jsonStringEscape (s : bytes) : option chunks := jsStringEscape s.

(* queryEscape: buf = '%', hexchars[c>>4], hexchars[c&0xF] written with one Write *)
Definition queryEscape (s : bytes) : chunks := scan_chunks gen_queryEscape_tbl s [].

(* pathEscape: as the common loop, but a '%' is passed through when two bytes
   follow (i+2 < len(s)) and both satisfy isHexDigit *)
Definition path_esc (quoted : bool) (c : N) (r : bytes) : option bytes :=
  if c =? 37 then
    match r with
    | d1 :: d2 :: _ =>
      if quoted then
        if mem gen_pathEscape_quoted_pct_keep1 d1 && mem gen_pathEscape_quoted_pct_keep2 d2
        then None else Some gen_pathEscape_quoted_pct_esc
      else
        if mem gen_pathEscape_unquoted_pct_keep1 d1 && mem gen_pathEscape_unquoted_pct_keep2 d2
        then None else Some gen_pathEscape_unquoted_pct_esc
    | _ => Some (if quoted then gen_pathEscape_quoted_pct_esc else gen_pathEscape_unquoted_pct_esc)
    end
  else assoc_get (if quoted then gen_pathEscape_quoted_tbl else gen_pathEscape_unquoted_tbl) c.

Fixpoint path_chunks (quoted : bool) (s pend : bytes) : chunks :=
  match s with
  | [] => flush_pend pend
  | c :: r =>
    match path_esc quoted c r with
    | None => path_chunks quoted r (c :: pend)
    | Some esc => flush_pend pend ++ [esc] ++ path_chunks quoted r []
    end
  end.

Definition pathEscape (quoted : bool) (s : bytes) : chunks := path_chunks quoted s [].

(* an injective flattening of a chunk list into bytes, used only to compare
   chunk lists in the in-Coq cross-check: each byte b becomes 1 b, each chunk ends with 0 *)
Definition enc_chunks (cs : chunks) : bytes :=
  flat_map (fun ch => flat_map (fun b => [1; b]) ch ++ [0]) cs.
Definition enc_ochunks (o : option chunks) : option bytes :=
  match o with Some cs => Some (enc_chunks cs) | None => None end.
