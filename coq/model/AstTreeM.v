(* Executable model of astutil.CloneNode / CloneExpression / ClonePosition and
   astutil.Walk over generic records.  A record is (identity, kind, scalar
   fields, child fields); what clone and walk do with a record of a kind is
   read from the tables that gofacts extracts from clone.go and walk.go
   (Facts_Ast.v); the schema of the kinds comes from the struct types of
   package ast.  No proofs here. *)
From Coq Require Import List NArith Bool.
From Verif Require Import Bytes AstSchema.
Import ListNotations.
Open Scope N_scope.

Inductive tree := T (id kind : N) (scal : list (N * bytes)) (kids : list (N * list tree)).

Definition t_id (t : tree) : N := match t with T i _ _ _ => i end.
Definition t_kind (t : tree) : N := match t with T _ k _ _ => k end.
Definition t_scal (t : tree) := match t with T _ _ s _ => s end.
Definition t_kids (t : tree) := match t with T _ _ _ k => k end.

Inductive res (A : Type) :=
| Ok (a : A)
| Panic          (* the Go code panics (missing case, nil dereference) *)
| Untranslated   (* the extracted table holds a CBad or SBad entry *)
| Fuel.          (* out of fuel: excluded by the theorems *)
Arguments Ok {A} a.
Arguments Panic {A}.
Arguments Untranslated {A}.
Arguments Fuel {A}.

Fixpoint lookup2 {A : Type} (l : list ((N * N) * A)) (c k : N) : option A :=
  match l with
  | [] => None
  | ((c', k'), a) :: r => if (c' =? c) && (k' =? k) then Some a else lookup2 r c k
  end.

Definition kids_of (kd : list (N * list tree)) (f : N) : list tree :=
  match assoc_get kd f with Some l => l | None => [] end.
Definition scal_of (sc : list (N * bytes)) (f : N) : bytes :=
  match assoc_get sc f with Some v => v | None => [] end.

(* ---- schema access ---- *)
Section Schema.
Variable schema : list kind_decl.

Definition decl_of (k : N) : option kind_decl := find (fun d => k_id d =? k) schema.
Definition fields_of (k : N) : list field := match decl_of k with Some d => k_fields d | None => [] end.
Definition is_node (k : N) : bool := match decl_of k with Some d => k_node d | None => false end.
Definition field_of (k f : N) : option field := find (fun x => f_id x =? f) (fields_of k).
Definition class_of (k f : N) : N := match field_of k f with Some x => f_class x | None => 0 end.
Definition is_single (k f : N) : bool := class_of k f =? 1.
Definition child_fields (k : N) : list field := filter (fun x => negb (f_class x =? 0)) (fields_of k).
Definition scalar_fields (k : N) : list field := filter (fun x => f_class x =? 0) (fields_of k).
Definition static_of (k f : N) : list N := match field_of k f with Some x => f_static x | None => [] end.

(* ---- clone ---- *)
Section Clone.
Variable table : list ((N * N) * ccase).

(* map with a threaded allocation counter *)
Fixpoint map_st {A B : Type} (f : N -> A -> res (N * B)) (nx : N) (l : list A) : res (N * list B) :=
  match l with
  | [] => Ok (nx, [])
  | a :: r =>
    match f nx a with
    | Ok (nx1, b) =>
      match map_st f nx1 r with
      | Ok (nx2, bs) => Ok (nx2, b :: bs)
      | Panic => Panic | Untranslated => Untranslated | Fuel => Fuel
      end
    | Panic => Panic | Untranslated => Untranslated | Fuel => Fuel
    end
  end.

Definition eval_sval (sc : list (N * bytes)) (sv : sval) : option bytes :=
  match sv with
  | SCopy f => Some (scal_of sc f)
  | SAlias f => Some (scal_of sc f)
  | SConst v => Some v
  | SBad => None
  end.

Fixpoint eval_svals (sc : list (N * bytes)) (l : list (N * sval)) : option (list (N * bytes)) :=
  match l with
  | [] => Some []
  | (f, sv) :: r =>
    match eval_sval sc sv, eval_svals sc r with
    | Some v, Some vs => Some ((f, v) :: vs)
    | _, _ => None
    end
  end.

(* the children of one field of the record under construction *)
Definition clone_field (rec : N -> N -> tree -> res (N * tree)) (k : N) (kd : list (N * list tree))
    (nx : N) (cv : cval) : res (N * list tree) :=
  match cv with
  | CNil => Ok (nx, [])
  | CVia f c ns =>
    match kids_of kd f with
    | [] => if negb ns && is_single k f then Panic else Ok (nx, [])
    | src => map_st (rec c) nx src
    end
  | CShare f => Ok (nx, kids_of kd f)
  | CNew c k' =>
    match rec c nx (T 0 k' [] []) with
    | Ok (nx1, t) => Ok (nx1, [t])
    | Panic => Panic | Untranslated => Untranslated | Fuel => Fuel
    end
  | CBad => Untranslated
  end.

Fixpoint clone_fields (rec : N -> N -> tree -> res (N * tree)) (k : N) (kd : list (N * list tree))
    (nx : N) (l : list (N * cval)) : res (N * list (N * list tree)) :=
  match l with
  | [] => Ok (nx, [])
  | (f, cv) :: r =>
    match clone_field rec k kd nx cv with
    | Ok (nx1, cs) =>
      match clone_fields rec k kd nx1 r with
      | Ok (nx2, fs) => Ok (nx2, (f, cs) :: fs)
      | Panic => Panic | Untranslated => Untranslated | Fuel => Fuel
      end
    | Panic => Panic | Untranslated => Untranslated | Fuel => Fuel
    end
  end.

(* clone fuel ctx next t: the copy of t made in context ctx (0 CloneNode,
   1 CloneExpression, others: records built inline), allocating the
   identities next, next+1, ... ; returns the next free identity *)
Fixpoint clone (fuel : nat) (ctx : N) (nx : N) (t : tree) : res (N * tree) :=
  match fuel with
  | O => Fuel
  | S fu =>
    match t with
    | T _ k sc kd =>
      match lookup2 table ctx k with
      | None => Panic
      | Some cs =>
        match eval_svals sc (c_scal cs) with
        | None => Untranslated
        | Some sc' =>
          match clone_fields (clone fu) k kd (nx + 1) (c_kids cs) with
          | Ok (nx1, kd') => Ok (nx1, T nx (c_kind cs) sc' kd')
          | Panic => Panic | Untranslated => Untranslated | Fuel => Fuel
          end
        end
      end
    end
  end.

End Clone.

(* ---- walk ---- *)
Inductive event := Enter (id : N) | EnterNil | Leave.

Section Walk.
Variable wtable : list ((N * N) * wcase).
Variable prune : N -> bool.     (* kinds at which the visitor returns nil *)

Fixpoint concat_res (l : list (res (list event))) : res (list event) :=
  match l with
  | [] => Ok []
  | Ok a :: r =>
    match concat_res r with
    | Ok b => Ok (a ++ b)
    | Panic => Panic | Untranslated => Untranslated | Fuel => Fuel
    end
  | Panic :: _ => Panic
  | Untranslated :: _ => Untranslated
  | Fuel :: _ => Fuel
  end.

(* Walk(v, x) where x is a nil pointer of a concrete type stored in the
   interface: Visit is called with it; the case of its kind then runs on a
   nil receiver *)
Definition walk_typed_nil (k f c : N) : res (list event) :=
  if c =? 0 then
    match static_of k f with
    | [k'] =>
      match lookup2 wtable 0 k' with
      | Some wc => match w_items wc with [] => Ok [EnterNil; Leave] | _ => Panic end
      | None => Panic
      end
    | _ => Panic
    end
  else Panic.

Definition walk_item (rec : N -> tree -> res (list event)) (k : N) (kd : list (N * list tree))
    (it : witem) : res (list event) :=
  match it with
  | WVia f c ns =>
    match kids_of kd f with
    | [] => if negb ns && is_single k f then walk_typed_nil k f c else Ok []
    | src => concat_res (map (rec c) src)
    end
  end.

Fixpoint walk (fuel : nat) (ctx : N) (t : tree) : res (list event) :=
  match fuel with
  | O => Fuel
  | S fu =>
    match t with
    | T i k _ kd =>
      match lookup2 wtable ctx k with
      | None => Panic
      | Some wc =>
        if w_visit wc && prune k then Ok [Enter i]
        else
          match concat_res (map (walk_item (walk fu) k kd) (w_items wc)) with
          | Ok evs => Ok (if w_visit wc then Enter i :: evs ++ [Leave] else evs)
          | Panic => Panic | Untranslated => Untranslated | Fuel => Fuel
          end
      end
    end
  end.

End Walk.
End Schema.

(* ---- structural notions (independent of the tables) ---- *)

Fixpoint height (t : tree) : nat :=
  match t with
  | T _ _ _ kd =>
    S ((fix hs (l : list (N * list tree)) : nat :=
          match l with
          | [] => O
          | fl :: r =>
            Nat.max ((fix hl (cs : list tree) : nat :=
                        match cs with [] => O | c :: r2 => Nat.max (height c) (hl r2) end) (snd fl))
                    (hs r)
          end) kd)
  end.

(* the record with every identity erased: structural equality of trees *)
Fixpoint erase (t : tree) : tree :=
  match t with
  | T _ k sc kd =>
    T 0 k sc ((fix es (l : list (N * list tree)) : list (N * list tree) :=
                 match l with
                 | [] => []
                 | fl :: r =>
                   (fst fl, (fix el (cs : list tree) : list tree :=
                               match cs with [] => [] | c :: r2 => erase c :: el r2 end) (snd fl)) :: es r
                 end) kd)
  end.

(* all the records of a tree, in pre-order (fields in order, children in order) *)
Fixpoint subtrees (t : tree) : list tree :=
  match t with
  | T _ _ _ kd =>
    t :: (fix ss (l : list (N * list tree)) : list tree :=
            match l with
            | [] => []
            | fl :: r =>
              (fix sl (cs : list tree) : list tree :=
                 match cs with [] => [] | c :: r2 => subtrees c ++ sl r2 end) (snd fl) ++ ss r
            end) kd
  end.

Definition ids (t : tree) : list N := map t_id (subtrees t).

(* identities of the records that are nodes, in pre-order *)
Definition node_ids (schema : list kind_decl) (t : tree) : list N :=
  map t_id (filter (fun n => is_node schema (t_kind n)) (subtrees t)).

Fixpoint enters (l : list event) : list N :=
  match l with
  | [] => []
  | Enter i :: r => i :: enters r
  | _ :: r => enters r
  end.

Fixpoint max_id (l : list N) : N := match l with [] => 0 | a :: r => N.max a (max_id r) end.

(* entry points: enough fuel for the whole tree, fresh identities above every identity of t *)
Definition clone_top (schema : list kind_decl) (table : list ((N * N) * ccase)) (ctx : N) (t : tree) : res (N * tree) :=
  clone schema table (S (height t)) ctx (max_id (ids t) + 1) t.

Definition walk_top (schema : list kind_decl) (wtable : list ((N * N) * wcase)) (prune : N -> bool) (t : tree) : res (list event) :=
  walk schema wtable prune (S (height t)) 0 t.

(* ---- the model instantiated with the generated facts ---- *)
From Verif Require Import Facts_Ast.

Definition ast_clone (ctx : N) (t : tree) : res (N * tree) := clone_top ast_schema ast_clone_table ctx t.
Definition ast_walk (prune : list N) (t : tree) : res (list event) :=
  walk_top ast_schema ast_walk_table (fun k => mem prune k) t.

(* name resolution for the line protocol *)
Definition kind_by_name (name : bytes) : option kind_decl := find (fun d => bytes_eqb (k_name d) name) ast_schema.
Definition field_by_name (d : kind_decl) (name : bytes) : option field := find (fun x => bytes_eqb (f_name x) name) (k_fields d).
Definition ast_decl_of (k : N) : option kind_decl := decl_of ast_schema k.
Definition ast_field_of (k f : N) : option field := field_of ast_schema k f.
