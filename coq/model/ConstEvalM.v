(* Executable model of the type checker glue around constant.go for constant
   declarations (checker_expressions.go: literals, unary and binary operators
   on constants, conversions T(x); checker_util.go convert;
   checker_assignment.go checkConstantDeclaration): typed and untyped
   constants, the type of the result, and the class of the error.
   No proofs in this file. *)
From Coq Require Import ZArith List Bool.
From Verif Require Import Bytes Utf8 Facts_consts ConstsM.
Import ListNotations.
Open Scope Z_scope.

Inductive cexpr :=
| ELitInt (z : Z)
| ELitRune (z : Z)
| ELitFloat (n : Z) (d : positive)
| ELitImagInt (z : Z)
| ELitImagFloat (n : Z) (d : positive)
| ELitStr (s : list N)
| ELitBool (b : bool)
| EUn (o : op) (e : cexpr)
| EBin (o : op) (e1 e2 : cexpr)
| EConv (k : kind) (e : cexpr)
| ERef.                         (* the first constant of the group *)

Record tinfo := { ti_kind : kind; ti_untyped : bool; ti_c : cst }.

(* error classes as the harness derives them from the message *)
Inductive cerr :=
| CDiv0 | CBigOverflow | CShiftCount | COverflow | CTrunc | CTooLarge
| CInvalidOp | CMismatch | CConvert | CFault.

Inductive eres := EOk (t : tinfo) | EErr (e : cerr).

Definition class_of (e : err) : cerr :=
  match e with
  | ENotRepr => CConvert
  | EInvalid => CInvalidOp
  | EDiv0 | ECDiv0 => CDiv0
  | EShiftNeg | EShiftLarge => CShiftCount
  | EShiftTrunc | ETruncInt | ETruncReal => CTrunc
  | EShiftOvfUint | EOverflows => COverflow
  | EShlOverflow | EAddOverflow | ESubOverflow | EMulOverflow => CBigOverflow
  | ETooLarge => CTooLarge
  end.

Definition lift (k : kind) (u : bool) (r : res cst) : eres :=
  match r with
  | Ok c => EOk {| ti_kind := k; ti_untyped := u; ti_c := c |}
  | Err e => EErr (class_of e)
  | Fault => EErr CFault
  end.

Definition kind_eqb (a b : kind) : bool := kind_num a =? kind_num b.

(* string(rune) *)
Definition string_of_rune (z : Z) : list N :=
  if (0 <=? z) && valid_rune (Z.to_N z) then utf8_encode (Z.to_N z) else utf8_encode rune_error.

Definition int_value (c : cst) : Z :=
  match c with Num (I64 z) | Num (Big z) => z | _ => 0 end.

Definition is_ordered_op (o : op) : bool :=
  match o with OLt | OLe | OGt | OGe => true | _ => false end.

(* tc.binaryOp on two constants *)
Definition check_binary (o : op) (t1 t2 : tinfo) : eres :=
  let k1 := ti_kind t1 in
  let k2 := ti_kind t2 in
  let u1 := ti_untyped t1 in
  let u2 := ti_untyped t2 in
  let shift := is_shift o in
  let ok_shift_operand (u : bool) (k : kind) := (u && is_numeric_kind k) || (negb u && is_integer_kind k) in
  if shift && negb (ok_shift_operand u1 k1) then EErr CInvalidOp
  else if shift && negb (ok_shift_operand u2 k2) then EErr CInvalidOp
  else if negb shift && (match o with OAnd | OOr => true | _ => false end)
          && negb (kind_eqb k1 KBool && kind_eqb k2 KBool) then EErr CInvalidOp
  else
    (* make both typed when exactly one is *)
    let conv :=
      if shift || Bool.eqb u1 u2 then Ok (t1, t2)
      else if u1 then
        match repr k2 (ti_c t1) with
        | Ok c => Ok ({| ti_kind := k2; ti_untyped := false; ti_c := c |}, t2)
        | Err e => Err e
        | Fault => Fault
        end
      else
        match repr k1 (ti_c t2) with
        | Ok c => Ok (t1, {| ti_kind := k1; ti_untyped := false; ti_c := c |})
        | Err e => Err e
        | Fault => Fault
        end in
    match conv with
    | Err e => EErr (class_of e)
    | Fault => EErr CFault
    | Ok (t1, t2) =>
      let k1 := ti_kind t1 in
      let k2 := ti_kind t2 in
      let u1 := ti_untyped t1 in
      if negb shift && negb (kind_eqb k1 k2)
         && negb (u1 && is_numeric_kind k1 && is_numeric_kind k2) then EErr CMismatch
      else if is_ordered_op o && (is_complex_kind k1 || is_complex_kind k2) then EErr CInvalidOp
      else
        match binary_op o (ti_c t1) (ti_c t2) with
        | Err e => EErr (class_of e)
        | Fault => EErr CFault
        | Ok c =>
          let to_bool := is_cmp_op o || (match o with OAnd | OOr => true | _ => false end) in
          let c' := if negb u1 && negb to_bool then repr k1 c else Ok c in
          let k := if to_bool then KBool
                   else if negb shift && u1 && (kind_num k1 <? kind_num k2) then k2
                   else if shift && u1 && negb (is_integer_kind k1) then KInt
                   else k1 in
          lift k (u1 || is_cmp_op o) c'
        end
    end.

Definition check_unary (o : op) (t : tinfo) : eres :=
  let k := ti_kind t in
  match o with
  | ONot =>
    if kind_eqb k KBool then lift k (ti_untyped t) (unary_op ONot None (ti_c t)) else EErr CInvalidOp
  | OAdd =>
    if is_numeric_kind k then EOk t else EErr CInvalidOp
  | OSub =>
    if is_numeric_kind k then
      match unary_op OSub None (ti_c t) with
      | Ok c =>
        if ti_untyped t then lift k true (Ok c)
        else match repr k c with
             | Ok _ => lift k false (Ok c)
             | Err e => EErr (class_of e)
             | Fault => EErr CFault
             end
      | _ => EErr CFault
      end
    else EErr CInvalidOp
  | OXor =>
    if is_integer_kind k then
      match unary_op OXor (Some k) (ti_c t) with
      | Ok c => lift k (ti_untyped t) (Ok c)
      | _ => EErr CFault
      end
    else EErr CInvalidOp
  | _ => EErr CInvalidOp
  end.

(* T(x) on a constant *)
Definition check_conv (k : kind) (t : tinfo) : eres :=
  if kind_eqb k KString && is_integer_kind (ti_kind t) then
    match repr KInt32 (ti_c t) with
    | Ok c => lift k false (Ok (Str (string_of_rune (int_value c))))
    | _ => lift k false (Ok (Str (utf8_encode rune_error)))
    end
  else
    match repr k (ti_c t) with
    | Ok c => lift k false (Ok c)
    | Err e => EErr (class_of e)
    | Fault => EErr CFault
    end.

Definition untyped_lit (k : kind) (r : res cst) : eres := lift k true r.

Fixpoint ceval (env : option tinfo) (e : cexpr) : eres :=
  match e with
  | ELitInt z => untyped_lit KInt (lit_int z)
  | ELitRune z => untyped_lit KInt32 (Ok (Num (I64 z)))
  | ELitFloat n d => untyped_lit KFloat64 (lit_float n d)
  | ELitImagInt z => untyped_lit KComplex128 (lit_imag (lit_int z))
  | ELitImagFloat n d => untyped_lit KComplex128 (lit_imag (lit_float n d))
  | ELitStr s => untyped_lit KString (Ok (Str s))
  | ELitBool b => untyped_lit KBool (Ok (Bool b))
  | ERef => match env with Some t => EOk t | None => EErr CFault end
  | EUn o x =>
    match ceval env x with
    | EOk t => check_unary o t
    | r => r
    end
  | EBin o x y =>
    match ceval env x with
    | EOk t1 =>
      match ceval env y with
      | EOk t2 => check_binary o t1 t2
      | r => r
      end
    | r => r
    end
  | EConv k x =>
    match ceval env x with
    | EOk t => check_conv k t
    | r => r
    end
  end.

(* const name [T] = e *)
Definition check_decl (env : option tinfo) (ty : option kind) (e : cexpr) : eres :=
  match ceval env e with
  | EOk t =>
    match ty with
    | None => EOk t
    | Some k =>
      if ti_untyped t then
        match repr k (ti_c t) with
        | Ok c => EOk {| ti_kind := k; ti_untyped := false; ti_c := c |}
        | Err e => EErr (class_of e)
        | Fault => EErr CFault
        end
      else if kind_eqb (ti_kind t) k then
        match repr k (ti_c t) with
        | Ok c => EOk {| ti_kind := k; ti_untyped := false; ti_c := c |}
        | _ => EOk {| ti_kind := k; ti_untyped := false; ti_c := ti_c t |}
        end
      else EErr CConvert
    end
  | r => r
  end.

(* const ( a [TA] = A ; C [T] = E ) *)
Definition check_group (ta : option kind) (a : cexpr) (ty : option kind) (e : cexpr) : eres :=
  match check_decl None ta a with
  | EOk t => check_decl (Some t) ty e
  | r => r
  end.
