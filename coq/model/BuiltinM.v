(* Models of the functions of package builtin (builtin/builtin.go) that have
   logic of their own: QueryEscape (both passes, checked buffer writes),
   onlyJSONWhitespace / trimJSONSpace (checked table indexing), Abbreviate,
   Capitalize, CapitalizeAll, ToKebab, RuneCount.  Per-byte behaviour and
   constants come from the generated Facts_builtin.  No proofs here.
   None = the Go code would panic with an index / slice bounds error. *)
From Verif Require Import Bytes Utf8 MiscRunes Facts_builtin HTMLEscapeM.
Open Scope N_scope.

(* ------------------------------------------------------------ QueryEscape *)

(* first loop: returns (last, numHex) *)
Fixpoint qe_pass1 (s : bytes) (i last numHex : N) : N * N :=
  match s with
  | [] => (last, numHex)
  | c :: r =>
    match assoc_get gen_QueryEscape_pass1 c with
    | None => qe_pass1 r (i + 1) last numHex
    | Some (k, d) => qe_pass1 r (i + 1) (i + d) (numHex + k)
    end
  end.

(* the writes b[j+off] = v of one iteration *)
Fixpoint qe_writes (b : bytes) (j : N) (ws : list (N * N)) : option bytes :=
  match ws with
  | [] => Some b
  | (off, v) :: r =>
    match set_at b (j + off) v with
    | Some b' => qe_writes b' j r
    | None => None
    end
  end.

(* second loop: for i := 0; i < last; i++ { c := s[i] ... }; rest = s[i:] *)
Fixpoint qe_pass2 (rest : bytes) (i last j : N) (b : bytes) : option (bytes * N) :=
  if last <=? i then Some (b, j) else
  match rest with
  | [] => None
  | c :: r =>
    match assoc_get gen_QueryEscape_pass2 c with
    | None => None
    | Some (ws, adv) =>
      match qe_writes b j ws with
      | None => None
      | Some b' => qe_pass2 r (i + 1) last (j + adv) b'
      end
    end
  end.

Definition QueryEscape (s : bytes) : option bytes :=
  let '(last, numHex) := qe_pass1 s 0 0 0 in
  if numHex =? 0 then Some s else
  let b := repeat 0 (N.to_nat (gen_QueryEscape_buf_base + gen_QueryEscape_buf_per_len * nlen s
                               + gen_QueryEscape_buf_per_hex * numHex)) in
  match qe_pass2 s 0 last 0 b with
  | None => None
  | Some (b1, j) =>
    if j =? nlen b1 then Some b1
    else if nlen s <? last then None                      (* s[last:] *)
    else copy_at b1 j (skipn (N.to_nat last) s)           (* copy(b[j:], s[last:]) *)
  end.

(* ------------------------------------------------- JSON whitespace helpers *)

Fixpoint only_json_ws (s : bytes) : option bool :=
  match s with
  | [] => Some true
  | c :: r =>
    match assoc_get gen_onlyJSONWhitespace_step c with
    | None => None
    | Some true => Some false
    | Some false => only_json_ws r
    end
  end.

Open Scope Z_scope.

(* for ; i <= j && lookupJSONSpace[data[i]] == 1; i++ {}   with rest = data[i:] *)
Fixpoint trim_lead (rest : bytes) (i j : Z) : option Z :=
  if gen_trimJSONSpace_lead_guarded && (j <? i) then Some i else
  match rest with
  | [] => None
  | c :: r =>
    match assoc_get gen_trimJSONSpace_lead c with
    | None => None
    | Some true => trim_lead r (i + 1) j
    | Some false => Some i
    end
  end.

(* for ; i <= j && lookupJSONSpace[data[j]] == 1; j-- {}   with rrest = reverse of data[:j+1] *)
Fixpoint trim_trail (rrest : bytes) (i j : Z) : option Z :=
  if gen_trimJSONSpace_trail_guarded && (j <? i) then Some j else
  match rrest with
  | [] => None
  | c :: r =>
    match assoc_get gen_trimJSONSpace_trail c with
    | None => None
    | Some true => trim_trail r i (j - 1)
    | Some false => Some j
    end
  end.

Definition trim_json_space (data : bytes) : option bytes :=
  match data with
  | [] => Some data
  | _ =>
    let len := Z.of_nat (length data) in
    match trim_lead data 0 (len - 1) with
    | None => None
    | Some i =>
      match trim_trail (rev data) i (len - 1) with
      | None => None
      | Some j =>
        (* data[i : j+1] *)
        if (0 <=? i) && (i <=? j + 1) && (j + 1 <=? len)
        then Some (firstn (Z.to_nat (j + 1 - i)) (skipn (Z.to_nat i) data))
        else None
      end
    end
  end.

(* ---------------------------------------------------------------- Abbreviate *)

Fixpoint drop_while (p : N -> bool) (s : bytes) : bytes :=
  match s with
  | [] => []
  | c :: r => if p c then drop_while p r else s
  end.

(* strings.TrimRight(s, cutset) for an ASCII cutset: bytewise *)
Definition trim_right_set (set : list N) (s : bytes) : bytes := rev (drop_while (mem set) (rev s)).

(* strings.LastIndexAny(s, chars) for ASCII chars: index of the last byte of s in chars, or -1 *)
Fixpoint last_index_any (s : bytes) (set : list N) (i : Z) (found : Z) : Z :=
  match s with
  | [] => found
  | c :: r => last_index_any r set (i + 1) (if mem set c then i else found)
  end.

(* the range loop: p counts the runes, n2 records the byte index of rune number n - mark *)
Definition abbr_loop (starts : list N) (n : Z) : Z * Z :=
  fold_left (fun st i => let '(p, n2) := st in
                         (p + 1, if p =? n - gen_Abbreviate_mark then Z.of_N i else n2))
            starts (0, 0).

Definition strip_last (set : list N) (s : bytes) : bytes :=
  match rev s with
  | c :: r => if mem set c then rev r else s
  | [] => s
  end.

Definition Abbreviate (s0 : bytes) (n : Z) : option bytes :=
  let s := trim_right_set gen_Abbreviate_spaces s0 in
  if (Z.of_nat (length s) <=? n) || (Z.of_nat (rune_count s) <=? n) then Some s else
  if n <? gen_Abbreviate_min_n then Some [] else
  let '(p, n2) := abbr_loop (rune_starts s) n in
  if p <? n then Some s else
  if (n2 <? 0) || (Z.of_nat (length s) <? n2) then None else        (* s[:n2] *)
  let q := last_index_any (firstn (Z.to_nat n2) s) gen_Abbreviate_spaces 0 (-1) in
  let s1 := if 0 <? q then trim_right_set gen_Abbreviate_spaces (firstn (Z.to_nat q) s) else [] in
  Some (strip_last gen_Abbreviate_strip s1 ++ gen_Abbreviate_suffix).

Close Scope Z_scope.

(* -------------------------------------------- Capitalize, CapitalizeAll, ToKebab *)

(* package unicode, supplied from outside (the correspondence passes the real values
   for the runes that occur; the theorems hold for every such oracle) *)
Record unicode := {
  u_upper : N -> bool;      (* unicode.IsUpper *)
  u_lower : N -> bool;      (* unicode.IsLower *)
  u_digit : N -> bool;      (* unicode.IsDigit *)
  u_letter : N -> bool;     (* unicode.IsLetter *)
  u_space : N -> bool;      (* unicode.IsSpace *)
  u_to_upper : N -> N;      (* unicode.ToUpper *)
  u_to_lower : N -> N       (* unicode.ToLower *)
}.

Definition is_separator (U : unicode) (r : N) : bool :=
  if r <? gen_isSeparator_ascii_bound then mem gen_isSeparator_ascii r
  else if u_letter U r || u_digit U r then false
  else u_space U r.

(* for i, r := range s { ... }   s = rest of the string from byte i0 on *)
Fixpoint cap_loop (U : unicode) (whole s : bytes) (skip : nat) (i0 : N) : option bytes :=
  match s with
  | [] => Some whole
  | c :: r =>
    match skip with
    | S k => cap_loop U whole r k (i0 + 1)
    | O =>
      let rn := fst (decode_rune s) in
      if is_separator U rn then cap_loop U whole r (rune_size s - 1) (i0 + 1)
      else if u_upper U rn then Some whole
      else
        let u := u_to_upper U rn in
        if u =? rn then Some whole
        else if nlen whole <? i0 then None                                   (* s[i:] *)
        else
          let size := N.of_nat (rune_size (skipn (N.to_nat i0) whole)) in   (* utf8.DecodeRuneInString(s[i:]) *)
          if nlen whole <? i0 + size then None                               (* s[i+size:] *)
          else Some (firstn (N.to_nat i0) whole ++ write_rune u ++ skipn (N.to_nat (i0 + size)) whole)
    end
  end.

Definition Capitalize (U : unicode) (s : bytes) : option bytes := cap_loop U s s 0 0.

(* the closure passed to strings.Map, on the runes of s in order *)
Fixpoint cap_all_runes (U : unicode) (prev : N) (rs : list N) : list N :=
  match rs with
  | [] => []
  | r :: t => (if is_separator U prev then u_to_upper U r else r) :: cap_all_runes U r t
  end.

Definition CapitalizeAll_runes (U : unicode) (s : bytes) : list N := cap_all_runes U 32 (decode_all s).

Definition nth_z {A} (l : list A) (i : Z) : option A :=
  if (i <? 0)%Z then None else nth_error l (Z.to_nat i).

(* ToKebab: runes = []rune(s), rest = runes[i:], acc = written runes, reversed *)
Fixpoint kebab_loop (U : unicode) (runes rest : list N) (i : Z) (noDash : bool) (acc : list N) : option (list N) :=
  match rest with
  | [] => Some acc
  | r :: rest' =>
    let n := Z.of_nat (length runes) in
    if u_lower U r || u_digit U r then kebab_loop U runes rest' (i + 1)%Z true (r :: acc)
    else if u_upper U r then
      let dash :=
        if noDash then
          match nth_z runes (i - 1)%Z with                      (* runes[i-1] *)
          | None => None
          | Some pr =>
            if u_lower U pr then Some true
            else if (i + 1 <? n)%Z then
              match nth_z runes (i + 1)%Z with                  (* runes[i+1] *)
              | None => None
              | Some nx => Some (u_lower U nx)
              end
            else Some false
          end
        else Some false in
      match dash with
      | None => None
      | Some d => kebab_loop U runes rest' (i + 1)%Z true (u_to_lower U r :: (if d then 45 :: acc else acc))
      end
    else if noDash && (i + 1 <? n)%Z then kebab_loop U runes rest' (i + 1)%Z false (45 :: acc)
    else kebab_loop U runes rest' (i + 1)%Z noDash acc
  end.

(* the written runes; strings.TrimSuffix(b.String(), "-") removes one final dash *)
Definition ToKebab_runes (U : unicode) (s : bytes) : option (list N) :=
  let runes := decode_all s in
  match kebab_loop U runes runes 0%Z false [] with
  | None => None
  | Some acc =>
    match acc with
    | 45 :: t => Some (rev t)
    | _ => Some (rev acc)
    end
  end.
