(* EmitExprM: a hand-written model of how the emitter
   (internal/compiler/emitter_expressions.go: _emitExpr, emitBinaryOp;
   emitter_util.go: emitValueNotPredefined, changeRegister; builder.go:
   newRegister, enterStack/exitStack, makeIntValue) compiles an integer
   expression of one integer type over local variables and constants into
   registers.  The instruction selection (opcode and operand A per operator
   and kind) and the operand encoding of OpLoad come from the generated tables
   (Facts_alu gen_select_*, Facts_limits gen_c_encodeValueIndex).

   Tied to the real emitter on every run by comparing compile_func with the
   hook's dump of generated expression-only functions
   `func f(v2, v3, ... T) T { return e }`.  No proofs here. *)
From Verif Require Import GoInt Facts_alu Facts_limits VmBase AluM.
Open Scope Z_scope.

(* an integer expression of one type: constants (their Go value), variables
   (named by the int register they live in), binary operators *)
Inductive iexpr :=
  | IConst (v : Z)
  | IVar (r : Z)
  | IBin (op : binop) (e1 e2 : iexpr).

(* the builder: number of int registers in use (fb.numRegs[intRegister]), the
   integer constant pool (fn.Values.Int), the emitted instructions *)
Record cstate := mkC { c_n : Z; c_pool : list Z; c_code : list instr }.

Definition emit (st : cstate) (i : instr) : cstate := mkC (c_n st) (c_pool st) (c_code st ++ [i]).
(* newRegister: numRegs+1 *)
Definition new_reg (st : cstate) : Z * cstate := (c_n st + 1, mkC (c_n st + 1) (c_pool st) (c_code st)).
Definition set_n (st : cstate) (n : Z) : cstate := mkC n (c_pool st) (c_code st).

(* makeIntValue: the index of the value in the pool, appended if absent *)
Fixpoint pool_find (l : list Z) (v : Z) (i : Z) : option Z :=
  match l with
  | [] => None
  | x :: r => if x =? v then Some i else pool_find r v (i + 1)
  end.
Definition make_int_value (st : cstate) (v : Z) : Z * cstate :=
  match pool_find (c_pool st) v 0 with
  | Some i => (i, st)
  | None => (Z.of_nat (length (c_pool st)), mkC (c_n st) (c_pool st ++ [v]) (c_code st))
  end.

(* emitLoad(index, dst, reflect.Int): a, b := encodeValueIndex(intRegister, index) *)
Definition load_instr (idx dst : Z) : option instr :=
  match gen_c_encodeValueIndex (Some gen_c_intRegister) (Some idx) with
  | [Some a; Some b] => Some (mkI gen_OpLoad a b dst)
  | _ => None
  end.

(* emitMove(false, x, z, kind) for an integer kind: A = intRegister *)
Definition move_instr (x z : Z) : instr := mkI gen_OpMove gen_c_intRegister x z.

(* the instruction emit<Op>(ky, x, y, z, kind) appends, from the generated
   selection table: A is the register x for the *Int forms and the bitwise
   operators, the flattened kind otherwise (then z must be x) *)
Definition op_instr (op : binop) (k : Z) (ky : bool) (x y z : Z) : option instr :=
  match zassoc (select_tbl op) k with
  | None => None
  | Some (opc, a) =>
    let o := if ky then - opc else opc in
    Some (mkI o (if a =? gen_select_reg_x then x else a) y z)
  end.
Definition direct_form (op : binop) (k : Z) : bool :=
  match zassoc (select_tbl op) k with
  | Some (_, a) => a =? gen_select_reg_x
  | None => false
  end.

(* the int64 the checker stores for a constant of the type (typeInfo.value) *)
Definition const64 (v : Z) : Z := canon v.
Definition fits_int8 (v : Z) : bool := (-128 <=? v) && (v <=? 127).

(* emitExpr(e, T) given how an expression is compiled into a register: the
   register of a variable, or a new register holding e *)
Definition operand_with (into : iexpr -> Z -> cstate -> option cstate) (e : iexpr) (st : cstate) : option (Z * cstate) :=
  match e with
  | IVar r => Some (r, st)
  | _ =>
    let '(reg, st1) := new_reg st in
    match into e reg st1 with Some st2 => Some (reg, st2) | None => None end
  end.
(* emitExprK(e, T): an immediate when e is a constant that fits int8 *)
Definition operandK_with (into : iexpr -> Z -> cstate -> option cstate) (e : iexpr) (st : cstate) : option (Z * bool * cstate) :=
  match e with
  | IConst v =>
    if fits_int8 (const64 v) then Some (const64 v, true, st)
    else match operand_with into e st with Some (r, st1) => Some (r, false, st1) | None => None end
  | _ => match operand_with into e st with Some (r, st1) => Some (r, false, st1) | None => None end
  end.

(* emitExprR(e, T, reg).  None: something the builder would refuse (unknown
   kind, constant index not encodable) *)
Fixpoint compile_into (k : Z) (e : iexpr) (reg : Z) (st : cstate) {struct e} : option cstate :=
  match e with
  | IConst v =>
    (* emitValueNotPredefined: c := makeIntValue(v); emitLoad(c, reg) *)
    let '(idx, st1) := make_int_value st (const64 v) in
    match load_instr idx reg with Some i => Some (emit st1 i) | None => None end
  | IVar r =>
    (* changeRegister(false, ident, reg): a move unless it is the same register *)
    Some (if r =? reg then st else emit st (move_instr r reg))
  | IBin op e1 e2 =>
    (* emitBinaryOp: x := emitExpr(e1); y, ky := emitExprK(e2) *)
    match operand_with (compile_into k) e1 st with
    | None => None
    | Some (x, st1) =>
      match operandK_with (compile_into k) e2 st1 with
      | None => None
      | Some (y, ky, st2) =>
        if direct_form op k then
          match op_instr op k ky x y reg with Some i => Some (emit st2 i) | None => None end
        else
          (* enterStack; z := newRegister; move x -> z; op on z; move z -> reg; exitStack *)
          let '(z, st3) := new_reg st2 in
          match op_instr op k ky z y z with
          | Some i => Some (set_n (emit (emit (emit st3 (move_instr x z)) i) (move_instr z reg)) (c_n st2))
          | None => None
          end
      end
    end
  end.

Definition operand (k : Z) := operand_with (compile_into k).
Definition operandK (k : Z) := operandK_with (compile_into k).

(* func f(v2, ..., v(np+1) T) T { return e }: the result is register 1, the
   parameters are registers 2 .. np+1; the body is the code of e into register
   1 followed by Return (and the Return that ends every function) *)
Definition ret_instr : instr := mkI gen_OpReturn 0 0 0.
Definition compile_func (k : Z) (np : Z) (e : iexpr) : option (list instr * list Z) :=
  match compile_into k e 1 (mkC (1 + np) [] []) with
  | Some st => Some (c_code st ++ [ret_instr; ret_instr], c_pool st)
  | None => None
  end.
