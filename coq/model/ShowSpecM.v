(* The data that a shown value stands for (spec side of C08): json_of maps a
   typed Go value to the JSON value (JavaScript: with Date) that the property
   expects, in the manner of encoding/json: null for nil, numbers, strings,
   base64 for []byte, arrays, objects with the fields selected and named by the
   json tags (omitempty, the dash tag, unexported), maps as objects sorted by key, the
   pointee of a pointer, the dynamic value of an interface. It is written
   directly over the kind and the flags of the descriptor: it does not use the
   generated decision trees. Deliberate deviations from encoding/json, as
   documented by Scriggo: a value of an error type is its message, time.Time
   in JavaScript is a Date, trusted JS/JSON texts are taken as they are.
   No proofs here. *)
From Coq Require Import List NArith ZArith Bool.
From Verif Require Import Bytes ShowTree Facts_show ShowTypesM ShowJsonM ShowLeavesM Json.
Import ListNotations.
Open Scope N_scope.

Section Spec.
  Variable O : leaves.
  Variable f : showfn.

  (* the trusted text, as the value it denotes: None if it is not a literal *)
  Definition trusted_json (c : N) (t : ty) (v : value) : option json :=
    parse_text (match f with FJS => true | FJSON => false end) (lf_trusted O f c t v).

  (* which trusted case applies, in the order of the leading type switch *)
  Definition trusted_case (t : ty) : option N :=
    match f with
    | FJS => if flag t w_JS then Some w_JS else if flag t i_JSStringer then Some i_JSStringer
             else if flag t i_JSEnvStringer then Some i_JSEnvStringer else None
    | FJSON => if flag t w_JSON then Some w_JSON else if flag t i_JSONStringer then Some i_JSONStringer
               else if flag t i_JSONEnvStringer then Some i_JSONEnvStringer else None
    end.

  (* new Date(string): the string *)
  Definition date_body (txt : bytes) : bytes :=
    let r := skipn 10 txt in firstn (length r - 2) r.

  Definition is_int_kind (k : N) : bool := (k_Int <=? k) && (k <=? k_Int64).
  Definition is_uint_kind (k : N) : bool := (k_Uint <=? k) && (k <=? k_Uintptr).
  Definition is_float_kind (k : N) : bool := (k =? k_Float32) || (k =? k_Float64).

  (* the empty values of omitempty: false, 0, the empty string, nil, an empty array, slice or map *)
  Definition empty_spec (ft : ty) (v : value) : bool :=
    match v with
    | VBool b => negb b
    | VInt z => Z.eqb z 0
    | VUint n => n =? 0
    | VFloat x => lf_float_zero O (kind_of ft) x
    | VStr [] | VBytes [] | VSeq [] | VMap [] => true
    | VNil | VNilRef => negb ((kind_of ft =? k_Chan) || (kind_of ft =? k_Func))
    | _ => false
    end.

  (* the text of a map key *)
  Definition key_text (t : option ty) (k : value) : option bytes :=
    match t with
    | None => Some []
    | Some t =>
      if flag t i_Stringer || flag t i_EnvStringer then Some (lf_key_text O t k)
      else match k with
           | VBool b => Some (if b then s_true else s_false)
           | VInt z => Some (dec_of_Z z)
           | VUint n => Some (dec_of_N n)
           | VFloat x => Some (lf_float O (kind_of t) x)
           | VComplex re im => Some (lf_complex O (kind_of t) re im)
           | VStr s => Some s
           | _ => None
           end
    end.

  Fixpoint all_some {A} (l : list (option A)) : option (list A) :=
    match l with
    | [] => Some []
    | Some x :: r => match all_some r with Some xs => Some (x :: xs) | None => None end
    | None :: _ => None
    end.

  (* the members of a struct *)
  Definition spec_members (at_ : ty -> value -> option json) (res : ty -> option ty) :
      list (finfo * ty) -> list value -> option (list (bytes * json)) :=
    fix go (fs : list (finfo * ty)) (vs : list value) {struct vs} : option (list (bytes * json)) :=
      match fs, vs with
      | [], [] => Some []
      | (fi, ft) :: fs', fv :: vs' =>
        match go fs' vs' with
        | None => None
        | Some ms =>
          if negb (f_exported fi) then Some ms
          else if bytes_eqb (f_tag fi) [45] then Some ms
          else
            let (tname, omit) := match f_tag fi with [] => ([], false) | tag => parse_tag tag end in
            let name := match tname with [] => f_name fi | _ => tname end in
            let skip := omit && match res ft with Some ft' => empty_spec ft' fv | None => false end in
            if skip then Some ms
            else match at_ ft fv with
                 | Some j => Some ((js_escape name, j) :: ms)
                 | None => None
                 end
        end
      | _, _ => None
      end.

  Definition json_at_with (rec : list ty -> ty -> value -> option json) (env : list ty) (tc : ty) (x : value) : option json :=
    match resolve env tc with
    | None => None
    | Some (env', t') =>
      if is_iface t' then
        match x with
        | VNil => Some JNull
        | VIface d x' => if is_iface d || is_rec d then None else rec [] d x'
        | _ => None
        end
      else rec env' t' x
    end.

  Definition key_at_spec (env : list ty) (tk : ty) (k : value) : option bytes :=
    match resolve env tk with
    | None => None
    | Some (_, tk') =>
      if is_iface tk' then
        match k with
        | VNil => key_text None VNil
        | VIface d k' => key_text (Some d) k'
        | _ => None
        end
      else key_text (Some tk') k
    end.

  Fixpoint json_of (env : list ty) (t : ty) (v : value) {struct v} : option json :=
    match trusted_case t with
    | Some c => trusted_json c t v
    | None =>
      if flag t w_Time then
        match v, f with
        | VTime x, FJS => match lf_time_js O x with Some txt => Some (JDate (date_body txt)) | None => None end
        | VTime x, FJSON => Some (JStr (lf_time_json O x))
        | _, _ => None
        end
      else if flag t i_Error then Some (JStr (js_escape (lf_error_text O t v)))
      else
        match v with
        | VBool b => Some (JBool b)
        | VInt z => Some (JNum (dec_of_Z z))
        | VUint n => Some (JNum (dec_of_N n))
        | VFloat x => Some (JNum (lf_float O (kind_of t) x))
        | VStr s => Some (JStr (js_escape s))
        | VBytes b => Some (JStr (base64 b))
        | VNilRef => Some JNull
        | VSeq xs =>
          match t with
          | TSlice _ e | TArr _ e =>
            match all_some (map (json_at_with json_of (t :: env) e) xs) with
            | Some js => Some (JArr js)
            | None => None
            end
          | _ => None
          end
        | VPtr x =>
          match t with
          | TPtr _ e => json_at_with json_of (t :: env) e x
          | _ => None
          end
        | VMap kvs =>
          match t with
          | TMap _ tk te =>
            match all_some (map (fun kx : value * value =>
                                   match key_at_spec (t :: env) tk (fst kx), json_at_with json_of (t :: env) te (snd kx) with
                                   | Some k, Some j => Some (k, j)
                                   | _, _ => None
                                   end) kvs) with
            | Some ms => Some (JObj (map (fun m : bytes * json => (js_escape (fst m), snd m)) (sort_kv ms)))
            | None => None
            end
          | _ => None
          end
        | VStruct vs =>
          match t with
          | TStruct _ fs =>
            match spec_members (json_at_with json_of (t :: env))
                               (fun ft => match resolve (t :: env) ft with Some (_, t') => Some t' | None => None end) fs vs with
            | Some ms => Some (JObj ms)
            | None => None
            end
          | _ => None
          end
        | _ => None
        end
    end.

  (* {{ v }} where the expression has the static type t *)
  Definition json_of_top (t : ty) (v : value) : option json :=
    match t with
    | TRec _ => None
    | _ => json_at_with json_of [] t v
    end.
End Spec.

(* which case of the head of json_of applies to a type *)
Inductive hcase := HTrusted (c : N) | HTime | HError | HPlain.

Definition head_case (f : showfn) (t : ty) : hcase :=
  match trusted_case f t with
  | Some c => HTrusted c
  | None => if flag t w_Time then HTime else if flag t i_Error then HError else HPlain
  end.
