(* Executable model of internal/compiler/constant.go (property C02): the
   representation classes of constants, the promotion toSameConstImpl, unary
   and binary operations, shifts with shiftConstError, representedBy, equals,
   zero, and the classification of literals.  No proofs in this file.

   Bounds, precisions and the range conditions of int64Const.representedBy
   come from the generated file Facts_consts.v. *)
From Coq Require Import ZArith List Bool.
From Verif Require Import Facts_consts.
Import ListNotations.
Open Scope Z_scope.

(* ------------------------------------------------------------------ kinds *)

Inductive kind :=
| KBool | KString
| KInt | KInt8 | KInt16 | KInt32 | KInt64
| KUint | KUint8 | KUint16 | KUint32 | KUint64 | KUintptr
| KFloat32 | KFloat64 | KComplex64 | KComplex128.

(* the reflect.Kind number *)
Definition kind_num (k : kind) : Z :=
  match k with
  | KBool => gen_kind_Bool | KString => gen_kind_String
  | KInt => gen_kind_Int | KInt8 => gen_kind_Int8 | KInt16 => gen_kind_Int16
  | KInt32 => gen_kind_Int32 | KInt64 => gen_kind_Int64
  | KUint => gen_kind_Uint | KUint8 => gen_kind_Uint8 | KUint16 => gen_kind_Uint16
  | KUint32 => gen_kind_Uint32 | KUint64 => gen_kind_Uint64 | KUintptr => gen_kind_Uintptr
  | KFloat32 => gen_kind_Float32 | KFloat64 => gen_kind_Float64
  | KComplex64 => gen_kind_Complex64 | KComplex128 => gen_kind_Complex128
  end.

Definition is_signed_kind (k : kind) : bool :=
  match k with KInt | KInt8 | KInt16 | KInt32 | KInt64 => true | _ => false end.
Definition is_unsigned_kind (k : kind) : bool :=
  match k with KUint | KUint8 | KUint16 | KUint32 | KUint64 | KUintptr => true | _ => false end.
Definition is_integer_kind (k : kind) : bool := is_signed_kind k || is_unsigned_kind k.
Definition is_float_kind (k : kind) : bool :=
  match k with KFloat32 | KFloat64 => true | _ => false end.
Definition is_complex_kind (k : kind) : bool :=
  match k with KComplex64 | KComplex128 => true | _ => false end.
Definition is_numeric_kind (k : kind) : bool :=
  is_integer_kind k || is_float_kind k || is_complex_kind k.

(* ------------------------------------------------------------------ results *)

Inductive err :=
| ENotRepr | EInvalid | EDiv0 | ECDiv0
| EShiftNeg | EShiftLarge | EShiftTrunc | EShiftOvfUint
| EShlOverflow | EAddOverflow | ESubOverflow | EMulOverflow
| ETruncInt | ETruncReal | EOverflows | ETooLarge.

(* Fault: the Go code panics (nil dereference after an ignored error, index
   out of range) or returns a constant holding a nil big.Int. *)
Inductive res (A : Type) :=
| Ok (a : A)
| Err (e : err)
| Fault.
Arguments Ok {A} a.
Arguments Err {A} e.
Arguments Fault {A}.

Definition bind {A B} (r : res A) (f : A -> res B) : res B :=
  match r with Ok a => f a | Err e => Err e | Fault => Fault end.

(* ------------------------------------------------------------------ integers *)

Definition min64 : Z := - 2 ^ 63.
Definition max64 : Z := 2 ^ 63 - 1.
Definition maxu64 : Z := 2 ^ 64 - 1.

(* Go int64 arithmetic wraps *)
Definition wrap64 (z : Z) : Z := (z + 2 ^ 63) mod 2 ^ 64 - 2 ^ 63.

(* big.Int.BitLen *)
Definition bitlen (z : Z) : Z := if z =? 0 then 0 else Z.log2 (Z.abs z) + 1.

Definition is_int64 (z : Z) : bool := (min64 <=? z) && (z <=? max64).
Definition is_uint64 (z : Z) : bool := (0 <=? z) && (z <=? maxu64).

(* intConst.overflow *)
Definition big_overflow (z : Z) : bool := gen_int_maxbits <? bitlen z.

(* ------------------------------------------------------------------ floats
   A binary floating point number (float64Const holds one with at most 53
   bits in the float64 exponent range, floatConst one with at most
   gen_bigfloat_prec bits).  FFin neg m e denotes (-1)^neg * m * 2^e; the
   canonical form has m odd. *)

Inductive fl :=
| FZero (neg : bool)
| FFin (neg : bool) (m : positive) (e : Z).

Fixpoint pos_norm (m : positive) (e : Z) : positive * Z :=
  match m with
  | xO m' => pos_norm m' (e + 1)
  | _ => (m, e)
  end.

(* magnitude m (>= 0) times 2^e with sign neg, in canonical form *)
Definition mkfl (neg : bool) (m : Z) (e : Z) : fl :=
  match m with
  | Zpos p => let (p', e') := pos_norm p e in FFin neg p' e'
  | _ => FZero neg
  end.

Definition fl_of_Z (z : Z) : fl := mkfl (z <? 0) (Z.abs z) 0.

Definition fl_is_zero (f : fl) : bool := match f with FZero _ => true | _ => false end.
Definition fl_neg_sign (f : fl) : bool := match f with FZero n => n | FFin n _ _ => n end.
Definition fl_opp (f : fl) : fl :=
  match f with FZero n => FZero (negb n) | FFin n m e => FFin (negb n) m e end.

(* signed mantissa and exponent: value = fl_m f * 2^(fl_e f) *)
Definition fl_m (f : fl) : Z :=
  match f with FZero _ => 0 | FFin n m _ => if n then Zneg m else Zpos m end.
Definition fl_e (f : fl) : Z := match f with FZero _ => 0 | FFin _ _ e => e end.

(* big.Float.MinPrec: number of mantissa bits *)
Definition fl_minprec (f : fl) : Z :=
  match f with FZero _ => 0 | FFin _ m _ => Z.log2 (Zpos m) + 1 end.

(* exact comparison of values *)
Definition fl_cmp (a b : fl) : comparison :=
  let e := Z.min (fl_e a) (fl_e b) in
  Z.compare (fl_m a * 2 ^ (fl_e a - e)) (fl_m b * 2 ^ (fl_e b - e)).

Definition fl_is_int (f : fl) : bool :=
  match f with FZero _ => true | FFin _ _ e => 0 <=? e end.
(* integer value (of an integral float), truncated otherwise *)
Definition fl_to_Z (f : fl) : Z :=
  match f with
  | FZero _ => 0
  | FFin _ _ e => if 0 <=? e then fl_m f * 2 ^ e else Z.quot (fl_m f) (2 ^ (- e))
  end.

Definition fl_is_one (f : fl) : bool :=
  match f with FFin false 1%positive 0 => true | _ => false end.

(* Round the magnitude m * 2^e (with a sticky flag: some non-zero bits below
   the represented ones were already dropped) to prec bits, to nearest, ties
   to even; emin, if any, is the smallest exponent of the last place
   (subnormals).  Returns the rounded magnitude and its exponent. *)
Definition round_mag (prec : Z) (emin : option Z) (m : positive) (e : Z) (sticky : bool) : Z * Z :=
  let n := Z.log2 (Zpos m) + 1 in
  let sh := match emin with
            | Some em => Z.max (n - prec) (em - e)
            | None => n - prec
            end in
  if sh <=? 0 then (Zpos m, e)
  else
    let q := Z.shiftr (Zpos m) sh in
    let r := Z.land (Zpos m) (Z.ones sh) in
    let half := Z.shiftl 1 (sh - 1) in
    let up := (half <? r) || ((r =? half) && (sticky || Z.odd q)) in
    ((if up then q + 1 else q), e + sh).

(* rounding of a rational n/d (n, d > 0): a quotient with at least prec + 2
   bits, and whether a remainder was dropped *)
Definition quo_bits (prec : Z) (n d : positive) : positive * Z * bool :=
  let k := Z.max 0 (prec + 2 + (Z.log2 (Zpos d) + 1) - (Z.log2 (Zpos n) + 1)) in
  let num := Zpos n * 2 ^ k in
  let q := num / Zpos d in
  let r := num mod Zpos d in
  (Z.to_pos q, - k, negb (r =? 0)).

(* formats *)
Record fmt := { f_prec : Z; f_emin : option Z; f_maxexp : option Z }.
Definition fmt64 : fmt := {| f_prec := 53; f_emin := Some (-1074); f_maxexp := Some 1024 |}.
Definition fmt32 : fmt := {| f_prec := 24; f_emin := Some (-149); f_maxexp := Some 128 |}.
Definition fmtbig : fmt := {| f_prec := gen_bigfloat_prec; f_emin := None; f_maxexp := None |}.

(* None: the rounded value overflows the format (an infinity) *)
Definition round_pos (f : fmt) (neg : bool) (m : positive) (e : Z) (sticky : bool) : option fl :=
  let '(q, e') := round_mag (f_prec f) (f_emin f) m e sticky in
  match f_maxexp f with
  | Some mx => if mx <? bitlen q + e' then None else Some (mkfl neg q e')
  | None => Some (mkfl neg q e')
  end.

Definition round_fl (f : fmt) (x : fl) : option fl :=
  match x with
  | FZero n => Some (FZero n)
  | FFin n m e => round_pos f n m e false
  end.

Definition round_Z (f : fmt) (z : Z) : option fl :=
  match z with
  | Z0 => Some (FZero false)
  | Zpos p => round_pos f false p 0 false
  | Zneg p => round_pos f true p 0 false
  end.

(* n/d with d > 0 *)
Definition round_rat (f : fmt) (n : Z) (d : positive) : option fl :=
  match n with
  | Z0 => Some (FZero false)
  | Zpos p => let '(q, e, s) := quo_bits (f_prec f) p d in round_pos f false q e s
  | Zneg p => let '(q, e, s) := quo_bits (f_prec f) p d in round_pos f true q e s
  end.

Definition big_round_fl (x : fl) : fl := match round_fl fmtbig x with Some r => r | None => x end.
Definition big_of_Z (z : Z) : fl := match round_Z fmtbig z with Some r => r | None => FZero false end.
Definition big_of_rat (n : Z) (d : positive) : fl :=
  match round_rat fmtbig n d with Some r => r | None => FZero false end.

(* exact sum of two finite floats as mantissa and exponent *)
Definition fl_sum_mz (a b : fl) (sub : bool) : Z * Z :=
  let e := Z.min (fl_e a) (fl_e b) in
  let mb := fl_m b * 2 ^ (fl_e b - e) in
  (fl_m a * 2 ^ (fl_e a - e) + (if sub then - mb else mb), e).

Definition big_of_mz (m e : Z) : fl :=
  match m with
  | Z0 => FZero false
  | Zpos p => match round_pos fmtbig false p e false with Some r => r | None => FZero false end
  | Zneg p => match round_pos fmtbig true p e false with Some r => r | None => FZero false end
  end.

(* big.Float.Add / Sub / Mul / Quo at the precision of floatConst *)
Definition fl_add (x y : fl) : fl :=
  match x, y with
  | FZero a, FZero b => FZero (a && b)
  | _, FZero _ => big_round_fl x
  | FZero _, _ => big_round_fl y
  | _, _ => let (m, e) := fl_sum_mz x y false in big_of_mz m e
  end.

Definition fl_sub (x y : fl) : fl :=
  match x, y with
  | FZero a, FZero b => FZero (a && negb b)
  | _, FZero _ => big_round_fl x
  | FZero _, _ => big_round_fl (fl_opp y)
  | _, _ => let (m, e) := fl_sum_mz x y true in big_of_mz m e
  end.

Definition fl_mul (x y : fl) : fl :=
  match x, y with
  | FFin a m1 e1, FFin b m2 e2 =>
    match round_pos fmtbig (xorb a b) (m1 * m2)%positive (e1 + e2) false with Some r => r | None => FZero false end
  | _, _ => FZero (xorb (fl_neg_sign x) (fl_neg_sign y))
  end.

(* y is not zero *)
Definition fl_quo (x y : fl) : fl :=
  match x, y with
  | FFin a m1 e1, FFin b m2 e2 =>
    let '(q, e, s) := quo_bits gen_bigfloat_prec m1 m2 in
    match round_pos fmtbig (xorb a b) q (e + e1 - e2) s with Some r => r | None => FZero false end
  | _, _ => FZero (xorb (fl_neg_sign x) (fl_neg_sign y))
  end.

(* ------------------------------------------------------------------ rationals *)

(* lowest terms, positive denominator; d > 0 *)
Definition mkrat (n d : Z) : Z * positive :=
  let g := Z.gcd n d in
  if g =? 0 then (0, 1%positive) else (n / g, Z.to_pos (d / g)).

Definition rat_of_fl (f : fl) : Z * positive :=
  match f with
  | FZero _ => (0, 1%positive)
  | FFin _ _ e => if 0 <=? e then (fl_m f * 2 ^ e, 1%positive) else (fl_m f, Z.to_pos (2 ^ (- e)))
  end.

(* ------------------------------------------------------------------ constants *)

(* number constants that are not complex *)
Inductive rc :=
| I64 (z : Z)                 (* int64Const *)
| Big (z : Z)                 (* intConst *)
| F64 (f : fl)                (* float64Const *)
| BigF (f : fl)               (* floatConst *)
| Rat (n : Z) (d : positive). (* ratConst *)

Inductive cst :=
| Num (r : rc)
| Cplx (re im : rc)           (* complexConst *)
| Str (s : list N)            (* stringConst *)
| Bool (b : bool).            (* boolConst *)

Inductive op :=
| OEq | ONe | OLt | OLe | OGt | OGe | ONot | OBitAnd | OBitOr | OAnd | OOr
| OAdd | OSub | OMul | ODiv | OMod | OXor | OAndNot | OShl | OShr.

Definition is_cmp_op (o : op) : bool :=
  match o with OEq | ONe | OLt | OLe | OGt | OGe => true | _ => false end.

Definition cmp_result (o : op) (c : comparison) : bool :=
  match o, c with
  | OEq, Eq => true | OEq, _ => false
  | ONe, Eq => false | ONe, _ => true
  | OLt, Lt => true | OLt, _ => false
  | OLe, Gt => false | OLe, _ => true
  | OGt, Gt => true | OGt, _ => false
  | OGe, Lt => false | OGe, _ => true
  | _, _ => false
  end.

(* zero() *)
Definition rc_zero (c : rc) : bool :=
  match c with
  | I64 z | Big z => z =? 0
  | F64 f | BigF f => fl_is_zero f
  | Rat n _ => n =? 0
  end.

Definition cst_zero (c : cst) : bool :=
  match c with
  | Num r => rc_zero r
  | Cplx re im => rc_zero re && rc_zero im
  | Str s => match s with [] => true | _ => false end
  | Bool b => negb b
  end.

(* ------------------------------------------------------------------ toSameConstImpl *)

Definition class_rank (c : rc) : Z :=
  match c with I64 _ => 0 | Big _ => 1 | F64 _ => 2 | BigF _ => 3 | Rat _ _ => 4 end.

(* c1 of lower rank than c2; both results have the same class *)
Definition to_same_ordered (c1 c2 : rc) : rc * rc :=
  match c1, c2 with
  | I64 a, Big _ => (Big a, c2)
  | I64 a, F64 f => (BigF (fl_of_Z a), BigF f)
  | I64 a, BigF _ => (BigF (fl_of_Z a), c2)
  | I64 a, Rat _ _ => (Rat a 1, c2)
  | Big a, F64 f => (BigF (big_of_Z a), BigF f)
  | Big a, BigF _ => (BigF (big_of_Z a), c2)
  | Big a, Rat _ _ => (Rat a 1, c2)
  | F64 f, BigF _ => (BigF f, c2)
  | F64 f, Rat _ _ => (let (n, d) := rat_of_fl f in Rat n d, c2)
  | BigF _, Rat n d => (c1, BigF (big_of_rat n d))
  | _, _ => (c1, c2)
  end.

Definition to_same (c1 c2 : rc) : rc * rc :=
  if class_rank c1 <=? class_rank c2 then to_same_ordered c1 c2
  else let (d2, d1) := to_same_ordered c2 c1 in (d1, d2).

(* ------------------------------------------------------------------ same class binary operations *)

Definition bin_big (o : op) (a b : Z) : res cst :=
  match o with
  | OEq | ONe | OLt | OLe | OGt | OGe => Ok (Bool (cmp_result o (Z.compare a b)))
  | OAdd => if big_overflow (a + b) then Err EAddOverflow else Ok (Num (Big (a + b)))
  | OSub => if big_overflow (a - b) then Err ESubOverflow else Ok (Num (Big (a - b)))
  | OMul => if big_overflow (a * b) then Err EMulOverflow else Ok (Num (Big (a * b)))
  | ODiv => if b =? 0 then Err EDiv0 else Ok (Num (Big (Z.quot a b)))
  | OMod => if b =? 0 then Err EDiv0 else Ok (Num (Big (Z.rem a b)))
  | OBitAnd => Ok (Num (Big (Z.land a b)))
  | OBitOr => Ok (Num (Big (Z.lor a b)))
  | OXor => Ok (Num (Big (Z.lxor a b)))
  | OAndNot => Ok (Num (Big (Z.ldiff a b)))
  | _ => Err EInvalid
  end.

(* the int64 fast path; the overflow tests are those of the code *)
Definition bin_i64 (o : op) (a b : Z) : res cst :=
  match o with
  | OEq | ONe | OLt | OLe | OGt | OGe => Ok (Bool (cmp_result o (Z.compare a b)))
  | OAdd =>
    let n := wrap64 (a + b) in
    if negb (Bool.eqb (n <? a) (b <? 0)) then bin_big o a b else Ok (Num (I64 n))
  | OSub =>
    let n := wrap64 (a - b) in
    if negb (Bool.eqb (n <? a) (0 <? b)) then bin_big o a b else Ok (Num (I64 n))
  | OMul =>
    if (a =? 0) || (b =? 0) then Ok (Num (I64 0))
    else
      let n := wrap64 (a * b) in
      if negb (Bool.eqb (n <? 0) (negb (Bool.eqb (a <? 0) (b <? 0)))) || negb (wrap64 (Z.quot n b) =? a)
      then bin_big o a b else Ok (Num (I64 n))
  | ODiv =>
    if b =? 0 then Err EDiv0
    else if (a =? min64) && (b =? -1) then bin_big o a b
    else Ok (Num (I64 (wrap64 (Z.quot a b))))
  | OMod => if b =? 0 then Err EDiv0 else Ok (Num (I64 (Z.rem a b)))
  | OBitAnd => Ok (Num (I64 (Z.land a b)))
  | OBitOr => Ok (Num (I64 (Z.lor a b)))
  | OXor => Ok (Num (I64 (Z.lxor a b)))
  | OAndNot => Ok (Num (I64 (Z.ldiff a b)))
  | _ => Err EInvalid
  end.

Definition bin_bigf (o : op) (x y : fl) : res cst :=
  match o with
  | OEq | ONe | OLt | OLe | OGt | OGe => Ok (Bool (cmp_result o (fl_cmp x y)))
  | OAdd => Ok (Num (BigF (fl_add x y)))
  | OSub => Ok (Num (BigF (fl_sub x y)))
  | OMul => Ok (Num (BigF (fl_mul x y)))
  | ODiv => if fl_is_zero y then Err EDiv0 else Ok (Num (BigF (fl_quo x y)))
  | _ => Err EInvalid
  end.

(* float64Const: the shortcuts, then floatConst arithmetic *)
Definition bin_f64 (o : op) (x y : fl) : res cst :=
  match o with
  | OEq | ONe | OLt | OLe | OGt | OGe => Ok (Bool (cmp_result o (fl_cmp x y)))
  | OAdd =>
    if fl_is_zero x then Ok (Num (F64 y))
    else if fl_is_zero y then Ok (Num (F64 x))
    else bin_bigf o x y
  | OSub => if fl_is_zero y then Ok (Num (F64 x)) else bin_bigf o x y
  | OMul =>
    if fl_is_zero x || fl_is_zero y then Ok (Num (F64 (FZero false)))
    else if fl_is_one x then Ok (Num (F64 y))
    else if fl_is_one y then Ok (Num (F64 x))
    else bin_bigf o x y
  | ODiv =>
    if fl_is_zero y then Err EDiv0
    else if fl_is_one y then Ok (Num (F64 x))
    else bin_bigf o x y
  | _ => Err EInvalid
  end.

Definition rat_cmp (n1 : Z) (d1 : positive) (n2 : Z) (d2 : positive) : comparison :=
  Z.compare (n1 * Zpos d2) (n2 * Zpos d1).

Definition mk_rat_cst (n d : Z) : cst := let (n', d') := mkrat n d in Num (Rat n' d').

Definition bin_rat (o : op) (n1 : Z) (d1 : positive) (n2 : Z) (d2 : positive) : res cst :=
  match o with
  | OEq | ONe | OLt | OLe | OGt | OGe => Ok (Bool (cmp_result o (rat_cmp n1 d1 n2 d2)))
  | OAdd => Ok (mk_rat_cst (n1 * Zpos d2 + n2 * Zpos d1) (Zpos d1 * Zpos d2))
  | OSub => Ok (mk_rat_cst (n1 * Zpos d2 - n2 * Zpos d1) (Zpos d1 * Zpos d2))
  | OMul => Ok (mk_rat_cst (n1 * n2) (Zpos d1 * Zpos d2))
  | ODiv =>
    if n2 =? 0 then Err EDiv0
    else if n2 <? 0 then Ok (mk_rat_cst (- (n1 * Zpos d2)) (Zpos d1 * - n2))
    else Ok (mk_rat_cst (n1 * Zpos d2) (Zpos d1 * n2))
  | _ => Err EInvalid
  end.

(* operands of the same class *)
Definition bin_same (o : op) (c1 c2 : rc) : res cst :=
  match c1, c2 with
  | I64 a, I64 b => bin_i64 o a b
  | Big a, Big b => bin_big o a b
  | F64 x, F64 y => bin_f64 o x y
  | BigF x, BigF y => bin_bigf o x y
  | Rat n1 d1, Rat n2 d2 => bin_rat o n1 d1 n2 d2
  | _, _ => Fault
  end.

(* binaryOp for an operator that is not a shift *)
Definition bin_arith (o : op) (c1 c2 : rc) : res cst :=
  if class_rank c1 =? class_rank c2 then bin_same o c1 c2
  else let (d1, d2) := to_same c1 c2 in bin_same o d1 d2.

(* ------------------------------------------------------------------ representedBy *)

Definition nth_Z (l : list Z) (i : Z) : option Z :=
  if i <? 0 then None else nth_error l (Z.to_nat i).

Definition repr_i64 (k : kind) (n : Z) : res rc :=
  match gen_repr_i64 (kind_num k) n with
  | Some true => Ok (I64 n)
  | Some false => Err EOverflows
  | None =>
    match k with
    | KFloat32 | KComplex64 =>
      match round_Z fmt32 n with Some f => Ok (F64 f) | None => Fault end
    | KFloat64 | KComplex128 =>
      match round_Z fmt64 n with Some f => Ok (F64 f) | None => Fault end
    | _ => Err ENotRepr
    end
  end.

Definition fl_le (a b : fl) : bool := match fl_cmp a b with Gt => false | _ => true end.

Definition repr_f64 (k : kind) (f : fl) : res rc :=
  if is_signed_kind k then
    if fl_le (fl_of_Z gen_f64_int_lo) f && fl_le f (fl_of_Z gen_f64_int_hi) && fl_is_int f
    then repr_i64 k (fl_to_Z f) else Err ETruncInt
  else if is_unsigned_kind k then
    if fl_le (fl_of_Z gen_f64_uint_lo) f && fl_le f (fl_of_Z gen_f64_uint_hi) && fl_is_int f
    then
      let n := fl_to_Z f in
      if gen_maxInt64 <? n then
        (* intConst.representedBy of a value above MaxInt64 *)
        match k with
        | KUint64 => Ok (Big n)
        | KUint | KUintptr => if gen_intsize =? 64 then Ok (Big n) else Err EOverflows
        | _ => Err EOverflows
        end
      else repr_i64 k n
    else Err ETruncInt
  else match k with
       | KFloat32 | KComplex64 =>
         match round_fl fmt32 f with Some r => Ok (F64 r) | None => Err EOverflows end
       | KFloat64 | KComplex128 => Ok (F64 f)
       | _ => Err ENotRepr
       end.

Definition repr_big (k : kind) (z : Z) : res rc :=
  if is_int64 z then repr_i64 k z
  else if is_uint64 z && (match k with
                          | KUint64 => true
                          | KUint | KUintptr => gen_intsize =? 64
                          | _ => false
                          end)
  then Ok (Big z)
  else if is_integer_kind k then Err EOverflows
  else if is_float_kind k || is_complex_kind k then
    (* newFloatConst(0).setInt(c1.i).representedBy(typ) *)
    let f := big_of_Z z in
    match k with
    | KFloat32 | KComplex64 =>
      match round_fl fmt32 f with Some r => Ok (F64 r) | None => Err EOverflows end
    | _ =>
      match round_fl fmt64 f with Some r => repr_f64 k r | None => Err EOverflows end
    end
  else Err ENotRepr.

Definition repr_bigf (k : kind) (f : fl) : res rc :=
  if is_signed_kind k then
    if fl_is_int f && is_int64 (fl_to_Z f) then repr_i64 k (fl_to_Z f) else Err ETruncInt
  else if is_unsigned_kind k then
    if fl_is_int f && is_uint64 (fl_to_Z f) && negb (fl_neg_sign f && negb (fl_is_zero f))
    then (if fl_to_Z f <=? gen_maxInt64 then repr_i64 k (fl_to_Z f) else repr_big k (fl_to_Z f))
    else Err ETruncInt
  else match k with
       | KFloat32 | KComplex64 =>
         match round_fl fmt32 f with Some r => Ok (F64 r) | None => Err EOverflows end
       | _ =>
         match round_fl fmt64 f with
         | Some r => repr_f64 k r
         | None => if is_float_kind k || is_complex_kind k then Err EOverflows else Err ENotRepr
         end
       end.

Definition fl_same_value (a b : fl) : bool := match fl_cmp a b with Eq => true | _ => false end.

Definition repr_rat (k : kind) (n : Z) (d : positive) : res rc :=
  if (d =? 1)%positive then repr_big k n
  else if is_integer_kind k then Err ETruncInt
  else
    (* rounded once, by big.Rat.Float32 / big.Rat.Float64 *)
    match k with
    | KFloat32 | KComplex64 =>
      match round_rat fmt32 n d with Some f => Ok (F64 f) | None => Err EOverflows end
    | KFloat64 | KComplex128 =>
      match round_rat fmt64 n d with Some f => Ok (F64 f) | None => Err EOverflows end
    | _ => Err ENotRepr
    end.

Definition repr_rc (k : kind) (c : rc) : res rc :=
  match c with
  | I64 n => repr_i64 k n
  | Big z => repr_big k z
  | F64 f => repr_f64 k f
  | BigF f => repr_bigf k f
  | Rat n d => repr_rat k n d
  end.

Definition repr (k : kind) (c : cst) : res cst :=
  match c with
  | Bool b => match k with KBool => Ok c | _ => Err ENotRepr end
  | Str s => match k with KString => Ok c | _ => Err ENotRepr end
  | Num r => bind (repr_rc k r) (fun r' => Ok (Num r'))
  | Cplx re im =>
    if rc_zero im then bind (repr_rc k re) (fun r' => Ok (Num r'))
    else match k with
         | KComplex64 | KComplex128 =>
           let t := match k with KComplex64 => KFloat32 | _ => KFloat64 end in
           bind (repr_rc t re) (fun re' => bind (repr_rc t im) (fun im' => Ok (Cplx re' im')))
         | KFloat32 | KFloat64 => Err ETruncReal
         | KBool | KString => Err ENotRepr
         | _ => Err ETruncInt
         end
  end.

(* ------------------------------------------------------------------ shifts *)

(* the value of c.uint64() for a constant that representedBy(uint) accepted *)
Definition rc_uint (c : rc) : Z :=
  match c with
  | I64 z | Big z => z
  | F64 f | BigF f => fl_to_Z f
  | Rat n _ => n
  end.

Definition cst_uint (c : cst) : Z :=
  match c with Num r => rc_uint r | Cplx re _ => rc_uint re | _ => 0 end.

(* shiftConstError: None = the count is usable.  zero1: the left operand is
   zero.  A count above gen_shift_count_max is rejected for both shifts; a
   left shift count of at least gen_shift_limit is rejected unless the left
   operand is zero. *)
Definition shift_const_error (o : op) (zero1 : bool) (c : cst) : option err :=
  match repr KUint c with
  | Ok c' =>
    if (match o with OShl => negb zero1 | _ => false end) && (gen_shift_limit <=? cst_uint c') then Some EShiftLarge
    else if gen_shift_count_max <? cst_uint c' then Some EShiftLarge
    else None
  | _ =>
    match c with
    | Num (I64 n) | Num (Big n) => if n <? 0 then Some EShiftNeg else Some EShiftOvfUint
    | _ => Some EShiftTrunc
    end
  end.

(* z >> sc (arithmetic).  A count of at least the bit length gives 0 or -1;
   written this way so that huge counts do not iterate. *)
Definition shr (z sc : Z) : Z :=
  if bitlen z <=? sc then (if z <? 0 then -1 else 0) else Z.shiftr z sc.

(* intConst shift (int64Const differs only for the right shift) *)
Definition shift_int (o : op) (small : bool) (z : Z) (c2 : cst) : res cst :=
  match shift_const_error o (z =? 0) c2 with
  | Some e => Err e
  | None =>
    let sc := cst_uint c2 in
    match o with
    | OShl =>
      let r := z * 2 ^ sc in
      if big_overflow r then Err EShlOverflow else Ok (Num (Big r))
    | _ =>
      if small then Ok (Num (I64 (shr z sc)))
      else
        (* also the result of a right shift is checked: the left operand can
           be a float or rational constant with an integer value above the limit *)
        let r := shr z sc in
        if big_overflow r then Err EShlOverflow else Ok (Num (Big r))
    end
  end.

Definition shift_rc (o : op) (c1 : rc) (c2 : cst) : res cst :=
  match c1 with
  | I64 z => shift_int o true z c2
  | Big z => shift_int o false z c2
  | F64 f | BigF f => if fl_is_int f then shift_int o false (fl_to_Z f) c2 else Err ETruncInt
  | Rat n d => if (d =? 1)%positive then shift_int o false n c2 else Err ETruncInt
  end.

(* ------------------------------------------------------------------ binaryOp *)

Definition is_shift (o : op) : bool := match o with OShl | OShr => true | _ => false end.

Definition get_rc (r : res cst) : res rc :=
  match r with
  | Ok (Num x) => Ok x
  | Ok _ => Fault
  | Err e => Err e   (* the complex operations return the error of a part operation *)
  | Fault => Fault
  end.

Definition get_bool (r : res cst) : res bool :=
  match r with Ok (Bool b) => Ok b | _ => Fault end.

Definition part (o : op) (a b : rc) : res rc := get_rc (bin_arith o a b).

Notation "x <- e ;; f" := (bind e (fun x => f)) (at level 61, e at next level, right associativity).

(* sumOfProducts: a*b o c*d, or the error of the first operation that fails *)
Definition sum_of_products (a b : rc) (o : op) (c d : rc) : res rc :=
  ab <- part OMul a b ;;
  cd <- part OMul c d ;;
  part o ab cd.

Definition bin_cplx (o : op) (a b c d : rc) : res cst :=
  match o with
  | OEq | ONe =>
    re <- get_bool (bin_arith OEq a c) ;;
    im <- get_bool (bin_arith OEq b d) ;;
    Ok (Bool (Bool.eqb (re && im) (match o with OEq => true | _ => false end)))
  | OAdd | OSub =>
    re <- part o a c ;;
    im <- part o b d ;;
    Ok (Cplx re im)
  | OMul =>
    re <- sum_of_products a c OSub b d ;;
    im <- sum_of_products b c OAdd a d ;;
    Ok (Cplx re im)
  | ODiv =>
    if rc_zero c && rc_zero d then Err ECDiv0
    else
      s <- sum_of_products c c OAdd d d ;;
      if rc_zero s then Err ECDiv0
      else
        re <- sum_of_products a c OAdd b d ;;
        im <- sum_of_products b c OSub a d ;;
        let s' := match s with
                  | I64 z | Big z => Rat z 1
                  | _ => s
                  end in
        qr <- part ODiv re s' ;;
        qi <- part ODiv im s' ;;
        Ok (Cplx qr qi)
  | _ => Err EInvalid
  end.

Fixpoint bytes_compare (a b : list N) : comparison :=
  match a, b with
  | [], [] => Eq
  | [], _ => Lt
  | _, [] => Gt
  | x :: a', y :: b' =>
    match N.compare x y with Eq => bytes_compare a' b' | c => c end
  end.

Definition binary_op (o : op) (c1 c2 : cst) : res cst :=
  match c1, c2 with
  | Bool a, Bool b =>
    match o with
    | OEq => Ok (Bool (Bool.eqb a b))
    | ONe => Ok (Bool (negb (Bool.eqb a b)))
    | OAnd => Ok (Bool (a && b))
    | OOr => Ok (Bool (a || b))
    | _ => Err EInvalid
    end
  | Str a, Str b =>
    match o with
    | OEq | ONe | OLt | OLe | OGt | OGe => Ok (Bool (cmp_result o (bytes_compare a b)))
    | OAdd => Ok (Str (a ++ b))
    | _ => Err EInvalid
    end
  | Num a, Num b => if is_shift o then shift_rc o a c2 else bin_arith o a b
  | Num a, Cplx c d => if is_shift o then shift_rc o a c2 else bin_cplx o a (I64 0) c d
  | Cplx a b, Num c =>
    if is_shift o then (if rc_zero b then shift_rc o a c2 else Err ETruncInt)
    else bin_cplx o a b c (I64 0)
  | Cplx a b, Cplx c d =>
    if is_shift o then (if rc_zero b then shift_rc o a c2 else Err ETruncInt)
    else bin_cplx o a b c d
  | _, _ => Fault   (* a failed type assertion *)
  end.

(* ------------------------------------------------------------------ unaryOp *)

(* typ = None models a nil reflect.Type *)
Definition unary_rc (o : op) (k : option kind) (c : rc) : res rc :=
  match o, c with
  | OAdd, _ => Ok c
  | OSub, I64 z => if z =? min64 then Ok (Big (- z)) else Ok (I64 (- z))
  | OSub, Big z => Ok (Big (- z))
  | OSub, F64 f => Ok (F64 (fl_opp f))
  | OSub, BigF f => Ok (BigF (fl_opp f))
  | OSub, Rat n d => Ok (Rat (- n) d)
  | OXor, I64 z =>
    match k with
    | None => Fault
    | Some k =>
      if is_signed_kind k then Ok (I64 (Z.lnot z))
      else match nth_Z gen_maxUnsignedValues (kind_num k - gen_kind_Uint) with
           | None => Fault
           | Some mx =>
             let c := Z.lxor mx (z mod 2 ^ 64) in
             if gen_maxInt64 <? c then
               match nth_Z gen_maxBigUnsignedValues (kind_num k - gen_kind_Uint) with
               | None => Fault
               | Some mb => Ok (Big (Z.lxor mb z))
               end
             else Ok (I64 c)
           end
    end
  | OXor, Big z =>
    match k with
    | None => Fault
    | Some k =>
      if is_signed_kind k then Ok (Big (Z.lxor (-1) z))
      else match nth_Z gen_maxBigUnsignedValues (kind_num k - gen_kind_Uint) with
           | None => Fault
           | Some mb => Ok (Big (Z.lxor mb z))
           end
    end
  | _, _ => Err EInvalid
  end.

Definition unary_op (o : op) (k : option kind) (c : cst) : res cst :=
  match c with
  | Bool b => match o with ONot => Ok (Bool (negb b)) | _ => Err EInvalid end
  | Str _ => Err EInvalid
  | Num r => bind (unary_rc o k r) (fun r' => Ok (Num r'))
  | Cplx re im =>
    match o with
    | OAdd => Ok c
    | OSub =>
      match unary_rc OSub None re, unary_rc OSub None im with
      | Ok re', Ok im' => Ok (Cplx re' im')
      | _, _ => Fault
      end
    | _ => Err EInvalid
    end
  end.

(* ------------------------------------------------------------------ equals *)

Definition rc_equals (c1 c2 : rc) : bool :=
  let (d1, d2) := if class_rank c1 =? class_rank c2 then (c1, c2) else to_same c1 c2 in
  match d1, d2 with
  | I64 a, I64 b | Big a, Big b => a =? b
  | F64 x, F64 y | BigF x, BigF y => fl_same_value x y
  | Rat n1 e1, Rat n2 e2 => match rat_cmp n1 e1 n2 e2 with Eq => true | _ => false end
  | _, _ => false
  end.

Definition equals (c1 c2 : cst) : bool :=
  match c1, c2 with
  | Bool a, Bool b => Bool.eqb a b
  | Str a, Str b => match bytes_compare a b with Eq => true | _ => false end
  | Num a, Num b => rc_equals a b
  | Num a, Cplx c d => rc_equals a c && rc_equals (I64 0) d
  | Cplx a b, Num c => rc_equals a c && rc_equals b (I64 0)
  | Cplx a b, Cplx c d => rc_equals a c && rc_equals b d
  | _, _ => false
  end.

(* ------------------------------------------------------------------ literals *)

(* integer literal with value z *)
Definition lit_int (z : Z) : res cst :=
  if big_overflow z then Err ETooLarge
  else if is_int64 z then Ok (Num (I64 z)) else Ok (Num (Big z)).

(* float literal whose text denotes exactly n/d (lowest terms) *)
Definition lit_float (n : Z) (d : positive) : res cst :=
  let x := big_of_rat n d in
  let short :=
    if fl_minprec x <? gen_lit_minprec then
      match round_fl fmt64 x with
      | Some r => if fl_same_value r x then Some r else None
      | None => None
      end
    else None in
  match short with
  | Some r => Ok (Num (F64 r))
  | None =>
    (* MantExp: x = mant * 2^exp with 0.5 <= mant < 1 *)
    let exp := fl_minprec x + fl_e x in
    if (- gen_lit_maxexp <? exp) && (exp <? gen_lit_maxexp) then Ok (Num (Rat n d))
    else Ok (Num (BigF x))
  end.

Definition lit_imag (r : res cst) : res cst :=
  match r with
  | Ok (Num im) => Ok (Cplx (I64 0) im)
  | Ok _ => Fault
  | Err e => Err e
  | Fault => Fault
  end.
