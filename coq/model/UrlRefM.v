(* C07, URL attributes: the reference decoder of a URL attribute value (the
   spec side) and the view of one URL attribute of a template as a sequence of
   texts and shown strings.

   Reference decoder, as a browser reads href / src / action: the attribute
   value is decoded as HTML (character references, HtmlDecode), the fragment
   is what follows the first number sign, the query what follows the first
   question mark of the rest; the query is split at every ampersand into
   pairs, a pair at its first equals sign into a key and a value; path and
   fragment are percent-decoded, keys and values are percent-decoded with plus
   as space.  Written from the URL standard (URL parsing, percent-decode,
   application/x-www-form-urlencoded parsing), independently of the renderer;
   validated against html.UnescapeString + net/url by the harness.  Empty
   pairs are kept here (URLSearchParams and url.ParseQuery drop them).

   No proofs here. *)
From Coq Require Import List NArith Bool.
From Verif Require Import Bytes Utf8 HtmlDecode Decoders.
Import ListNotations.
Open Scope N_scope.

(* split at the first occurrence of c: what precedes it, and what follows it if it occurs *)
Fixpoint split_first (c : N) (s : bytes) : bytes * option bytes :=
  match s with
  | [] => ([], None)
  | x :: r =>
    if x =? c then ([], Some r)
    else let '(a, b) := split_first c r in (x :: a, b)
  end.

(* split at every occurrence of c: never empty *)
Fixpoint split_all (c : N) (s : bytes) : list bytes :=
  match s with
  | [] => [[]]
  | x :: r =>
    if x =? c then [] :: split_all c r
    else match split_all c r with
         | h :: t => (x :: h) :: t
         | [] => [[x]]
         end
  end.

Definition c_amp : N := 38.
Definition c_eq : N := 61.
Definition c_hash : N := 35.
Definition c_qm : N := 63.

Definition pair := (bytes * option bytes)%type.   (* key, value if there is an equals sign *)

Definition decode_pair (kv : bytes) : pair :=
  let '(k, v) := split_first c_eq kv in
  (query_decode k, match v with Some v' => Some (query_decode v') | None => None end).

Record url := mkUrl {
  u_path : bytes;
  u_query : option (list pair);    (* None: no question mark *)
  u_frag : option bytes            (* None: no number sign *)
}.

(* the decoded URL of the text u (already HTML decoded) *)
Definition url_parse (u : bytes) : url :=
  let '(pq, frag) := split_first c_hash u in
  let '(path, q) := split_first c_qm pq in
  mkUrl (pct_decode path)
        (match q with Some q' => Some (map decode_pair (split_all c_amp q')) | None => None end)
        (match frag with Some f => Some (pct_decode f) | None => None end).

(* the reference decoder of a URL attribute value *)
Definition url_ref_decode (attr : bytes) : url := url_parse (html_decode attr).

(* ---------------------------------------------------------------- one URL attribute of a template *)

(* what the template puts in the attribute, in order: literal texts and shown strings *)
Inductive item :=
| UText (t : bytes)
| UShow (s : bytes).

Definition has_mark_text (t : bytes) : bool := mem t c_qm || mem t c_hash.

(* a question mark or a number sign in a text, or a question mark in a shown string *)
Definition item_marks (i : item) : bool :=
  match i with
  | UText t => has_mark_text t
  | UShow s => mem s c_qm
  end.

Definition is_text (i : item) : bool := match i with UText _ => true | UShow _ => false end.

(* The documented rule of the renderer: a string shown after the items `before`
   is escaped as a query value when some template text lies at or after the
   first mark (a question mark or number sign of a text, a question mark of a
   shown string), and as a path otherwise.  scan carries: a mark was seen; a
   text was seen at or after it. *)
Fixpoint scan (before : list item) (mark qtext : bool) : bool * bool :=
  match before with
  | [] => (mark, qtext)
  | UText t :: r => let m := mark || has_mark_text t in scan r m m
  | UShow s :: r => scan r (mark || mem s c_qm) qtext
  end.

Definition query_position (before : list item) : bool := snd (scan before false false).
