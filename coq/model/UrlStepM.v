(* C06 / C07, work package esc2: the URL attribute machine of the renderer as
   a pure state machine over the operations of ONE attribute value.

   url_step k st op = (st2, out) is what renderer.Text (inURL = true, isSet =
   the attribute is srcset) and renderer.Show / showInURL (context
   ContextQuotedAttr or ContextUnquotedAttr with the URL flag, and the set flag
   for srcset) do to the three flags query / addAmpersand / removeQuestionMark
   and write to the output for one operation.  inURL is true during the whole
   attribute (the lexer gives the URL flag to every token of the value); the
   attribute starts in u0 because the text before it (at least the equals sign)
   was written with inURL = false and endURL cleared the flags.

   Values: renderer.showInURL renders the value with showInHTML into a buffer
   and applies html.UnescapeString: a plain string is HTML escaped and decoded
   back, a value of an HTML type (trusted) is written as it is and decoded.
   Every Go index expression is checked: UFault is a Go run-time panic.
   The byte output of pathEscape / queryEscape is the one of the write scripts
   of RendererM (checked indexing of the percent look-ahead).  No proofs here. *)
From Coq Require Import List NArith Bool.
From Verif Require Import Bytes Facts_render Facts_escapers Facts_esc RendererM HtmlDecode.
From Verif Require EscapersM.
Import ListNotations.
Open Scope N_scope.

(* the attribute: quoted (double or single quotes: ContextQuotedAttr) or not, srcset or not *)
Record akind := mkA { a_quoted : bool; a_set : bool }.

(* query, addAmpersand, removeQuestionMark *)
Record ustate := mkU { u_query : bool; u_amp : bool; u_remq : bool }.
Definition u0 : ustate := mkU false false false.

Inductive uop :=
| UTxt (t : bytes)                        (* renderer.Text(t, true, isSet) *)
| UVal (s : bytes) (trusted : bool).      (* renderer.Show(v, ctx): v a string, or a native.HTML when trusted *)

Inductive uout := UOut (b : bytes) | UFault.

(* html.UnescapeString(b.String()) after showInHTML wrote the value into b *)
Definition shown_text (s : bytes) (trusted : bool) : bytes :=
  html_decode (if trusted then s else EscapersM.flat (EscapersM.htmlEscape s)).

(* the writes of a script, concatenated; a fault anywhere is a panic (what was written before it is lost to the model: the run panics) *)
Fixpoint script_result (sc : list act) (acc : bytes) : uout :=
  match sc with
  | [] => UOut acc
  | AFault :: _ => UFault
  | AWrite c :: r => script_result r (acc ++ c)
  end.

Definition has_mark (t : bytes) : bool := mem t 63 || mem t 35.

(* renderer.Text inside the attribute *)
Definition url_text (k : akind) (st : ustate) (t : bytes) : ustate * uout :=
  if a_set k && mem t 44 then
    (mkU (has_mark (after_last 44 t)) false false, UOut t)
  else if u_query st then
    let t1 := if u_remq st then
                match t with
                | [] => None                                   (* txt[0] out of range *)
                | c :: r => Some (if c =? 63 then r else t)
                end
              else Some t in
    match t1 with
    | None => (st, UFault)
    | Some t' =>
      let need := u_amp st && match t' with [] => false | c :: _ => negb (c =? 38) end in
      (mkU true false false, UOut ((if need then amp_entity else []) ++ t'))
    end
  else (mkU (has_mark t) (u_amp st) (u_remq st), UOut t).

(* renderer.showInURL with s = the unescaped HTML rendering of the value *)
Definition url_show (k : akind) (st : ustate) (s : bytes) : ustate * uout :=
  if u_query st then
    if u_remq st then
      let st' := match last_opt s with
                 | None => st
                 | Some c => mkU true (negb (c =? 38)) true
                 end in
      (st', script_result (pathEscape (a_quoted k) s) [])
    else (st, script_result (queryEscape s) [])
  else if mem s 63 then
    match last_opt s with
    | None => (mkU true (u_amp st) true, UFault)             (* s[len(s)-1] out of range *)
    | Some c =>
      (mkU true (if negb (c =? 38) && negb (c =? 63) then true else u_amp st) true,
       script_result (pathEscape (a_quoted k) s) [])
    end
  else (st, script_result (pathEscape (a_quoted k) s) []).

Definition url_step (k : akind) (st : ustate) (o : uop) : ustate * uout :=
  match o with
  | UTxt t => url_text k st t
  | UVal s tr => url_show k st (shown_text s tr)
  end.

(* the whole attribute: the states after each operation and the outputs; a
   fault ends the run (Template.Run panics) *)
Fixpoint url_run (k : akind) (st : ustate) (ops : list uop) : ustate * list uout :=
  match ops with
  | [] => (st, [])
  | o :: r =>
    match url_step k st o with
    | (st1, UFault) => (st1, [UFault])
    | (st1, UOut b) => let '(st2, outs) := url_run k st1 r in (st2, UOut b :: outs)
    end
  end.

Fixpoint outs_bytes (l : list uout) : bytes :=
  match l with
  | UOut b :: r => b ++ outs_bytes r
  | _ => []
  end.

Definition has_fault (l : list uout) : bool := existsb (fun o => match o with UFault => true | _ => false end) l.

(* the attribute value written for the operations, from the start of the attribute *)
Definition url_attr_out (k : akind) (ops : list uop) : bytes := outs_bytes (snd (url_run k u0 ops)).

(* what the emitter guarantees: no empty Text *)
Definition uop_ok (o : uop) : bool := match o with UTxt [] => false | _ => true end.

(* ---------------------------------------------------------------- the rule of the escaper choice, srcset included *)

(* Which escaper a value gets after the operations `before` (values given by
   their unescaped text): scan carries (mark, qtext): a question mark or number
   sign was seen in the current URL; a template text was seen at or after it.
   In a set attribute a text with a comma starts a new URL after its last comma. *)
Fixpoint qscan (set : bool) (before : list (bool * bytes)) (mark qtext : bool) : bool * bool :=
  match before with
  | [] => (mark, qtext)
  | (true, t) :: r =>                              (* a text *)
    if set && mem t 44 then let m := has_mark (after_last 44 t) in qscan set r m m
    else let m := mark || has_mark t in qscan set r m m
  | (false, s) :: r => qscan set r (mark || mem s 63) qtext      (* a shown value *)
  end.

Definition view_op (o : uop) : bool * bytes :=
  match o with
  | UTxt t => (true, t)
  | UVal s tr => (false, shown_text s tr)
  end.

Definition query_pos (set : bool) (before : list uop) : bool := snd (qscan set (map view_op before) false false).

(* ---------------------------------------------------------------- wire format of the correspondence *)

(* state as three bytes 0/1 followed by the output, or the single byte 2 for a fault *)
Definition b01 (b : bool) : N := if b then 1 else 0.
Definition enc_step (r : ustate * uout) : bytes :=
  match r with
  | (st, UOut b) => [b01 (u_query st); b01 (u_amp st); b01 (u_remq st)] ++ b
  | (_, UFault) => [2]
  end.
