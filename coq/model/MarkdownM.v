(* Model of internal/runtime/escapers.go markdownEscape, isHTMLComment, isCDATA
   and markdownCodeBlockEscape.  The loops keep the index variables of the code
   (i, last, the current value of esc, the quote state of the tag loop); every
   s[k] and s[a:b] is a checked access that yields MFault where Go would
   panic; loops run on explicit fuel (MFuel = out of fuel, excluded by the
   theorems).  Per-byte decisions come from the generated tables of
   Facts_md.  The output is the concatenation of the writes.  No proofs here. *)
From Verif Require Import Bytes IndexM Facts_md.
Open Scope N_scope.

Inductive mres :=
| MOk (out : bytes)
| MErr (code : N)        (* 1 = not closed HTML comment, 2 = not closed CDATA section *)
| MFault                 (* index or slice out of range *)
| MFuel.

Fixpoint prefix_of (p t : bytes) : bool :=
  match p, t with
  | [], _ => true
  | x :: p', y :: t' => (x =? y) && prefix_of p' t'
  | _ :: _, [] => false
  end.

(* strings.Index(t, p) for a non-empty p; k = offset of t *)
Fixpoint index_from (p t : bytes) (k : N) : option N :=
  match t with
  | [] => if prefix_of p [] then Some k else None
  | _ :: r => if prefix_of p t then Some k else index_from p r (k + 1)
  end.
Definition index_of (p t : bytes) : option N := index_from p t 0.

Definition md_kind (a : bool) (c : N) : N :=
  match assoc_get (if a then gen_md_kind_HTML else gen_md_kind_noHTML) c with
  | Some k => k
  | None => 0
  end.

(* the blank case: true = esc := nbsp, false = continue.  None = fault. *)
Definition md_blank_nbsp (s : bytes) (i c : N) : option bool :=
  if (0 <? i) && (i + 1 <? nlen s) then
    (* interior: s[i-1] and s[i+1] exist in Go; the accesses are still checked *)
    match get s (i - 1), get s (i + 1) with
    | Some pv, Some nx => Some (mem (assoc_list gen_md_blank_prev_nbsp c) pv || mem (assoc_list gen_md_blank_next_nbsp c) nx)
    | _, _ => None
    end
  else Some true.

(* isHTMLComment / isCDATA: length guard, then a byte by byte comparison *)
Fixpoint match_at (lit : bytes) (s : bytes) (p : N) : option bool :=
  match lit with
  | [] => Some true
  | l :: lit' =>
    match get s p with
    | None => None
    | Some c => if c =? l then match_at lit' s (p + 1) else Some false
    end
  end.

Definition is_open (lit : bytes) (minlen count : N) (s : bytes) (p : N) : option bool :=
  if nlen s <? p + minlen then Some false
  else match_at (firstn (N.to_nat count) lit) s p.

Definition isHTMLComment := is_open gen_md_comment_open gen_md_comment_minlen gen_md_comment_count.
Definition isCDATA := is_open gen_md_cdata_open gen_md_cdata_minlen gen_md_cdata_count.

(* tag loop *)
Inductive tres := TAt (i : N) | TFault | TFuel.

Definition tag_step (q c : N) : N :=   (* 256 = break *)
  match assoc_get gen_md_tag_step q with
  | None => q
  | Some l => match assoc_get l c with Some r => r | None => q end
  end.

Fixpoint tag_loop (fuel : nat) (s : bytes) (i q : N) : tres :=
  match fuel with
  | O => TFuel
  | S fuel =>
    if i <? nlen s then
      match get s i with
      | None => TFault
      | Some c =>
        let r := tag_step q c in
        if r =? 256 then TAt i else tag_loop fuel s (i + 1) r
      end
    else TAt i
  end.

(* the write section at the end of an iteration:
     if last != i { write s[last:i]; last = i }; write esc; if s[i] is blank { last++ } *)
Definition md_write (s : bytes) (i last c : N) (esc out : bytes) : option (N * bytes) :=
  let flushed :=
    if last =? i then Some (last, out)
    else match slice s last i with Some t => Some (i, out ++ t) | None => None end in
  match flushed with
  | None => None
  | Some (last1, out1) => Some ((if mem gen_md_last_inc c then last1 + 1 else last1), out1 ++ esc)
  end.

Section Loop.
  (* the recursive call markdownEscape(w, s[i:i+p], false) of the CDATA branch *)
  Variable inner : bytes -> mres.
  Variable a : bool.   (* allowHTML *)

  Fixpoint md_loop (fuel : nat) (s : bytes) (i last : N) (esc out : bytes) : mres :=
    match fuel with
    | O => MFuel
    | S fuel =>
      if i <? nlen s then
        match get s i with
        | None => MFault
        | Some c =>
          let k := md_kind a c in
          if k =? 0 then md_loop fuel s (i + 1) last esc out
          else if k =? 3 then
            match isHTMLComment s i with
            | None => MFault
            | Some true =>
              let i1 := i + gen_md_comment_open_adv in
              match slice s i1 (nlen s) with
              | None => MFault
              | Some t =>
                match index_of gen_md_comment_close t with
                | None => MErr 1
                | Some p => md_loop fuel s (i1 + p + gen_md_comment_close_adv + 1) last esc out
                end
              end
            | Some false =>
              match isCDATA s i with
              | None => MFault
              | Some true =>
                let flushed :=
                  if last =? i then Some out
                  else match slice s last i with Some t => Some (out ++ t) | None => None end in
                match flushed with
                | None => MFault
                | Some out1 =>
                  let i1 := i + gen_md_cdata_open_adv in
                  match slice s i1 (nlen s) with
                  | None => MFault
                  | Some t =>
                    match index_of gen_md_cdata_close t with
                    | None => MErr 2
                    | Some p =>
                      match slice s i1 (i1 + p) with
                      | None => MFault
                      | Some sub =>
                        match inner sub with
                        | MOk o =>
                          let i2 := i1 + p + gen_md_cdata_close_adv in
                          md_loop fuel s (i2 + 1) (i2 + gen_md_cdata_last_off) esc (out1 ++ o)
                        | r => r
                        end
                      end
                    end
                  end
                end
              | Some false =>
                match tag_loop (S (length s)) s i 0 with
                | TFault => MFault
                | TFuel => MFuel
                | TAt i1 => md_loop fuel s (i1 + 1) last esc out
                end
              end
            end
          else
            let e :=
              if k =? 1 then Some (Some gen_md_slash)
              else if k =? 2 then
                match md_blank_nbsp s i c with
                | None => None
                | Some true => Some (Some gen_md_nbsp)
                | Some false => Some None
                end
              else Some (Some esc) in
            match e with
            | None => MFault
            | Some None => md_loop fuel s (i + 1) last esc out
            | Some (Some esc1) =>
              match md_write s i last c esc1 out with
              | None => MFault
              | Some (last1, out1) => md_loop fuel s (i + 1) last1 esc1 out1
              end
            end
        end
      else
        if last =? nlen s then MOk out
        else match slice s last (nlen s) with Some t => MOk (out ++ t) | None => MFault end
    end.
End Loop.

(* allowHTML = false: the HTML dispatch is never reached, the callee is irrelevant *)
Definition markdownEscape_plain (s : bytes) : mres :=
  md_loop (fun _ => MFault) false (S (length s)) s 0 0 [] [].

Definition markdownEscape (s : bytes) (allowHTML : bool) : mres :=
  if allowHTML then md_loop markdownEscape_plain true (S (length s)) s 0 0 [] []
  else markdownEscape_plain s.

(* markdownCodeBlockEscape *)
Definition mdcb_indent (spaces : bool) : bytes :=
  if spaces then gen_mdcb_indent_spaces else gen_mdcb_indent_tab.

Fixpoint mdcb_loop (fuel : nat) (spaces : bool) (s : bytes) (i last : N) (out : bytes) : mres :=
  match fuel with
  | O => MFuel
  | S fuel =>
    if i <? nlen s then
      match get s i with
      | None => MFault
      | Some c =>
        if mem gen_mdcb_newline c then
          (* a generated, possibly empty, set of bytes that are written together with the newline *)
          let pair :=
            if i + 1 <? nlen s then
              match get s (i + 1) with
              | None => None
              | Some d => Some (mem gen_mdcb_pair_next d)
              end
            else Some false in
          match pair with
          | None => MFault
          | Some pr =>
            let i1 := if pr then i + 1 else i in
            match slice s last (i1 + 1) with
            | None => MFault
            | Some t => mdcb_loop fuel spaces s (i1 + 1) (i1 + 1) (out ++ t ++ mdcb_indent spaces)
            end
          end
        else mdcb_loop fuel spaces s (i + 1) last out
      end
    else
      if last =? nlen s then MOk out
      else match slice s last (nlen s) with Some t => MOk (out ++ t) | None => MFault end
  end.

Definition markdownCodeBlockEscape (s : bytes) (spaces : bool) : mres :=
  mdcb_loop (S (length s)) spaces s 0 0 [].

(* option views used by the in-Coq cross-check of the correspondence *)
Definition mres_opt (r : mres) : option bytes := match r with MOk o => Some o | _ => None end.
Definition markdownEscape0_opt (s : bytes) := mres_opt (markdownEscape s false).
Definition markdownEscape1_opt (s : bytes) := mres_opt (markdownEscape s true).
Definition mdCodeBlockTab_opt (s : bytes) := mres_opt (markdownCodeBlockEscape s false).
Definition mdCodeBlockSpaces_opt (s : bytes) := mres_opt (markdownCodeBlockEscape s true).

(* the result is neither a Go panic (index or slice out of range) nor out of fuel *)
Definition ok_res (r : mres) : Prop :=
  match r with MFault | MFuel => False | _ => True end.
