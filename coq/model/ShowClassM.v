(* Outcome class of renderer.Show for a value of a given static type in a
   given context, for the correspondence of C05 (does the show function write
   the value, return a cannot show error, or panic): ShowTypesM.dynamic_show
   and ShowJsonM.show_top over the decision trees generated from renderer.go,
   with leaves that carry no text (only the class is compared there; the
   texts are the business of C07/C08).  No proofs here. *)
From Coq Require Import List NArith ZArith Bool.
From Verif Require Import Bytes ShowTree Facts_show ShowTypesM ShowJsonM.
Import ListNotations.
Open Scope N_scope.

(* no text is computed; showTimeInJS is taken not to panic (the years of the
   dictionary are representable) *)
Definition class_leaves : leaves :=
  {| lf_trusted := fun _ _ _ _ => [];
     lf_time_js := fun _ => Some [];
     lf_time_json := fun _ => [];
     lf_error_text := fun _ _ => [];
     lf_key_text := fun _ _ => [];
     lf_float := fun _ _ => [];
     lf_float_zero := fun _ _ => false;
     lf_complex := fun _ _ _ => [];
     lf_string := fun _ s => s;
     lf_base64 := fun s => s;
     lf_type_name := fun _ => [] |}.

(* 0 written, 1 cannot show error, 2 panic, 3 the model does not apply, 4 the
   value does not have the type *)
Definition show_class (conv : bool) (ctx : N) (url : bool) (t : ty) (v : value) : N :=
  if negb (closedb 0 t && has_typeb [] t v) then 4
  else match show_any class_leaves conv ctx url t v with
       | ShowJsonM.ROk _ => 0
       | RCannotShow => 1
       | RPanic => 2
       | RStuck => 3
       end.
