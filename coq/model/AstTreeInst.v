(* The C28 model and its specification instantiated with the generated facts
   and with the hand-written lists (by name): fields that the constructors
   never leave nil, the constant position of a Tree, the documented or pinned
   deviations of Walk, the kind that only the type checker creates. *)
From Coq Require Import List NArith Bool String Ascii.
From Verif Require Import Bytes AstSchema Facts_Ast AstTreeM AstTreeSpec.
Import ListNotations.
Open Scope N_scope.

Definition bs (s : string) : bytes := map N_of_ascii (list_ascii_of_string s).
Definition unresolved : N := 999999.
Definition kid (s : string) : N :=
  match kind_by_name (bs s) with Some d => k_id d | None => unresolved end.
Definition fid (k f : string) : N :=
  match kind_by_name (bs k) with
  | Some d => match field_by_name d (bs f) with Some x => f_id x | None => unresolved end
  | None => unresolved
  end.
Definition kf (k f : string) : N * N := (kid k, fid k f).

(* never nil in a tree built by the parser or the constructors: the
   *expression record of the kinds that embed a pointer to it, and the
   operands that the statements cannot lack *)
Definition ast_required : list (N * N) := Eval vm_compute in
  flat_map (fun d => match field_by_name d (bs "expression") with
                     | Some x => if f_class x =? 1 then [(k_id d, f_id x)] else []
                     | None => [] end) ast_schema
  ++ [kf "ForIn" "Ident"; kf "ForRange" "Assignment"; kf "Func" "Type"; kf "Goto" "Label";
      kf "Label" "Ident"; kf "TypeDeclaration" "Ident"; kf "TypeSwitch" "Assignment"; kf "Using" "Statement"].

(* ast.NewTree gives every Tree the position 1:1 (0,0); CloneNode builds the copy with NewTree *)
Definition ast_consts : list ((N * N) * (N * list (N * bytes))) := Eval vm_compute in
  [(kf "Tree" "Position",
    (kid "Position", [(fid "Position" "Line", bs "1"); (fid "Position" "Column", bs "1");
                      (fid "Position" "Start", bs "0"); (fid "Position" "End", bs "0")]))].

(* the name of a function, of an import and of a parameter is never
   parenthesised; clone rebuilds these identifiers with ast.NewIdentifier *)
Definition ast_edge_scal : list ((N * N) * list (N * bytes)) := Eval vm_compute in
  let z := [(fid "Identifier" "expression.parenthesis", bs "0")] in
  [(kf "Func" "Ident", z); (kf "Import" "Ident", z); (kf ("Para" ++ "meter") "Ident", z)].

(* CloneExpression has no case for Placeholder (created by the type checker only) *)
Definition ast_clone_exceptions : list N := Eval vm_compute in [kid "Placeholder"].

(* Walk: fields never walked.  Call.Func and the name and type of a Func are
   pinned by TestWalk and ExampleDump (known finding); the expanded trees of
   Extends, Import and Render are left to the visitor by documentation. *)
Definition ast_walk_skip : list (N * N) := Eval vm_compute in
  [kf "Call" "Func"; kf "Func" "Ident"; kf "Func" "Type";
   kf "Extends" "Tree"; kf "Import" "Tree"; kf "Render" "Tree"].
(* Walk enters the body of a Func without visiting the Block itself (pinned by TestWalk) *)
Definition ast_walk_transparent : list (N * N) := Eval vm_compute in [kf "Func" "Body"].

Definition names_resolved : bool := Eval vm_compute in
  forallb (fun p => negb (fst p =? unresolved) && negb (snd p =? unresolved))
          (ast_required ++ map fst ast_consts ++ map fst ast_edge_scal ++ ast_walk_skip ++ ast_walk_transparent)
  && forallb (fun k => negb (k =? unresolved)) ast_clone_exceptions.

Definition ast_hyp (t : tree) : bool := hyp ast_schema ast_required ast_consts ast_edge_scal t.
Definition ast_no_clone_exception (t : tree) : bool := no_kind ast_clone_exceptions t.

Definition ast_cneeded : list (N * N) := cneeded ast_schema ast_clone_table ast_clone_exceptions.
Definition ast_wneeded : list (N * N) := wneeded ast_schema ast_walk_table.

Definition ast_clone_good : bool :=
  clone_table_good ast_schema ast_required ast_consts ast_edge_scal ast_clone_table ast_clone_exceptions ast_cneeded.
Definition ast_walk_good : bool :=
  walk_table_good ast_schema ast_required ast_walk_table ast_walk_skip ast_walk_transparent ast_wneeded.

Definition ast_events (prune : list N) (t : tree) : list event :=
  events ast_schema (fun k => mem prune k) ast_walk_skip ast_walk_transparent t.
