(* The reference position function of C21 (independent of the lexer's
   bookkeeping) and the executable check that a token stream agrees with it
   wherever the model's ghost flags do not announce a deviation. *)
From Verif Require Import Bytes Utf8 Facts_lexer LexBase LexCodeM LexerM LexTables.
Open Scope N_scope.

(* a byte advances the position: a new line starts a line at column 1, a byte
   that starts a character (not 10xxxxxx) takes one column *)
Definition adv_pos (lc : N * N) (c : N) : N * N :=
  if c =? 10 then (fst lc + 1, 1)
  else if (c <? 128) || (191 <? c) then (fst lc, snd lc + 1)
  else lc.

(* line and column of the byte at offset off: lines and columns start at 1 *)
Definition linecol (src : bytes) (off : N) : N * N := fold_left adv_pos (take off src) (1, 1).

(* an automatically inserted semicolon (empty, type semicolon) has the offset
   of the byte before the place where it was inserted *)
Definition tok_off (t : token) : N :=
  if (t_len t =? 0) && (t_typ t =? gen_tokenSemicolon) then t_start t + 1 else t_start t.

Definition tok_pos_ok (src : bytes) (t : token) : bool :=
  let '(ln, cl) := linecol src (tok_off t) in
  (t_ldev t || (t_line t =? ln)) && (t_ldev t || t_cdev t || (t_col t =? cl)).

Definition pos_case (cfg src : bytes) : option bytes :=
  match cfg with
  | [fmt; ns] =>
    match scan_template go_unicode (negb (ns =? 0)) fmt src with
    | Done toks _ => Some [if forallb (tok_pos_ok src) toks then 49 else 48]
    | _ => None
    end
  | _ => None
  end.

(* the same for the program lexer *)
Definition posprog_case (src : bytes) : option bytes :=
  match scan_program go_unicode src with
  | Done toks _ => Some [if forallb (tok_pos_ok src) toks then 49 else 48]
  | _ => None
  end.
