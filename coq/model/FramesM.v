(* FramesM: executable model of the frame bookkeeping of the Scriggo VM
   (internal/runtime: run.go OpCallFunc/OpDefer/OpReturn/OpRecover/OpPanic,
   runFunc/runRecoverable, vm.go nextCall, errors.go newPanic/convertPanic,
   VM.Run) and, separately, Go's defer/panic/recover semantics on the same
   action trees (GoSpec part at the end).  No proofs in this file.

   What is modelled: vm.fn, vm.pc, vm.calls with the callStatus values, vm.panic
   (the chain linked by next, with the recovered flags), the trace of executed
   native hook bodies, the result of VM.Run.  What is not: registers and frame
   pointers (swapStack, finalize), renderers, closure variables.

   A program is an action tree: a function is its list of instructions plus
   its debug table (pc to source line); a call or a defer instruction carries
   the callee (in the VM it is a pointer to the Function).  The emitter ends
   every function body with OpReturn: fetch appends it.

   Callbacks (vm.go callable.Value): a native function that is given a Scriggo
   function value calls it through reflect.MakeFunc; the closure creates a new
   VM on the same env (nvm := create(env)) and runs the function with
   nvm.runFunc.  The machine therefore has a stack of suspended VMs (souter):
   the calling VM waits inside its OpCallNative until the new VM has finished.
   What the closure does with the error of runFunc is written from the code:
   nil - the native function returns and the caller goes on; any error - it
   panics with the error itself (it wraps only the error of the context in a
   stopError).  A PanicError goes through the native function; runRecoverable
   of the calling VM recovers it, convertPanic returns it as it is and runFunc
   links the panics of the calling VM after its last record: the calling
   function panics with the panics of the callback, at its call instruction.
   The stopError of env.Stop and the fatalError of env.Fatal are returned as
   they are by convertPanic of every VM below: Run returns the error given to
   Stop / panics with the value given to Fatal exactly as without the callback. *)
From Coq Require Import List NArith Bool Arith.
Import ListNotations.

Inductive status := Started | Tailed | Returned | Deferred | Panicked | Recovered.

Definition status_num (s : status) : N :=
  match s with
  | Started => 0 | Tailed => 1 | Returned => 2 | Deferred => 3 | Panicked => 4 | Recovered => 5
  end%N.

Definition status_eqb (a b : status) : bool := N.eqb (status_num a) (status_num b).

(* native functions of the host: a trace hook, one that calls env.Stop(e),
   one that calls env.Fatal(v), one that panics with the value v *)
Inductive natk := NBody (n : N) | NStop (e : N) | NFatal (v : N) | NPanic (v : N).

Inductive instr :=
| INat (k : natk)                                 (* OpCallNative *)
| ICall (b : list instr) (inf : list (nat * N))   (* OpCallFunc / OpCallIndirect of an interpreted function *)
| IDeferFn (b : list instr) (inf : list (nat * N))(* OpDefer of an interpreted function *)
| IDeferNat (k : natk)                            (* OpDefer of a native function *)
| IPanic (v : N)                                  (* OpPanic *)
| IRecover (down : bool)                          (* OpRecover; down = operand a > 0 (the body of `defer recover()`) *)
| IReturn                                         (* OpReturn *)
| ICallback (b : list instr) (inf : list (nat * N)). (* OpCallNative of a native function that calls back, once, the function literal it is given *)

Record func := mkfunc { fbody : list instr; finfo : list (nat * N) }.

(* what a call frame holds: a Scriggo function, a native function, or nothing
   (callable{fn: vm.fn} with vm.fn nil: the frame runFunc pushes for a panic
   raised by a deferred native function called while vm.fn is nil) *)
Inductive callee := CFn (f : func) | CNat (k : natk) | CNone.

Record frame := mkframe { fcl : callee; fpc : nat; fstat : status }.

(* one PanicError: message, recovered flag, aborted flag (not visible through
   the accessors of PanicError), source line (None: path "" and position 0:0),
   serial number of raising (ghost: only the theorems use it) *)
Record prec := mkprec { pmsg : N; precovered : bool; paborted : bool; ppos : option N; pser : N }.

Definition set_aborted (p : prec) : prec := mkprec (pmsg p) (precovered p) true (ppos p) (pser p).

Inductive event := EBody (n : N) | ERecover (v : option N) | EStop (e : N) | EFatal (v : N).

(* what VM.Run does: returns nil / returns the PanicError chain (newest
   first: message, recovered, line) / returns the error given to Stop /
   panics with a value (the argument of Fatal) / panics with a Go runtime
   error (a crash of the VM itself) *)
Inductive outcome :=
| ONil
| OPanic (chain : list (N * bool * option N))
| OStop (e : N)
| ORunPanics (v : N)
| OCrash.

Inductive mode := MExec | MNext (i1 : nat).   (* MNext (S i): the loop of nextCall is at index i; MNext 0: it has finished (returns false) *)

(* a VM that waits in a native call for the VM of a callback to finish *)
Record saved := mksaved { vfn : func; vpc : nat; vcalls : list frame; vchain : list prec }.

Record state := mkstate {
  smode : mode;
  sfn : option func;          (* vm.fn *)
  spc : nat;                  (* vm.pc *)
  scalls : list frame;        (* vm.calls, bottom first *)
  schain : list prec;         (* vm.panic, then its next links *)
  str : list event;           (* trace, newest first *)
  sraised : N;                (* number of panics raised so far (ghost) *)
  souter : list saved         (* the VMs suspended in a native function that called back, innermost first *)
}.

Inductive sres := Next (s : state) | Fin (o : outcome) (tr : list event).

Definition set_mode (s : state) (m : mode) : state :=
  mkstate m (sfn s) (spc s) (scalls s) (schain s) (str s) (sraised s) (souter s).
Definition set_calls (s : state) (c : list frame) : state :=
  mkstate (smode s) (sfn s) (spc s) c (schain s) (str s) (sraised s) (souter s).
Definition set_chain (s : state) (c : list prec) : state :=
  mkstate (smode s) (sfn s) (spc s) (scalls s) c (str s) (sraised s) (souter s).
Definition emit (s : state) (e : event) : state :=
  mkstate (smode s) (sfn s) (spc s) (scalls s) (schain s) (e :: str s) (sraised s) (souter s).
Definition set_pc (s : state) (pc : nat) : state :=
  mkstate (smode s) (sfn s) pc (scalls s) (schain s) (str s) (sraised s) (souter s).

Definition set_status (fr : frame) (st : status) : frame := mkframe (fcl fr) (fpc fr) st.

(* l[i] = x for an index in range (the callers have just read l[i]) *)
Definition set_nth {A} (l : list A) (i : nat) (x : A) : list A :=
  firstn i l ++ x :: skipn (S i) l.

Fixpoint info_get (l : list (nat * N)) (pc : nat) : option N :=
  match l with
  | [] => None
  | (k, v) :: r => if Nat.eqb k pc then Some v else info_get r pc
  end.

Definition chain_view (c : list prec) : list (N * bool * option N) :=
  map (fun p => (pmsg p, precovered p, ppos p)) c.

(* the suspended VM sv goes on after its native call: the callback returned nil *)
Definition resume (sv : saved) (rest : list saved) (s : state) : state :=
  mkstate MExec (Some (vfn sv)) (vpc sv) (vcalls sv) (vchain sv) (str s) (sraised s) rest.

(* runFunc returns vm.panic (chain is not empty).  In the main VM it is what
   Run returns.  In the VM of a callback the closure of callable.Value panics
   with it; the calling VM sv (suspended in its call instruction) recovers it,
   links its own chain after the last record and, as for any panic, ends if it
   has no call frame (then the same happens in the VM that waits for it) or
   pushes a panicked frame holding its function and goes on with nextCall. *)
Fixpoint end_panic_out (outer : list saved) (chain : list prec) (tr : list event) (raised : N) : sres :=
  match outer with
  | [] => Fin (OPanic (chain_view chain)) tr
  | sv :: rest =>
      let chain' := chain ++ vchain sv in
      match vcalls sv with
      | [] => end_panic_out rest chain' tr raised
      | _ =>
          let calls' := vcalls sv ++ [mkframe (CFn (vfn sv)) 0 Panicked] in
          Next (mkstate (MNext (length calls')) None (vpc sv) calls' chain' tr raised rest)
      end
  end.

Definition end_panic (s : state) (chain : list prec) : sres :=
  end_panic_out (souter s) chain (str s) (sraised s).

(* end of runFunc: the loop was left without an error *)
Definition finish (s : state) : sres :=
  match schain s with
  | [] =>
      match souter s with
      | [] => Fin ONil (str s)
      | sv :: rest => Next (resume sv rest s)
      end
  | c => end_panic s c
  end.

(* nextCall, case recovered (the deferred call that recovered has returned):
   vm.panic = vm.panic.next, then the aborted panics that follow are dropped;
   None: vm.panic is nil (nil pointer dereference) *)
Fixpoint drop_ab (c : list prec) : list prec :=
  match c with
  | p :: r => if paborted p then drop_ab r else c
  | [] => []
  end.

Definition trim (s : state) : option state :=
  match schain s with
  | [] => None
  | _ :: r => Some (set_chain s (drop_ab r))
  end.


(* nextCall, case panicked.  The pointer p walks along vm.panic: for every
   panicked or recovered frame that the search leaves behind,
   `for p = p.next; p.aborted; p = p.next {}` then `p.aborted = true`.
   mark_next post: post are the records after p; the result is the records
   up to the new p (the last one, now aborted) and the records after it;
   None: p runs off the end of the chain (nil pointer dereference). *)
Fixpoint mark_next (post : list prec) : option (list prec * list prec) :=
  match post with
  | [] => None
  | q :: r =>
      if paborted q then
        match mark_next r with
        | Some (done, rest) => Some (q :: done, rest)
        | None => None
        end
      else Some ([set_aborted q], r)
  end.

(* the search of the nearest deferred frame below index i; the chain is
   pre ++ post, p is the last record of pre (pre is empty when vm.panic is nil).
   Result: the frame found (or none) and the chain with the marks; None: a
   nil pointer dereference or an index out of range *)
Fixpoint scan_panicked (c : list frame) (i : nat) (pre post : list prec)
    : option (option (nat * frame) * list prec) :=
  match i with
  | O => Some (None, pre ++ post)
  | S j =>
      match nth_error c j with
      | None => None
      | Some fr =>
          match fstat fr with
          | Deferred => Some (Some (j, fr), pre ++ post)
          | Panicked | Recovered =>
              match mark_next post with
              | Some (done, rest) => scan_panicked c j (pre ++ done) rest
              | None => None
              end
          | _ => scan_panicked c j pre post
          end
      end
  end.

Definition chain_split (c : list prec) : list prec * list prec :=
  match c with
  | [] => ([], [])
  | p :: r => ([p], r)
  end.

(* runFunc after runRecoverable returned a new PanicError: it is linked before
   vm.panic; with no call frame left runFunc ends, otherwise a panicked frame
   holding vm.fn is pushed, vm.fn becomes nil and nextCall goes on from it *)
Definition raise_with (s : state) (owner : callee) (line : option N) (v : N) : sres :=
  let p := mkprec v false false line (sraised s) in
  let chain' := p :: schain s in
  match scalls s with
  | [] => end_panic_out (souter s) chain' (str s) (N.succ (sraised s))
  | _ =>
      let calls' := scalls s ++ [mkframe owner 0 Panicked] in
      Next (mkstate (MNext (length calls')) None (spc s) calls' chain' (str s) (N.succ (sraised s)) (souter s))
  end.

(* a native function called by nextCall (a deferred native call); k is what
   follows.  A panic of the function is recovered by runRecoverable and
   converted by convertPanic as the panic of a native call; newPanic gives it
   no position (vm.fn is nil, or the instruction at vm.pc-1 is the Return) *)
Definition native_in_next (nk : natk) (s : state) (k : state -> sres) : sres :=
  match nk with
  | NBody n => k (emit s (EBody n))
  | NStop e => Fin (OStop e) (EStop e :: str s)
  | NFatal v => Fin (ORunPanics v) (EFatal v :: str s)
  | NPanic v => raise_with s (match sfn s with Some f => CFn f | None => CNone end) None v
  end.

(* the part of nextCall after its switch: `if i >= 0 { ... }` followed by the
   loop's i--; vm.calls is cut at i before the callee runs *)
Definition after_switch (s : state) (call : frame) (i : nat) : sres :=
  match fcl call with
  | CFn f => Next (mkstate MExec (Some f) (fpc call) (firstn i (scalls s)) (schain s) (str s) (sraised s) (souter s))
  | CNat nk => native_in_next nk (set_calls s (firstn i (scalls s))) (fun s' => Next (set_mode s' (MNext i)))
  | CNone => Fin OCrash (str s)      (* callNative of a nil native function *)
  end.

Definition prev_deferred (c : list frame) (i : nat) : option (nat * frame) :=
  match i with
  | O => None
  | S j =>
      match nth_error c j with
      | Some d => if status_eqb (fstat d) Deferred then Some (j, d) else None
      | None => None
      end
  end.

(* one iteration of the loop of nextCall at index i *)
Definition step_next (s : state) (i : nat) : sres :=
  match nth_error (scalls s) i with
  | None => Fin OCrash (str s)
  | Some call =>
      match fstat call with
      | Started => after_switch s call i
      | Tailed => Next (set_mode s (MNext i))
      | Deferred =>
          match sfn s with
          | None => Fin OCrash (str s)       (* current.cl.fn.NumReg with vm.fn == nil *)
          | Some f =>
              let s1 := set_calls s (set_nth (scalls s) i (mkframe (CFn f) 0 Returned)) in
              after_switch s1 call (S i)
          end
      | Returned | Recovered =>
          (* a recovered frame: the deferred call that recovered has returned, the
             recovered panic leaves the chain and the local copy of the frame
             becomes a returned one, before the next deferred call is looked for *)
          let rec := status_eqb (fstat call) Recovered in
          match (if rec then trim s else Some s) with
          | None => Fin OCrash (str s)
          | Some s0 =>
              let call' := if rec then set_status call Returned else call in
              match prev_deferred (scalls s0) i with
              | Some (j, prev) =>
                  let s1 := set_calls s0 (set_nth (scalls s0) j call') in
                  after_switch s1 prev i
              | None => Next (set_mode s0 (MNext i))
              end
          end
      | Panicked =>
          match scan_panicked (scalls s) i (fst (chain_split (schain s))) (snd (chain_split (schain s))) with
          | None => Fin OCrash (str s)
          | Some (Some (j, d), chain') =>
              match nth_error (scalls s) (S j) with
              | Some above =>
                  let s1 := set_chain (set_calls s (set_nth (scalls s) j (set_status above Panicked))) chain' in
                  after_switch s1 d (S j)
              | None => Fin OCrash (str s)
              end
          | Some (None, chain') => Next (set_mode (set_chain s chain') (MNext 0))
          end
      end
  end.

(* OpRecover: the frame the loop stops at, if it is a panicked one *)
Fixpoint recover_search (c : list frame) (i1 : nat) : option nat :=
  match i1 with
  | O => None
  | S i =>
      match nth_error c i with
      | Some fr =>
          match fstat fr with
          | Deferred => recover_search c i
          | Panicked => Some i
          | _ => None
          end
      | None => None
      end
  end.

Definition mark_recovered (c : list frame) (i : nat) : list frame :=
  match nth_error c i with
  | Some fr => set_nth c i (set_status fr Recovered)
  | None => c
  end.

(* the value recover() returned goes to the trace (the hook prints it); the
   result of `defer recover()` (down) is discarded by the code and is not observable *)
Definition emit_rec (s : state) (down : bool) (v : option N) : state :=
  if down then s else emit s (ERecover v).

(* where the loop of OpRecover starts (index + 1); None: vm.calls[-1] is read *)
Definition recover_start (c : list frame) (down : bool) : option nat :=
  if down then
    match length c with
    | O => None
    | S l =>
        match nth_error c l with
        | Some top => if status_eqb (fstat top) Panicked then Some 0 else Some l
        | None => None
        end
    end
  else Some (length c).

Definition do_recover (s : state) (down : bool) : sres :=
  match recover_start (scalls s) down with
  | None => Fin OCrash (str s)
  | Some i1 =>
      match recover_search (scalls s) i1 with
      | None => Next (emit_rec s down None)
      | Some i =>
          match schain s with
          | [] => Fin OCrash (str s)            (* vm.panic.recovered with vm.panic == nil *)
          | p :: ps =>
              let s1 := set_calls s (mark_recovered (scalls s) i) in
              let s2 := set_chain s1 (mkprec (pmsg p) true (paborted p) (ppos p) (pser p) :: ps) in
              Next (emit_rec s2 down (Some (pmsg p)))
          end
      end
  end.

(* OpPanic, or a panic raised by a native function called with OpCallNative:
   runRecoverable recovers it, convertPanic/newPanic build the PanicError with
   the debug information of the instruction (when it has none, the one of the
   following instruction).  pc0 is the address of the instruction (vm.pc is pc0+1). *)
Definition raise (s : state) (f : func) (pc0 : nat) (v : N) : sres :=
  let line := match info_get (finfo f) pc0 with
              | Some l => Some l
              | None => info_get (finfo f) (S pc0)
              end in
  raise_with s (CFn f) line v.

Definition fetch (f : func) (pc : nat) : option instr := nth_error (fbody f ++ [IReturn]) pc.

Definition step_exec (s : state) : sres :=
  match sfn s with
  | None => Fin OCrash (str s)
  | Some f =>
      let pc0 := spc s in
      match fetch f pc0 with
      | None => Fin OCrash (str s)
      | Some ins =>
          let s := set_pc s (S pc0) in
          match ins with
          | INat (NBody n) => Next (emit s (EBody n))
          | INat (NStop e) => Fin (OStop e) (EStop e :: str s)
          | INat (NFatal v) => Fin (ORunPanics v) (EFatal v :: str s)
          | INat (NPanic v) => raise s f pc0 v
          | IPanic v => raise s f pc0 v
          | ICall b inf =>
              Next (mkstate MExec (Some (mkfunc b inf)) 0 (scalls s ++ [mkframe (CFn f) (S pc0) Started])
                            (schain s) (str s) (sraised s) (souter s))
          | ICallback b inf =>
              (* callNative -> reflect.Call -> the closure of callable.Value: a new VM on the same env *)
              Next (mkstate MExec (Some (mkfunc b inf)) 0 [] [] (str s) (sraised s)
                            (mksaved f (S pc0) (scalls s) (schain s) :: souter s))
          | IDeferFn b inf => Next (set_calls s (scalls s ++ [mkframe (CFn (mkfunc b inf)) 0 Deferred]))
          | IDeferNat nk => Next (set_calls s (scalls s ++ [mkframe (CNat nk) 0 Deferred]))
          | IRecover down => do_recover s down
          | IReturn =>
              match length (scalls s) with
              | O => finish s
              | S i =>
                  match nth_error (scalls s) i with
                  | None => Fin OCrash (str s)
                  | Some call =>
                      if status_eqb (fstat call) Started then
                        match fcl call with
                        | CFn g => Next (mkstate MExec (Some g) (fpc call) (firstn i (scalls s)) (schain s) (str s) (sraised s) (souter s))
                        | CNat _ | CNone => Next (mkstate MExec None (fpc call) (firstn i (scalls s)) (schain s) (str s) (sraised s) (souter s))
                        end
                      else Next (set_mode s (MNext (S i)))
                  end
              end
          end
      end
  end.

Definition step (s : state) : sres :=
  match smode s with
  | MExec => step_exec s
  | MNext O => finish s
  | MNext (S i) => step_next s i
  end.

Definition init (f : func) : state := mkstate MExec (Some f) 0 [] [] [] 0%N [].

(* None: out of fuel *)
Fixpoint run (n : nat) (s : state) : option (outcome * list event) :=
  match n with
  | O => None
  | S n' =>
      match step s with
      | Next s' => run n' s'
      | Fin o tr => Some (o, rev tr)
      end
  end.

Definition vm_run (n : nat) (f : func) : option (outcome * list event) := run n (init f).

(* ------------------------------------------------------------------ *)
(* GoSpec: defer, panic and recover as the Go specification and the gc
   runtime define them, on the same trees.  A function activation is run to
   its end (body, then its deferred calls); the result says whether it
   returned normally or is still panicking.  by_panic: the activation is a
   deferred call started by the panic sequence; parent_by_panic: the same for
   the activation that runs it as a deferred call.                         *)

Record grec := mkgrec { gmsg : N; grecovered : bool; gaborted : bool; gpos : option N }.

Record gst := mkgst { gtr : list event; gpan : list grec }.

Inductive gres := GNormal (g : gst) | GPanicking (g : gst) | GExit (o : outcome) (tr : list event) | GFuel.

Definition gemit (g : gst) (e : event) : gst := mkgst (e :: gtr g) (gpan g).
Definition gpush (g : gst) (v : N) (line : option N) : gst :=
  mkgst (gtr g) (mkgrec v false false line :: gpan g).
Definition gset_pan (g : gst) (l : list grec) : gst := mkgst (gtr g) l.

Fixpoint drop_aborted (l : list grec) : list grec :=
  match l with
  | p :: r => if gaborted p then drop_aborted r else l
  | [] => []
  end.

(* mark as aborted the record at index k *)
Fixpoint mark_aborted (l : list grec) (k : nat) : list grec :=
  match l, k with
  | [], _ => []
  | p :: r, O => mkgrec (gmsg p) (grecovered p) true (gpos p) :: r
  | p :: r, S k' => p :: mark_aborted r k'
  end.

Definition gemit_rec (g : gst) (down : bool) (v : option N) : gst :=
  if down then g else gemit g (ERecover v).

Definition grecover (g : gst) (down ok : bool) : gst :=
  match gpan g with
  | p :: ps =>
      if ok && negb (grecovered p) then
        gemit_rec (gset_pan g (mkgrec (gmsg p) true (gaborted p) (gpos p) :: ps)) down (Some (gmsg p))
      else gemit_rec g down None
  | [] => gemit_rec g down None
  end.

(* the deferred calls ds of an activation (last registered first); rec runs a
   callee; by_panic is the flag of the activation that runs them *)
Fixpoint g_rundefers (rec : func -> bool -> bool -> gst -> gres) (by_panic : bool)
    (ds : list callee) (panicking : bool) (g : gst) {struct ds} : gres :=
  match ds with
  | [] => if panicking then GPanicking g else GNormal g
  | d :: ds' =>
      let n0 := length (gpan g) in
      let r := match d with
               | CNat (NBody n) => GNormal (gemit g (EBody n))
               | CNat (NStop e) => GExit (OStop e) (EStop e :: gtr g)
               | CNat (NFatal v) => GExit (ORunPanics v) (EFatal v :: gtr g)
               | CNat (NPanic v) => GPanicking (gpush g v None)
               | CNone => GNormal g      (* never deferred *)
               | CFn h => rec h panicking by_panic g
               end in
      match r with
      | GNormal g' =>
          if panicking then
            match gpan g' with
            | p :: ps =>
                if grecovered p then
                  g_rundefers rec by_panic ds' false (gset_pan g' (drop_aborted ps))
                else g_rundefers rec by_panic ds' true g'
            | [] => g_rundefers rec by_panic ds' false g'
            end
          else g_rundefers rec by_panic ds' false g'
      | GPanicking g' =>
          let g'' := if panicking
                     then gset_pan g' (mark_aborted (gpan g') (length (gpan g') - n0))
                     else g' in
          g_rundefers rec by_panic ds' true g''
      | other => other
      end
  end.

(* the body of an activation of f from instruction pc on, ds its pending deferred calls *)
Fixpoint g_body (rec : func -> bool -> bool -> gst -> gres) (f : func) (by_panic parent_by_panic : bool)
    (b : list instr) (pc : nat) (ds : list callee) (g : gst) {struct b} : gres :=
  match b with
  | [] => g_rundefers rec by_panic ds false g
  | ins :: r =>
      match ins with
      | INat (NBody n) => g_body rec f by_panic parent_by_panic r (S pc) ds (gemit g (EBody n))
      | INat (NStop e) => GExit (OStop e) (EStop e :: gtr g)
      | INat (NFatal v) => GExit (ORunPanics v) (EFatal v :: gtr g)
      | INat (NPanic v) => g_rundefers rec by_panic ds true (gpush g v (info_get (finfo f) pc))
      | IPanic v => g_rundefers rec by_panic ds true (gpush g v (info_get (finfo f) pc))
      | ICall b' inf =>
          match rec (mkfunc b' inf) false false g with
          | GNormal g' => g_body rec f by_panic parent_by_panic r (S pc) ds g'
          | GPanicking g' => g_rundefers rec by_panic ds true g'
          | other => other
          end
      | ICallback b' inf =>
          (* in Go the native function is an ordinary frame between the two: the same as a call *)
          match rec (mkfunc b' inf) false false g with
          | GNormal g' => g_body rec f by_panic parent_by_panic r (S pc) ds g'
          | GPanicking g' => g_rundefers rec by_panic ds true g'
          | other => other
          end
      | IDeferFn b' inf => g_body rec f by_panic parent_by_panic r (S pc) (CFn (mkfunc b' inf) :: ds) g
      | IDeferNat nk => g_body rec f by_panic parent_by_panic r (S pc) (CNat nk :: ds) g
      | IRecover down =>
          let ok := if down then negb by_panic && parent_by_panic else by_panic in
          g_body rec f by_panic parent_by_panic r (S pc) ds (grecover g down ok)
      | IReturn => g_rundefers rec by_panic ds false g
      end
  end.

Fixpoint gfn (fuel : nat) (f : func) (by_panic parent_by_panic : bool) (g : gst) : gres :=
  match fuel with
  | O => GFuel
  | S fuel' => g_body (gfn fuel') f by_panic parent_by_panic (fbody f) 0 [] g
  end.

Definition gchain_view (l : list grec) : list (N * bool * option N) :=
  map (fun p => (gmsg p, grecovered p, gpos p)) l.

Definition go_run (fuel : nat) (f : func) : option (outcome * list event) :=
  match gfn fuel f false false (mkgst [] []) with
  | GNormal g => Some (ONil, rev (gtr g))
  | GPanicking g => Some (OPanic (gchain_view (gpan g)), rev (gtr g))
  | GExit o tr => Some (o, rev tr)
  | GFuel => None
  end.

(* size of a tree: a fuel that is always enough for go_run; vm_run is given a multiple of it *)
Fixpoint isize (i : instr) : nat :=
  match i with
  | ICall b _ | IDeferFn b _ | ICallback b _ => S ((fix bs (l : list instr) : nat := match l with [] => 0 | x :: r => isize x + bs r end) b)
  | _ => 1
  end.
Fixpoint bsize (l : list instr) : nat := match l with [] => 0 | x :: r => isize x + bsize r end.
Definition fsize (f : func) : nat := S (bsize (fbody f)).
