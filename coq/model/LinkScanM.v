(* Model of the scanner of cmd/scriggo/linkdestination.go: collectReplacements,
   scanInlineLinks, parseHTMLTag, parseInlineDestination,
   parseReferenceDefinition, parseDestination, parseTitleAndClose, parseTitle,
   findLabelEnd, countRun, skipSpaces, skipSpacesCount, isIndentedCode,
   isFenceStart, isFenceClose, the htmlState methods, the guard of
   appendReplacement, and replace = applyReplacements after
   collectReplacements.

   Conventions.  A Go int is a Z; line[i] and s[a:b] are checked (LFault where
   Go would panic); every loop runs on explicit fuel (LFuel when it runs out;
   the theorems exclude both).  The functions follow the Go code branch by
   branch, in the order of the source; the comment before each one names it.
   The steps of the two state machines (one line of collectReplacements, one
   iteration of the loop of scanInlineLinks) also return the name of the branch
   that was taken (lclass / iclass): the loops ignore it, the theorems about
   what is scanned and what is skipped are stated with it.

   From the standard library and goldmark/util, modelled by their
   specification: bytes.IndexByte, bytes.Index, bytes.HasPrefix,
   strings.ToLower on ASCII letters, digits and the hyphen (index_byte_z,
   index_sub, is_prefix, to_lower); util.IsBlank (a range loop: forallb);
   util.IndentWidth and util.TabWidth are modelled as loops like the rest.
   The byte classes (util.IsPunct, util.IsSpace, isASCIIAlpha,
   isHTMLTagNameChar), the element names (isVoidElement, isRawTextElement),
   the constants of the four "<!" / "<?" constructs, of the fences and of the
   indentation come from Facts_linkscan (regenerated from the sources).

   The rewriting of one destination (markdownUnescape, net/url, the base,
   markdownURLEscape) is the parameter `decide`: raw destination bytes to
   None (no replacement appended) or Some text.  LinkDestM.appendReplacement_repl
   is the instance the idempotence theorem uses.  No proofs here. *)
From Verif Require Import Bytes IndexM Facts_linkscan LinkDestM.
Local Open Scope Z_scope.

(* ---------------- the result monad ---------------- *)

Definition lbind {A B} (m : lres A) (f : A -> lres B) : lres B :=
  match m with LOk x => f x | LFault => LFault | LFuel => LFuel end.
Notation "x <- m ;; k" := (lbind m (fun x => k)) (at level 61, m at next level, right associativity).
Notation "' p <- m ;; k" := (lbind m (fun p => k)) (at level 61, p pattern, m at next level, right associativity).

(* line[i] *)
Definition zget (s : bytes) (i : Z) : lres N :=
  if i <? 0 then LFault
  else match nth_error s (Z.to_nat i) with Some c => LOk c | None => LFault end.

(* s[a:b] *)
Definition zsl (s : bytes) (a b : Z) : lres bytes :=
  match zslice s a b with Some t => LOk t | None => LFault end.

(* ---------------- bytes named in the source ---------------- *)

Definition b_tab : N := 9%N.
Definition b_nl : N := 10%N.
Definition b_sp : N := 32%N.
Definition b_bang : N := 33%N.      (* ! *)
Definition b_dq : N := 34%N.        (* double quote *)
Definition b_sq : N := 39%N.        (* single quote *)
Definition b_lp : N := 40%N.        (* ( *)
Definition b_rp : N := 41%N.        (* ) *)
Definition b_minus : N := 45%N.
Definition b_slash : N := 47%N.
Definition b_colon : N := 58%N.
Definition b_lt : N := 60%N.
Definition b_gt : N := 62%N.
Definition b_qm : N := 63%N.        (* ? *)
Definition b_lb : N := 91%N.        (* [ *)
Definition b_bs : N := 92%N.        (* backslash *)
Definition b_rb : N := 93%N.        (* ] *)
Definition b_bt : N := 96%N.        (* backtick *)
Definition b_tilde : N := 126%N.

(* goldmark util.IsPunct / util.IsSpace and the two byte classes of parseHTMLTag *)
Definition is_punct (c : N) : bool := mem gen_ls_punct c.
Definition is_space (c : N) : bool := mem gen_ls_space c.
Definition is_alpha (c : N) : bool := mem gen_ls_alpha c.
Definition is_tagname (c : N) : bool := mem gen_ls_tagname c.

(* ---------------- standard library, by specification ---------------- *)

(* bytes.IndexByte(s, c): -1 when absent *)
Fixpoint index_byte_z (c : N) (s : bytes) : Z :=
  match s with
  | [] => -1
  | x :: r => if N.eqb x c then 0 else let k := index_byte_z c r in if k <? 0 then -1 else k + 1
  end.

(* bytes.HasPrefix(s, p) *)
Fixpoint is_prefix (p s : bytes) : bool :=
  match p, s with
  | [], _ => true
  | x :: p', y :: s' => N.eqb x y && is_prefix p' s'
  | _ :: _, [] => false
  end.

(* bytes.Index(s, pat): -1 when absent *)
Fixpoint index_sub (pat s : bytes) : Z :=
  if is_prefix pat s then 0
  else match s with
       | [] => -1
       | _ :: r => let k := index_sub pat r in if k <? 0 then -1 else k + 1
       end.

(* strings.ToLower on a tag name (ASCII letters, digits, hyphen) *)
Definition lower_byte (c : N) : N := if ((65 <=? c) && (c <=? 90))%N then (c + 32)%N else c.
Definition to_lower (s : bytes) : bytes := map lower_byte s.

(* util.IsBlank: for _, b := range bs { if !IsSpace(b) { return false } } *)
Definition isBlank (s : bytes) : bool := forallb is_space s.

(* tag == "..." *)
Definition str_in (l : list bytes) (s : bytes) : bool := existsb (bytes_eqb s) l.
Definition isVoidElement (tag : bytes) : bool := str_in gen_ls_void tag.
Definition isRawTextElement (tag : bytes) : bool := str_in gen_ls_rawtext tag.

(* ---------------- htmlState ---------------- *)

Record hstate := mkH { h_stack : list bytes; h_rawTag : bytes; h_rawCloser : bytes }.
Definition h_empty : hstate := mkH [] [] [].

Definition nonempty (b : bytes) : bool := match b with [] => false | _ => true end.

(* func (s *htmlState) inHTML() bool *)
Definition inHTML (h : hstate) : bool :=
  nonempty (h_rawTag h) || nonempty (h_rawCloser h) || (0 <? Z.of_nat (length (h_stack h))).

(* func (s *htmlState) openTag(tag string) *)
Definition openTag (h : hstate) (tag : bytes) : hstate :=
  let st := h_stack h ++ [tag] in
  if isRawTextElement tag then mkH st tag (h_rawCloser h) else mkH st (h_rawTag h) (h_rawCloser h).

(* the loop of closeTag: for i := len(s.stack) - 1; i >= 0; i-- *)
Fixpoint close_loop (fuel : nat) (stack : list bytes) (i : Z) (tag : bytes) : lres (list bytes) :=
  match fuel with
  | O => LFuel
  | S fuel =>
    if 0 <=? i then
      if i <? Z.of_nat (length stack) then
        match nth_error stack (Z.to_nat i) with
        | None => LFault
        | Some t => if bytes_eqb t tag then LOk (firstn (Z.to_nat i) stack) (* s.stack = s.stack[:i]; break *)
                    else close_loop fuel stack (i - 1) tag
        end
      else LFault
    else LOk stack
  end.

(* func (s *htmlState) closeTag(tag string) *)
Definition closeTag (h : hstate) (tag : bytes) : lres hstate :=
  st <- close_loop (S (length (h_stack h))) (h_stack h) (Z.of_nat (length (h_stack h)) - 1) tag ;;
  LOk (mkH st (if bytes_eqb (h_rawTag h) tag then [] else h_rawTag h) (h_rawCloser h)).

(* ---------------- small scanning loops ---------------- *)

(* the condition `line[i] == '\\' && i+1 < len(line) && util.IsPunct(line[i+1])`, c = line[i] *)
Definition esc_at (line : bytes) (i : Z) (c : N) : lres bool :=
  if N.eqb c b_bs then
    if i + 1 <? zlen line then d <- zget line (i + 1) ;; LOk (is_punct d) else LOk false
  else LOk false.

(* countRun: for i < len(line) && line[i] == c { i++ } *)
Fixpoint run_loop (fuel : nat) (line : bytes) (i : Z) (c : N) : lres Z :=
  match fuel with
  | O => LFuel
  | S fuel =>
    if i <? zlen line then
      d <- zget line i ;;
      if N.eqb d c then run_loop fuel line (i + 1) c else LOk i
    else LOk i
  end.
Definition countRun (line : bytes) (pos : Z) (c : N) : lres Z :=
  i <- run_loop (S (length line)) line pos c ;; LOk (i - pos).

(* skipSpaces / skipSpacesCount: for pos < len(line) && util.IsSpace(line[pos]) { pos++; count++ } *)
Fixpoint skip_loop (fuel : nat) (line : bytes) (pos count : Z) : lres (Z * Z) :=
  match fuel with
  | O => LFuel
  | S fuel =>
    if pos <? zlen line then
      d <- zget line pos ;;
      if is_space d then skip_loop fuel line (pos + 1) (count + 1) else LOk (pos, count)
    else LOk (pos, count)
  end.
Definition skipSpacesCount (line : bytes) (pos : Z) : lres (Z * Z) := skip_loop (S (length line)) line pos 0.
Definition skipSpaces (line : bytes) (pos : Z) : lres Z := '(p, _) <- skipSpacesCount line pos ;; LOk p.

(* util.TabWidth *)
Definition tabWidth (currentPos : Z) : Z := gen_ls_tab_base - Z.rem currentPos gen_ls_tab_mod.

(* util.IndentWidth(bs, currentPos): for i := 0; i < l; i++ *)
Fixpoint indent_loop (fuel : nat) (bs : bytes) (i cur width pos : Z) : lres (Z * Z) :=
  match fuel with
  | O => LFuel
  | S fuel =>
    if i <? zlen bs then
      b <- zget bs i ;;
      if mem gen_ls_indent_space b then indent_loop fuel bs (i + 1) cur (width + 1) (pos + 1)
      else if mem gen_ls_indent_tab b then indent_loop fuel bs (i + 1) cur (width + tabWidth (cur + width)) (pos + 1)
      else LOk (width, pos)
    else LOk (width, pos)
  end.
Definition indentWidth (bs : bytes) (cur : Z) : lres (Z * Z) := indent_loop (S (length bs)) bs 0 cur 0 0.

(* ---------------- block level predicates ---------------- *)

(* isIndentedCode *)
Definition isIndentedCode (line : bytes) : lres bool :=
  '(width, _) <- indentWidth line 0 ;;
  LOk ((gen_ls_code_indent <=? width) && negb (isBlank line)).

(* isFenceStart: None = not a fence, Some (fenceChar, fenceLen) *)
Definition isFenceStart (line : bytes) : lres (option (N * Z)) :=
  '(width, pos) <- indentWidth line 0 ;;
  if (gen_ls_max_indent <? width) || (zlen line <=? pos) then LOk None
  else
    c <- zget line pos ;;
    if negb (mem gen_ls_fence_chars c) then LOk None
    else
      run <- countRun line pos c ;;
      if run <? gen_ls_fence_min then LOk None
      else if N.eqb c gen_ls_fence_noinfo then
        rest <- zsl line (pos + run) (zlen line) ;;
        if 0 <=? index_byte_z gen_ls_fence_noinfo_search rest then LOk None else LOk (Some (c, run))
      else LOk (Some (c, run)).

(* isFenceClose *)
Definition isFenceClose (line : bytes) (fenceChar : N) (fenceLen : Z) : lres bool :=
  '(width, pos) <- indentWidth line 0 ;;
  if (gen_ls_max_indent <? width) || (zlen line <=? pos) then LOk false
  else
    run <- countRun line pos fenceChar ;;
    if run <? fenceLen then LOk false
    else rest <- zsl line (pos + run) (zlen line) ;; LOk (isBlank rest).

(* ---------------- titles, labels, destinations ---------------- *)

(* parseTitle: for i := pos + 1; i < len(line); i++ ; None = (0, false) *)
Fixpoint title_loop (fuel : nat) (line : bytes) (i : Z) (closer : N) : lres (option Z) :=
  match fuel with
  | O => LFuel
  | S fuel =>
    if i <? zlen line then
      c <- zget line i ;;
      e <- esc_at line i c ;;
      if e then title_loop fuel line (i + 2) closer          (* i++; continue; i++ *)
      else if N.eqb c closer then LOk (Some (i + 1))
      else title_loop fuel line (i + 1) closer
    else LOk None
  end.
Definition parseTitle (line : bytes) (pos : Z) : lres (option Z) :=
  opener <- zget line pos ;;
  let closer := if N.eqb opener b_lp then b_rp else opener in
  title_loop (S (length line)) line (pos + 1) closer.

(* findLabelEnd: for i := pos; i < len(line); i++ ; -1 when there is none *)
Fixpoint label_loop (fuel : nat) (line : bytes) (i : Z) : lres Z :=
  match fuel with
  | O => LFuel
  | S fuel =>
    if i <? zlen line then
      c <- zget line i ;;
      e <- esc_at line i c ;;
      if e then label_loop fuel line (i + 2)
      else if N.eqb c b_lb then LOk (-1)
      else if N.eqb c b_rb then LOk i
      else label_loop fuel line (i + 1)
    else LOk (-1)
  end.
Definition findLabelEnd (line : bytes) (pos : Z) : lres Z := label_loop (S (length line)) line pos.

(* parseDestination, the branch line[pos] == '<': for i := pos + 1; i < len(line); i++ *)
Fixpoint angle_loop (fuel : nat) (line : bytes) (i pos : Z) : lres (option (Z * Z * Z)) :=
  match fuel with
  | O => LFuel
  | S fuel =>
    if i <? zlen line then
      c <- zget line i ;;
      e <- esc_at line i c ;;
      if e then angle_loop fuel line (i + 2) pos
      else if N.eqb c b_gt then LOk (Some (pos + 1, i, i + 1))
      else angle_loop fuel line (i + 1) pos
    else LOk None
  end.

(* parseDestination, the other branch: for i < len(line) { ... i++ }; the value is i at the exit *)
Fixpoint plain_loop (fuel : nat) (line : bytes) (i opened : Z) : lres Z :=
  match fuel with
  | O => LFuel
  | S fuel =>
    if i <? zlen line then
      c <- zget line i ;;
      e <- esc_at line i c ;;
      if e then plain_loop fuel line (i + 2) opened
      else if N.eqb c b_lp then plain_loop fuel line (i + 1) (opened + 1)
      else if N.eqb c b_rp then
        if opened - 1 <? 0 then LOk i else plain_loop fuel line (i + 1) (opened - 1)
      else if is_space c then LOk i
      else plain_loop fuel line (i + 1) opened
    else LOk i
  end.

(* parseDestination: None = not ok, Some (start, stop, after) *)
Definition parseDestination (line : bytes) (pos0 : Z) : lres (option (Z * Z * Z)) :=
  pos <- skipSpaces line pos0 ;;
  if zlen line <=? pos then LOk None
  else
    c <- zget line pos ;;
    if N.eqb c b_lt then angle_loop (S (length line)) line (pos + 1) pos
    else
      i <- plain_loop (S (length line)) line pos 0 ;;
      if i =? pos then LOk None else LOk (Some (pos, i, i)).

(* parseTitleAndClose: None = not ok, Some end *)
Definition parseTitleAndClose (line : bytes) (pos0 : Z) : lres (option Z) :=
  pos <- skipSpaces line pos0 ;;
  if zlen line <=? pos then LOk None
  else
    c <- zget line pos ;;
    if N.eqb c b_rp then LOk (Some (pos + 1))
    else if negb (N.eqb c b_dq) && negb (N.eqb c b_sq) && negb (N.eqb c b_lp) then LOk None
    else
      t <- parseTitle line pos ;;
      match t with
      | None => LOk None
      | Some e0 =>
        e <- skipSpaces line e0 ;;
        if e <? zlen line then
          d <- zget line e ;;
          if N.eqb d b_rp then LOk (Some (e + 1)) else LOk None
        else LOk None
      end.

(* parseInlineDestination: None = not ok, Some (start, stop, end) *)
Definition parseInlineDestination (line : bytes) (pos0 : Z) : lres (option (Z * Z * Z)) :=
  pos <- skipSpaces line pos0 ;;
  if zlen line <=? pos then LOk None
  else
    c <- zget line pos ;;
    if N.eqb c b_rp then LOk (Some (pos, pos, pos + 1))
    else
      d <- parseDestination line pos ;;
      match d with
      | None => LOk None
      | Some (destStart, destStop, after) =>
        if destStop <=? destStart then LOk None
        else
          e <- parseTitleAndClose line after ;;
          match e with
          | None => LOk None
          | Some en => LOk (Some (destStart, destStop, en))
          end
      end.

(* parseReferenceDefinition: None = not ok, Some (start, stop) *)
Definition parseReferenceDefinition (line : bytes) : lres (option (Z * Z)) :=
  '(width, pos) <- indentWidth line 0 ;;
  if (gen_ls_max_indent <? width) || (zlen line <=? pos) then LOk None
  else
    c <- zget line pos ;;
    if negb (N.eqb c b_lb) then LOk None
    else
      labelEnd <- findLabelEnd line (pos + 1) ;;
      if labelEnd <? 0 then LOk None
      else
        lab <- zsl line (pos + 1) labelEnd ;;
        if isBlank lab then LOk None
        else if zlen line <=? labelEnd + 1 then LOk None
        else
          d <- zget line (labelEnd + 1) ;;
          if negb (N.eqb d b_colon) then LOk None
          else
            i <- skipSpaces line (labelEnd + 2) ;;
            dd <- parseDestination line i ;;
            match dd with
            | None => LOk None
            | Some (destStart, destStop, after0) =>
              '(after, spaces) <- skipSpacesCount line after0 ;;
              if zlen line <=? after then LOk (Some (destStart, destStop))
              else
                opener <- zget line after ;;
                if negb (N.eqb opener b_dq) && negb (N.eqb opener b_sq) && negb (N.eqb opener b_lp) then
                  rest <- zsl line after (zlen line) ;;
                  if isBlank rest then LOk (Some (destStart, destStop)) else LOk None
                else if spaces =? 0 then LOk None
                else
                  t <- parseTitle line after ;;
                  match t with
                  | None => LOk None
                  | Some en =>
                    rest <- zsl line en (zlen line) ;;
                    if isBlank rest then LOk (Some (destStart, destStop)) else LOk None
                  end
            end.

(* ---------------- parseHTMLTag ---------------- *)

(* for i < len(line) && isHTMLTagNameChar(line[i]) { i++ } *)
Fixpoint name_loop (fuel : nat) (line : bytes) (i : Z) : lres Z :=
  match fuel with
  | O => LFuel
  | S fuel =>
    if i <? zlen line then
      d <- zget line i ;;
      if is_tagname d then name_loop fuel line (i + 1) else LOk i
    else LOk i
  end.

(* for i < len(line) && line[i] != quote { i++ } *)
Fixpoint quote_loop (fuel : nat) (line : bytes) (i : Z) (q : N) : lres Z :=
  match fuel with
  | O => LFuel
  | S fuel =>
    if i <? zlen line then
      d <- zget line i ;;
      if N.eqb d q then LOk i else quote_loop fuel line (i + 1) q
    else LOk i
  end.

(* the attribute loop: None = the function returns not ok, Some i = the loop ends with i *)
Fixpoint attr_loop (fuel : nat) (line : bytes) (i : Z) : lres (option Z) :=
  match fuel with
  | O => LFuel
  | S fuel =>
    if i <? zlen line then
      c <- zget line i ;;
      if N.eqb c b_dq || N.eqb c b_sq then
        j <- quote_loop (S (length line)) line (i + 1) c ;;
        if zlen line <=? j then LOk None else attr_loop fuel line (j + 1)
      else if N.eqb c b_gt then LOk (Some i)
      else attr_loop fuel line (i + 1)
    else LOk (Some i)
  end.

(* j := i - 1; for j > pos && util.IsSpace(line[j]) { j-- } *)
Fixpoint back_loop (fuel : nat) (line : bytes) (j pos : Z) : lres Z :=
  match fuel with
  | O => LFuel
  | S fuel =>
    if pos <? j then
      d <- zget line j ;;
      if is_space d then back_loop fuel line (j - 1) pos else LOk j
    else LOk j
  end.

Record htag := mkTag { t_name : bytes; t_end : Z; t_closing : bool; t_self : bool }.

(* parseHTMLTag: None = not ok *)
Definition parseHTMLTag (line : bytes) (pos : Z) : lres (option htag) :=
  if zlen line <=? pos then LOk None
  else
    c0 <- zget line pos ;;
    if negb (N.eqb c0 b_lt) || (zlen line <=? pos + 1) then LOk None
    else
      c1 <- zget line (pos + 1) ;;
      let isClosing := N.eqb c1 b_slash in
      let i := if isClosing then pos + 2 else pos + 1 in
      if isClosing && (zlen line <=? i) then LOk None
      else
        c <- zget line i ;;
        if negb (is_alpha c) then LOk None
        else
          j <- name_loop (S (length line)) line i ;;
          nm <- zsl line i j ;;
          let tag := to_lower nm in
          a <- attr_loop (S (length line)) line j ;;
          match a with
          | None => LOk None
          | Some k =>
            if zlen line <=? k then LOk None
            else
              g <- zget line k ;;
              if negb (N.eqb g b_gt) then LOk None
              else if isClosing then LOk (Some (mkTag tag (k + 1) true false))
              else if isVoidElement tag then LOk (Some (mkTag tag (k + 1) false true))
              else
                jj <- back_loop (S (length line)) line (k - 1) pos ;;
                if pos <? jj then
                  s <- zget line jj ;;
                  LOk (Some (mkTag tag (k + 1) false (N.eqb s b_slash)))
                else LOk (Some (mkTag tag (k + 1) false false))
          end.

(* ---------------- appendReplacement ---------------- *)

Section Scanner.
  (* markdownUnescape, url.Parse, the decision, the rewriting against the base and
     markdownURLEscape(u.String()) on src[start:stop] *)
  Variable decide : bytes -> option bytes.

  Definition appendReplacement (acc : list repl) (src : bytes) (start stop : Z) : lres (list repl) :=
    if (start <? 0) || (stop <=? start) || (zlen src <? stop) then LOk acc
    else
      raw <- zsl src start stop ;;
      match decide raw with
      | None => LOk acc
      | Some t => LOk (acc ++ [mkRepl start stop t])
      end.

  (* ---------------- scanInlineLinks ---------------- *)

  (* linkStack is kept with its top first; its elements are never read *)
  Record istate := mkI { i_pos : Z; i_stack : list Z; i_code : Z; i_html : hstate; i_acc : list repl }.

  (* the branch taken by one iteration *)
  Inductive iclass :=
  | ICodeSpan        (* inside a code span: a backtick run or one byte *)
  | IRawCloser       (* after an unclosed comment / CDATA / <? / <! : up to the closer *)
  | IRawCloserRest   (* the same, closer not on this line: return *)
  | IRawTag          (* inside script / style / textarea *)
  | IRawTagClose     (* the closing tag of the raw text element *)
  | ISpecial         (* a whole <!-- -->, <![CDATA[ ]]>, <? ?>, <! > on the line *)
  | ISpecialOpen     (* the same without its end: rawCloser is set, return *)
  | ITag             (* an HTML tag *)
  | IInHTML          (* one byte while the tag stack is not empty *)
  | IEscape          (* backslash + punctuation *)
  | ICodeOpen        (* a backtick run opening a code span *)
  | IOpenBracket
  | ICloseBracket    (* a closing bracket that does not end a recognised link *)
  | ILink            (* `](` destination `)` recognised: appendReplacement is called *)
  | IOther.

  (* the result of one iteration: go on with a new state, or return *)
  Inductive istep := IGo (st : istate) | IRet (st : istate).

  Definition set_pos (st : istate) (i : Z) : istate := mkI i (i_stack st) (i_code st) (i_html st) (i_acc st).
  Definition set_html (st : istate) (h : hstate) : istate := mkI (i_pos st) (i_stack st) (i_code st) h (i_acc st).

  (* the `switch` on the four constructs starting with "<!" or "<?"; the
     entries of gen_ls_special are (prefix, closer) in the order of the cases;
     the guard `i+K < len(line) && ...` of each case is HasPrefix of the
     prefix on line[i:] (obligation fact_special_guards in the proofs) *)
  Fixpoint special_cases (cases : list (bytes * bytes)) (rest : bytes) : option (bytes * bytes) :=
    match cases with
    | [] => None
    | (pre, closer) :: cs => if is_prefix pre rest then Some (pre, closer) else special_cases cs rest
    end.

  Definition inline_step (line src : bytes) (lineStart : Z) (st : istate) : lres (istep * iclass) :=
    let i := i_pos st in
    let html := i_html st in
    c <- zget line i ;;
    if 0 <? i_code st then
      (* if codeSpanLen > 0 *)
      if N.eqb c b_bt then
        run <- countRun line i b_bt ;;
        closes <- (if run =? i_code st then
                     if zlen line <=? i + run then LOk true
                     else d <- zget line (i + run) ;; LOk (negb (N.eqb d b_bt))
                   else LOk false) ;;
        LOk (IGo (mkI (i + run) (i_stack st) (if closes then 0 else i_code st) html (i_acc st)), ICodeSpan)
      else LOk (IGo (set_pos st (i + 1)), ICodeSpan)
    else if nonempty (h_rawCloser html) then
      (* if html.rawCloser != "" *)
      rest <- zsl line i (zlen line) ;;
      let e := index_sub (h_rawCloser html) rest in
      if e =? -1 then LOk (IRet st, IRawCloserRest)
      else LOk (IGo (mkI (i + e + zlen (h_rawCloser html)) (i_stack st) (i_code st)
                         (mkH (h_stack html) (h_rawTag html) []) (i_acc st)), IRawCloser)
    else if nonempty (h_rawTag html) then
      (* if html.rawTag != "" *)
      if N.eqb c b_lt then
        t <- parseHTMLTag line i ;;
        match t with
        | Some tg =>
          if t_closing tg && bytes_eqb (t_name tg) (h_rawTag html) then
            h' <- closeTag html (t_name tg) ;;
            LOk (IGo (mkI (t_end tg) (i_stack st) (i_code st) h' (i_acc st)), IRawTagClose)
          else LOk (IGo (set_pos st (i + 1)), IRawTag)
        | None => LOk (IGo (set_pos st (i + 1)), IRawTag)
        end
      else LOk (IGo (set_pos st (i + 1)), IRawTag)
    else
      (* if len(linkStack) == 0 && c == '<' { switch ...; parseHTMLTag } *)
      special <- (if (Z.of_nat (length (i_stack st)) =? 0) && N.eqb c b_lt then
                    rest <- zsl line i (zlen line) ;;
                    match special_cases gen_ls_special rest with
                    | Some (pre, closer) =>
                      body <- zsl line (i + zlen pre) (zlen line) ;;
                      let e := index_sub closer body in
                      if e =? -1 then
                        LOk (Some (IRet (set_html st (mkH (h_stack html) (h_rawTag html) closer)), ISpecialOpen))
                      else LOk (Some (IGo (set_pos st (i + zlen pre + e + zlen closer)), ISpecial))
                    | None =>
                      t <- parseHTMLTag line i ;;
                      match t with
                      | Some tg =>
                        h' <- (if t_closing tg then closeTag html (t_name tg)
                               else if negb (t_self tg) then LOk (openTag html (t_name tg))
                               else LOk html) ;;
                        LOk (Some (IGo (mkI (t_end tg) (i_stack st) (i_code st) h' (i_acc st)), ITag))
                      | None => LOk None
                      end
                    end
                  else LOk None) ;;
      match special with
      | Some r => LOk r
      | None =>
        if inHTML html then LOk (IGo (set_pos st (i + 1)), IInHTML)
        else
          e <- esc_at line i c ;;
          if e then LOk (IGo (set_pos st (i + 2)), IEscape)
          else if N.eqb c b_bt then
            run <- countRun line i b_bt ;;
            LOk (IGo (mkI (i + run) (i_stack st) run html (i_acc st)), ICodeOpen)
          else if N.eqb c b_lb then
            LOk (IGo (mkI (i + 1) (i :: i_stack st) (i_code st) html (i_acc st)), IOpenBracket)
          else if N.eqb c b_rb then
            match i_stack st with
            | _ :: stack' =>
              (* linkStack = linkStack[:len(linkStack)-1] *)
              lk <- (if i + 1 <? zlen line then
                       d <- zget line (i + 1) ;;
                       if N.eqb d b_lp then parseInlineDestination line (i + 2) else LOk None
                     else LOk None) ;;
              match lk with
              | Some (start, stop, en) =>
                acc' <- appendReplacement (i_acc st) src (lineStart + start) (lineStart + stop) ;;
                LOk (IGo (mkI en [] (i_code st) html acc'), ILink)
              | None => LOk (IGo (mkI (i + 1) stack' (i_code st) html (i_acc st)), ICloseBracket)
              end
            | [] => LOk (IGo (set_pos st (i + 1)), ICloseBracket)
            end
          else LOk (IGo (set_pos st (i + 1)), IOther)
      end.

  (* for i := 0; i < len(line); { ... } *)
  Fixpoint inline_loop (fuel : nat) (line src : bytes) (lineStart : Z) (st : istate) : lres istate :=
    match fuel with
    | O => LFuel
    | S fuel =>
      if i_pos st <? zlen line then
        r <- inline_step line src lineStart st ;;
        match fst r with
        | IGo st' => inline_loop fuel line src lineStart st'
        | IRet st' => LOk st'
        end
      else LOk st
    end.

  (* scanInlineLinks: the replacements and the HTML state after the line *)
  Definition scanInlineLinks (line : bytes) (lineStart : Z) (src : bytes) (acc : list repl) (html : hstate)
    : lres (list repl * hstate) :=
    st <- inline_loop (S (length line)) line src lineStart (mkI 0 [] 0 html acc) ;;
    LOk (i_acc st, i_html st).

  (* ---------------- collectReplacements ---------------- *)

  Record lstate := mkL { l_inFence : bool; l_fenceChar : N; l_fenceLen : Z; l_html : hstate; l_acc : list repl }.

  Inductive lclass :=
  | CFenceBody       (* a line inside a fenced code block *)
  | CFenceClose      (* the closing fence *)
  | CFenceOpen       (* an opening fence *)
  | CIndented        (* indented code *)
  | CRefDef          (* a reference definition: appendReplacement is called *)
  | CInline.         (* scanned by scanInlineLinks *)

  (* the body of the loop of collectReplacements on one line *)
  Definition line_step (src line : bytes) (lineStart : Z) (st : lstate) : lres (lstate * lclass) :=
    if l_inFence st then
      cl <- isFenceClose line (l_fenceChar st) (l_fenceLen st) ;;
      if cl then LOk (mkL false (l_fenceChar st) (l_fenceLen st) (l_html st) (l_acc st), CFenceClose)
      else LOk (st, CFenceBody)
    else
      blk <- (if negb (inHTML (l_html st)) then
                fs <- isFenceStart line ;;
                match fs with
                | Some (fc, fl) => LOk (Some (mkL true fc fl (l_html st) (l_acc st), CFenceOpen))
                | None =>
                  ic <- isIndentedCode line ;;
                  if ic then LOk (Some (st, CIndented)) else LOk None
                end
              else LOk None) ;;
      match blk with
      | Some r => LOk r
      | None =>
        rd <- (if negb (inHTML (l_html st)) then parseReferenceDefinition line else LOk None) ;;
        match rd with
        | Some (start, stop) =>
          acc' <- appendReplacement (l_acc st) src (lineStart + start) (lineStart + stop) ;;
          LOk (mkL false (l_fenceChar st) (l_fenceLen st) (l_html st) acc', CRefDef)
        | None =>
          '(acc', h') <- scanInlineLinks line lineStart src (l_acc st) (l_html st) ;;
          LOk (mkL false (l_fenceChar st) (l_fenceLen st) h' acc', CInline)
        end
      end.

  (* lineEnd of the line starting at lineStart *)
  Definition line_end (src : bytes) (lineStart : Z) : lres Z :=
    rest <- zsl src lineStart (zlen src) ;;
    let k := index_byte_z b_nl rest in
    LOk (if k =? -1 then zlen src else k + lineStart).

  (* for lineStart := 0; lineStart <= len(src); { ...; lineStart = lineEnd + 1 } *)
  Fixpoint line_loop (fuel : nat) (src : bytes) (lineStart : Z) (st : lstate) : lres lstate :=
    match fuel with
    | O => LFuel
    | S fuel =>
      if lineStart <=? zlen src then
        lineEnd <- line_end src lineStart ;;
        line <- zsl src lineStart lineEnd ;;
        r <- line_step src line lineStart st ;;
        line_loop fuel src (lineEnd + 1) (fst r)
      else LOk st
    end.

  Definition l_init : lstate := mkL false 0%N 0 h_empty [].

  Definition collectReplacements (src : bytes) : lres (list repl) :=
    st <- line_loop (S (S (length src))) src 0 l_init ;;
    LOk (l_acc st).

  (* replace: applyReplacements(dst, src, collectReplacements(src)) *)
  Definition replace (src : bytes) : lres bytes :=
    rs <- collectReplacements src ;;
    match applyReplacements src rs with
    | Some out => LOk out
    | None => LFault
    end.
End Scanner.
