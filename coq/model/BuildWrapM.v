(* How a panic raised while compiling leaves scriggo.Build: the recover()
   handlers of the compiler (parser.go, checker_statements.go,
   checker_package.go, compiler.go) turn the error types listed in
   gen_recover_converts into the returned error and re-panic anything else;
   Build (programs.go) wraps a returned compiler.Error into a *BuildError.
   The three lists are regenerated from the sources (Facts_checker). *)
From Coq Require Import List Bool NArith.
From Verif Require Import Facts_checker.
Import ListNotations.

Inductive build_outcome := OBuildError | OOtherError | ORawPanic.

Definition pclass_eqb (a b : pclass) : bool :=
  match a, b with
  | PChecking, PChecking | PSyntax, PSyntax | PLimit, PLimit | PCycle, PCycle
  | PRepanic, PRepanic | PInternal, PInternal | POther, POther => true
  | _, _ => false
  end.

Definition converts (c : pclass) : bool := existsb (pclass_eqb c) gen_recover_converts.
Definition is_compiler_error (c : pclass) : bool := existsb (pclass_eqb c) gen_compiler_errors.

(* outcome of Build when a panic of class c is raised during compilation *)
Definition panic_outcome (c : pclass) : build_outcome :=
  if converts c then
    if is_compiler_error c && gen_build_wraps then OBuildError else OOtherError
  else ORawPanic.

(* the classes that stand for a rejection of the program *)
Definition rejection_class (c : pclass) : bool :=
  match c with PChecking | PSyntax | PLimit => true | _ => false end.
