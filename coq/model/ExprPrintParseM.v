(* Executable model for C27: the parenthesisation rule of the String methods
   of ast.UnaryOperator / ast.BinaryOperator and the operator-path algorithm
   of parseExpr, over operator expressions whose other operands (identifiers,
   literals, calls, selectors, ...) are opaque atoms.  Precedences, operator
   spellings and the token -> operator tables are generated (Facts_AstOps).
   No proofs here. *)
From Coq Require Import List NArith Bool.
From Verif Require Import Bytes.
Import ListNotations.
Open Scope N_scope.

(* p: the number of parentheses recorded around the expression (ast.Expression.Parenthesis) *)
Inductive expr :=
| Atom (p : nat) (a : N)
| Un (p : nat) (op : N) (x : expr)
| Bin (p : nat) (op : N) (l r : expr).

Inductive token := TAtom (a : N) | TSym (s : bytes) | TLP | TRP.

Fixpoint erase_parens (e : expr) : expr :=
  match e with
  | Atom _ a => Atom 0 a
  | Un _ op x => Un 0 op (erase_parens x)
  | Bin _ op l r => Bin 0 op (erase_parens l) (erase_parens r)
  end.

Definition add_paren (e : expr) : expr :=
  match e with
  | Atom p a => Atom (S p) a
  | Un p op x => Un (S p) op x
  | Bin p op l r => Bin (S p) op l r
  end.

Fixpoint lookupb {A : Type} (l : list (bytes * A)) (s : bytes) : option A :=
  match l with
  | [] => None
  | (k, v) :: r => if bytes_eqb k s then Some v else lookupb r s
  end.

Section PP.
Variable op_string : list (N * bytes).      (* OperatorType.String *)
Variable bin_prec : list (N * N).           (* BinaryOperator.Precedence (panics outside) *)
Variable un_prec : N.                       (* UnaryOperator.Precedence *)
Variable unary_tokens : list (bytes * N).   (* parseExpr: token in operand position -> unary operator *)
Variable binary_tokens : list (bytes * N).  (* parseExpr: token after an operand -> binary operator *)
Variable op_receive : N.

Definition spell (op : N) : option bytes := assoc_get op_string op.
Definition bprec (op : N) : option N := assoc_get bin_prec op.

(* Precedence() of an operator expression (None: panic "invalid operator type") *)
Definition oprec (e : expr) : option N :=
  match e with
  | Atom _ _ => None
  | Un _ _ _ => Some un_prec
  | Bin _ op _ _ => bprec op
  end.

(* BinaryOperator.String: `e, ok := n.ExprI.(Operator); ok && e.Precedence() <= n.Precedence()` *)
Definition np_bin (op : N) (c : expr) : option bool :=
  match c with
  | Atom _ _ => Some false
  | _ => match oprec c, bprec op with Some pc, Some pp => Some (pc <=? pp) | _, _ => None end
  end.

(* UnaryOperator.String: `ok && (n.Op == OperatorReceive || e.Precedence() <= n.Precedence())` *)
Definition np_un (op : N) (c : expr) : option bool :=
  match c with
  | Atom _ _ => Some false
  | _ => if op =? op_receive then Some true
         else match oprec c with Some pc => Some (pc <=? un_prec) | None => None end
  end.

Definition wrap (b : bool) (ts : list token) : list token := if b then TLP :: ts ++ [TRP] else ts.

(* the tokens of String() (None: the Go code panics) *)
Fixpoint pr (e : expr) : option (list token) :=
  match e with
  | Atom _ a => Some [TAtom a]
  | Un _ op x =>
    match spell op, np_un op x, pr x with
    | Some s, Some b, Some tx => Some (TSym s :: wrap b tx)
    | _, _, _ => None
    end
  | Bin _ op l r =>
    match np_bin op l, pr l, spell op, np_bin op r, pr r with
    | Some bl, Some tl, Some s, Some br, Some tr => Some (wrap bl tl ++ TSym s :: wrap br tr)
    | _, _, _, _, _ => None
    end
  end.

(* ---- the operator-path algorithm of parseExpr ---- *)
Inductive frame := FUn (op : N) | FBin (op : N) (l : expr).

Definition fprec (f : frame) : option N :=
  match f with FUn _ => Some un_prec | FBin op _ => bprec op end.

Definition apply_frame (f : frame) (o : expr) : expr :=
  match f with FUn op => Un 0 op o | FBin op l => Bin 0 op l o end.

(* the path is kept leaf first *)
Fixpoint close (P : list frame) (o : expr) : expr :=
  match P with [] => o | f :: r => close r (apply_frame f o) end.

(* `for p > 0 && op.Precedence() <= path[p-1].Precedence() { p-- }` and the re-linking *)
Fixpoint reduce (P : list frame) (pb : N) (o : expr) : option (list frame * expr) :=
  match P with
  | [] => Some ([], o)
  | f :: r =>
    match fprec f with
    | None => None
    | Some pf => if pb <=? pf then reduce r pb (apply_frame f o) else Some (P, o)
    end
  end.

(* cs: the paths of the enclosing parseExpr calls (one per open parenthesis) *)
Inductive state :=
| SOperand (cs : list (list frame)) (P : list frame)
| SAfter (cs : list (list frame)) (P : list frame) (o : expr).

Definition step (st : state) (t : token) : option state :=
  match st, t with
  | SOperand cs P, TSym s =>
    match lookupb unary_tokens s with Some u => Some (SOperand cs (FUn u :: P)) | None => None end
  | SOperand cs P, TAtom a => Some (SAfter cs P (Atom 0 a))
  | SOperand cs P, TLP => Some (SOperand (P :: cs) [])
  | SOperand _ _, TRP => None
  | SAfter cs P o, TSym s =>
    match lookupb binary_tokens s with
    | Some b =>
      match bprec b with
      | Some pb =>
        match reduce P pb o with
        | Some (P', l) => Some (SOperand cs (FBin b l :: P'))
        | None => None
        end
      | None => None
      end
    | None => None
    end
  | SAfter (Pout :: cs) P o, TRP => Some (SAfter cs Pout (add_paren (close P o)))
  | SAfter _ _ _, _ => None
  end.

Fixpoint run (st : state) (ts : list token) : option state :=
  match ts with
  | [] => Some st
  | t :: r => match step st t with Some st' => run st' r | None => None end
  end.

Definition parse (ts : list token) : option expr :=
  match run (SOperand [] []) ts with
  | Some (SAfter [] P o) => Some (close P o)
  | _ => None
  end.

(* operators that can be printed and parsed back *)
Definition un_ok (op : N) : bool :=
  match spell op with
  | Some s => match lookupb unary_tokens s with Some u => u =? op | None => false end
  | None => false
  end.
Definition bin_ok (op : N) : bool :=
  match spell op, bprec op with
  | Some s, Some _ => match lookupb binary_tokens s with Some b => b =? op | None => false end
  | _, _ => false
  end.
Fixpoint wf (e : expr) : bool :=
  match e with
  | Atom _ _ => true
  | Un _ op x => un_ok op && wf x
  | Bin _ op l r => bin_ok op && wf l && wf r
  end.

(* ---- the string that String() returns, atoms given by a table ---- *)
Variable op_extended_not : N.
Fixpoint render_string (atoms : list (N * bytes)) (e : expr) : option bytes :=
  match e with
  | Atom _ a => assoc_get atoms a
  | Un _ op x =>
    match spell op, np_un op x, render_string atoms x with
    | Some s, Some b, Some sx =>
      Some (s ++ (if op =? op_extended_not then [32] else []) ++ (if b then [40] ++ sx ++ [41] else sx))
    | _, _, _ => None
    end
  | Bin _ op l r =>
    match np_bin op l, render_string atoms l, spell op, np_bin op r, render_string atoms r with
    | Some bl, Some sl, Some s, Some br, Some sr =>
      Some ((if bl then [40] ++ sl ++ [41] else sl) ++ [32] ++ s ++ [32] ++ (if br then [40] ++ sr ++ [41] else sr))
    | _, _, _, _, _ => None
    end
  end.

End PP.
