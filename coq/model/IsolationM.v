(* IsolationM: n runs of one built artefact.  The state is the artefact
   (shared by all runs: the compiled Function tree, native function
   descriptors), a cache part that runs may write (sync.Pool of argument
   slices, lazily created native descriptors of callables) and one local state
   per run (its VM, env, registers, output).  A schedule is the sequence of
   run indices that take a step.  No proofs in this file. *)
From Coq Require Import List Arith.
Import ListNotations.

Section Iso.
  Variables Art Cache Local Out : Type.

  (* one step of a run: it may read everything, returns the new artefact, the
     new cache and either the new local state or the outcome of the run *)
  Variable gstep : Art -> Cache -> Local -> Art * Cache * (Local + Out).

  Definition rstate : Type := (Local + Out)%type.

  Record world := mkworld { w_art : Art; w_cache : Cache; w_runs : list rstate }.

  Fixpoint set_run (l : list rstate) (i : nat) (x : rstate) : list rstate :=
    match l, i with
    | [], _ => []
    | _ :: r, O => x :: r
    | y :: r, S j => y :: set_run r j x
    end.

  (* run i takes a step (a finished run, or an index out of range, does nothing) *)
  Definition sched_step (w : world) (i : nat) : world :=
    match nth_error (w_runs w) i with
    | Some (inl l) =>
        match gstep (w_art w) (w_cache w) l with
        | (a, c, x) => mkworld a c (set_run (w_runs w) i x)
        end
    | _ => w
    end.

  Definition exec (w : world) (sched : list nat) : world := fold_left sched_step sched w.

  (* the same run alone, with a given cache, for k steps *)
  Fixpoint solo (a : Art) (c : Cache) (k : nat) (x : rstate) : rstate :=
    match k, x with
    | S k', inl l =>
        match gstep a c l with
        | (_, c', x') => solo a c' k' x'
        end
    | _, _ => x
    end.
End Iso.
