(* Model of internal/runtime/renderer.go: renderer.Text, renderer.Show,
   showInURL, endURL with the URL state, and of escapers.go pathEscape /
   queryEscape as the sequence of Write calls they perform.  Writers are
   functions from the (1-based) index of the Write call to Ok or an error.
   Every Go index expression is checked: a failing one gives RFault (a Go
   runtime panic, which would leave Template.Run as a host panic).
   No proofs here. *)
From Verif Require Import Bytes Facts_render.
Open Scope N_scope.

(* ---------------------------------------------------------------- writers *)

Definition werr := N.                       (* identity of an error value *)
Definition writer := N -> option werr.      (* k-th call: None = accepted, Some e = fails with e *)

Record wst := mkW { w_calls : N; w_out : list bytes }.   (* calls made, chunks accepted in order *)
Definition w0 : wst := mkW 0 [].

(* one call of out.Write / out.WriteString; a failing call accepts nothing *)
Definition wr (w : writer) (ws : wst) (c : bytes) : wst * option werr :=
  let k := w_calls ws + 1 in
  match w k with
  | None => (mkW k (w_out ws ++ [c]), None)
  | Some e => (mkW k (w_out ws), Some e)
  end.

Inductive res := ROk | RErr (e : werr) | RFault.

(* a write script: the calls a loop-like function makes in order, AFault = an
   index expression out of range at that point *)
Inductive act := AWrite (c : bytes) | AFault.

Fixpoint run_script (w : writer) (ws : wst) (sc : list act) : wst * res :=
  match sc with
  | [] => (ws, ROk)
  | AFault :: _ => (ws, RFault)
  | AWrite c :: r =>
    match wr w ws c with
    | (ws', None) => run_script w ws' r
    | (ws', Some e) => (ws', RErr e)
    end
  end.

(* ---------------------------------------------------------------- pathEscape / queryEscape *)

Definition pe_tbl (quoted : bool) := if quoted then gen_pathEscape_quoted else gen_pathEscape_unquoted.

(* what the loop body decides for byte c followed by r:
   None = index out of range, Some None = continue (byte stays in the pending
   chunk), Some (Some rep) = rep is written *)
Definition pe_byte (quoted : bool) (c : N) (r : bytes) : option (option bytes) :=
  match assoc_get (pe_tbl quoted) c with
  | None => Some None
  | Some rep =>
    if mem gen_pathEscape_lookbytes c then
      (* i+2 < len(s) && isHexDigit(s[i+1]) && isHexDigit(s[i+2]) *)
      if gen_pathEscape_look_need <=? 1 + nlen r then
        match r with
        | [] => None
        | a :: r' =>
          if mem gen_pathEscape_look1 a then
            match r' with
            | [] => None
            | b :: _ => if mem gen_pathEscape_look2 b then Some None else Some (Some rep)
            end
          else Some (Some rep)
        end
      else Some (Some rep)
    else Some (Some rep)
  end.

Definition flushp (pend : bytes) : list act :=
  match pend with [] => [] | _ => [AWrite pend] end.

(* pend = s[last:i] *)
Fixpoint pe_loop (quoted : bool) (s : bytes) (pend : bytes) : list act :=
  match s with
  | [] => flushp pend
  | c :: r =>
    match pe_byte quoted c r with
    | None => [AFault]
    | Some None => pe_loop quoted r (pend ++ [c])
    | Some (Some rep) => flushp pend ++ AWrite rep :: pe_loop quoted r []
    end
  end.

Definition pathEscape (quoted : bool) (s : bytes) : list act := pe_loop quoted s [].

Fixpoint qe_loop (s : bytes) (pend : bytes) : list act :=
  match s with
  | [] => flushp pend
  | c :: r =>
    match assoc_get gen_queryEscape c with
    | None => qe_loop r (pend ++ [c])
    | Some rep => flushp pend ++ AWrite rep :: qe_loop r []
    end
  end.

Definition queryEscape (s : bytes) : list act := qe_loop s [].

(* ---------------------------------------------------------------- renderer *)

Record rstate := mkR { inURL : bool; query : bool; addAmp : bool; remQ : bool }.
Definition r0 : rstate := mkR false false false false.

(* endURL *)
Definition endURL (st : rstate) : rstate := r0.

(* the common head of Text and Show:
   if r.inURL != inURL { if !inURL { r.endURL() }; r.inURL = inURL } *)
Definition url_switch (st : rstate) (u : bool) : rstate :=
  if Bool.eqb (inURL st) u then st
  else let st1 := if u then st else endURL st in
       mkR u (query st1) (addAmp st1) (remQ st1).

Definition amp_entity : bytes := [38; 97; 109; 112; 59].   (* the five bytes of the amp entity *)

Fixpoint last_opt (s : bytes) : option N :=
  match s with
  | [] => None
  | [c] => Some c
  | _ :: r => last_opt r
  end.

(* txt[bytes.LastIndexByte(txt, c)+1:]: what follows the last occurrence of c (all of txt when there is none) *)
Fixpoint after_last (c : N) (s : bytes) : bytes :=
  match s with
  | [] => []
  | x :: r => if mem r c then after_last c r else if x =? c then r else x :: r
  end.

(* renderer.Text(txt, inURL, isSet) *)
Definition r_text (w : writer) (st : rstate) (ws : wst) (txt : bytes) (u isSet : bool) : rstate * wst * res :=
  let st := url_switch st u in
  if u then
    if isSet && mem txt 44 then
      (* a new URL starts after the last comma:
         r.query = bytes.ContainsAny(txt[bytes.LastIndexByte(txt, comma)+1:], ?#); r.addAmpersand = false; r.removeQuestionMark = false *)
      let tail := after_last 44 txt in
      let st := mkR (inURL st) (mem tail 63 || mem tail 35) false false in
      match wr w ws txt with
      | (ws', None) => (st, ws', ROk)
      | (ws', Some e) => (st, ws', RErr e)
      end
    else if query st then
      (* if r.removeQuestionMark && txt[0] == ? { txt = txt[1:] } *)
      let t1 := if remQ st then
                  match txt with
                  | [] => None
                  | c :: r => Some (if c =? 63 then r else txt)
                  end
                else Some txt in
      match t1 with
      | None => (st, ws, RFault)
      | Some txt' =>
        (* if r.addAmpersand && len(txt) > 0 && txt[0] != & *)
        let need := addAmp st && match txt' with [] => false | c :: _ => negb (c =? 38) end in
        let '(ws1, e1) := if need then wr w ws amp_entity else (ws, None) in
        match e1 with
        | Some e => (st, ws1, RErr e)
        | None =>
          let st := mkR (inURL st) (query st) false false in
          match wr w ws1 txt' with
          | (ws', None) => (st, ws', ROk)
          | (ws', Some e) => (st, ws', RErr e)
          end
        end
      end
    else
      let st := mkR (inURL st) (mem txt 63 || mem txt 35) (addAmp st) (remQ st) in
      match wr w ws txt with
      | (ws', None) => (st, ws', ROk)
      | (ws', Some e) => (st, ws', RErr e)
      end
  else
    match wr w ws txt with
    | (ws', None) => (st, ws', ROk)
    | (ws', Some e) => (st, ws', RErr e)
    end.

(* What a value contributes to Show, supplied by the caller (the calculus
   abstracts the expression language and the non-URL escapers):
   sv_chunks / sv_err: the Write calls made by the show function of the
     context outside URLs, and the error it returns after them if it is not a
     write error (cannot show value ...);
   sv_url: html.UnescapeString of the HTML rendering of the value, None when
     showInHTML fails. *)
Record shown := mkShown { sv_chunks : list bytes; sv_err : option werr; sv_url : option bytes }.

Definition show_error : werr := 1000.   (* error of showInHTML inside showInURL *)

(* showInURL(v, ctx) with s = the unescaped HTML rendering; state first, then the writes *)
Definition r_show_url (st : rstate) (s : bytes) (quoted : bool) : rstate * list act :=
  if query st then
    if remQ st then
      (* if len(s) > 0 { r.addAmpersand = s[len(s)-1] != & } *)
      let st' := match last_opt s with
                 | None => st
                 | Some c => mkR (inURL st) (query st) (negb (c =? 38)) (remQ st)
                 end in
      (st', pathEscape quoted s)
    else (st, queryEscape s)
  else if mem s 63 then
    (* r.query = true; r.removeQuestionMark = true;
       if c := s[len(s)-1]; c != & && c != ? { r.addAmpersand = true } *)
    match last_opt s with
    | None => (mkR (inURL st) true (addAmp st) true, [AFault])
    | Some c =>
      (mkR (inURL st) true (if negb (c =? 38) && negb (c =? 63) then true else addAmp st) true,
       pathEscape quoted s)
    end
  else (st, pathEscape quoted s).

Definition decode_ctx (c : N) : option (N * bool * bool) := assoc_get gen_rt_decodeRenderContext c.

(* renderer.Show(env, v, context) *)
Definition r_show (w : writer) (st : rstate) (ws : wst) (c : N) (v : shown) : rstate * wst * res :=
  match decode_ctx c with
  | None => (st, ws, RFault)
  | Some (ctx, u, _) =>
    let st := url_switch st u in
    if u then
      match sv_url v with
      | None => (st, ws, RErr show_error)
      | Some s =>
        let '(st', sc) := r_show_url st s (ctx =? gen_ContextQuotedAttr) in
        let '(ws', r) := run_script w ws sc in (st', ws', r)
      end
    else if mem gen_show_known_ctx ctx then
      let '(ws', r) := run_script w ws (map AWrite (sv_chunks v)) in
      match r with
      | ROk => (st, ws', match sv_err v with Some e => RErr e | None => ROk end)
      | _ => (st, ws', r)
      end
    else (st, ws, RFault)     (* panic(scriggo: unknown context) *)
  end.

Inductive op :=
| OText (txt : bytes) (u isSet : bool)
| OShow (c : N) (v : shown).

Definition r_op (w : writer) (st : rstate) (ws : wst) (o : op) : rstate * wst * res :=
  match o with
  | OText txt u isSet => r_text w st ws txt u isSet
  | OShow c v => r_show w st ws c v
  end.

(* Any sequence of operations on one renderer. An error does not end the
   sequence: the VM turns it into a panic that the template may recover, and
   the renderer goes on being used. *)
Fixpoint r_run (w : writer) (st : rstate) (ws : wst) (ops : list op) : rstate * wst * list res :=
  match ops with
  | [] => (st, ws, [])
  | o :: r =>
    let '(st1, ws1, x) := r_op w st ws o in
    let '(st2, ws2, xs) := r_run w st1 ws1 r in
    (st2, ws2, x :: xs)
  end.

(* what the emitter guarantees about the operands *)
Definition op_ok (o : op) : bool :=
  match o with
  | OText txt _ _ => match txt with [] => false | _ => true end
  | OShow c _ =>
    match decode_ctx c with
    | Some (ctx, _, _) => mem gen_show_known_ctx ctx
    | None => false
    end
  end.

Definition is_fault (r : res) : bool := match r with RFault => true | _ => false end.

(* the bytes a script writes when no write fails (used by the in-Coq cross-check of the extraction) *)
Fixpoint script_out (sc : list act) : bytes :=
  match sc with
  | AWrite c :: r => c ++ script_out r
  | _ => []
  end.
Definition path_escape_quoted_bytes (s : bytes) : bytes := script_out (pathEscape true s).
Definition path_escape_unquoted_bytes (s : bytes) : bytes := script_out (pathEscape false s).
Definition query_escape_bytes (s : bytes) : bytes := script_out (queryEscape s).
