(* Executable model of native/packages.go (property C22).  No proofs here.

   name  = Go string (list of bytes);  decl = a Declaration, 0 standing for
   the nil interface value;  cbres = an error value as seen by the code:
   nil, the StopLookup sentinel, or any other error e.

   Callbacks are Go closures with state: a callback over a state type S is a
   function  name -> decl -> S -> S * cbres.  The undefined iteration order of
   `for n, d := range p.Declarations` is explicit: the declaration list given
   to the model IS the order of this call, and the theorems quantify over
   every list. *)
From Verif Require Import Bytes.
Open Scope N_scope.

Definition name := bytes.
Definition decl := N.
Definition dnil : decl := 0.
Definition is_dnil (d : decl) : bool := N.eqb d 0.

Inductive cbres := CNil | CStop | CErr (e : N).
Definition is_cnil (r : cbres) : bool := match r with CNil => true | _ => false end.
(* if err == StopLookup { err = nil } *)
Definition stop_to_nil (r : cbres) : cbres := match r with CStop => CNil | _ => r end.

Definition scallback (S : Type) : Type := name -> decl -> S -> S * cbres.

Fixpoint name_mem (n : name) (l : list name) : bool :=
  match l with
  | [] => false
  | k :: r => if bytes_eqb k n then true else name_mem n r
  end.

(* ---- native.Package ---- *)

(* p.Declarations[name]: the zero value (nil) when absent *)
Fixpoint decl_get (ds : list (name * decl)) (n : name) : decl :=
  match ds with
  | [] => dnil
  | (k, v) :: r => if bytes_eqb k n then v else decl_get r n
  end.

(* var err error
   for n, d := range p.Declarations { if err = f(n, d); err != nil { break } }
   the loop, with the variable err threaded through *)
Fixpoint package_range {S : Type} (order : list (name * decl)) (f : scallback S) (s : S) (err : cbres) : S * cbres :=
  match order with
  | [] => (s, err)
  | (n, d) :: rest =>
    let '(s1, r) := f n d s in          (* err = f(n, d) *)
    if is_cnil r then package_range rest f s1 r
    else (s1, r)                         (* break *)
  end.

Definition package_lookupfunc {S : Type} (order : list (name * decl)) (f : scallback S) (s : S) : S * cbres :=
  let '(s1, err) := package_range order f s CNil in
  (s1, stop_to_nil err).

(* ---- native.CombinedPackage over arbitrary ImportablePackage members ---- *)

Section Combined.
  Variable member : Type.
  Variable m_lookupfunc : member -> forall S : Type, scallback S -> S -> S * cbres.
  Variable m_lookup : member -> name -> decl.
  Variable m_name : member -> name.

  (* state of the closure w: the names set, the shared variable err, and the
     state of the callback f it wraps *)
  Definition wstate (S : Type) : Type := (list name * cbres * S)%type.

  (* w := func(name, decl) error {
       if _, ok := names[name]; !ok { err = f(name, decl); names[name] = struct{}{} }
       return err } *)
  Definition wrap {S : Type} (f : scallback S) : scallback (wstate S) :=
    fun n d st =>
      let '(names, err, s) := st in
      if name_mem n names then (st, err)
      else let '(s1, r) := f n d s in ((n :: names, r, s1), r).

  (* for _, pkg := range packages { _ = pkg.LookupFunc(w); if err != nil { break } } *)
  Fixpoint combined_range {S : Type} (ms : list member) (f : scallback S) (st : wstate S) : wstate S :=
    match ms with
    | [] => st
    | m :: rest =>
      let '(st1, _) := m_lookupfunc m (wstate S) (wrap f) st in
      let '(_, err, _) := st1 in
      if is_cnil err then combined_range rest f st1 else st1
    end.

  Definition combined_lookupfunc {S : Type} (ms : list member) (f : scallback S) (s : S) : S * cbres :=
    let '(_, err, s1) := combined_range ms f ([], CNil, s) in
    (s1, stop_to_nil err).

  Fixpoint combined_lookup (ms : list member) (n : name) : decl :=
    match ms with
    | [] => dnil
    | m :: rest =>
      let d := m_lookup m n in
      if is_dnil d then combined_lookup rest n else d
    end.

  Definition combined_name (ms : list member) : name :=
    match ms with
    | [] => []
    | m :: _ => m_name m
    end.
End Combined.

Arguments wrap {S} f n d st.
Arguments wstate S : clear implicits.

(* ---- concrete trees: Package leaves and nested CombinedPackage values ---- *)

Inductive ipkg :=
| IPkg (pname : name) (ds : list (name * decl))
| IComb (ms : list ipkg).

Fixpoint lookupfunc (p : ipkg) (S : Type) (f : scallback S) (s : S) {struct p} : S * cbres :=
  match p with
  | IPkg _ ds => package_lookupfunc ds f s
  | IComb ms => combined_lookupfunc ipkg lookupfunc ms f s
  end.

Fixpoint lookup (p : ipkg) (n : name) {struct p} : decl :=
  match p with
  | IPkg _ ds => decl_get ds n
  | IComb ms => combined_lookup ipkg lookup ms n
  end.

Fixpoint pkg_name (p : ipkg) : name :=
  match p with
  | IPkg pn _ => pn
  | IComb ms => combined_name ipkg pkg_name ms
  end.

(* ---- recording callbacks: result decided by the call index, name and declaration ---- *)

Definition callback := nat -> name -> decl -> cbres.
Definition log := list (name * decl).
Definition cb_of (f : callback) : scallback log :=
  fun n d l => (l ++ [(n, d)], f (length l) n d).

(* a schedule: the result of call number i is the i-th element, nil afterwards *)
Fixpoint sched_get (sc : list cbres) (i : nat) : cbres :=
  match sc, i with
  | [], _ => CNil
  | r :: _, O => r
  | _ :: sc1, S j => sched_get sc1 j
  end.
Definition cb_sched (sc : list cbres) : callback := fun i _ _ => sched_get sc i.

(* ---- importers ---- *)

(* an Import result: the package (None = nil) and the error (None = nil) *)
Definition impres := (option N * option N)%type.

(* Packages.Import: the map value (which may itself be nil) or nil, never an error *)
Fixpoint packages_import (pp : list (bytes * option N)) (path : bytes) : impres :=
  match pp with
  | [] => (None, None)
  | (k, v) :: r => if bytes_eqb k path then (v, None) else packages_import r path
  end.

Section CombinedImporter.
  Variable importer : Type.
  (* the result of importer.Import(path) and the trace of observable calls it made *)
  Variable i_import : importer -> bytes -> impres * list N.

  (* for _, importer := range importers { p, err := importer.Import(path); if p != nil || err != nil { return p, err } }; return nil, nil *)
  Fixpoint combined_import (ims : list importer) (path : bytes) : impres * list N :=
    match ims with
    | [] => ((None, None), [])
    | i :: rest =>
      let '((p, e), tr) := i_import i path in
      match p, e with
      | None, None => let '(r, tr2) := combined_import rest path in (r, tr ++ tr2)
      | _, _ => ((p, e), tr)
      end
    end.
End CombinedImporter.

(* importer trees: Packages maps, external importers that answer with a fixed
   result (and record that they were called, by id), nested CombinedImporters *)
Inductive imp :=
| ImpPackages (pp : list (bytes * option N))
| ImpFixed (id : N) (only : option bytes) (p e : option N)
| ImpComb (ims : list imp).

Fixpoint import (i : imp) (path : bytes) {struct i} : impres * list N :=
  match i with
  | ImpPackages pp => (packages_import pp path, [])
  | ImpFixed id only p e =>
    match only with
    | None => ((p, e), [id])
    | Some q => if bytes_eqb q path then ((p, e), [id]) else ((None, None), [id])
    end
  | ImpComb ims => combined_import imp import ims path
  end.
