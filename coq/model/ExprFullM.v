(* Executable model for C27 over the primary-expression grammar: the String
   methods of the expression nodes of ast/ast.go, branch by branch, and the
   expression parser of internal/compiler/parser_expressions.go (parseExpr
   with its operand switch, its postfix loop and its operator path,
   parseExprListInParenthesis, parseField) and parser_func.go (parseFunc for
   function and macro types, parseFuncParameters), over model tokens.

   The printer gives a list of pieces (tokens and single spaces): the string
   that String returns is the concatenation of the texts of the pieces, the
   tokens that the lexer reads back are the token pieces, except that an
   integer literal directly followed by a period is read as a floating-point
   literal (relex).  Every recursive call of the parser and every iteration of
   its loops takes one unit of fuel.  No proofs here. *)
From Coq Require Import List NArith Bool.
From Verif Require Import Bytes.
Import ListNotations.
Open Scope N_scope.

(* ---- tokens ---- *)
Inductive kwd := WMap | WStruct | WInterface | WFunc | WMacro | WChan | WType | WDefault | WRender.

Inductive tk :=
| KIdent (s : bytes)          (* tokenIdentifier, with its text *)
| KLit (k : N) (s : bytes)    (* literal token: k is the ast.LiteralType that literalType gives, s the text *)
| KSym (s : bytes)            (* operator token, by its spelling: + - * & <- not contains ... *)
| KKw (w : kwd)
| KLP | KRP | KLBrack | KRBrack | KLBrace | KRBrace
| KPeriod | KComma | KColon | KSemi | KEllipsis.
(* any other token (:= if }} ...) is a KSym with the name of its type: the parser has no case for it *)

(* ---- expressions ---- *)
(* p: ast.Expression.Parenthesis.  A parameter is (name, type), both optional
   as in ast.Parameter; a field is (names, type, tag). *)
Inductive ex :=
| XIdent (p : nat) (name : bytes)
| XLit (p : nat) (k : N) (s : bytes)
| XUn (p : nat) (op : N) (x : ex)
| XBin (p : nat) (op : N) (l r : ex)
| XCall (p : nat) (f : ex) (args : list ex) (v : bool)
| XIndex (p : nat) (x i : ex)
| XSlicing (p : nat) (x : ex) (lo hi mx : option ex) (full : bool)
| XSel (p : nat) (x : ex) (name : bytes)
| XTypeAssert (p : nat) (x : ex) (t : option ex)
| XCompLit (p : nat) (t : option ex) (kvs : list (option ex * ex))
| XMap (p : nat) (k : option ex) (v : ex)
| XSlice (p : nat) (e : ex)
| XArray (p : nat) (len : option ex) (e : ex)
| XChan (p : nat) (dir : N) (e : ex)
| XFunc (p : nat) (macro : bool) (params results : list (option bytes * option ex)) (v : bool)
| XStruct (p : nat) (fields : list (list bytes * ex * bytes))
| XInterface (p : nat)
| XDefault (p : nat) (l r : ex)
| XRender (p : nat) (path : bytes)
| XFuncLit (p : nat).

Definition param := (option bytes * option ex)%type.
Definition field := (list bytes * ex * bytes)%type.

Definition add_paren (e : ex) : ex :=
  match e with
  | XIdent p a => XIdent (S p) a
  | XLit p k s => XLit (S p) k s
  | XUn p op x => XUn (S p) op x
  | XBin p op l r => XBin (S p) op l r
  | XCall p f a v => XCall (S p) f a v
  | XIndex p x i => XIndex (S p) x i
  | XSlicing p x a b c f => XSlicing (S p) x a b c f
  | XSel p x n => XSel (S p) x n
  | XTypeAssert p x t => XTypeAssert (S p) x t
  | XCompLit p t k => XCompLit (S p) t k
  | XMap p k v => XMap (S p) k v
  | XSlice p e => XSlice (S p) e
  | XArray p l e => XArray (S p) l e
  | XChan p d e => XChan (S p) d e
  | XFunc p m a r v => XFunc (S p) m a r v
  | XStruct p f => XStruct (S p) f
  | XInterface p => XInterface (S p)
  | XDefault p l r => XDefault (S p) l r
  | XRender p s => XRender (S p) s
  | XFuncLit p => XFuncLit (S p)
  end.

Definition parens_of (e : ex) : nat :=
  match e with
  | XIdent p _ | XLit p _ _ | XUn p _ _ | XBin p _ _ _ | XCall p _ _ _ | XIndex p _ _
  | XSlicing p _ _ _ _ _ | XSel p _ _ | XTypeAssert p _ _ | XCompLit p _ _ | XMap p _ _
  | XSlice p _ | XArray p _ _ | XChan p _ _ | XFunc p _ _ _ _ | XStruct p _ | XInterface p
  | XDefault p _ _ | XRender p _ | XFuncLit p => p
  end.

Definition omap {A B} (f : A -> B) (o : option A) : option B :=
  match o with Some a => Some (f a) | None => None end.

(* the tree without its parenthesis counts *)
Fixpoint xerase (e : ex) : ex :=
  match e with
  | XIdent _ a => XIdent 0 a
  | XLit _ k s => XLit 0 k s
  | XUn _ op x => XUn 0 op (xerase x)
  | XBin _ op l r => XBin 0 op (xerase l) (xerase r)
  | XCall _ f a v => XCall 0 (xerase f) (map xerase a) v
  | XIndex _ x i => XIndex 0 (xerase x) (xerase i)
  | XSlicing _ x a b c f => XSlicing 0 (xerase x) (omap xerase a) (omap xerase b) (omap xerase c) f
  | XSel _ x n => XSel 0 (xerase x) n
  | XTypeAssert _ x t => XTypeAssert 0 (xerase x) (omap xerase t)
  | XCompLit _ t kvs => XCompLit 0 (omap xerase t) (map (fun kv => (omap xerase (fst kv), xerase (snd kv))) kvs)
  | XMap _ k v => XMap 0 (omap xerase k) (xerase v)
  | XSlice _ e => XSlice 0 (xerase e)
  | XArray _ l e => XArray 0 (omap xerase l) (xerase e)
  | XChan _ d e => XChan 0 d (xerase e)
  | XFunc _ m a r v =>
    XFunc 0 m (map (fun q => (fst q, omap xerase (snd q))) a) (map (fun q => (fst q, omap xerase (snd q))) r) v
  | XStruct _ fs => XStruct 0 (map (fun fd => (fst (fst fd), xerase (snd (fst fd)), snd fd)) fs)
  | XInterface _ => XInterface 0
  | XDefault _ l r => XDefault 0 (xerase l) (xerase r)
  | XRender _ s => XRender 0 s
  | XFuncLit _ => XFuncLit 0
  end.

Definition is_operator (e : ex) : bool :=
  match e with XUn _ _ _ | XBin _ _ _ _ => true | _ => false end.

Fixpoint klookup {A : Type} (l : list (bytes * A)) (s : bytes) : option A :=
  match l with
  | [] => None
  | (k, v) :: r => if bytes_eqb k s then Some v else klookup r s
  end.

Definition memb (l : list bytes) (s : bytes) : bool := existsb (bytes_eqb s) l.

Fixpoint has_prefix (pre s : bytes) : bool :=
  match pre, s with
  | [], _ => true
  | a :: pre', b :: s' => N.eqb a b && has_prefix pre' s'
  | _ :: _, [] => false
  end.

(* strings.Fields-like split at single spaces, for the spelling `not contains` *)
Fixpoint split_sp (s : bytes) : list bytes :=
  match s with
  | [] => [[]]
  | c :: r =>
    if c =? 32 then [] :: split_sp r
    else match split_sp r with
         | w :: ws => (c :: w) :: ws
         | [] => [[c]]
         end
  end.

Fixpoint seq_opt {A : Type} (l : list (option A)) : option (list A) :=
  match l with
  | [] => Some []
  | None :: _ => None
  | Some a :: r => match seq_opt r with Some r' => Some (a :: r') | None => None end
  end.

(* ---- pieces ---- *)
Inductive pc := PcT (t : tk) | PcS.

Fixpoint sep_by {A : Type} (sep : list A) (ls : list (list A)) : list A :=
  match ls with
  | [] => []
  | [x] => x
  | x :: r => x ++ sep ++ sep_by sep r
  end.

(* the results of the parser *)
Inductive xres (A : Type) : Type :=
| ROk (a : A)
| RErr          (* panic(syntaxError(...)) *)
| RCrash        (* any other run time panic *)
| RFuel         (* out of fuel *)
| RUnsup.       (* outside the model: function literal body, escapes in a tag or a path *)
Arguments ROk {A} a.
Arguments RErr {A}.
Arguments RCrash {A}.
Arguments RFuel {A}.
Arguments RUnsup {A}.

Definition rbind {A B : Type} (r : xres A) (f : A -> xres B) : xres B :=
  match r with
  | ROk a => f a
  | RErr => RErr
  | RCrash => RCrash
  | RFuel => RFuel
  | RUnsup => RUnsup
  end.


Section Model.
(* generated: Facts_AstOps, Facts_AstPrim *)
Variable op_string : list (N * bytes).
Variable bin_prec : list (N * N).
Variable un_prec : N.
Variable unary_tokens : list (bytes * N).
Variable binary_tokens : list (bytes * N).
Variable op_receive op_pointer op_extended_not op_not_contains : N.
Variable lit_string lit_int lit_float : N.
Variable dir_none dir_recv dir_send : N.
Variable kw_text : kwd -> bytes.
Variable sym_arrow sym_mul sym_not sym_contains : bytes.
Variable name_ident name_lbrack : bytes.     (* tokenString of tokenIdentifier, tokenLeftBracket *)
Variable result_start : list bytes.
Variable macro_results : list bytes.
Variable keywords tmpl_keywords : list (bytes * bytes).   (* lexIdentifierOrKeyword *)
(* external *)
Variable quote : bytes -> bytes.             (* strconv.Quote *)
Variable valid_path : bytes -> bool.         (* ValidTemplatePath, modelled in PathsM *)
(* ast.expandedPrint (a variable of package ast set by its tests) *)
Variable expanded : bool.
(* lexer.templateSyntax *)
Variable tmpl : bool.

Definition spell (op : N) : option bytes := assoc_get op_string op.
Definition bprec (op : N) : option N := assoc_get bin_prec op.

(* ---- String ---- *)

(* Precedence() of an operator expression (None: panic "invalid operator type") *)
Definition oprec (e : ex) : option N :=
  match e with
  | XUn _ _ _ => Some un_prec
  | XBin _ op _ _ => bprec op
  | _ => None
  end.

(* BinaryOperator.String: `e, ok := n.ExprI.(Operator); ok && e.Precedence() <= n.Precedence()` *)
Definition np_bin (op : N) (c : ex) : option bool :=
  if is_operator c then
    match oprec c, bprec op with Some pc, Some pp => Some (pc <=? pp) | _, _ => None end
  else Some false.

(* UnaryOperator.String: `ok && (n.Op == OperatorReceive || e.Precedence() <= n.Precedence())` *)
Definition np_un (op : N) (c : ex) : option bool :=
  if is_operator c then
    if op =? op_receive then Some true
    else match oprec c with Some pc => Some (pc <=? un_prec) | None => None end
  else Some false.

(* Call.String: the switch on the type of n.Func *)
Definition np_call (f : ex) : bool :=
  match f with
  | XUn _ op _ => (op =? op_pointer) || (op =? op_receive)
  | XFunc _ _ _ results _ => match results with [] => true | _ => false end
  | XChan _ _ _ => true
  | _ => false
  end.

Definition T (t : tk) : list pc := [PcT t].
Definition wrapp (b : bool) (ps : list pc) : list pc := if b then T KLP ++ ps ++ T KRP else ps.
Definition comma_sp : list pc := [PcT KComma; PcS].

(* an operator of the compiler that package ast does not name is printed as the empty string *)
Definition op_pieces (s : bytes) : list pc :=
  match s with
  | [] => []
  | _ :: _ => sep_by [PcS] (map (fun w => T (KSym w)) (split_sp s))
  end.

(* Identifier.String *)
Definition ident_text (name : bytes) : bytes :=
  if has_prefix [36; 105; 116; 101; 97] name then [105; 116; 101; 97] else name.

Definition opt_pieces (o : option (option (list pc))) : option (list pc) :=
  match o with None => Some [] | Some r => r end.

(* Parameter.String *)
Definition param_pieces (q : option bytes * option (option (list pc))) : option (list pc) :=
  match q with
  | (None, None) => None                         (* n.Type.String() on a nil Type *)
  | (None, Some t) => t
  | (Some a, None) => Some (T (KIdent a))
  | (Some a, Some t) => match t with Some ps => Some (T (KIdent a) ++ [PcS] ++ ps) | None => None end
  end.

(* the parameters of FuncType.String: the last one after `...` when variadic and typed *)
Fixpoint params_pieces (v : bool) (l : list (option bytes * option (option (list pc)))) : list (option (list pc)) :=
  match l with
  | [] => []
  | [q] =>
    match v, q with
    | true, (a, Some t) =>
      [match t with
       | Some ps => Some ((match a with Some n => T (KIdent n) ++ [PcS] | None => [] end) ++ T KEllipsis ++ ps)
       | None => None
       end]
    | _, _ => [param_pieces q]
    end
  | q :: r => param_pieces q :: params_pieces v r
  end.

Definition join_opt (sep : list pc) (l : list (option (list pc))) : option (list pc) :=
  match seq_opt l with Some ls => Some (sep_by sep ls) | None => None end.

Definition backquote (s : bytes) : bytes := 96 :: s ++ [96].

(* the pieces of String() (None: the Go code panics) *)
Fixpoint pp (e : ex) : option (list pc) :=
  match e with
  | XIdent _ name => Some (T (KIdent (ident_text name)))
  | XLit _ k s => Some (T (KLit k s))
  | XUn _ op x =>
    match spell op, np_un op x, pp x with
    | Some s, Some b, Some px =>
      Some (op_pieces s ++ (if op =? op_extended_not then [PcS] else []) ++ wrapp b px)
    | _, _, _ => None
    end
  | XBin _ op l r =>
    match np_bin op l, pp l, spell op, np_bin op r, pp r with
    | Some bl, Some pl, Some s, Some br, Some pr => Some (wrapp bl pl ++ [PcS] ++ op_pieces s ++ [PcS] ++ wrapp br pr)
    | _, _, _, _, _ => None
    end
  | XCall _ f args v =>
    match pp f, join_opt comma_sp (map pp args) with
    | Some pf, Some pa => Some (wrapp (np_call f) pf ++ T KLP ++ pa ++ (if v then T KEllipsis else []) ++ T KRP)
    | _, _ => None
    end
  | XIndex _ x i =>
    match pp x, pp i with
    | Some px, Some pi => Some (px ++ T KLBrack ++ pi ++ T KRBrack)
    | _, _ => None
    end
  | XSlicing _ x lo hi mx _ =>
    match pp x, opt_pieces (omap pp lo), opt_pieces (omap pp hi), opt_pieces (omap pp mx) with
    | Some px, Some pl, Some ph, Some pm =>
      Some (px ++ T KLBrack ++ pl ++ T KColon ++ ph ++ (match mx with Some _ => T KColon ++ pm | None => [] end) ++ T KRBrack)
    | _, _, _, _ => None
    end
  | XSel _ x name =>
    match pp x with Some px => Some (px ++ T KPeriod ++ T (KIdent name)) | None => None end
  | XTypeAssert _ x t =>
    match pp x, opt_pieces (omap pp t) with
    | Some px, Some pt =>
      Some (px ++ T KPeriod ++ T KLP ++ (match t with Some _ => pt | None => T (KKw WType) end) ++ T KRP)
    | _, _ => None
    end
  | XCompLit _ t kvs =>
    match opt_pieces (omap pp t) with
    | None => None
    | Some pt =>
      if expanded then
        match join_opt comma_sp
                (map (fun kv => match fst kv with
                                | None => pp (snd kv)
                                | Some k => match pp k, pp (snd kv) with
                                            | Some pk, Some pv => Some (pk ++ [PcT KColon; PcS] ++ pv)
                                            | _, _ => None
                                            end
                                end) kvs) with
        | Some pk => Some (pt ++ T KLBrace ++ pk ++ T KRBrace)
        | None => None
        end
      else
        match kvs with
        | [] => Some (pt ++ T KLBrace ++ T KRBrace)
        | _ :: _ => Some (pt ++ T KLBrace ++ T KEllipsis ++ T KRBrace)
        end
    end
  | XMap _ k v =>
    match k with
    | None => None                                 (* n.KeyType.String() on a nil KeyType *)
    | Some k' =>
      match pp k', pp v with
      | Some pk, Some pv => Some (T (KKw WMap) ++ T KLBrack ++ pk ++ T KRBrack ++ pv)
      | _, _ => None
      end
    end
  | XSlice _ e =>
    match pp e with Some pe => Some (T KLBrack ++ T KRBrack ++ pe) | None => None end
  | XArray _ len e =>
    match opt_pieces (omap pp len), pp e with
    | Some pl, Some pe => Some (T KLBrack ++ (match len with Some _ => pl | None => T KEllipsis end) ++ T KRBrack ++ pe)
    | _, _ => None
    end
  | XChan _ dir e =>
    match pp e with
    | Some pe =>
      Some ((if dir =? dir_recv then T (KSym sym_arrow) else []) ++ T (KKw WChan) ++
            (if dir =? dir_send then T (KSym sym_arrow) else []) ++ [PcS] ++ pe)
    | None => None
    end
  | XFunc _ macro params results v =>
    match join_opt comma_sp (params_pieces v (map (fun q => (fst q, omap pp (snd q))) params)) with
    | None => None
    | Some pa =>
      let head := T (KKw (if macro then WMacro else WFunc)) ++ T KLP ++ pa ++ T KRP in
      match results with
      | [] => Some head
      | [(None, t)] =>
        match t with
        | None => None                             (* n.Result[0].Type.String() on a nil Type *)
        | Some t' => match pp t' with Some pt => Some (head ++ [PcS] ++ pt) | None => None end
        end
      | _ =>
        match join_opt comma_sp (map (fun q => param_pieces (fst q, omap pp (snd q))) results) with
        | Some pr => Some (head ++ [PcS] ++ T KLP ++ pr ++ T KRP)
        | None => None
        end
      end
    end
  | XStruct _ fields =>
    match join_opt [PcT KSemi; PcS]
            (map (fun fd =>
                    match pp (snd (fst fd)) with
                    | Some pt =>
                      Some (sep_by [PcT KComma; PcS] (map (fun a => T (KIdent (ident_text a))) (fst (fst fd))) ++
                            (match fst (fst fd) with [] => [] | _ :: _ => [PcS] end) ++ pt ++
                            (match snd fd with [] => [] | _ :: _ => [PcS; PcT (KLit lit_string (backquote (snd fd)))] end))
                    | None => None
                    end) fields) with
    | Some pf => Some (T (KKw WStruct) ++ [PcS] ++ T KLBrace ++ [PcS] ++ pf ++ [PcS] ++ T KRBrace)
    | None => None
    end
  | XInterface _ => Some (T (KKw WInterface) ++ T KLBrace ++ T KRBrace)
  | XDefault _ l r =>
    match pp l, pp r with
    | Some pl, Some pr => Some (pl ++ [PcS] ++ T (KKw WDefault) ++ [PcS] ++ pr)
    | _, _ => None
    end
  | XRender _ path => Some (T (KKw WRender) ++ [PcS] ++ T (KLit lit_string (quote path)))
  | XFuncLit _ => Some (T (KKw WFunc) ++ [PcS] ++ T (KIdent [108; 105; 116; 101; 114; 97; 108]))
  end.

(* the text of a token *)
Definition tk_text (t : tk) : bytes :=
  match t with
  | KIdent s | KLit _ s | KSym s => s
  | KKw w => kw_text w
  | KLP => [40] | KRP => [41] | KLBrack => [91] | KRBrack => [93] | KLBrace => [123] | KRBrace => [125]
  | KPeriod => [46] | KComma => [44] | KColon => [58] | KSemi => [59] | KEllipsis => [46; 46; 46]
  end.

Definition pc_text (p : pc) : bytes := match p with PcT t => tk_text t | PcS => [32] end.

(* the string that String() returns *)
Definition show (e : ex) : option bytes :=
  match pp e with Some ps => Some (concat (map pc_text ps)) | None => None end.

(* ---- the lexer on the printed form ---- *)
Inductive lexres := LexOk (ts : list tk) | LexErr | LexUnsup.   (* LexUnsup: outside the model *)

(* lexNumber on an integer literal directly followed by a period: a decimal or
   legacy octal literal takes the period and becomes a floating-point literal,
   with a base prefix the period is an error (invalid radix point,
   hexadecimal mantissa requires a p exponent) *)
Definition has_base_prefix (s : bytes) : bool :=
  match s with
  | 48 :: c :: _ => (c =? 120) || (c =? 88) || (c =? 111) || (c =? 79) || (c =? 98) || (c =? 66)
  | _ => false
  end.

(* lexIdentifierOrKeyword: the token that a word is, by the generated keyword
   tables (name of the token type), in the syntax at hand *)
Definition is_word (s : bytes) : bool :=
  match s with
  | c :: _ => ((65 <=? c) && (c <=? 90)) || ((97 <=? c) && (c <=? 122)) || (c =? 95) || (128 <=? c)
  | [] => false
  end.

Definition word_start (s : bytes) : bool :=
  match s with
  | c :: _ => is_word s || ((48 <=? c) && (c <=? 57))
  | [] => false
  end.

Definition all_kwd : list kwd := [WMap; WStruct; WInterface; WFunc; WMacro; WChan; WType; WDefault; WRender].

Definition named_tok (name : bytes) : tk :=
  match find (fun w => bytes_eqb (kw_text w) name) all_kwd with
  | Some w => KKw w
  | None => KSym name
  end.

Definition word_tok (s : bytes) : tk :=
  match klookup keywords s with
  | Some name => named_tok name
  | None =>
    if tmpl then match klookup tmpl_keywords s with Some name => named_tok name | None => KIdent s end
    else KIdent s
  end.

(* the token that the lexer reads where t was printed *)
Definition reword (t : tk) : tk :=
  match t with
  | KIdent s => if is_word s then word_tok s else t
  | KKw w => word_tok (kw_text w)
  | KSym s => if is_word s then word_tok s else t
  | _ => t
  end.

Definition glued (a b : bytes) : bool :=
  match a, b with
  | [38], [38] | [38], [94] | [43], [43] | [45], [45] => true
  | _, _ => false
  end.

Definition lex_cons (t : list tk) (r : lexres) : lexres :=
  match r with LexOk ts => LexOk (t ++ ts) | LexErr => LexErr | LexUnsup => LexUnsup end.

(* a raw string literal whose text has a backquote inside is read as several
   tokens or not at all: outside the model *)
Definition raw_inner_quotes (s : bytes) : nat :=
  match s with
  | 96 :: r => length (filter (N.eqb 96) (removelast r))
  | _ => 0%nat
  end.

Fixpoint relex (ps : list pc) : lexres :=
  match ps with
  | [] => LexOk []
  | PcS :: r => relex r
  | PcT (KLit k s) :: r =>
    if k =? lit_int then
      match r with
      | PcT KPeriod :: r' =>
        if has_base_prefix s then LexErr else lex_cons [KLit lit_float (s ++ [46])] (relex r')
      | PcT KEllipsis :: r' =>
        if has_base_prefix s then LexErr else lex_cons [KLit lit_float (s ++ [46]); KPeriod; KPeriod] (relex r')
      | _ => lex_cons [KLit k s] (relex r)
      end
    else if k =? lit_string then
      match raw_inner_quotes s with
      | O => lex_cons [KLit k s] (relex r)
      | _ => LexUnsup
      end
    else lex_cons [KLit k s] (relex r)
  | PcT (KSym a) :: r =>
    (* two operator tokens printed without a space that the lexer reads as one: && &^ ++ -- *)
    match r with
    | PcT (KSym b) :: r' =>
      if glued a b then lex_cons [KSym (a ++ b)] (relex r')
      else if is_word a && word_start b then LexUnsup
      else lex_cons [reword (KSym a)] (relex r)
    | PcT (KIdent b) :: _ | PcT (KLit _ b) :: _ =>
      (* a word operator other than `not` printed as a unary operator is glued to its operand: outside the model *)
      if is_word a && word_start b then LexUnsup else lex_cons [reword (KSym a)] (relex r)
    | PcT (KKw _) :: _ => if is_word a then LexUnsup else lex_cons [reword (KSym a)] (relex r)
    | _ => lex_cons [reword (KSym a)] (relex r)
    end
  | PcT t :: r => lex_cons [reword t] (relex r)
  end.

Fixpoint toks (ps : list pc) : list tk :=
  match ps with
  | [] => []
  | PcS :: r => toks r
  | PcT t :: r => t :: toks r
  end.

(* ---- the parser ---- *)
Record pflags := mkfl { fl_guard : bool; fl_elide : bool; fl_type : bool; fl_block : bool }.
Definition fl_expr : pflags := mkfl false false false false.   (* parseExpr(tok, false, false, false, false) *)
Definition fl_typ : pflags := mkfl false false true false.     (* parseExpr(tok, false, false, true, false) *)
Definition fl_elem : pflags := mkfl false true false false.    (* parseExpr(tok, false, true, false, false) *)

Inductive fr := GUn (op : N) | GBin (op : N) (l : ex).

Definition fprec (f : fr) : option N :=
  match f with GUn _ => Some un_prec | GBin op _ => bprec op end.

Definition apply_frame (f : fr) (o : ex) : ex :=
  match f with GUn op => XUn 0 op o | GBin op l => XBin 0 op l o end.

(* the path is kept leaf first; addLastOperand *)
Fixpoint close (P : list fr) (o : ex) : ex :=
  match P with [] => o | f :: r => close r (apply_frame f o) end.

(* `for p > 0 && op.Precedence() <= path[p-1].Precedence() { p-- }` and the re-linking *)
Fixpoint reduce (P : list fr) (pb : N) (o : ex) : option (list fr * ex) :=
  match P with
  | [] => Some ([], o)
  | f :: r =>
    match fprec f with
    | None => None
    | Some pf => if pb <=? pf then reduce r pb (apply_frame f o) else Some (P, o)
    end
  end.

(* tokenString of the token type, for the list of the types that start a result *)
Definition tk_name (t : tk) : bytes :=
  match t with
  | KIdent _ => name_ident
  | KLBrack => name_lbrack
  | KSym s => s
  | KKw w => kw_text w
  | _ => []
  end.
Definition starts_result (t : tk) : bool := memb result_start (tk_name t).

(* unquoteString, for raw strings and interpreted strings without a backslash *)
Definition unquote (s : bytes) : xres bytes :=
  match s with
  | [] => RCrash                             (* s[0] out of range: the lexer never gives it *)
  | [_; _] => ROk []
  | [_; c; _] => ROk [c]
  | q :: r =>
    if (q =? 96) || negb (existsb (N.eqb 92) s) then
      match r with [] => RCrash | _ :: _ => ROk (removelast r) end      (* s[1:0] *)
    else RUnsup
  end.

Definition RT : Type := xres (option ex * list tk).

(* the end of parseExpr: `if len(path) > 0 { operand = addLastOperand(operand, path) }; return operand, tok` *)
Definition finish (P : list fr) (o : option ex) (ts : list tk) : RT :=
  match P, o with
  | [], _ => ROk (o, ts)
  | _ :: _, Some e => ROk (Some (close P e), ts)
  | _ :: _, None => RErr
  end.

Definition is_type_guard (o : option ex) : bool :=
  match o with Some (XTypeAssert _ _ None) => true | _ => false end.

Definition default_left_ok (e : ex) : bool :=
  match e with XIdent _ _ | XCall _ _ _ _ | XRender _ _ => true | _ => false end.

(* the second pass of parseFuncParameters over the parsed parameters.
   A parsed parameter is (name, type) with the index of the first parameter
   that had an ellipsis. *)
Definition ident_name (e : ex) : option bytes :=
  match e with XIdent _ a => Some a | _ => None end.

Fixpoint params_pass (named : bool) (ei : option nat) (i : nat) (l : list param) : option (list param) :=
  match l with
  | [] => Some []
  | (name, t) :: r =>
    match params_pass named ei (S i) r with
    | None => None
    | Some r' =>
      if named then
        match name with
        | Some _ => Some ((name, t) :: r')
        | None =>
          (* if the parameter is not the one with the ellipsis its type must be an identifier, which becomes its name; else panic *)
          if (match ei with Some j => Nat.eqb i j | None => false end) then None
          else match t with
               | Some ty => match ident_name ty with Some a => Some ((Some a, None) :: r') | None => None end
               | None => None
               end
        end
      else
        match name with Some _ => None | None => Some ((name, t) :: r') end
    end
  end.

(* `final`: going back from the parameter with the ellipsis over the parameters without type *)
Fixpoint final_index (l : list param) (j : nat) : nat :=
  match j with
  | O => O
  | S j' => match nth_error l j' with
            | Some (_, None) => final_index l j'
            | _ => j
            end
  end.

Definition params_finish (is_result : bool) (l : list param) (ei : option nat) (ts : list tk)
  : xres (option (list param) * bool * list tk) :=
  let named := match last l (None, None) with (Some _, _) => true | _ => false end in
  match params_pass (match l with [] => false | _ => named end) ei 0 l with
  | None => RErr
  | Some l' =>
    match ei with
    | None => ROk (Some l', false, ts)
    | Some j =>
      if is_result then RErr
      else match nth_error l' j with
           | Some (_, Some _) =>
             if Nat.eqb (S (final_index l' j)) (length l') then ROk (Some l', true, ts) else RErr
           | _ => RErr     (* the parameter with the ellipsis has no type, or was not added *)
           end
    end
  end.

(* `for tok.typ == tokenComma { tok = p.next(); identifier; tok = p.next() }` *)
Fixpoint pnames (ts : list tk) (acc : list bytes) {struct ts} : xres (list bytes * list tk) :=
  match ts with
  | KComma :: r =>
    match r with
    | KIdent b :: r1 => pnames r1 (acc ++ [b])
    | _ => RErr
    end
  | _ => ROk (acc, ts)
  end.

(* ts in what follows is the token stream whose head is the current token
   `tok`; nil is the end of the source. *)
(* The bodies of the functions of the parser, each over the functions it calls
   (the recursive calls of the Go code): the fixpoint below passes them with
   one unit of fuel less. *)
Section Bodies.
Variable pexpr_ : pflags -> list tk -> RT.
Variable poperand_ : pflags -> bool -> bool -> bool -> list fr -> list tk -> RT.
Variable ppost_ : pflags -> bool -> bool -> bool -> list fr -> option ex -> list tk -> RT.
Variable pelems_ : list tk -> xres (list (option ex * ex) * list tk).
Variable pargs_ : list tk -> list ex -> xres (list ex * list tk).
Variable pfields_ : list tk -> xres (list field * list tk).
Variable pfield_ : list tk -> xres (field * list tk).
Variable pfunc_ : bool -> bool -> list tk -> xres (ex * list tk).
Variable pparams_ : bool -> bool -> list tk -> xres (option (list param) * bool * list tk).
Variable pplist_ : bool -> list tk -> list param -> option nat -> xres (option (list param) * bool * list tk).

(* the top of the for loop of parseExpr: the switch on the type of tok *)
Definition poperand_body (fl : pflags) (cancl guard mbsg : bool) (P : list fr) (ts : list tk)
  : RT :=
  let post := ppost_ fl in
  let dflt :=
    match ts with
    | KLBrace :: _ => if fl_elide fl then post cancl guard mbsg P None ts
                      else match P with [] => ROk (None, ts) | _ :: _ => RErr end
    | _ => match P with [] => ROk (None, ts) | _ :: _ => RErr end
    end in
  match ts with
  | KLP :: r =>
    rbind (pexpr_ (mkfl false false (fl_type fl) false) r) (fun x =>
    match x with
    | (Some e, KRP :: r') => post cancl guard mbsg P (Some (add_paren e)) r'
    | _ => RErr
    end)
  | KKw WMap :: r =>
    match r with
    | KLBrack :: r1 =>
      rbind (pexpr_ fl_typ r1) (fun x =>
      match x with
      | (k, KRBrack :: r2) =>
        rbind (pexpr_ fl_typ r2) (fun y =>
        match y with
        | (Some v, r3) => post true guard mbsg P (Some (XMap 0 k v)) r3
        | (None, _) => RErr
        end)
      | _ => RErr
      end)
    | _ => RErr
    end
  | KKw WStruct :: r =>
    match r with
    | KLBrace :: r1 =>
      rbind (pfields_ r1) (fun x => post true guard mbsg P (Some (XStruct 0 (fst x))) (snd x))
    | _ => RErr
    end
  | KKw WInterface :: r =>
    match r with
    | KLBrace :: KRBrace :: r1 => post cancl guard mbsg P (Some (XInterface 0)) r1
    | _ => RErr
    end
  | KKw WFunc :: r =>
    rbind (pfunc_ false (negb (fl_type fl)) r) (fun x => post cancl guard mbsg P (Some (fst x)) (snd x))
  | KKw WMacro :: r =>
    rbind (pfunc_ true false r) (fun x => post cancl guard mbsg P (Some (fst x)) (snd x))
  | KKw WChan :: r =>
    (* chan, chan<- *)
    let '(dir, r1) := match r with
                      | KSym s :: r' => if bytes_eqb s sym_arrow then (dir_send, r') else (dir_none, r)
                      | _ => (dir_none, r)
                      end in
    rbind (pexpr_ fl_typ r1) (fun x =>
    match x with
    | (Some e, r2) => post cancl guard mbsg P (Some (XChan 0 dir e)) r2
    | (None, _) => RErr
    end)
  | KSym s :: r =>
    if bytes_eqb s sym_arrow then
      match r with
      | KKw WChan :: r1 =>
        (* <-chan: `tok = p.next()` then the element type (no test for a second arrow: direction is set) *)
        rbind (pexpr_ fl_typ r1) (fun x =>
        match x with
        | (Some e, r2) => post cancl guard mbsg P (Some (XChan 0 dir_recv e)) r2
        | (None, _) => RErr
        end)
      | _ =>
        if fl_type fl then RErr
        else poperand_ fl cancl false mbsg (GUn op_receive :: P) r
      end
    else
      match klookup unary_tokens s with
      | Some u =>
        if fl_type fl && negb (bytes_eqb s sym_mul) then RErr
        else poperand_ fl cancl false mbsg (GUn u :: P) r
      | None => dflt
      end
  | KLit k s :: r =>
    if fl_type fl then RErr else post cancl guard mbsg P (Some (XLit 0 k s)) r
  | KIdent a :: r =>
    if fl_type fl then
      match r with
      | KPeriod :: r1 =>
        match r1 with
        | KIdent b :: r2 => post cancl guard mbsg P (Some (XSel 0 (XIdent 0 a) b)) r2
        | _ => RErr
        end
      | _ => post cancl guard mbsg P (Some (XIdent 0 a)) r
      end
    else post cancl guard mbsg P (Some (XIdent 0 a)) r
  | KLBrack :: r =>
    let after_len (len : option ex) (ellipsis : bool) (r1 : list tk) : RT :=
      match r1 with
      | KRBrack :: r2 =>
        rbind (pexpr_ fl_typ r2) (fun y =>
        match y with
        | (Some e, r3) =>
          post true guard mbsg P
               (Some (if ellipsis then XArray 0 None e
                      else match len with None => XSlice 0 e | Some l => XArray 0 (Some l) e end)) r3
        | (None, _) => RErr
        end)
      | _ => RErr
      end in
    match r with
    | KEllipsis :: r1 => after_len None true r1
    | KRBrack :: _ => after_len None false r
    | _ =>
      rbind (pexpr_ fl_expr r) (fun x =>
      match x with
      | (Some l, r1) => after_len (Some l) false r1
      | (None, _) => RErr
      end)
    end
  | KKw WRender :: r =>
    match r with
    | KLit k s :: r1 =>
      if k =? lit_string then
        rbind (unquote s) (fun path =>
        if valid_path path then post cancl guard mbsg P (Some (XRender 0 path)) r1 else RErr)
      else RErr
    | _ => RErr
    end
  | _ => dflt
  end.

(* one iteration of `for operator == nil` *)
Definition ppost_body (fl : pflags) (cancl guard mbsg : bool) (P : list fr) (o : option ex) (ts : list tk)
  : RT :=
  let dont_eat := match ts with KLBrace :: _ => fl_block fl && negb cancl | _ => false end in
  if dont_eat || fl_type fl then finish P o ts
  else
    let ret := if mbsg && negb (is_type_guard o) then RErr else finish P o ts in
    let binary (b : N) (r : list tk) : RT :=
      match o with
      | None => RCrash
      | Some e =>
        match bprec b with
        | None => RCrash                  (* op.Precedence() panics *)
        | Some pb =>
          match reduce P pb e with
          | Some (P', l) => poperand_ fl cancl false mbsg (GBin b l :: P') r
          | None => RCrash
          end
        end
      end in
    match ts with
    | KLBrace :: r =>
      if match o with Some e => negb (Nat.eqb (parens_of e) 0) | None => false end then RErr
      else
        rbind (pelems_ r) (fun x =>
        match snd x with
        | KRBrace :: r1 => ppost_ fl false guard mbsg P (Some (XCompLit 0 o (fst x))) r1
        | _ => RErr
        end)
    | KLP :: r =>
      match o with
      | None => RCrash
      | Some f =>
        rbind (pargs_ r []) (fun x =>
        let '(args, r1) := x in
        let '(v, r2) := match r1 with KEllipsis :: r' => (true, r') | _ => (false, r1) end in
        if v && match args with [] => true | _ => false end then RErr
        else match r2 with
             | KRP :: r3 => ppost_ fl false guard mbsg P (Some (XCall 0 f args v)) r3
             | _ => RErr
             end)
      end
    | KLBrack :: r =>
      match o with
      | None => RCrash
      | Some x0 =>
        rbind (pexpr_ fl_expr r) (fun a =>
        let '(index, r1) := a in
        match r1 with
        | KColon :: r2 =>
          rbind (pexpr_ fl_expr r2) (fun b =>
          let '(high, r3) := b in
          match r3 with
          | KColon :: r4 =>
            rbind (pexpr_ fl_expr r4) (fun c =>
            let '(mx, r5) := c in
            match r5 with
            | KRBrack :: r6 => ppost_ fl cancl guard mbsg P (Some (XSlicing 0 x0 index high mx true)) r6
            | _ => RErr
            end)
          | KRBrack :: r4 => ppost_ fl cancl guard mbsg P (Some (XSlicing 0 x0 index high None false)) r4
          | _ => RErr
          end)
        | KRBrack :: r2 =>
          match index with
          | Some i => ppost_ fl cancl guard mbsg P (Some (XIndex 0 x0 i)) r2
          | None => RErr
          end
        | _ => RErr
        end)
      end
    | KPeriod :: r =>
      match o with
      | None => RCrash
      | Some x0 =>
        match r with
        | KIdent a :: r1 => ppost_ fl cancl guard mbsg P (Some (XSel 0 x0 a)) r1
        | KLP :: r1 =>
          match r1 with
          | KKw WType :: r2 =>
            if negb guard then RErr
            else match r2 with
                 | KRP :: r3 => ppost_ fl cancl guard true P (Some (XTypeAssert 0 x0 None)) r3
                 | _ => RErr
                 end
          | _ =>
            if match r1 with KIdent a :: _ => bytes_eqb a [95] | _ => false end then RErr
            else
              rbind (pexpr_ (mkfl true false true false) r1) (fun a =>
              match a with
              | (Some t, KRP :: r3) => ppost_ fl cancl guard mbsg P (Some (XTypeAssert 0 x0 (Some t))) r3
              | _ => RErr
              end)
          end
        | _ => RErr
        end
      end
    | KSym s :: r =>
      if bytes_eqb s sym_not then
        (* e not contains: the token after `not` is read; without `contains` it is lost *)
        match r with
        | KSym s' :: r1 => if bytes_eqb s' sym_contains then binary op_not_contains r1
                           else if mbsg && negb (is_type_guard o) then RErr else finish P o (KSym s :: r1)
        | _ :: r1 => if mbsg && negb (is_type_guard o) then RErr else finish P o (KSym s :: r1)
        | [] => ret
        end
      else
        match klookup binary_tokens s with
        | Some b => binary b r
        | None => ret
        end
    | KKw WDefault :: r =>
      if tmpl then
        match o with
        | None => RCrash
        | Some l =>
          if default_left_ok l then
            rbind (pexpr_ (mkfl false false false (fl_block fl)) r) (fun a =>
            match a with
            | (Some e2, r1) => ppost_ fl cancl guard mbsg P (Some (XDefault 0 l e2)) r1
            | (None, _) => RErr
            end)
          else RErr
        end
      else ret
    | _ => ret
    end.

(* the elements of a composite literal, after the left brace or a separator:
   the result is the key-value pairs and the stream at the token that ended them *)
Definition pelems_body (ts : list tk)
  : xres (list (option ex * ex) * list tk) :=
  rbind (pexpr_ fl_elem ts) (fun a =>
  match a with
  | (None, r) => ROk ([], r)
  | (Some e, r) =>
    match r with
    | KColon :: r1 =>
      rbind (pexpr_ fl_elem r1) (fun b =>
      match b with
      | (None, _) => RErr
      | (Some v, r2) =>
        match r2 with
        | KRBrace :: _ => ROk ([(Some e, v)], r2)
        | [] => RCrash                  (* next called after EOF *)
        | _ :: r3 => rbind (pelems_ r3) (fun c => ROk ((Some e, v) :: fst c, snd c))
        end
      end)
    | KComma :: r1 => rbind (pelems_ r1) (fun c => ROk ((None, e) :: fst c, snd c))
    | KRBrace :: _ => ROk ([(None, e)], r)
    | _ => RErr
    end
  end).

(* parseExprListInParenthesis *)
Definition pargs_body (ts : list tk) (acc : list ex)
  : xres (list ex * list tk) :=
  rbind (pexpr_ fl_expr ts) (fun a =>
  match a with
  | (None, r) =>
    match acc, r with
    | [], _ => ROk ([], r)
    | _ :: _, KRP :: _ => ROk (acc, r)
    | _ :: _, _ => RErr
    end
  | (Some e, r) =>
    match r with
    | KComma :: r1 => pargs_ r1 (acc ++ [e])
    | _ => ROk (acc ++ [e], r)
    end
  end).

(* the fields of a struct type up to the right brace; the stream after the brace *)
Definition pfields_body (ts : list tk)
  : xres (list field * list tk) :=
  match ts with
  | KRBrace :: r => ROk ([], r)
  | _ =>
    rbind (pfield_ ts) (fun a => rbind (pfields_ (snd a)) (fun b => ROk (fst a :: fst b, snd b)))
  end.

(* parseField *)
Definition pfield_body (ts : list tk)
  : xres (field * list tk) :=
  let tail (names : list bytes) (t : ex) (r : list tk) : xres (field * list tk) :=
    let after (tag : bytes) (r1 : list tk) : xres (field * list tk) :=
      match r1 with
      | KSemi :: r2 => ROk ((names, t, tag), r2)
      | KRBrace :: _ => ROk ((names, t, tag), r1)
      | _ => RErr
      end in
    match r with
    | KLit k s :: r1 => if k =? lit_string then rbind (unquote s) (fun tag => after tag r1) else after [] r
    | _ => after [] r
    end in
  match ts with
  | KSym s :: r =>
    if bytes_eqb s sym_mul then
      match r with
      | KIdent a :: KPeriod :: r1 =>
        match r1 with
        | KIdent b :: r2 => tail [] (XUn 0 op_pointer (XSel 0 (XIdent 0 a) b)) r2
        | _ => RErr
        end
      | KIdent a :: r1 => tail [] (XUn 0 op_pointer (XIdent 0 a)) r1
      | _ => RErr
      end
    else RErr
  | KIdent a :: r =>
    match r with
    | KPeriod :: r1 =>
      match r1 with
      | KIdent b :: r2 => tail [] (XSel 0 (XIdent 0 a) b) r2
      | _ => RErr
      end
    | KComma :: _ =>
      rbind (pnames r [a]) (fun x =>
      rbind (pexpr_ fl_typ (snd x)) (fun y =>
      match y with
      | (Some t, r2) => tail (fst x) t r2
      | (None, _) => RErr
      end))
    | KLit k _ :: _ =>
      if k =? lit_string then tail [] (XIdent 0 a) r
      else rbind (pexpr_ fl_typ r) (fun y =>
           match y with
           | (Some t, r2) => tail [a] t r2
           | (None, r2) => tail [] (XIdent 0 a) r2
           end)
    | _ =>
      rbind (pexpr_ fl_typ r) (fun y =>
      match y with
      | (Some t, r2) => tail [a] t r2
      | (None, r2) => tail [] (XIdent 0 a) r2
      end)
    end
  | _ => RErr
  end.

(* parseFunc for a function type (lit: a function literal may follow) or a macro type, after the keyword *)
Definition pfunc_body (macro lit : bool) (ts : list tk)
  : xres (ex * list tk) :=
  match ts with
  | KIdent _ :: _ => RErr
  | _ =>
    rbind (pparams_ macro false ts) (fun a =>
    let '(params, v, r1) := a in
    match params with
    | None => RErr
    | Some ps =>
      rbind (pparams_ macro true r1) (fun b =>
      let '(results, _, r2) := b in
      match results, macro with
      | None, true => RErr
      | _, _ =>
        let t := XFunc 0 macro ps (match results with Some rs => rs | None => [] end) v in
        if lit then
          match r2 with
          | KLBrace :: _ => RUnsup            (* the body of a function literal *)
          | _ => ROk (t, r2)
          end
        else ROk (t, r2)
      end)
    end)
  end.

(* parseFuncParameters *)
Definition pparams_body (macro is_result : bool) (ts : list tk)
  : xres (option (list param) * bool * list tk) :=
  let plist :=
    match ts with
    | KLP :: r =>
      match r with
      | KRP :: r1 => ROk (Some [], false, r1)
      | _ => pplist_ is_result r [] None
      end
    | _ => ROk (None, false, ts)
    end in
  if is_result then
    if macro then
      match ts with
      | KIdent a :: r => if memb macro_results a then ROk (Some [(None, Some (XIdent 0 a))], false, r) else ROk (None, false, ts)
      | _ => ROk (None, false, ts)
      end
    else
      match ts with
      | t :: _ =>
        if starts_result t then
          rbind (pexpr_ (mkfl false false true true) ts) (fun a =>
          match a with
          | (Some e, r) => ROk (Some [(None, Some e)], false, r)
          | (None, _) => RCrash                (* expr.Pos() on a nil expression *)
          end)
        else plist
      | [] => plist
      end
  else plist.

(* the loop of parseFuncParameters *)
Definition pplist_body (is_result : bool) (ts : list tk) (acc : list param) (ei : option nat)
  : xres (option (list param) * bool * list tk) :=
  rbind (pexpr_ fl_typ ts) (fun a =>
  let '(t, r) := a in
  let '(ei', r1) := match r with
                    | KEllipsis :: r' => (match ei with None => Some (length acc) | Some _ => ei end, r')
                    | _ => (ei, r)
                    end in
  rbind (pexpr_ fl_typ r1) (fun b =>
  let '(ide, r2) := b in
  let q : option param :=
    match ide with
    | Some i =>
      match t with
      | Some ty => match ident_name ty with Some a => Some (Some a, Some i) | None => None end
      | None => Some (None, Some i)
      end
    | None => Some (None, t)
    end in
  match q with
  | None => RErr
  | Some (None, None) =>
    match r2 with
    | KRP :: r3 => params_finish is_result acc ei' r3
    | _ => RErr
    end
  | Some q' =>
    match r2 with
    | KComma :: r3 => pplist_ is_result r3 (acc ++ [q']) ei'
    | KRP :: r3 => params_finish is_result (acc ++ [q']) ei' r3
    | _ => RErr
    end
  end)).

End Bodies.

Fixpoint pexpr (n : nat) (fl : pflags) (ts : list tk) {struct n} : RT :=
  match n with
  | O => RFuel
  | S m => poperand m fl false (fl_guard fl) false [] ts
  end
with poperand (n : nat) (fl : pflags) (cancl guard mbsg : bool) (P : list fr) (ts : list tk) {struct n}
  : RT :=
  match n with
  | O => RFuel
  | S m => poperand_body (pexpr m) (poperand m) (ppost m) (pfields m) (pfunc m) fl cancl guard mbsg P ts
  end
with ppost (n : nat) (fl : pflags) (cancl guard mbsg : bool) (P : list fr) (o : option ex) (ts : list tk) {struct n}
  : RT :=
  match n with
  | O => RFuel
  | S m => ppost_body (pexpr m) (poperand m) (ppost m) (pelems m) (pargs m) fl cancl guard mbsg P o ts
  end
with pelems (n : nat) (ts : list tk) {struct n}
  : xres (list (option ex * ex) * list tk) :=
  match n with
  | O => RFuel
  | S m => pelems_body (pexpr m) (pelems m) ts
  end
with pargs (n : nat) (ts : list tk) (acc : list ex) {struct n}
  : xres (list ex * list tk) :=
  match n with
  | O => RFuel
  | S m => pargs_body (pexpr m) (pargs m) ts acc
  end
with pfields (n : nat) (ts : list tk) {struct n}
  : xres (list field * list tk) :=
  match n with
  | O => RFuel
  | S m => pfields_body (pfields m) (pfield m) ts
  end
with pfield (n : nat) (ts : list tk) {struct n}
  : xres (field * list tk) :=
  match n with
  | O => RFuel
  | S m => pfield_body (pexpr m) ts
  end
with pfunc (n : nat) (macro lit : bool) (ts : list tk) {struct n}
  : xres (ex * list tk) :=
  match n with
  | O => RFuel
  | S m => pfunc_body (pparams m) macro lit ts
  end
with pparams (n : nat) (macro is_result : bool) (ts : list tk) {struct n}
  : xres (option (list param) * bool * list tk) :=
  match n with
  | O => RFuel
  | S m => pparams_body (pexpr m) (pplist m) macro is_result ts
  end
with pplist (n : nat) (is_result : bool) (ts : list tk) (acc : list param) (ei : option nat) {struct n}
  : xres (option (list param) * bool * list tk) :=
  match n with
  | O => RFuel
  | S m => pplist_body (pexpr m) (pplist m) is_result ts acc ei
  end.

(* fuel that suffices for a source of that many tokens *)
Definition fuel_of (ts : list tk) : nat := 8 * length ts + 8.

(* parseExpr on the whole source: flags (canBeSwitchGuard, false, false, false) as the statement parser calls it *)
Definition parse_top (guard : bool) (ts : list tk) : RT :=
  pexpr (fuel_of ts) (mkfl guard false false false) ts.

(* parse (lex (String e)): None if String panics *)
Inductive rt :=
| RtPanic            (* String panics *)
| RtLex              (* the lexer reports an error on the printed form *)
| RtUnsup            (* the printed form is outside the model of the lexer *)
| RtRes (r : RT).

(* suffix: the tokens after the expression in the source (a semicolon, the closing braces of a template) *)
Definition roundtrip (guard : bool) (suffix : list tk) (e : ex) : rt :=
  match pp e with
  | None => RtPanic
  | Some ps =>
    match relex ps with
    | LexErr => RtLex
    | LexUnsup => RtUnsup
    | LexOk ts => RtRes (parse_top guard (ts ++ suffix))
    end
  end.

End Model.
