(* Specification side of C26, written without the generated tables and
   without looking at the loops of the code: the documented escaping of a
   value shown in a Markdown paragraph, CommonMark backslash unescaping, the
   space to NBSP normalisation, the inertness predicates, and the spec of the
   indented code block escaping.  Executable; no proofs here. *)
From Verif Require Import Bytes.
Open Scope N_scope.

(* the characters escapers.go lists:  \ ` * _ { } [ ] ( ) # + - = . ! | > ~ < & *)
Definition md_special (c : N) : bool :=
  mem [92; 96; 42; 95; 123; 125; 91; 93; 40; 41; 35; 43; 45; 61; 46; 33; 124; 62; 126; 60; 38] c.

Definition is_blank (c : N) : bool := (c =? 32) || (c =? 9).

Definition nbsp : bytes := [194; 160].   (* U+00A0 in UTF-8 *)

(* A space or tab is replaced by NBSP when it is the first or the last byte of
   the value, when it is followed by a space or tab, or when it is a tab that
   directly follows a newline; otherwise it is kept. *)
Definition blank_becomes_nbsp (prev : option N) (c : N) (rest : bytes) : bool :=
  match prev, rest with
  | Some pv, nx :: _ => is_blank nx || ((c =? 9) && (pv =? 10))
  | _, _ => true
  end.

Definition norm_block (prev : option N) (c : N) (rest : bytes) : bytes :=
  if is_blank c && blank_becomes_nbsp prev c rest then nbsp else [c].

Fixpoint nbsp_norm_from (prev : option N) (s : bytes) : bytes :=
  match s with
  | [] => []
  | c :: r => norm_block prev c r ++ nbsp_norm_from (Some c) r
  end.
Definition nbsp_norm (s : bytes) : bytes := nbsp_norm_from None s.

(* the documented escaping: the normalisation above, and a backslash before every listed character *)
Definition esc_block (prev : option N) (c : N) (rest : bytes) : bytes :=
  if md_special c then [92; c] else norm_block prev c rest.

Fixpoint esc_doc_from (prev : option N) (s : bytes) : bytes :=
  match s with
  | [] => []
  | c :: r => esc_block prev c r ++ esc_doc_from (Some c) r
  end.
Definition esc_doc (s : bytes) : bytes := esc_doc_from None s.

(* CommonMark 2.4: any ASCII punctuation character may be backslash-escaped;
   a backslash before any other character is a literal backslash. *)
Definition ascii_punct (c : N) : bool :=
  ((33 <=? c) && (c <=? 47)) || ((58 <=? c) && (c <=? 64)) || ((91 <=? c) && (c <=? 96)) || ((123 <=? c) && (c <=? 126)).

(* pend = the previous byte was a backslash that is not itself escaped *)
Fixpoint unesc (pend : bool) (s : bytes) : bytes :=
  match s with
  | [] => if pend then [92] else []
  | c :: r =>
    if pend then
      if ascii_punct c then c :: unesc false r
      else 92 :: (if c =? 92 then unesc true r else c :: unesc false r)
    else if c =? 92 then unesc true r else c :: unesc false r
  end.
Definition md_unescape (s : bytes) : bytes := unesc false s.

(* left to right scan as a CommonMark inline parser does it: a backslash that
   is not itself escaped must escape a listed character, and no listed
   character is met unescaped *)
Fixpoint escaped_ok (pend : bool) (s : bytes) : bool :=
  match s with
  | [] => negb pend
  | c :: r =>
    if pend then md_special c && escaped_ok false r
    else if c =? 92 then escaped_ok true r
    else negb (md_special c) && escaped_ok false r
  end.

(* number of backslashes at the head of a list (applied to the reversed prefix: the run right before a position) *)
Fixpoint bs_run (s : bytes) : nat :=
  match s with
  | c :: r => if c =? 92 then S (bs_run r) else O
  | [] => O
  end.

(* indentation columns of a line (CommonMark: a tab advances to the next multiple of 4) *)
Fixpoint indent_cols (col : nat) (l : bytes) : nat :=
  match l with
  | c :: r =>
    if c =? 32 then indent_cols (S col) r
    else if c =? 9 then indent_cols (col + (4 - Nat.modulo col 4)) r
    else col
  | [] => col
  end.

(* pre is empty or ends with a newline: the position after pre is the start of a line *)
Definition line_start (pre : bytes) : Prop := pre = [] \/ exists p, pre = p ++ [10].

(* ---- indented code block ---- *)
Definition cb_indent (spaces : bool) : bytes := if spaces then [32; 32; 32; 32] else [9].

Definition cb_spec (spaces : bool) (s : bytes) : bytes :=
  flat_map (fun c => if c =? 10 then 10 :: cb_indent spaces else [c]) s.

(* what a Markdown parser does with the continuation lines of an indented
   code block: after each newline up to one indent is removed (pending = the
   part of the indent still to be removed on the current line) *)
Fixpoint cb_strip (ind pending : bytes) (s : bytes) : bytes :=
  match s with
  | [] => []
  | c :: r =>
    match pending with
    | x :: p' =>
      if c =? x then cb_strip ind p' r
      else c :: cb_strip ind (if c =? 10 then ind else []) r
    | [] => c :: cb_strip ind (if c =? 10 then ind else []) r
    end
  end.

(* ---- what "inert" means for the escaped value of a paragraph context ---- *)
Definition md_inert (out : bytes) : Prop :=
  (* every listed character other than the backslash is preceded by an odd run of backslashes *)
  (forall pre c post, out = pre ++ c :: post -> md_special c = true -> c <> 92 ->
     Nat.odd (bs_run (rev pre)) = true)
  (* read left to right, every backslash that is not itself escaped escapes a
     listed character (no dangling backslash, none before a newline) *)
  /\ escaped_ok false out = true
  (* no blank (space or tab) at the start or at the end *)
  /\ (forall x post, out = x :: post -> is_blank x = false)
  /\ (forall pre x, out = pre ++ [x] -> is_blank x = false)
  (* no two consecutive blanks: in particular no line ends with two spaces *)
  /\ (forall pre x y post, out = pre ++ x :: y :: post -> is_blank x = true -> is_blank y = false)
  (* no tab directly after a newline *)
  /\ (forall pre post, out <> pre ++ 10 :: 9 :: post)
  (* hence: at the start of every line the indentation is less than 4 columns *)
  /\ (forall pre post, out = pre ++ post -> line_start pre -> (indent_cols 0 post < 4)%nat).
