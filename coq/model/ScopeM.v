(* C19: model of name resolution in the type checker (universe, globals,
   file/package block, local blocks; packages only through the importer
   function) and of the `go` statement gate.  Names, paths and native function
   identities are numbers.  No proofs here. *)
From Coq Require Import List NArith Bool.
Import ListNotations.
Open Scope N_scope.

Definition name := N.
Definition path := N.
Definition nid := N.         (* identity of a native function supplied by the embedder *)

Record package := { p_name : name; p_decls : list (name * nid) }.

(* what an importer answers for a path: native.Importer.Import returns a
   package, (nil, nil) when it does not have the package, or an error *)
Inductive ianswer := APkg (pkg : package) | ANone | AErr.

(* native.CombinedImporter.Import: the members are asked in order and the
   first answer that is not (nil, nil) is returned, be it a package or an error *)
Fixpoint combined (ms : list (path -> ianswer)) (p : path) : ianswer :=
  match ms with
  | [] => ANone
  | m :: r => match m p with ANone => combined r p | a => a end
  end.

(* what the embedder configures *)
Record config := {
  c_importer : path -> ianswer;            (* BuildOptions.Packages: the importer function (a nil importer answers ANone) *)
  c_globals : list (name * nid);           (* BuildOptions.Globals *)
  c_allow_go : bool;                       (* BuildOptions.AllowGoStmt *)
  c_template : bool                        (* BuildTemplate (true) or Build (false) *)
}.

Inductive import_form := IDefault | IName (n : name) | IBlank | IDot.

Inductive ref := RId (x : name) | RSel (p x : name).

Inductive stmt :=
| SCall (r : ref)                 (* r() *)
| SGo (r : ref)                   (* go r() *)
| SDefer (r : ref)                (* defer r() *)
| SBlock (x : name) (body : list stmt).   (* { x := 0; _ = x; body } *)

Record prog := {
  g_imports : list (import_form * path);
  g_funcs : list name;            (* functions declared in the program itself (empty bodies) *)
  g_body : list stmt              (* body of main *)
}.

Inductive binding :=
| BPkg (from : path) (pkg : package)
| BNative (id : nid) (from : option path)   (* from = the dot import that declared it *)
| BScriggo
| BLocal
| BPrint.                         (* the print / println builtins of the universe block *)

Inductive error :=
| ECannotFindPackage (p : path)
| EImporterError (p : path)       (* the importer returned an error for p: the build fails with it *)
| EUndefined
| EGoNotAvailable
| ENotCallable
| EPackageWithoutSelector
| ERedeclared
| EUnusedImport (p : path).

Definition scope := list (name * binding).

Fixpoint lookup (s : scope) (x : name) : option binding :=
  match s with
  | [] => None
  | (k, b) :: r => if N.eqb k x then Some b else lookup r x
  end.

Definition print_name : name := 1.
Definition println_name : name := 2.

Definition universe : scope := [(print_name, BPrint); (println_name, BPrint)].

(* BuildOptions.Globals is used for templates only *)
Definition global_scope (cfg : config) : scope :=
  if c_template cfg then map (fun g => (fst g, BNative (snd g) None)) (c_globals cfg) else [].

(* scopes.Declare: insert if absent *)
Definition declare (s : scope) (x : name) (b : binding) : scope :=
  match lookup s x with Some _ => s | None => s ++ [(x, b)] end.

(* the file/package block after the import declarations; also the paths asked to the importer *)
Fixpoint check_imports (cfg : config) (imps : list (import_form * path)) (file : scope) (asked : list path)
  : (scope * list path) + error :=
  match imps with
  | [] => inl (file, asked)
  | (form, p) :: r =>
    match c_importer cfg p with
    | ANone => inr (ECannotFindPackage p)
    | AErr => inr (EImporterError p)
    | APkg pkg =>
      let asked' := asked ++ [p] in
      match form with
      | IBlank => check_imports cfg r file asked'
      | IDot =>
        check_imports cfg r
          (fold_left (fun s d => declare s (fst d) (BNative (snd d) (Some p))) (p_decls pkg) file) asked'
      | IDefault =>
        match lookup file (p_name pkg) with
        | Some _ => inr ERedeclared
        | None => check_imports cfg r (file ++ [(p_name pkg, BPkg p pkg)]) asked'
        end
      | IName n =>
        match lookup file n with
        | Some _ => inr ERedeclared
        | None => check_imports cfg r (file ++ [(n, BPkg p pkg)]) asked'
        end
      end
    end
  end.

(* resolution through the blocks, innermost first *)
Definition resolve (locals file globals : scope) (x : name) : option binding :=
  match lookup locals x with
  | Some b => Some b
  | None =>
    match lookup file x with
    | Some b => Some b
    | None =>
      match lookup globals x with
      | Some b => Some b
      | None => lookup universe x
      end
    end
  end.

Record acc := {
  a_natives : list nid;        (* native functions the code can call *)
  a_used : list path;          (* imports used *)
  a_prints : N                 (* calls of print / println *)
}.

Definition pkg_decl (pkg : package) (x : name) : option nid :=
  (fix find (l : list (name * nid)) : option nid :=
     match l with
     | [] => None
     | (k, id) :: r => if N.eqb k x then Some id else find r
     end) (p_decls pkg).

(* a call of r: the callee must resolve to a function *)
Definition check_ref (locals file globals : scope) (r : ref) (a : acc) : acc + error :=
  match r with
  | RId x =>
    match resolve locals file globals x with
    | None => inr EUndefined
    | Some (BNative id from) =>
      inl {| a_natives := a_natives a ++ [id];
             a_used := match from with Some p => a_used a ++ [p] | None => a_used a end;
             a_prints := a_prints a |}
    | Some BScriggo => inl a
    | Some BPrint => inl {| a_natives := a_natives a; a_used := a_used a; a_prints := a_prints a + 1 |}
    | Some BLocal => inr ENotCallable
    | Some (BPkg _ _) => inr EPackageWithoutSelector
    end
  | RSel p x =>
    match resolve locals file globals p with
    | None => inr EUndefined
    | Some (BPkg from pkg) =>
      match pkg_decl pkg x with
      | Some id => inl {| a_natives := a_natives a ++ [id]; a_used := a_used a ++ [from]; a_prints := a_prints a |}
      | None => inr EUndefined
      end
    | Some _ => inr EUndefined          (* selector on something that is not a package *)
    end
  end.

Fixpoint check_stmt (cfg : config) (locals file globals : scope) (s : stmt) (a : acc) : acc + error :=
  match s with
  | SCall r | SDefer r => check_ref locals file globals r a
  | SGo r =>
    (* the call is checked first, then the option *)
    match check_ref locals file globals r a with
    | inr e => inr e
    | inl a' => if c_allow_go cfg then inl a' else inr EGoNotAvailable
    end
  | SBlock x b =>
    (fix go (l : list stmt) (a : acc) : acc + error :=
       match l with
       | [] => inl a
       | s' :: r =>
         match check_stmt cfg ((x, BLocal) :: locals) file globals s' a with
         | inr e => inr e
         | inl a' => go r a'
         end
       end) b a
  end.

Fixpoint check_stmts (cfg : config) (locals file globals : scope) (l : list stmt) (a : acc) : acc + error :=
  match l with
  | [] => inl a
  | s :: r =>
    match check_stmt cfg locals file globals s a with
    | inr e => inr e
    | inl a' => check_stmts cfg locals file globals r a'
    end
  end.

Record outcome := { o_natives : list nid; o_asked : list path; o_prints : N }.

(* first unused import (non blank), in source order *)
Fixpoint first_unused (imps : list (import_form * path)) (used : list path) : option path :=
  match imps with
  | [] => None
  | (IBlank, _) :: r => first_unused r used
  | (_, p) :: r => if existsb (N.eqb p) used then first_unused r used else Some p
  end.

Definition check (cfg : config) (g : prog) : outcome + error :=
  match check_imports cfg (g_imports g) [] [] with
  | inr e => inr e
  | inl (file0, asked) =>
    let file := fold_left (fun s f => declare s f BScriggo) (g_funcs g) file0 in
    match check_stmts cfg [] file (global_scope cfg) (g_body g) {| a_natives := []; a_used := []; a_prints := 0 |} with
    | inr e => inr e
    | inl a =>
      (* unused imports are an error in programs only *)
      match (if c_template cfg then None else first_unused (g_imports g) (a_used a)) with
      | Some p => inr (EUnusedImport p)
      | None => inl {| o_natives := a_natives a; o_asked := asked; o_prints := a_prints a |}
      end
    end
  end.

Fixpoint stmt_has_go (s : stmt) : bool :=
  match s with
  | SGo _ => true
  | SBlock _ b => existsb stmt_has_go b
  | _ => false
  end.

Definition has_go (b : list stmt) : bool := existsb stmt_has_go b.
