(* Spec side of C15, defined on the source and on the token stream without the
   parser's bookkeeping: which bytes may be removed (only white space of lines
   without content), the partition of the source by the top level tokens. *)
From Verif Require Import Bytes Utf8 Facts_lexer LexBase LexCodeM LexerM LexTables LexPos CutM.
Open Scope N_scope.

Definition line_of (src : bytes) (off : N) : N := fst (linecol src off).

(* offsets lo, lo+1, ..., lo+n-1 *)
Fixpoint offsets (lo : N) (n : nat) : list N :=
  match n with O => [] | S k => lo :: offsets (lo + 1) k end.

(* the offsets of the source that hold content: non blank bytes of texts, and
   the shows of values ({{ e }} and {% show e %} when e is not a render) *)
Fixpoint content_offsets (fuel : nat) (src : bytes) (toks : list token) : list N :=
  match fuel with
  | O => []
  | S f =>
    match toks with
    | [] => []
    | t :: rest =>
      let ty := t_typ t in
      if ty =? gen_tokenText then
        filter (fun o => match get src o with Some c => negb (is_blank c || (c =? 10)) | None => false end)
               (offsets (t_start t) (N.to_nat (t_len t)))
        ++ content_offsets f src rest
      else if ty =? gen_tokenLeftBraces then
        let '(inner, rest') := split_at gen_tokenRightBraces rest in
        (if cst_of_show inner then [] else offsets (t_start t) 2) ++ content_offsets f src rest'
      else if ty =? gen_tokenStartStatement then
        let '(inner, rest') := split_at gen_tokenEndStatement rest in
        (match inner with
         | u :: v :: _ => if (t_typ u =? gen_tokenShow) && negb (t_typ v =? gen_tokenRender) then offsets (t_start t) 2 else []
         | _ => []
         end) ++ content_offsets f src rest'
      else content_offsets f src rest
    end
  end.

(* the offsets removed by the cuts of a record *)
Definition removed_offsets (r : trec) : list N :=
  offsets (x_start r) (N.to_nat (x_left r)) ++
  offsets (x_start r + x_len r - x_right r) (N.to_nat (x_right r)).

(* cut_only_contentfree: every removed byte is a space, a tab, a carriage
   return or a new line, on a line that holds no content *)
Definition removed_ok (src : bytes) (toks : list token) (recs : list trec) : bool :=
  let content_lines := map (line_of src) (content_offsets (S (length toks)) src toks) in
  forallb (fun r =>
    forallb (fun o =>
      match get src o with
      | Some c => (is_blank c || (c =? 10)) && negb (mem content_lines (line_of src o))
      | None => false
      end) (removed_offsets r)) recs.

Definition cut_contentfree_case (fmt : N) (src : bytes) : option bool :=
  match scan_template go_unicode false fmt src with
  | Done toks None => Some (removed_ok src toks (cut_texts src toks))
  | _ => None
  end.

(* raw_verbatim: the text between {% raw %} and its end is not cut *)
Fixpoint raw_uncut (fuel : nat) (toks : list token) (recs : list trec) : bool :=
  match fuel with
  | O => true
  | S f =>
    match toks with
    | a :: b :: c :: d :: rest =>
      if (t_typ a =? gen_tokenStartStatement) && (t_typ b =? gen_tokenRaw) && (t_typ c =? gen_tokenEndStatement) && (t_typ d =? gen_tokenText) then
        forallb (fun r => negb (x_start r =? t_start d) || ((x_left r =? 0) && (x_right r =? 0))) recs
        && raw_uncut f (d :: rest) recs
      else raw_uncut f (b :: c :: d :: rest) recs
    | _ => true
    end
  end.

(* text_partition: the texts, the comments, the shebang line and the blocks
   from an opening delimiter to its closing delimiter follow each other from
   the first to the last byte of the source.  State: next offset, and whether a
   block is open. *)
Fixpoint tiles (pos : N) (inblock : bool) (toks : list token) : option N :=
  match toks with
  | [] => if inblock then None else Some pos
  | t :: r =>
    if t_len t =? 0 then tiles pos inblock r
    else if inblock then
      if is_close (t_typ t) then tiles (t_end t + 1) false r else tiles pos true r
    else if is_open (t_typ t) then (if t_start t =? pos then tiles pos true r else None)
    else if t_start t =? pos then tiles (t_end t + 1) false r else None
  end.

Definition tiles_case (cfg src : bytes) : option bytes :=
  match cfg with
  | [fmt; ns] =>
    match scan_template go_unicode (negb (ns =? 0)) fmt src with
    | Done toks None =>
      Some [match tiles 0 false toks with Some p => if p =? nlen src then 49 else 48 | None => 48 end]
    | Done toks (Some _) => Some [49]
    | _ => None
    end
  | _ => None
  end.
