(* Specification side of rooted-path resolution (C18): the lexical resolution
   of a referenced path against the directory of the referencing file, written
   on path elements and independent of the model of path.Clean. Executable. *)
From Verif Require Import Bytes PathsM.
Open Scope N_scope.

(* Walk the elements es of a relative path starting in the directory dir
   (its elements, innermost first): ".." moves to the parent directory and
   fails (None) at the root, any other element descends. *)
Fixpoint walk (dir : list bytes) (es : list bytes) : option (list bytes) :=
  match es with
  | [] => Some (rev dir)
  | e :: r =>
    if is_dotdot e then
      match dir with
      | [] => None
      | _ :: up => walk up r
      end
    else walk (e :: dir) r
  end.

(* the elements of the directory of a file path *)
Definition dir_elems (parent : bytes) : list bytes := removelast (split_slash parent).

(* Lexical resolution of name against the directory of parent, or against the
   root for an absolute name. None: the resolution climbs above the root. *)
Definition resolve (parent name : bytes) : option bytes :=
  if is_abs name then Some (tl name)
  else
    match walk (rev (dir_elems parent)) (split_slash name) with
    | Some es => Some (join_slash es)
    | None => None
    end.
