(* The parser's bookkeeping that trims the lines holding only a statement or
   a comment (ParseTemplateSource main loop: line, firstText, numTokenInLine,
   cutSpacesToken; cutSpaces), over the token stream of the lexer model, and
   the text a template emits (Text[Cut.Left : len-Cut.Right]).  No proofs here.

   Which statements set cutSpacesToken is decided by the parser while it parses
   them; here it is a table on the first token of the statement (cst_of_first),
   valid for the statement vocabulary of the harness. *)
From Verif Require Import Bytes Utf8 Facts_lexer LexBase LexCodeM LexerM LexTables.
Open Scope N_scope.

Record trec := mkT { x_start : N; x_len : N; x_left : N; x_right : N }.

Definition text_of (src : bytes) (r : trec) : bytes := take (x_len r) (drop (x_start r) src).
Definition is_blank (c : N) : bool := (c =? 32) || (c =? 9) || (c =? 13).

(* first loop of cutSpaces, from the end of the text: Some firstCut, or None (return) *)
Fixpoint first_cut (rev_txt : bytes) (n : N) : option N :=
  match rev_txt with
  | [] => Some 0
  | c :: r => if c =? 10 then Some n else if is_blank c then first_cut r (n - 1) else None
  end.
(* second loop: Some lastCut, or None *)
Fixpoint last_cut (txt : bytes) (i : N) (n : N) : option N :=
  match txt with
  | [] => Some n
  | c :: r => if c =? 10 then Some (i + 1) else if is_blank c then last_cut r (i + 1) n else None
  end.

Fixpoint upd {A} (l : list A) (i : nat) (f : A -> A) : list A :=
  match l, i with
  | [], _ => []
  | x :: r, O => f x :: r
  | x :: r, S j => x :: upd r j f
  end.

(* cutSpaces(first, last) on the texts identified by their index *)
Definition cut_spaces (src : bytes) (texts : list trec) (first last : option nat) : list trec :=
  let fc :=
    match first with
    | Some i => match nth_error texts i with
                | Some r => match first_cut (rev (text_of src r)) (x_len r) with Some k => Some (Some k) | None => None end
                | None => Some None
                end
    | None => Some None
    end in
  match fc with
  | None => texts
  | Some fk =>
    let lc :=
      match last with
      | Some j => match nth_error texts j with
                  | Some r => match last_cut (text_of src r) 0 (x_len r) with Some k => Some (Some k) | None => None end
                  | None => Some None
                  end
      | None => Some None
      end in
    match lc with
    | None => texts
    | Some lk =>
      let t1 := match last, lk with
                | Some j, Some k => upd texts j (fun r => mkT (x_start r) (x_len r) k (x_right r))
                | _, _ => texts
                end in
      match first, fk with
      | Some i, Some k => upd t1 i (fun r => mkT (x_start r) (x_len r) (x_left r) (N.min (x_len r - k) (x_len r - x_left r)))
      | _, _ => t1
      end
    end
  end.

(* tokens up to and including the first one of type endt; the rest *)
Fixpoint split_at (endt : N) (toks : list token) : list token * list token :=
  match toks with
  | [] => ([], [])
  | t :: r => if t_typ t =? endt then ([], r) else let '(a, b) := split_at endt r in (t :: a, b)
  end.

(* does {% first ... %} set cutSpacesToken *)
Definition cst_of_first (inner : list token) : bool :=
  match inner with
  | [] => false
  | t :: r =>
    let ty := t_typ t in
    if ty =? gen_tokenShow then
      match r with u :: _ => (t_typ u =? gen_tokenRender) | [] => false end
    else if (ty =? gen_tokenCase) || (ty =? gen_tokenReturn) || (ty =? gen_tokenVar) || (ty =? gen_tokenConst) || (ty =? gen_tokenExtends) || (ty =? gen_tokenType) then false
    else true
  end.
Definition cst_of_show (inner : list token) : bool :=
  match inner with
  | t :: _ => t_typ t =? gen_tokenRender
  | [] => false
  end.
(* {%% ... %%}: some statement inside sets it; statements start at the first
   token, after a semicolon and after a left brace *)
Fixpoint cst_of_block_from (atstart : bool) (inner : list token) : bool :=
  match inner with
  | [] => false
  | t :: r =>
    let ty := t_typ t in
    if (ty =? gen_tokenSemicolon) || (ty =? gen_tokenLeftBrace) then cst_of_block_from true r
    else if ty =? gen_tokenRightBrace then cst_of_block_from false r
    else (atstart && cst_of_first inner) || cst_of_block_from false r
  end.
Definition cst_of_block (inner : list token) : bool := cst_of_block_from true inner.

Record cstate := mkCS { k_line : N; k_first : option nat; k_ntl : N; k_cst : bool; k_texts : list trec }.

Fixpoint cut_walk (fuel : nat) (src : bytes) (toks : list token) (s : cstate) : list trec :=
  match fuel with
  | O => k_texts s
  | S f =>
    match toks with
    | [] => k_texts s
    | t :: rest =>
      if t_typ t =? gen_tokenEOF then k_texts s else
      let istext := t_typ t =? gen_tokenText in
      let texts0 := if istext then k_texts s ++ [mkT (t_start t) (t_len t) 0 0] else k_texts s in
      let tidx := if istext then Some (length (k_texts s)) else None in
      let s1 :=
        if (k_line s <? t_lin t) || (t_end t + 1 =? nlen src) then
          let texts1 := if k_cst s && (k_ntl s =? 1) then cut_spaces src texts0 (k_first s) tidx else texts0 in
          mkCS (t_lin t) tidx 0 false texts1
        else mkCS (k_line s) (k_first s) (k_ntl s) (k_cst s) texts0 in
      let ty := t_typ t in
      if istext then cut_walk f src rest s1
      else if ty =? gen_tokenStartStatement then
        let '(inner, rest') := split_at gen_tokenEndStatement rest in
        cut_walk f src rest' (mkCS (k_line s1) (k_first s1) (k_ntl s1 + 1) (k_cst s1 || cst_of_first inner) (k_texts s1))
      else if ty =? gen_tokenStartStatements then
        let '(inner, rest') := split_at gen_tokenEndStatements rest in
        cut_walk f src rest' (mkCS (k_line s1) (k_first s1) (k_ntl s1 + 1) (k_cst s1 || cst_of_block inner) (k_texts s1))
      else if ty =? gen_tokenLeftBraces then
        let '(inner, rest') := split_at gen_tokenRightBraces rest in
        cut_walk f src rest' (mkCS (k_line s1) (k_first s1) (k_ntl s1 + 1) (k_cst s1 || cst_of_show inner) (k_texts s1))
      else if ty =? gen_tokenComment then
        cut_walk f src rest (mkCS (k_line s1) (k_first s1) (k_ntl s1 + 1) true (k_texts s1))
      else cut_walk f src rest s1
    end
  end.

Definition cut_texts (src : bytes) (toks : list token) : list trec :=
  let toks1 := match toks with t :: r => if t_typ t =? gen_tokenShebangLine then r else toks | [] => [] end in
  cut_walk (S (length toks1)) src toks1 (mkCS 0 None 0 false []).

(* the text a Text node emits *)
Definition emitted (src : bytes) (r : trec) : bytes :=
  take (x_len r - x_left r - x_right r) (drop (x_start r + x_left r) src).

(* canonical text: start,len,left,right; ... *)
Definition print_trec (r : trec) : bytes :=
  dec (x_start r) ++ 44 :: dec (x_len r) ++ 44 :: dec (x_left r) ++ 44 :: dec (x_right r) ++ [59].

Definition cut_case (cfg src : bytes) : option bytes :=
  match cfg with
  | [fmt; ns] =>
    match scan_template go_unicode (negb (ns =? 0)) fmt src with
    | Done toks None => Some (flat_map print_trec (cut_texts src toks))
    | Done toks (Some _) => Some [88]
    | _ => None
    end
  | _ => None
  end.
