(* Wire functions of the linkscan engine: the whole pipeline of
   linkdestination.go on a document, with the decision of appendReplacement
   given as a finite table (raw destination -> no replacement / text), as
   bytes in and bytes out, so that the same function is run extracted (the
   correspondence) and inside Coq (the cross-check).  No proofs here.

   table  = entry*,  entry = len2 raw flag len2 text   (flag 0: no replacement; len2 = two bytes, big endian)
   result = count2 item* output,  item = start4 stop4 len2 text   (the collected list, then the rewritten document) *)
From Verif Require Import Bytes IndexM LinkDestM LinkScanM.
Local Open Scope Z_scope.

Definition enc2 (z : Z) : bytes :=
  let n := Z.to_N z in [((n / 256) mod 256)%N; (n mod 256)%N].
Definition enc4 (z : Z) : bytes :=
  let n := Z.to_N z in [((n / 16777216) mod 256)%N; ((n / 65536) mod 256)%N; ((n / 256) mod 256)%N; (n mod 256)%N].

Definition split_at (n : nat) (s : bytes) : option (bytes * bytes) :=
  if (n <=? length s)%nat then Some (firstn n s, skipn n s) else None.

Definition dec2 (s : bytes) : option (nat * bytes) :=
  match s with
  | h :: l :: r => Some (N.to_nat (h * 256 + l), r)
  | _ => None
  end.

Fixpoint decode_table (fuel : nat) (s : bytes) : option (list (bytes * option bytes)) :=
  match s with
  | [] => Some []
  | _ =>
    match fuel with
    | O => None
    | S fuel =>
      match dec2 s with
      | None => None
      | Some (n, r) =>
        match split_at n r with
        | None => None
        | Some (raw, r1) =>
          match r1 with
          | [] => None
          | flag :: r2 =>
            match dec2 r2 with
            | None => None
            | Some (m, r3) =>
              match split_at m r3 with
              | None => None
              | Some (text, r4) =>
                match decode_table fuel r4 with
                | None => None
                | Some t => Some ((raw, if N.eqb flag 0 then None else Some text) :: t)
                end
              end
            end
          end
        end
      end
    end
  end.

(* a destination the table does not list gives a visible marker *)
Definition missing_marker : bytes := [33; 77; 73; 83; 83; 33]%N.

Definition table_decide (t : list (bytes * option bytes)) (raw : bytes) : option bytes :=
  match find (fun e => bytes_eqb (fst e) raw) t with
  | Some e => snd e
  | None => Some missing_marker
  end.

Definition enc_list (rs : list repl) : bytes :=
  enc2 (Z.of_nat (length rs))
  ++ flat_map (fun r => enc4 (r_start r) ++ enc4 (r_stop r) ++ enc2 (zlen (r_text r)) ++ r_text r) rs.

Definition fuel_marker : bytes := [33; 70; 85; 69; 76; 33]%N.

(* collectReplacements and replace on src; None = the model faults (Go panics) *)
Definition linkscan_wire (src table : bytes) : option bytes :=
  match decode_table (S (length table)) table with
  | None => Some missing_marker
  | Some t =>
    match collectReplacements (table_decide t) src, replace (table_decide t) src with
    | LOk rs, LOk out => Some (enc_list rs ++ out)
    | LFuel, _ | _, LFuel => Some fuel_marker
    | _, _ => None
    end
  end.

(* the ranges on which appendReplacement passes its guard (every destination rewritten to the empty text) *)
Definition linkcands_wire (src : bytes) : option bytes :=
  match collectReplacements (fun _ => Some []) src with
  | LOk rs => Some (enc_list rs)
  | LFuel => Some fuel_marker
  | LFault => None
  end.
